(* WireSpec.v -- SPECIFICATION side: the RFC 7252 section 3 wire image of an abstract
   message, and a reference decoder with a three-valued verdict.  Written from the RFC;
   nothing here refers to the crate's code. *)
From CoapV Require Import Base.

(* abstract message: version, type (2 bits), token, code byte, id, options as an
   ascending (non-strict) list of (number, value), payload *)
Record amsg := mkAmsg {
  a_ver : N; a_type : N; a_token : bytes; a_code : N; a_mid : N;
  a_opts : list (N * bytes); a_payload : bytes
}.

(* RFC 7252 3.1: a 4-bit field and its 0/1/2 extension bytes *)
Definition ext_field (x : N) : N * bytes :=
  if x <=? 12 then (x, [])
  else if x <? 269 then (13, [x - 13])
  else (14, [(x - 269) / 256; (x - 269) mod 256]).

Definition wire_opt (prev : N) (nv : N * bytes) : bytes :=
  let '(n, v) := nv in
  let '(dn, dx) := ext_field (n - prev) in
  let '(ln, lx) := ext_field (len v) in
  (dn * 16 + ln) :: dx ++ lx ++ v.

Fixpoint wire_opts (prev : N) (l : list (N * bytes)) : bytes :=
  match l with
  | [] => []
  | (n, v) :: r => wire_opt prev (n, v) ++ wire_opts n r
  end.

(* the largest value the 16-bit extended form can carry *)
Definition MAX_EXT : N := 65804.

Fixpoint ascending (prev : N) (l : list (N * bytes)) : Prop :=
  match l with
  | [] => True
  | (n, v) :: r => prev <= n /\ n < 65536 /\ len v <= MAX_EXT /\ bytes_wf v /\ ascending n r
  end.

Definition amsg_wf (m : amsg) : Prop :=
  a_ver m < 4 /\ a_type m < 4 /\ len (a_token m) <= 8 /\ bytes_wf (a_token m) /\
  a_code m < 256 /\ a_mid m < 65536 /\ ascending 0 (a_opts m) /\ bytes_wf (a_payload m).

Definition wire_header (m : amsg) : bytes :=
  [a_ver m * 64 + a_type m * 16 + len (a_token m); a_code m; a_mid m / 256; a_mid m mod 256].

Definition wire_payload (pl : bytes) : bytes :=
  match pl with [] => [] | _ => 255 :: pl end.

Definition wire_image (m : amsg) : bytes :=
  wire_header m ++ a_token m ++ wire_opts 0 (a_opts m) ++ wire_payload (a_payload m).

(* 4 + token + encoded options + (marker + payload when a payload is sent) *)
Definition ext_len (x : N) : N := if x <=? 12 then 0 else if x <? 269 then 1 else 2.
Fixpoint opts_len (prev : N) (l : list (N * bytes)) : N :=
  match l with
  | [] => 0
  | (n, v) :: r => 1 + ext_len (n - prev) + ext_len (len v) + len v + opts_len n r
  end.
Definition wire_len (m : amsg) : N :=
  4 + len (a_token m) + opts_len 0 (a_opts m)
  + match a_payload m with [] => 0 | pl => 1 + len pl end.

(* ---------------- reference decoder (suffix based) ---------------- *)

Definition ref_ext (nib : N) (bs : bytes) : option (N * bytes) :=
  if nib <? 13 then Some (nib, bs)
  else if nib =? 13 then match bs with b :: r => Some (b + 13, r) | _ => None end
  else if nib =? 14 then match bs with b1 :: b2 :: r => Some (b1 * 256 + b2 + 269, r) | _ => None end
  else None.

Definition split_at (n : N) (bs : bytes) : option (bytes * bytes) :=
  if n <=? len bs then Some (take n bs, drop n bs) else None.

(* one option whose first byte b is not the payload marker *)
Definition ref_one (num : N) (b : N) (rest : bytes) : option (N * bytes * bytes) :=
  match ref_ext (b / 16) rest with
  | None => None
  | Some (delta, r1) =>
    match ref_ext (b mod 16) r1 with
    | None => None
    | Some (length, r2) =>
      if 65535 <? num + delta then None else
      match split_at length r2 with
      | None => None
      | Some (v, r3) => Some (num + delta, v, r3)
      end
    end
  end.

(* options then payload: Some (options, payload-part) where payload-part is [] or 255 :: payload *)
Fixpoint ref_opts (fuel : nat) (bs : bytes) (num : N) (acc : list (N * bytes))
  : option (list (N * bytes) * bytes) :=
  match fuel with
  | O => None
  | S f =>
    match bs with
    | [] => Some (rev acc, [])
    | b :: rest =>
      if b =? 255 then Some (rev acc, bs)
      else match ref_one num b rest with
           | None => None
           | Some (n, v, r) => ref_opts f r n ((n, v) :: acc)
           end
    end
  end.

(* Three-valued verdict of RFC 7252 section 3 framing:
   MustAccept m : well formed, version 1, not one of the tolerated oddities;
   Either m     : decodable, but a conformant parser may also reject it (version <> 1,
                  marker followed by no payload, a 0.00 message with any content);
   MustReject   : not decodable under the framing. *)
Inductive verdict3 := MustAccept (m : amsg) | Either (m : amsg) | MustReject.

Definition ref_parse (bs : bytes) : verdict3 :=
  match bs with
  | b0 :: c :: m1 :: m2 :: r =>
    let tkl := b0 mod 16 in
    if 8 <? tkl then MustReject
    else match split_at tkl r with
         | None => MustReject
         | Some (tok, r1) =>
           match ref_opts (S (length r1)) r1 0 [] with
           | None => MustReject
           | Some (os, tail) =>
             let pl := match tail with [] => [] | _ :: p => p end in
             let m := mkAmsg (b0 / 64) ((b0 / 16) mod 4) tok c (m1 * 256 + m2) os pl in
             let odd := negb (b0 / 64 =? 1)
                        || (match tail with [_] => true | _ => false end)
                        || ((c =? 0) && negb (len bs =? 4)) in
             if odd then Either m else MustAccept m
           end
         end
  | _ => MustReject
  end.

(* C02's permitted differences between an accepted datagram bs and its re-encoding bs' *)
Definition canonb (bs bs' : bytes) : bool :=
  bytes_eqb bs bs'
  || bytes_eqb bs (bs' ++ [255])
  || (match bs with
      | _ :: c :: _ => (c =? 0) && (len bs' <=? len bs) && bytes_eqb (take (len bs') bs) bs'
                       && (match drop (len bs') bs with [] => true | m :: _ => m =? 255 end)
      | _ => false
      end).

(* UnsafeModel.v -- the buffer semantics against which the unsafe copy sites of
   Packet::to_bytes_internal are checked (the sites themselves are GENERATED from the source into
   gen/UnsafeSites.v by tools/unsafe_sites.py).
   A site: destination vector (symbol of its current length), the amount passed to the preceding
   Vec::reserve, the ptr::copy calls (source vector, destination offset, length) and the final set_len;
   offsets and lengths are sums of length symbols. *)
From CoapV Require Import Base.

Record site := mkSite { s_dst : N; s_reserve : list N; s_copies : list (N * list N * list N); s_setlen : list N }.

Definition eval (env : N -> N) (l : list N) : N := fold_right (fun x acc => env x + acc) 0 l.

(* Vec::reserve(additional) guarantees capacity >= len + additional; ptr::copy(src, dst.add(off), n) must stay
   inside the source's length and the destination's capacity; set_len(n) needs n <= capacity and every byte
   below n initialised: the copies must tile [len, n) from the old length upwards *)
Fixpoint tiles (env : N -> N) (cur : N) (cs : list (N * list N * list N)) : option N :=
  match cs with
  | [] => Some cur
  | (_, off, n) :: r => if eval env off =? cur then tiles env (cur + eval env n) r else None
  end.

Definition site_safe (env : N -> N) (s : site) : Prop :=
  let len0 := env (s_dst s) in
  let cap := len0 + eval env (s_reserve s) in
  Forall (fun c => let '(src, off, n) := c in eval env off + eval env n <= cap /\ eval env n <= env src) (s_copies s)
  /\ tiles env len0 (s_copies s) = Some (eval env (s_setlen s))
  /\ eval env (s_setlen s) <= cap.

Definition sites_safe (env : N -> N) (l : list site) : Prop := Forall (site_safe env) l.

(* ---- symbolic checker: sums as multisets of symbols ---- *)
Fixpoint remove1 (x : N) (l : list N) : option (list N) :=
  match l with
  | [] => None
  | y :: r => if x =? y then Some r else match remove1 x r with Some r' => Some (y :: r') | None => None end
  end.
Fixpoint sub (a b : list N) : bool :=
  match a with
  | [] => true
  | x :: a' => match remove1 x b with Some b' => sub a' b' | None => false end
  end.
Definition mseq (a b : list N) : bool := sub a b && sub b a.

Fixpoint tiles_ok (cur : list N) (cs : list (N * list N * list N)) (fin : list N) : bool :=
  match cs with
  | [] => mseq fin cur
  | (_, off, n) :: r => mseq off cur && tiles_ok (off ++ n) r fin
  end.

Definition site_ok (s : site) : bool :=
  forallb (fun c => let '(src, off, n) := c in sub (off ++ n) (s_dst s :: s_reserve s) && sub n [src]) (s_copies s)
  && tiles_ok [s_dst s] (s_copies s) (s_setlen s)
  && sub (s_setlen s) (s_dst s :: s_reserve s).
Definition sites_ok (l : list site) : bool := forallb site_ok l.

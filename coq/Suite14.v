(* Suite14.v -- correspondence suites 140 (C14/C15: histories, full state after every
   operation) and 150 (C15: create_notification). *)
From CoapV Require Import Base Header Packet UintOpt Numbers TypedOpt Observe.

Definition rd_obs_op : rd obs_op := fun s =>
  match s with
  | 0 :: e :: r => match rd_bytes r with
                   | Some (p, r1) => match rd_bytes r1 with Some (t, r2) => Some (Register e p t, r2) | None => None end
                   | None => None end
  | 1 :: e :: r => match rd_bytes r with
                   | Some (p, r1) => match rd_bytes r1 with Some (t, r2) => Some (Deregister e p t, r2) | None => None end
                   | None => None end
  | 2 :: r => match rd_bytes r with
              | Some (p, mid :: c :: r1) => Some (Changed p mid (negb (c =? 0)), r1)
              | _ => None end
  | 3 :: e :: mid :: r => Some (Ack e mid, r)
  | 4 :: l :: r => Some (SetLimit l, r)
  | 5 :: r => match rd_bytes r with Some (p, q :: r1) => Some (SetSeq p q, r1) | _ => None end
  | _ => None
  end.

Definition wr_observer (x : observer) : list N :=
  oe x :: wr_bytes (otok x) ++ [unack x; match pend x with Some m => m + 1 | None => 0 end].
Definition wr_resource (pr : bytes * resource) : list N :=
  wr_bytes (fst pr) ++ rseq (snd pr) :: wr_list wr_observer (robs (snd pr)).
Definition dump (s : subject) : list N := 7 :: wr_list wr_resource (res s).

Fixpoint run_hist (s : subject) (ops : list obs_op) : list N :=
  match ops with
  | [] => []
  | o :: r => match step s o with
              | Ok s' => dump s' ++ run_hist s' r
              | _ => [2]
              end
  end.

Definition run140 (s : list N) : list N :=
  match rd_list rd_obs_op s with
  | Some (ops, []) => run_hist subject_default ops
  | _ => [999]
  end.

(* ---------------- reference: a relational registry ---------------- *)
Record entry := mkEntry { en_path : bytes; en_e : N; en_tok : bytes; en_count : N; en_pend : option N; en_stamp : N }.
Record rstate := mkR { ents : list entry; seqs : list (bytes * N); rlimit : N; rnext : N }.
Definition rinit : rstate := mkR [] [] 10 0.

Definition same (p : bytes) (e : N) (x : entry) : bool := bytes_eqb (en_path x) p && (en_e x =? e).
Definition has_path (p : bytes) (l : list (bytes * N)) : bool := existsb (fun q => bytes_eqb (fst q) p) l.

(* None: the history left the property's domain (sequence counter exhausted) *)
Definition rstep (s : rstate) (o : obs_op) : option rstate :=
  match o with
  | Register e p tok =>
    let sq := if has_path p (seqs s) then seqs s else seqs s ++ [(p, 0)] in
    if existsb (same p e) (ents s)
    then Some (mkR (map (fun x => if same p e x then mkEntry p e tok 0 None (en_stamp x) else x) (ents s)) sq (rlimit s) (rnext s))
    else Some (mkR (ents s ++ [mkEntry p e tok 0 None (rnext s)]) sq (rlimit s) (rnext s + 1))
  | Deregister e p tok =>
    Some (mkR (filter (fun x => negb (same p e x && bytes_eqb (en_tok x) tok)) (ents s)) (seqs s) (rlimit s) (rnext s))
  | Changed p mid conf =>
    if has_path p (seqs s) then
      if existsb (fun q => bytes_eqb (fst q) p && (4294967295 <=? snd q)) (seqs s) then None else
      let bumped := map (fun x => if bytes_eqb (en_path x) p
                                  then mkEntry (en_path x) (en_e x) (en_tok x) (en_count x + b2n conf) (Some mid) (en_stamp x)
                                  else x) (ents s) in
      Some (mkR (filter (fun x => negb (bytes_eqb (en_path x) p) || (en_count x <=? rlimit s)) bumped)
                (map (fun q => if bytes_eqb (fst q) p then (fst q, snd q + 1) else q) (seqs s)) (rlimit s) (rnext s))
    else Some s
  | Ack e mid =>
    Some (mkR (map (fun x => if (en_e x =? e) && (match en_pend x with Some m => m =? mid | None => false end)
                             then mkEntry (en_path x) (en_e x) (en_tok x) 0 None (en_stamp x) else x) (ents s))
              (seqs s) (rlimit s) (rnext s))
  | SetLimit l => Some (mkR (ents s) (seqs s) l (rnext s))
  | SetSeq p q => Some (mkR (ents s) (map (fun x => if bytes_eqb (fst x) p then (fst x, q) else x) (seqs s)) (rlimit s) (rnext s))
  end.

Fixpoint ins_stamp (x : entry) (l : list entry) : list entry :=
  match l with
  | [] => [x]
  | y :: r => if en_stamp y <=? en_stamp x then y :: ins_stamp x r else x :: l
  end.
Definition by_stamp (l : list entry) : list entry := fold_left (fun acc x => ins_stamp x acc) l [].

Definition rdump (s : rstate) : list N :=
  7 :: wr_list (fun q =>
         wr_bytes (fst q) ++ snd q ::
         wr_list (fun x => en_e x :: wr_bytes (en_tok x) ++ [en_count x; match en_pend x with Some m => m + 1 | None => 0 end])
                 (by_stamp (filter (fun x => bytes_eqb (en_path x) (fst q)) (ents s)))) (seqs s).

(* expected output; the flag tells whether the domain was left (known-finding class 1) *)
Fixpoint rrun (s : rstate) (ops : list obs_op) : list N * bool :=
  match ops with
  | [] => ([], false)
  | o :: r => match rstep s o with
              | Some s' => let '(d, k) := rrun s' r in (rdump s' ++ d, k)
              | None => ([], true)
              end
  end.

Definition op_ok (o : obs_op) : bool :=
  match o with
  | Register e p t | Deregister e p t => (e <? U64) && (len t <=? 8)
  | Changed p mid _ => mid <? 65536
  | Ack e mid => (e <? U64) && (mid <? 65536)
  | SetLimit l => l <? 256
  | SetSeq p q => q <? U32
  end.

Definition in_domain140 (s : list N) : bool :=
  match rd_list rd_obs_op s with Some (ops, []) => forallb op_ok ops | _ => false end.

Fixpoint starts_with (pre l : list N) : bool :=
  match pre, l with
  | [], _ => true
  | x :: p, y :: r => (x =? y) && starts_with p r
  | _, [] => false
  end.

Definition verdict140 (s out : list N) : bool :=
  if in_domain140 s then
    match rd_list rd_obs_op s with
    | Some (ops, []) =>
      let '(e, k) := rrun rinit ops in
      if k then false (* sequence exhausted: whatever the implementation does is outside the property *)
      else list_eqb N.eqb out e
    | _ => false end
  else true.

Definition known140 (s : list N) : N :=
  match rd_list rd_obs_op s with
  | Some (ops, []) => if snd (rrun rinit ops) then 1 else 0
  | _ => 0 end.

(* classes: 1 = no eviction / no ack effect seen; 2 = some observer evicted; 3 = history with re-registration;
   coarse: by what the reference run does *)
Definition classify140 (s : list N) : N :=
  if in_domain140 s then
    match rd_list rd_obs_op s with
    | Some (ops, []) =>
      if existsb (fun o => match o with Changed _ _ _ => true | _ => false end) ops
      then (if existsb (fun o => match o with Ack _ _ => true | _ => false end) ops then 3 else 2) else 1
    | _ => 0 end
  else 0.

(* ---------------- suite 150: create_notification ---------------- *)
Definition run150 (s : list N) : list N :=
  match s with
  | mid :: c :: seq :: r =>
    match rd_bytes r with
    | Some (tok, r1) => match rd_bytes r1 with
                        | Some (pl, []) => match create_notification mid tok seq pl (negb (c =? 0)) with
                                           | Ok p => 0 :: wr_packet p | Err _ => [1] | Panic _ => [2] end
                        | _ => [999] end
    | None => [999] end
  | _ => [999]
  end.

Definition in_domain150 (s : list N) : bool :=
  match s with
  | mid :: c :: seq :: r =>
    match rd_bytes r with
    | Some (tok, r1) => match rd_bytes r1 with
                        | Some (pl, []) => (mid <? 65536) && (seq <? U32) && (len tok <=? 8) && (c <? 2)
                        | _ => false end
    | None => false end
  | _ => false
  end.

(* version 1, type CON/NON, 2.05, the given id, token, payload, Observe = minimal uint of the sequence *)
Definition verdict150 (s out : list N) : bool :=
  if in_domain150 s then
    match s with
    | mid :: c :: seq :: r =>
      match rd_bytes r with
      | Some (tok, r1) => match rd_bytes r1 with
                          | Some (pl, []) =>
                            list_eqb N.eqb out
                              (0 :: wr_packet (mkPacket (mkHeader (64 + (if c =? 0 then 16 else 0) + len tok) (Response Content) mid)
                                                        tok [(6, [be_min seq])] pl))
                          | _ => false end
      | None => false end
    | _ => false end
  else true.
Definition classify150 (s : list N) : N := if in_domain150 s then 1 else 0.

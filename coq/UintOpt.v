(* UintOpt.v -- model of src/option_value.rs (uint and string option values). *)
From CoapV Require Import Base.

(* while draining_value > 0 { assert!(output.len() < value_size); push(v & 0xff); v >>= 8 } *)
Fixpoint drain (fuel : nat) (v size : N) (out : bytes) : outcome bytes :=
  match fuel with
  | O => Panic 99
  | S f =>
    if v =? 0 then Ok out
    else if len out <? size then drain f (v / 256) size (out ++ [v mod 256])
    else Panic 2
  end.

Definition option_from_uint (v size : N) : outcome bytes :=
  if v =? 0 then Ok []
  else if v <? 256 then Ok [v]
  else do out <- drain (S (N.size_nat v)) v size []; Ok (rev out).

(* encoded.iter().fold(0, |acc, &b| (acc << 8) + b as u64) : the shift drops high bits *)
Definition be_fold (bs : bytes) : N :=
  fold_left (fun acc b => (acc * 256) mod U64 + b) bs 0.

Definition ERR_INCOMPATIBLE : N := 10.

Definition option_to_uint (bs : bytes) (size : N) : outcome N :=
  if size <? len bs then Err ERR_INCOMPATIBLE else Ok (be_fold bs).

(* TryFrom<Vec<u8>> for OptionValueU{8,16,32,64}: ... as $type *)
Definition uint_try_from (bs : bytes) (size : N) : outcome N :=
  do v <- option_to_uint bs size; Ok (v mod 256 ^ size).

(* ---- specification side ---- *)
(* big-endian value of a byte string *)
Definition be_value (bs : bytes) : N := fold_left (fun acc b => acc * 256 + b) bs 0.

(* minimal big-endian representation: be_min 0 = [] *)
Fixpoint be_min_fuel (fuel : nat) (v : N) : bytes :=
  match fuel with
  | O => []
  | S f => if v =? 0 then [] else be_min_fuel f (v / 256) ++ [v mod 256]
  end.
Definition be_min (v : N) : bytes := be_min_fuel (S (N.size_nat v)) v.

(* ---- text option values (OptionValueString) ---- *)
From CoapV Require Import Utf8.
Definition string_try_from (bs : bytes) : outcome bytes :=
  if utf8_valid bs then Ok bs else Err ERR_INCOMPATIBLE.

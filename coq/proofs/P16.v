(* P16.v -- C16: parsing what the writer wrote gives back the same links, keys and values. *)
From CoapV Require Import proofs.Tac LinkFormat proofs.P17 proofs.P18.

(* ---------- the written text ---------- *)
Definition esc (v : str) : str :=
  flat_map (fun c => if (c =? QUOTE) || (c =? BSL) then [BSL; c] else [c]) v.
Definition vtext (v : aval_w) : str :=
  match v with AQuoted v => QUOTE :: esc v ++ [QUOTE] | APlain v => v | AInt d => d end.
Definition atext (a : attr_w) : str := fst a ++ EQS :: vtext (snd a).
(* attributes as the attribute parser sees them: joined by ';' *)
Fixpoint attrs_text (l : list attr_w) : str :=
  match l with [] => [] | [a] => atext a | a :: r => atext a ++ SEMI :: attrs_text r end.
(* attributes as written: each preceded by ';' *)
Definition attrs_written (l : list attr_w) : str := flat_map (fun a => SEMI :: atext a) l.
Definition link_body (l : link_w) : str := LT :: fst l ++ GT :: attrs_written (snd l).
Fixpoint doc_text (first nl : bool) (d : list link_w) : str :=
  match d with
  | [] => []
  | l :: r => (if first then [] else if nl then [COMMA; 10; 13] else [COMMA]) ++ link_body l ++ doc_text false nl r
  end.

Lemma concat_esc_chunks v : concat (esc_chunks v) = esc v.
Proof.
  induction v as [|c v IH]; [reflexivity|]. cbn [esc_chunks esc flat_map]. fold (esc_chunks v). fold (esc v).
  rewrite concat_app, IH. destruct ((c =? QUOTE) || (c =? BSL)); reflexivity.
Qed.

Lemma concat_attr_chunks a : concat (attr_chunks a) = SEMI :: atext a.
Proof.
  destruct a as [k v]. unfold attr_chunks, atext. cbn [fst snd]. rewrite concat_app. cbn [concat app].
  f_equal. rewrite <- app_assoc. cbn [app]. f_equal. f_equal. destruct v as [v|v|d]; cbn [vtext].
  - cbn [concat app]. rewrite concat_app, concat_esc_chunks. cbn [concat app]. rewrite ?app_nil_r. reflexivity.
  - cbn. apply app_nil_r.
  - cbn. apply app_nil_r.
Qed.

Lemma concat_flat_attr l : concat (flat_map attr_chunks l) = attrs_written l.
Proof.
  induction l as [|a l IH]; [reflexivity|]. cbn [flat_map attrs_written]. rewrite concat_app, concat_attr_chunks.
  fold (attrs_written l). rewrite IH. reflexivity.
Qed.

Lemma concat_doc_chunks d : forall first nl, concat (doc_chunks first nl d) = doc_text first nl d.
Proof.
  induction d as [|l d IH]; intros first nl; [reflexivity|]. cbn [doc_chunks doc_text]. rewrite concat_app, IH.
  unfold link_chunks. rewrite !concat_app, concat_flat_attr. unfold link_body.
  rewrite <- !app_assoc. f_equal; [destruct first; [reflexivity|destruct nl; reflexivity]|].
  cbn [concat app]. rewrite <- !app_assoc. cbn [app]. reflexivity.
Qed.

(* ---------- scanner lemmas ---------- *)
Lemma scan_in_quote stop v rest :
  scan_quoted stop (esc v ++ QUOTE :: rest) true =
  let '(a, b) := scan_quoted stop rest false in (esc v ++ QUOTE :: a, b).
Proof.
  induction v as [|c v IH].
  - cbn [esc flat_map app scan_quoted]. change (QUOTE =? QUOTE) with true. cbv iota.
    destruct (scan_quoted stop rest false); reflexivity.
  - cbn [esc flat_map]. fold (esc v).
    destruct ((c =? QUOTE) || (c =? BSL)) eqn:E.
    + cbn [app scan_quoted]. change (BSL =? QUOTE) with false. change (BSL =? BSL) with true. cbv iota.
      rewrite IH. destruct (scan_quoted stop rest false); reflexivity.
    + apply orb_false_iff in E. destruct E as [E1 E2].
      cbn [app scan_quoted]. rewrite E1, E2. rewrite IH. destruct (scan_quoted stop rest false); reflexivity.
Qed.

(* a stretch free of the stop character and of quotes is walked over *)
Lemma scan_plain stop u rest : forallb (fun c => negb ((c =? stop) || (c =? QUOTE))) u = true ->
  scan_quoted stop (u ++ rest) false = let '(a, b) := scan_quoted stop rest false in (u ++ a, b).
Proof.
  induction u as [|c u IH]; intros H; cbn [app].
  - destruct (scan_quoted stop rest false); reflexivity.
  - cbn [forallb] in H. apply andb_true_iff in H. destruct H as (H1 & H2).
    apply negb_true_iff, orb_false_iff in H1. destruct H1 as (E1 & E2).
    cbn [scan_quoted]. rewrite E1, E2. rewrite IH by exact H2. destruct (scan_quoted stop rest false); reflexivity.
Qed.

Definition plain_for (stop : N) (u : str) : bool := forallb (fun c => negb ((c =? stop) || (c =? QUOTE))) u.

Lemma alnum_plain stop v : stop = SEMI \/ stop = COMMA -> forallb is_alnum v = true -> plain_for stop v = true.
Proof.
  intros Hs H. unfold plain_for. rewrite forallb_forall in *. intros c Hc. specialize (H c Hc).
  unfold is_alnum in H. unfold SEMI, COMMA, QUOTE in *. destruct Hs; subst; lia.
Qed.
Lemma digit_alnum d : forallb is_digit d = true -> forallb is_alnum d = true.
Proof. rewrite !forallb_forall. intros H c Hc. specialize (H c Hc). unfold is_digit, is_alnum in *. lia. Qed.

Lemma key_plain stop k : stop = SEMI \/ stop = COMMA -> key_wf k = true -> plain_for stop (k ++ [EQS]) = true.
Proof.
  intros Hs H. unfold key_wf in H. apply andb_true_iff in H. destruct H as (H & _). apply andb_true_iff in H. destruct H as (H & _).
  unfold plain_for. rewrite forallb_app. apply andb_true_iff. split.
  - rewrite forallb_forall in *. intros c Hc. specialize (H c Hc). destruct Hs; subst; lia.
  - cbn. unfold EQS, SEMI, COMMA, QUOTE in *. destruct Hs; subst; reflexivity.
Qed.

(* one attribute (key '=' value) is walked over by the scanner, whatever the value *)
Lemma scan_attr stop a rest : stop = SEMI \/ stop = COMMA -> key_wf (fst a) = true -> aval_wf (snd a) = true ->
  scan_quoted stop (atext a ++ rest) false = let '(x, y) := scan_quoted stop rest false in (atext a ++ x, y).
Proof.
  intros Hs Hk Hv. destruct a as [k v]. cbn [fst snd] in *. unfold atext. cbn [fst snd].
  replace ((k ++ EQS :: vtext v) ++ rest) with ((k ++ [EQS]) ++ vtext v ++ rest) by (rewrite <- !app_assoc; reflexivity).
  rewrite scan_plain by (apply key_plain; assumption).
  assert (HV : scan_quoted stop (vtext v ++ rest) false = let '(x, y) := scan_quoted stop rest false in (vtext v ++ x, y)).
  { destruct v as [v|v|d]; cbn [vtext aval_wf] in *.
    - cbn [app scan_quoted]. replace (QUOTE =? stop) with false by (unfold QUOTE, SEMI, COMMA in *; destruct Hs; subst; reflexivity).
      change (QUOTE =? QUOTE) with true. cbv iota. rewrite <- app_assoc. cbn [app]. rewrite scan_in_quote.
      destruct (scan_quoted stop rest false). rewrite <- app_assoc. reflexivity.
    - apply scan_plain. apply alnum_plain; assumption.
    - apply andb_true_iff in Hv. destruct Hv as (Hd & _). apply scan_plain. apply alnum_plain; [assumption|apply digit_alnum; exact Hd]. }
  rewrite HV. destruct (scan_quoted stop rest false). rewrite <- !app_assoc. reflexivity.
Qed.

Definition attr_ok (a : attr_w) : bool := key_wf (fst a) && aval_wf (snd a).

(* the written attribute block is walked over by the link scanner *)
Lemma scan_attrs_written l rest : forallb attr_ok l = true ->
  scan_quoted COMMA (attrs_written l ++ rest) false = let '(x, y) := scan_quoted COMMA rest false in (attrs_written l ++ x, y).
Proof.
  induction l as [|a l IH]; intros H; cbn [attrs_written flat_map app].
  - destruct (scan_quoted COMMA rest false); reflexivity.
  - cbn [forallb] in H. apply andb_true_iff in H. destruct H as (Ha & Hl). apply andb_true_iff in Ha. destruct Ha as (Hk & Hv).
    fold (attrs_written l). cbn [scan_quoted]. change (SEMI =? COMMA) with false. change (SEMI =? QUOTE) with false. cbv iota.
    rewrite <- app_assoc. rewrite scan_attr by (auto). rewrite IH by exact Hl.
    destruct (scan_quoted COMMA rest false). rewrite <- app_assoc. reflexivity.
Qed.

(* ---------- trimming ---------- *)
Lemma trim_end_keep f u c : f c = false -> trim_end_by f (u ++ [c]) = u ++ [c].
Proof. intros H. unfold trim_end_by. rewrite rev_app_distr. cbn [rev app drop_while]. rewrite H. cbn [rev]. rewrite rev_involutive. reflexivity. Qed.
Lemma trim_end_drop f u c : f c = true -> trim_end_by f (u ++ [c]) = trim_end_by f u.
Proof. intros H. unfold trim_end_by. rewrite rev_app_distr. cbn [rev app drop_while]. rewrite H. reflexivity. Qed.
Lemma trim_end_nil f : trim_end_by f [] = [].
Proof. reflexivity. Qed.

Definition last_not (f : N -> bool) (u : str) : Prop := match rev u with [] => True | c :: _ => f c = false end.
Lemma trim_end_id f u : last_not f u -> trim_end_by f u = u.
Proof.
  unfold last_not, trim_end_by. destruct (rev u) as [|c r] eqn:E.
  - intros _. apply (f_equal (@rev N)) in E. rewrite rev_involutive in E. subst. reflexivity.
  - intros H. cbn [drop_while]. rewrite H. rewrite <- E. apply rev_involutive.
Qed.
Lemma last_not_app f u v : v <> [] -> last_not f v -> last_not f (u ++ v).
Proof.
  unfold last_not. rewrite rev_app_distr. destruct (rev v) as [|c r] eqn:E; [|cbn [app]; auto].
  intros Hv _. apply (f_equal (@rev N)) in E. rewrite rev_involutive in E. cbn [rev] in E. congruence.
Qed.

(* the last character of a written attribute is ''', '=', or alphanumeric *)
Lemma atext_last f a : f QUOTE = false -> f EQS = false -> (forall c, is_alnum c = true -> f c = false) ->
  aval_wf (snd a) = true -> last_not f (atext a) /\ atext a <> [].
Proof.
  intros HQ HE HA Hv. destruct a as [k v]. unfold atext. cbn [fst snd] in *. split; [|destruct k; discriminate].
  apply last_not_app; [discriminate|].
  destruct v as [v|v|d]; cbn [vtext aval_wf] in *.
  - change (EQS :: QUOTE :: esc v ++ [QUOTE]) with ((EQS :: QUOTE :: esc v) ++ [QUOTE]). unfold last_not. rewrite rev_app_distr. cbn. exact HQ.
  - destruct v as [|c v] using rev_ind; [unfold last_not; cbn; exact HE|].
    change (EQS :: v ++ [c]) with ((EQS :: v) ++ [c]). unfold last_not. rewrite rev_app_distr. cbn [rev app].
    apply HA. rewrite forallb_app in Hv. apply andb_true_iff in Hv. destruct Hv as (_ & Hc). cbn in Hc. apply andb_true_iff in Hc. tauto.
  - apply andb_true_iff in Hv. destruct Hv as (Hd & _). apply digit_alnum in Hd.
    destruct d as [|c d] using rev_ind; [unfold last_not; cbn; exact HE|].
    change (EQS :: d ++ [c]) with ((EQS :: d) ++ [c]). unfold last_not. rewrite rev_app_distr. cbn [rev app].
    apply HA. rewrite forallb_app in Hd. apply andb_true_iff in Hd. destruct Hd as (_ & Hc). cbn in Hc. apply andb_true_iff in Hc. tauto.
Qed.

Lemma alnum_not c x : is_alnum c = true -> (x = SEMI \/ x = COMMA) -> (x =? c) = false.
Proof. unfold is_alnum, SEMI, COMMA. intros H [-> | ->]; lia. Qed.

Lemma attrs_written_last f l : f QUOTE = false -> f EQS = false -> (forall c, is_alnum c = true -> f c = false) ->
  forallb attr_ok l = true -> last_not f (attrs_written l).
Proof.
  intros HQ HE HA. induction l as [|a l IH] using rev_ind; intros H; [exact I|].
  rewrite forallb_app in H. apply andb_true_iff in H. destruct H as (_ & H). cbn in H. rewrite andb_true_r in H.
  apply andb_true_iff in H. destruct H as (_ & Hv).
  unfold attrs_written. rewrite flat_map_app. cbn [flat_map]. rewrite app_nil_r.
  destruct (atext_last f a HQ HE HA Hv) as (L & NE).
  apply last_not_app; [discriminate|]. change (SEMI :: atext a) with ([SEMI] ++ atext a). apply last_not_app; assumption.
Qed.

(* written block = ';' + the joined text *)
Lemma attrs_written_text l : l <> [] -> attrs_written l = SEMI :: attrs_text l.
Proof.
  induction l as [|a l IH]; [congruence|]. intros _. cbn [attrs_written flat_map]. fold (attrs_written l).
  destruct l as [|b l]; [cbn [attrs_written flat_map attrs_text]; rewrite app_nil_r; reflexivity|].
  rewrite IH by discriminate. change (attrs_text (a :: b :: l)) with (atext a ++ SEMI :: attrs_text (b :: l)). reflexivity.
Qed.

Lemma attrs_text_first l : forallb attr_ok l = true -> match attrs_text l with [] => True | c :: _ => (c =? SEMI) = false end.
Proof.
  destruct l as [|a l]; [intros; exact I|]. intros H. cbn [forallb] in H. apply andb_true_iff in H. destruct H as (Ha & _).
  apply andb_true_iff in Ha. destruct Ha as (Hk & _).
  assert (HA : exists c t, atext a = c :: t /\ (c =? SEMI) = false).
  { destruct a as [k v]. unfold atext. cbn [fst snd] in *. destruct k as [|c k]; [eexists; eexists; split; reflexivity|].
    unfold key_wf in Hk. apply andb_true_iff in Hk. destruct Hk as (Hk & _). apply andb_true_iff in Hk. destruct Hk as (Hk & _).
    cbn [forallb] in Hk. apply andb_true_iff in Hk. destruct Hk as (Hc & _). cbn [app]. eexists; eexists; split; [reflexivity|lia]. }
  destruct HA as (c & t & E & Hc). cbn [attrs_text]. destruct l; rewrite E; exact Hc.
Qed.

Lemma drop_while_first f s : match s with [] => True | c :: _ => f c = false end -> drop_while f s = s.
Proof. destruct s as [|c s]; [reflexivity|]. intros H. cbn [drop_while]. rewrite H. reflexivity. Qed.

(* ---------- the attribute iterator on the joined text ---------- *)
Lemma split_eq_key k rest : forallb (fun c => negb (c =? EQS)) k = true -> split_eq (k ++ EQS :: rest) = Some (k, rest).
Proof.
  induction k as [|c k IH]; intros H; cbn [app split_eq]; [change (EQS =? EQS) with true; reflexivity|].
  cbn [forallb] in H. apply andb_true_iff in H. destruct H as (H1 & H2). apply negb_true_iff in H1. rewrite H1, IH by exact H2. reflexivity.
Qed.

Lemma trim_id s : match s with [] => True | c :: _ => is_ws c = false end -> last_not is_ws s -> trim s = s.
Proof. intros H1 H2. unfold trim, trim_start_by. rewrite drop_while_first by exact H1. apply trim_end_id. exact H2. Qed.

Lemma key_trim k : key_wf k = true -> trim k = k /\ forallb (fun c => negb (c =? EQS)) k = true.
Proof.
  intros H. unfold key_wf in H. apply andb_true_iff in H. destruct H as (H & H3). apply andb_true_iff in H. destruct H as (H1 & H2). split.
  - apply trim_id.
    + destruct k as [|c k]; [exact I|]. apply negb_true_iff in H2. exact H2.
    + unfold last_not. destruct (rev k); [exact I|]. apply negb_true_iff in H3. exact H3.
  - rewrite forallb_forall in *. intros c Hc. specialize (H1 c Hc). lia.
Qed.

Lemma alnum_not_ws c : is_alnum c = true -> is_ws c = false.
Proof. unfold is_alnum, is_ws. intros H. lia. Qed.

Lemma vtext_trim v : aval_wf v = true -> trim (vtext v) = vtext v /\ unquote_to_string (vtext v) = value_text v.
Proof.
  intros H. destruct v as [v|v|d]; cbn [vtext value_text aval_wf] in *.
  - split.
    + apply trim_id; [reflexivity|]. change (QUOTE :: esc v ++ [QUOTE]) with ((QUOTE :: esc v) ++ [QUOTE]).
      unfold last_not. rewrite rev_app_distr. reflexivity.
    + unfold unquote_to_string. change (QUOTE =? QUOTE) with true. cbv iota.
      induction v as [|c v IH]; [cbn; change (QUOTE =? QUOTE) with true; reflexivity|].
      cbn [esc flat_map]. fold (esc v). destruct ((c =? QUOTE) || (c =? BSL)) eqn:E.
      * cbn [app unq_quoted]. change (BSL =? QUOTE) with false. change (BSL =? BSL) with true. cbv iota. f_equal. exact IH.
      * apply orb_false_iff in E. destruct E as [E1 E2]. cbn [app unq_quoted]. rewrite E1, E2. f_equal. exact IH.
  - assert (HW : forall u, forallb is_alnum u = true -> trim u = u /\ unquote_to_string u = u).
    { intros u Hu. split.
      - apply trim_id.
        + destruct u as [|c u]; [exact I|]. cbn in Hu. apply andb_true_iff in Hu. apply alnum_not_ws. tauto.
        + unfold last_not. destruct (rev u) as [|c r] eqn:E; [exact I|]. apply alnum_not_ws.
          rewrite forallb_forall in Hu. apply Hu. apply in_rev. rewrite E. left. reflexivity.
      - unfold unquote_to_string. destruct u as [|c u]; [reflexivity|]. cbn in Hu. apply andb_true_iff in Hu. destruct Hu as (Hc & _).
        replace (c =? QUOTE) with false; [reflexivity|]. unfold is_alnum, QUOTE in *. lia. }
    apply HW. exact H.
  - apply andb_true_iff in H. destruct H as (Hd & _). apply digit_alnum in Hd.
    assert (HW : forall u, forallb is_alnum u = true -> trim u = u /\ unquote_to_string u = u).
    { intros u Hu. split.
      - apply trim_id.
        + destruct u as [|c u]; [exact I|]. cbn in Hu. apply andb_true_iff in Hu. apply alnum_not_ws. tauto.
        + unfold last_not. destruct (rev u) as [|c r] eqn:E; [exact I|]. apply alnum_not_ws.
          rewrite forallb_forall in Hu. apply Hu. apply in_rev. rewrite E. left. reflexivity.
      - unfold unquote_to_string. destruct u as [|c u]; [reflexivity|]. cbn in Hu. apply andb_true_iff in Hu. destruct Hu as (Hc & _).
        replace (c =? QUOTE) with false; [reflexivity|]. unfold is_alnum, QUOTE in *. lia. }
    apply HW. exact Hd.
Qed.

(* one step of the attribute iterator on 'a' or 'a;rest' *)
Lemma attr_next_head a tail : attr_ok a = true -> (tail = [] \/ exists t, tail = SEMI :: t) ->
  exists it, attr_next (atext a ++ tail) = Some (it, match tail with [] => [] | _ :: t => t end) /\
             akey it = fst a /\ unquote_to_string (aval it) = value_text (snd a).
Proof.
  intros Ha Ht. apply andb_true_iff in Ha. destruct Ha as (Hk & Hv).
  assert (NE : atext a ++ tail <> []) by (destruct a as [k v]; unfold atext; destruct k; discriminate).
  unfold attr_next. destruct (atext a ++ tail) as [|c0 s0] eqn:ES; [congruence|]. rewrite <- ES.
  rewrite scan_attr by (auto).
  assert (HS : scan_quoted SEMI tail false = match tail with [] => ([], []) | _ :: t => ([SEMI], t) end).
  { destruct Ht as [->|(t & ->)]; [reflexivity|]. cbn [scan_quoted]. change (SEMI =? SEMI) with true. reflexivity. }
  rewrite HS.
  assert (HL : last_not (N.eqb SEMI) (atext a)).
  { apply (atext_last (N.eqb SEMI) a); try reflexivity; [|exact Hv]. intros c Hc. apply alnum_not; auto. }
  assert (HT : trim_end_by (N.eqb SEMI) (atext a ++ match tail with [] => [] | _ :: _ => [SEMI] end) = atext a).
  { destruct Ht as [->|(t & ->)]; [rewrite app_nil_r; apply trim_end_id; exact HL|].
    rewrite trim_end_drop by reflexivity. apply trim_end_id. exact HL. }
  destruct (key_trim _ Hk) as (KT & KE). destruct (vtext_trim _ Hv) as (VT & VU).
  destruct tail as [|c t].
  - rewrite HT. unfold atext at 1. rewrite split_eq_key by exact KE. eexists. split; [reflexivity|]. cbn [akey aval]. rewrite KT, VT. auto.
  - rewrite HT. unfold atext at 1. rewrite split_eq_key by exact KE. eexists. split; [reflexivity|]. cbn [akey aval]. rewrite KT, VT. auto.
Qed.

Lemma attrs_content_text l : forall fuel, forallb attr_ok l = true -> (length l < fuel)%nat ->
  attrs_content fuel (attrs_text l) = map (fun a => (fst a, value_text (snd a))) l.
Proof.
  induction l as [|a l IH]; intros fuel H Hf.
  - destruct fuel; reflexivity.
  - destruct fuel as [|f]; [cbn in Hf; lia|]. cbn [forallb] in H. apply andb_true_iff in H. destruct H as (Ha & Hl).
    cbn [attrs_content]. destruct l as [|b l].
    + cbn [attrs_text]. destruct (attr_next_head a [] Ha (or_introl eq_refl)) as (it & E & K & V).
      rewrite app_nil_r in E. rewrite E. cbn [map]. rewrite K, V. f_equal. destruct f; reflexivity.
    + change (attrs_text (a :: b :: l)) with (atext a ++ SEMI :: attrs_text (b :: l)).
      destruct (attr_next_head a (SEMI :: attrs_text (b :: l)) Ha (or_intror (ex_intro _ _ eq_refl))) as (it & E & K & V).
      rewrite E. cbn [map]. rewrite K, V. f_equal. apply IH; [exact Hl|cbn [length] in *; lia].
Qed.

(* ---------- one link ---------- *)
Lemma scan_to_target t rest : forallb (fun c => negb (c =? GT)) t = true -> scan_to GT (t ++ GT :: rest) = (t ++ [GT], rest).
Proof.
  induction t as [|c t IH]; intros H; cbn [app scan_to]; [change (GT =? GT) with true; reflexivity|].
  cbn [forallb] in H. apply andb_true_iff in H. destruct H as (H1 & H2). apply negb_true_iff in H1. rewrite H1, IH by exact H2. reflexivity.
Qed.

Lemma target_trim t : forallb (fun c => negb (c =? GT)) t = true -> trim_end_by (N.eqb GT) (t ++ [GT]) = t.
Proof.
  intros H. rewrite trim_end_drop by reflexivity. apply trim_end_id. unfold last_not. destruct (rev t) as [|c r] eqn:E; [exact I|].
  rewrite forallb_forall in H. specialize (H c ltac:(apply in_rev; rewrite E; left; reflexivity)). rewrite N.eqb_sym. lia.
Qed.

(* link_next on '<target>attrs' followed by nothing or by ',rest' *)
Lemma link_next_body l tail : link_wf l = true -> (tail = [] \/ exists t, tail = COMMA :: t) ->
  forall pre, forallb is_ascii_ws pre = true ->
  exists lo ao, link_next (pre ++ link_body l ++ tail) =
    Some (LOk lo (fst l) ao (attrs_text (snd l)), match tail with [] => [] | _ :: t => t end).
Proof.
  intros Hw Ht pre Hpre. unfold link_wf in Hw. apply andb_true_iff in Hw. destruct Hw as (Htg & Hattrs).
  unfold link_body.
  assert (NE : pre ++ (LT :: fst l ++ GT :: attrs_written (snd l)) ++ tail <> []) by (destruct pre; discriminate).
  unfold link_next. destruct (pre ++ _ ++ tail) as [|c0 s0] eqn:ES; [congruence|]. rewrite <- ES. clear ES NE c0 s0.
  assert (HSK : forall n, skip_to_lt (pre ++ (LT :: fst l ++ GT :: attrs_written (snd l)) ++ tail) n
                          = SkOk (n + len pre + 1) ((fst l ++ GT :: attrs_written (snd l)) ++ tail)).
  { induction pre as [|c pre IH]; intros n.
    - cbn [app skip_to_lt]. change (is_ascii_ws LT) with false. change (LT =? LT) with true. cbv iota. rewrite len_nil. f_equal. lia.
    - cbn [forallb] in Hpre. apply andb_true_iff in Hpre. destruct Hpre as (Hc & Hp). cbn [app skip_to_lt]. rewrite Hc.
      rewrite IH by exact Hp. rewrite len_cons. f_equal. lia. }
  rewrite HSK. rewrite <- app_assoc. cbn [app]. rewrite scan_to_target by exact Htg.
  rewrite scan_attrs_written by exact Hattrs.
  assert (HS : scan_quoted COMMA tail false = match tail with [] => ([], []) | _ :: t => ([COMMA], t) end).
  { destruct Ht as [->|(t & ->)]; [reflexivity|]. cbn [scan_quoted]. change (COMMA =? COMMA) with true. reflexivity. }
  rewrite HS. rewrite target_trim by exact Htg.
  assert (HL : last_not (N.eqb COMMA) (attrs_written (snd l))).
  { apply attrs_written_last; try reflexivity; [|exact Hattrs]. intros c Hc. apply alnum_not; auto. }
  assert (HT : trim_end_by (N.eqb COMMA) (attrs_written (snd l) ++ match tail with [] => [] | _ :: _ => [COMMA] end) = attrs_written (snd l)).
  { destruct Ht as [->|(t & ->)]; [rewrite app_nil_r; apply trim_end_id; exact HL|].
    rewrite trim_end_drop by reflexivity. apply trim_end_id. exact HL. }
  assert (HA : trim_end_by (N.eqb SEMI) (trim_start_by (N.eqb SEMI) (attrs_written (snd l))) = attrs_text (snd l)).
  { destruct (snd l) as [|a r] eqn:EL; [reflexivity|].
    rewrite attrs_written_text by discriminate. unfold trim_start_by. cbn [drop_while]. change (SEMI =? SEMI) with true. cbv iota.
    pose proof (attrs_text_first (a :: r) Hattrs) as HF.
    rewrite drop_while_first by (destruct (attrs_text (a :: r)); [exact I|rewrite N.eqb_sym; exact HF]).
    apply trim_end_id.
    assert (HLs : last_not (N.eqb SEMI) (attrs_written (a :: r))).
    { apply attrs_written_last; try reflexivity; [|exact Hattrs]. intros c Hc. apply alnum_not; auto. }
    rewrite attrs_written_text in HLs by discriminate. unfold last_not in *. cbn [rev] in HLs.
    destruct (rev (attrs_text (a :: r))) as [|c r']; [exact I|]. cbn [app] in HLs. exact HLs. }
  destruct tail as [|c t]; rewrite HT, HA; eexists; eexists; reflexivity.
Qed.

Lemma atext_len a : (1 <= length (atext a))%nat.
Proof. destruct a as [k v]. unfold atext. cbn [fst snd]. rewrite app_length. cbn [length]. lia. Qed.

Lemma attrs_text_len l : (length l <= length (attrs_text l))%nat.
Proof.
  induction l as [|a r IH]; [cbn; lia|]. destruct r as [|b r]; [cbn [attrs_text length]; pose proof (atext_len a); lia|].
  change (attrs_text (a :: b :: r)) with (atext a ++ SEMI :: attrs_text (b :: r)). rewrite app_length. cbn [length] in *.
  pose proof (atext_len a). lia.
Qed.

(* ---------- the whole document ---------- *)
Theorem roundtrip_gen d : forall (first nl : bool) (fuel : nat), doc_wf d = true -> (length d < fuel)%nat ->
  links_content fuel (match d with [] => [] | _ => if first then doc_text true nl d
                                                  else skipn 1 (doc_text false nl d) end) = Some (doc_content d).
Proof.
  induction d as [|l d IH]; intros first nl fuel Hw Hf.
  - destruct fuel; reflexivity.
  - destruct fuel as [|f]; [cbn in Hf; lia|]. cbn [doc_wf forallb] in Hw. apply andb_true_iff in Hw. destruct Hw as (Hl & Hd).
    cbn [links_content].
    set (pre := if first then @nil N else if nl then [10; 13] else @nil N).
    assert (Hpre : forallb is_ascii_ws pre = true) by (unfold pre; destruct first; [reflexivity|destruct nl; reflexivity]).
    assert (HT : (if first then doc_text true nl (l :: d) else skipn 1 (doc_text false nl (l :: d)))
                 = pre ++ link_body l ++ doc_text false nl d).
    { unfold pre. cbn [doc_text]. destruct first; [reflexivity|]. destruct nl; reflexivity. }
    rewrite HT.
    assert (Htail : doc_text false nl d = [] \/ exists t, doc_text false nl d = COMMA :: t).
    { destruct d as [|l2 d2]; [left; reflexivity|right]. cbn [doc_text]. destruct nl; eexists; reflexivity. }
    destruct (link_next_body l (doc_text false nl d) Hl Htail pre Hpre) as (lo & ao & E). rewrite E.
    assert (HR : match doc_text false nl d with [] => [] | _ :: t => t end
                 = match d with [] => [] | _ => skipn 1 (doc_text false nl d) end).
    { destruct d as [|l2 d2]; [reflexivity|]. cbn [doc_text]. destruct nl; reflexivity. }
    rewrite HR. specialize (IH false nl f Hd ltac:(cbn [length] in Hf; lia)). cbn beta iota in IH.
    rewrite IH. cbn [doc_content map]. f_equal. f_equal. f_equal.
    unfold link_wf in Hl. apply andb_true_iff in Hl. destruct Hl as (_ & Ha).
    apply attrs_content_text; [exact Ha|].
    apply Nat.lt_succ_r. apply attrs_text_len.
Qed.

Theorem roundtrip d nl : doc_wf d = true ->
  parse_content (concat (accepted (snd (write_doc (fun _ => false) true nl sink0 d)))) = Some (doc_content d).
Proof.
  intros Hw. rewrite no_fault. cbn [snd accepted]. rewrite concat_doc_chunks. unfold parse_content.
  pose proof (roundtrip_gen d true nl (S (length (doc_text true nl d))) Hw) as H.
  destruct d as [|l d]; [reflexivity|]. apply H.
  (* the text is longer than the number of links *)
  clear. generalize true. induction (l :: d) as [|x r IH]; intros b; [cbn; lia|]. cbn [doc_text length].
  rewrite !app_length. unfold link_body. cbn [length]. specialize (IH false). lia.
Qed.

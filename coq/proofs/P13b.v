(* P13b.v -- C13: the block-value model passes the suite-130 oracle (the RFC 7959 2.2 specification, written
   independently of the model) on EVERY input: all three entry points (encode, decode, BlockValue::new). *)
From CoapV Require Import proofs.Tac UintOpt BlockValue Suite13 proofs.P06 proofs.P13 proofs.P14b.

Lemma bytes_wf_forallb bs : forallb (fun b => b <? 256) bs = true -> bytes_wf bs.
Proof.
  induction bs as [|x t IH]; cbn [forallb]; intros H; [constructor|].
  apply andb_true_iff in H. destruct H as (H1 & H2). constructor; [lia|exact (IH H2)].
Qed.

Theorem model_passes_oracle130 s : verdict130 s (run130 s) = true.
Proof.
  unfold verdict130. destruct (in_domain130 s) eqn:ED; [|reflexivity].
  destruct s as [|k r]; [discriminate|].
  destruct k as [|k].
  - (* encode *)
    destruct r as [|num [|m [|szx [|? ?]]]]; try discriminate.
    cbn [in_domain130] in ED. apply andb_true_iff in ED. destruct ED as (ED & E3). apply andb_true_iff in ED. destruct ED as (E1 & E2).
    cbn [spec130 run130].
    destruct (block_roundtrip num (negb (m =? 0)) szx ltac:(lia) ltac:(lia)) as (R1 & R2 & R3).
    assert (Hm : b2n (negb (m =? 0)) = m) by (destruct (m =? 0) eqn:E; cbn; lia).
    rewrite Hm in R1, R2. rewrite R1, R2, R3. unfold wr_res13, wr_block. cbn [b_num b_more b_szx]. rewrite Hm. apply list_eqb_refl.
  - destruct k as [k|k|].
    + (* 3, 5, ...: outside *) destruct k; discriminate.
    + destruct k as [k|k|]; try discriminate.
      (* 2: BlockValue::new *)
      destruct r as [|num [|m [|size [|? ?]]]]; try discriminate.
      cbn [in_domain130] in ED. apply andb_true_iff in ED. destruct ED as (ED & E3). apply andb_true_iff in ED. destruct ED as (E1 & E2).
      cbn [spec130 run130]. rewrite block_new_spec by lia.
      destruct ((size =? 0) || (4096 <=? size) || (65536 <=? num)); [reflexivity|].
      unfold wr_res13, wr_block, block_size. cbn [b_num b_more b_szx app]. cbn [b_szx].
      assert (Hm : b2n (negb (m =? 0)) = m) by (destruct (m =? 0) eqn:E; cbn; lia). rewrite Hm. apply list_eqb_refl.
    + (* 1: decode *)
      cbn [in_domain130 spec130 run130] in *. destruct (rd_bytes r) as [[bs [|? ?]]|]; try discriminate.
      rewrite block_decode_spec by (apply bytes_wf_forallb; exact ED).
      destruct ((3 <? len bs) || (65535 <? be_value bs / 16)); [reflexivity|].
      unfold wr_res13, wr_block, block_size. cbn [b_num b_more b_szx app]. cbn [b_szx].
      assert (Hm : b2n ((be_value bs / 8) mod 2 =? 1) = (be_value bs / 8) mod 2).
      { destruct ((be_value bs / 8) mod 2 =? 1) eqn:E; cbn [b2n]; [lia|]. pose proof (N.mod_upper_bound (be_value bs / 8) 2). lia. }
      rewrite Hm. apply list_eqb_refl.
Qed.

(* P05b.v -- C05: the observe action read through CoapRequest::get_observe_flag (suite 50 kind 12) passes the
   registry-only oracle for EVERY 32-bit number: 0 and 1 are the two named actions, every other number is an error. *)
From CoapV Require Import proofs.Tac Header Packet UintOpt Numbers Registry Accessors Suite05 Suite06 proofs.P05 proofs.P06 proofs.P19 proofs.P14b.

Lemma raw_single x : raw_of (set_opts packet_new [(6, [be_min x])]) 6 = [be_min x].
Proof. reflexivity. Qed.

Lemma u32_pow : 256 ^ 4 = U32. Proof. reflexivity. Qed.

Theorem oracle_observe_flag x : verdict50 [12; x] (run50 [12; x]) = true.
Proof.
  unfold verdict50. destruct (in_domain50 [12; x]) eqn:ED; [|reflexivity]. cbn [in_domain50 spec50 run50] in *.
  assert (Hx : x < 256 ^ 4) by (rewrite u32_pow; apply N.ltb_lt; exact ED).
  rewrite observe_flag_raw, raw_single.
  pose proof (be_min_len_bound 4 x Hx) as HL. cbv iota beta. assert (HL' : (len (be_min x) <=? 4) = true) by (apply N.leb_le; exact HL). rewrite HL'.
  rewrite be_fold_value by (auto using be_min_wf; lia). rewrite be_value_min, N.mod_small by exact Hx.
  destruct (observe_registry_agrees x) as (HR & HO). rewrite <- HR.
  destruct (observe_of x) as [o|] eqn:EO; [|reflexivity]. rewrite (HO o eq_refl). apply list_eqb_refl.
Qed.

(* P19b.v -- C19: a path string is valid UTF-8 exactly when all its '/'-separated segments are (byte 47 never
   occurs inside a multi-byte sequence), so C19_path covers every valid string. *)
From CoapV Require Import proofs.Tac Utf8 Accessors.

(* a valid string starts with a complete character c (one ASCII byte, or 2-4 bytes all >= 128) followed by a
   valid string; and a complete character in front never changes the verdict on what follows *)
Lemma valid_uncons s : utf8_valid s = true -> s = [] \/
  exists c r, s = c ++ r /\ c <> [] /\ utf8_valid r = true /\ (forall t, utf8_valid (c ++ t) = utf8_valid t) /\
              Forall (fun b => 128 <= b \/ c = [b]) c.
Proof.
  destruct s as [|b0 r0]; [left; reflexivity|]. intros H. right. cbn [utf8_valid] in H.
  destruct (b0 <? 128) eqn:E0.
  - exists [b0], r0. split; [reflexivity|]. split; [discriminate|]. split; [exact H|]. split.
    + intros t. cbn [app utf8_valid]. rewrite E0. reflexivity.
    + constructor; [right; reflexivity|constructor].
  - destruct r0 as [|b1 r1]; [discriminate|].
    destruct (inr 194 223 b0) eqn:E1.
    + apply andb_true_iff in H. destruct H as (H1 & H2).
      assert (128 <= b1) by (unfold inr in H1; lia).
      exists [b0; b1], r1. split; [reflexivity|]. split; [discriminate|]. split; [exact H2|]. split.
      * intros t. cbn [app utf8_valid]. rewrite E0, E1, H1. reflexivity.
      * repeat (constructor; [left; lia|]); constructor.
    + destruct r1 as [|b2 r2]; [discriminate|].
      destruct (b0 =? 224) eqn:A1; [|destruct (inr 225 236 b0 || inr 238 239 b0) eqn:A2; [|destruct (b0 =? 237) eqn:A3]].
      1-3: apply andb_true_iff in H; destruct H as (H & H3); apply andb_true_iff in H; destruct H as (H1 & H2);
           assert (128 <= b1 /\ 128 <= b2) as (G1 & G2) by (unfold inr in *; lia);
           exists [b0; b1; b2], r2; (split; [reflexivity|]); (split; [discriminate|]); (split; [exact H3|]); split;
           [intros t; cbn [app utf8_valid]; rewrite E0, E1, ?A1, ?A2, ?A3, H1, H2; reflexivity|repeat (constructor; [left; lia|]); constructor].
      destruct r2 as [|b3 r3]; [discriminate|].
      destruct (b0 =? 240) eqn:B1; [|destruct (inr 241 243 b0) eqn:B2; [|destruct (b0 =? 244) eqn:B3; [|discriminate]]].
      all: apply andb_true_iff in H; destruct H as (H & H4); apply andb_true_iff in H; destruct H as (H & H3);
           apply andb_true_iff in H; destruct H as (H1 & H2);
           assert (128 <= b1 /\ 128 <= b2 /\ 128 <= b3) as (G1 & G2 & G3) by (unfold inr in *; lia);
           exists [b0; b1; b2; b3], r3; (split; [reflexivity|]); (split; [discriminate|]); (split; [exact H4|]); split;
           [intros t; cbn [app utf8_valid]; rewrite E0, E1, A1, A2, A3, ?B1, ?B2, ?B3, H1, H2, H3; reflexivity|repeat (constructor; [left; lia|]); constructor].
Qed.

Lemma valid_app_gen n : forall a b, (length a <= n)%nat -> utf8_valid a = true -> utf8_valid (a ++ b) = utf8_valid b.
Proof.
  induction n as [|n IH]; intros a b Hl Ha.
  - destruct a; [reflexivity|cbn in Hl; lia].
  - destruct (valid_uncons a Ha) as [->|(c & r & -> & Hc & Hr & Ht & _)]; [reflexivity|].
    rewrite <- app_assoc, Ht. apply IH; [|exact Hr].
    rewrite app_length in Hl. destruct c; [congruence|cbn [length] in Hl; lia].
Qed.
Lemma valid_app a b : utf8_valid a = true -> utf8_valid (a ++ b) = utf8_valid b.
Proof. apply (valid_app_gen (length a)). lia. Qed.

Lemma split_push c : forall r cur, Forall (fun b => b <> 47) c -> split_slash (c ++ r) cur = split_slash r (rev c ++ cur).
Proof.
  induction c as [|x c IH]; intros r cur Hc; [reflexivity|]. inversion Hc as [|? ? Hx Hc']; subst.
  cbn [app split_slash rev]. replace (x =? 47) with false by lia. rewrite IH by exact Hc'. rewrite <- app_assoc. reflexivity.
Qed.

Lemma split_valid n : forall s cur, (length s <= n)%nat -> utf8_valid s = true -> utf8_valid (rev cur) = true ->
  forallb utf8_valid (split_slash s cur) = true.
Proof.
  induction n as [|n IH]; intros s cur Hl Hs Hcur.
  - destruct s; [cbn; rewrite Hcur; reflexivity|cbn in Hl; lia].
  - destruct (valid_uncons s Hs) as [->|(c & r & -> & Hc & Hr & Ht & Hb)]; [cbn; rewrite Hcur; reflexivity|].
    assert (Hlr : (length r <= n)%nat) by (rewrite app_length in Hl; destruct c; [congruence|cbn [length] in Hl; lia]).
    destruct (list_eq_dec N.eq_dec c [47]) as [->|Hne].
    + cbn [app split_slash]. change (47 =? 47) with true. cbn [forallb]. rewrite Hcur. apply IH; [exact Hlr|exact Hr|reflexivity].
    + assert (H47 : Forall (fun b => b <> 47) c).
      { rewrite Forall_forall in *. intros b Hin. destruct (Hb b Hin) as [H|H]; [lia|]. intros ->. apply Hne. exact H. }
      rewrite split_push by exact H47. apply IH; [exact Hlr|exact Hr|].
      rewrite rev_app_distr, rev_involutive. rewrite valid_app by exact Hcur.
      rewrite <- (app_nil_r c), Ht. reflexivity.
Qed.

(* every valid string has valid segments: the hypothesis of C19_path holds for every valid path string *)
Theorem segments_valid s : utf8_valid s = true -> forallb utf8_valid (path_segments s) = true.
Proof.
  intros Hs. pose proof (split_valid (length s) s [] ltac:(lia) Hs eq_refl) as H. unfold path_segments.
  destruct (split_slash s []) as [|[|x t] l]; [reflexivity| |exact H]. cbn [forallb] in H. exact H.
Qed.

(* P14b.v -- C14 / C15: the Observe model refines the relational reference the run-time oracle uses
   (Suite14.rstep: a flat relation of (path, endpoint, token, count, pending, arrival stamp) rows and a
   per-path sequence table).  Consequence: on every history inside the property's domain the model's
   printed states are exactly the reference's, i.e. the model passes the suite-140 oracle on EVERY input. *)
From CoapV Require Import proofs.Tac Header Packet UintOpt Numbers TypedOpt Observe Suite14 proofs.P14.

Definition obs_of (x : entry) : observer := mkObs (en_e x) (en_tok x) (en_count x) (en_pend x).
Definition on_path (p : bytes) (x : entry) : bool := bytes_eqb (en_path x) p.
Definition view (p : bytes) (l : list entry) : list observer := map obs_of (filter (on_path p) l).

(* strictly ascending stamps, all >= lo *)
Fixpoint stamps_from (lo : N) (l : list entry) : Prop :=
  match l with [] => True | x :: r => lo <= en_stamp x /\ stamps_from (en_stamp x + 1) r end.

Lemma stamps_weaken l : forall lo lo', lo' <= lo -> stamps_from lo l -> stamps_from lo' l.
Proof. destruct l as [|x r]; cbn [stamps_from]; [auto|]. intros lo lo' H (H1 & H2). split; [lia|exact H2]. Qed.

Lemma stamps_filter f l : forall lo, stamps_from lo l -> stamps_from lo (filter f l).
Proof.
  induction l as [|x r IH]; intros lo; cbn [stamps_from filter]; [auto|]. intros (H1 & H2).
  destruct (f x); cbn [stamps_from].
  - split; [exact H1|apply IH; exact H2].
  - apply IH. eapply stamps_weaken; [|exact H2]. lia.
Qed.

Lemma stamps_all_ge l : forall lo, stamps_from lo l -> Forall (fun x => lo <= en_stamp x) l.
Proof.
  induction l as [|x r IH]; intros lo; cbn [stamps_from]; [constructor|]. intros (H1 & H2). constructor; [exact H1|].
  specialize (IH _ H2). eapply Forall_impl; [|exact IH]. cbn. intros. lia.
Qed.

(* insertion of an element not below anything present appends it *)
Lemma ins_stamp_last x acc : Forall (fun y => en_stamp y <= en_stamp x) acc -> ins_stamp x acc = acc ++ [x].
Proof.
  induction acc as [|y r IH]; intros H; [reflexivity|]. inversion H as [|? ? Hy Hr]; subst.
  cbn [ins_stamp app]. replace (en_stamp y <=? en_stamp x) with true by lia. f_equal. apply IH. exact Hr.
Qed.

Lemma by_stamp_sorted_gen l : forall lo acc, stamps_from lo l -> Forall (fun y => en_stamp y < lo) acc ->
  fold_left (fun a x => ins_stamp x a) l acc = acc ++ l.
Proof.
  induction l as [|x r IH]; intros lo acc Hs Ha; cbn [fold_left]; [rewrite app_nil_r; reflexivity|].
  cbn [stamps_from] in Hs. destruct Hs as (H1 & H2).
  rewrite ins_stamp_last by (eapply Forall_impl; [|exact Ha]; cbn; intros; lia).
  rewrite (IH (en_stamp x + 1)); [rewrite <- app_assoc; reflexivity|exact H2|].
  apply Forall_app. split; [eapply Forall_impl; [|exact Ha]; cbn; intros; lia|constructor; [lia|constructor]].
Qed.

Lemma by_stamp_sorted l lo : stamps_from lo l -> by_stamp l = l.
Proof. intros H. unfold by_stamp. rewrite (by_stamp_sorted_gen l lo []); [reflexivity|exact H|constructor]. Qed.

(* ---------- the refinement relation ---------- *)
Record R (s : subject) (rs : rstate) : Prop := mkRrel {
  R_lim : limit s = rlimit rs;
  R_seqs : seqs rs = map (fun pr => (fst pr, rseq (snd pr))) (res s);
  R_nodup : NoDup (map fst (res s));
  R_sorted : stamps_from 0 (ents rs);
  R_next : Forall (fun x => en_stamp x < rnext rs) (ents rs);
  R_obs : forall p r, In (p, r) (res s) -> robs r = view p (ents rs);
  R_known : Forall (fun x => In (en_path x) (map fst (res s))) (ents rs);
  R_count : CountInv s;
  R_inv : Inv s
}.

Lemma flat_map_ext_in {A B} (f g : A -> list B) l : (forall x, In x l -> f x = g x) -> flat_map f l = flat_map g l.
Proof. induction l as [|x r IH]; intros H; cbn [flat_map]; [reflexivity|]. rewrite H by (left; reflexivity). f_equal. apply IH. intros; apply H; right; assumption. Qed.

Lemma flat_map_map {A B C} (f : A -> B) (g : B -> list C) l : flat_map g (map f l) = flat_map (fun x => g (f x)) l.
Proof. induction l as [|x r IH]; cbn [map flat_map]; [reflexivity|]. rewrite IH. reflexivity. Qed.

Lemma len_map {A B} (f : A -> B) l : len (map f l) = len l.
Proof. unfold len. rewrite map_length. reflexivity. Qed.

Lemma dump_eq s rs : R s rs -> rdump rs = dump s.
Proof.
  intros HR. unfold rdump, dump, wr_list. rewrite (R_seqs _ _ HR). rewrite len_map, flat_map_map. f_equal. f_equal.
  apply flat_map_ext_in. intros [p r] Hin. cbn [fst snd]. unfold wr_resource. cbn [fst snd]. f_equal. f_equal.
  fold (on_path p). rewrite (by_stamp_sorted _ 0) by (apply stamps_filter, (R_sorted _ _ HR)).
  rewrite (R_obs _ _ HR p r Hin). unfold view, wr_list. rewrite len_map, flat_map_map. reflexivity.
Qed.

(* ---------- list facts about the model's resource table ---------- *)
Lemma bytes_eqb_sym a b : bytes_eqb a b = bytes_eqb b a.
Proof.
  destruct (bytes_eqb a b) eqn:E1, (bytes_eqb b a) eqn:E2; try reflexivity.
  - apply bytes_eqb_true in E1. subst. rewrite bytes_eqb_refl' in E2. discriminate.
  - apply bytes_eqb_true in E2. subst. rewrite bytes_eqb_refl' in E1. discriminate.
Qed.

Lemma bytes_eqb_false a b : bytes_eqb a b = false <-> a <> b.
Proof. split; [intros H ->; rewrite bytes_eqb_refl' in H; discriminate|]. intros H. destruct (bytes_eqb a b) eqn:E; [apply bytes_eqb_true in E; congruence|reflexivity]. Qed.

Lemma lookup_in_eq p l r : lookup_res p l = Some r -> In (p, r) l.
Proof.
  induction l as [|[q r'] t IH]; cbn [lookup_res]; [discriminate|]. destruct (bytes_eqb p q) eqn:E.
  - intros [= ->]. apply bytes_eqb_true in E. subst. left. reflexivity.
  - intros H. right. apply IH. exact H.
Qed.

Lemma lookup_none_notin p l : lookup_res p l = None -> ~ In p (map fst l).
Proof.
  induction l as [|[q r'] t IH]; cbn [lookup_res map fst In]; [tauto|]. destruct (bytes_eqb p q) eqn:E; [discriminate|].
  intros H [->|Hin]; [rewrite bytes_eqb_refl' in E; discriminate|]. exact (IH H Hin).
Qed.

Lemma in_lookup p r l : NoDup (map fst l) -> In (p, r) l -> lookup_res p l = Some r.
Proof.
  induction l as [|[q r'] t IH]; cbn [map fst In lookup_res]; [tauto|]. intros Hnd Hin. inversion Hnd as [|? ? Hn Ht]; subst.
  destruct Hin as [[= -> ->]|Hin]; [rewrite bytes_eqb_refl'; reflexivity|].
  destruct (bytes_eqb p q) eqn:E; [|apply IH; assumption].
  apply bytes_eqb_true in E. subst q. exfalso. apply Hn. apply (in_map fst) in Hin. exact Hin.
Qed.

Lemma map_fst_update p f l : map fst (update_res p f l) = map fst l.
Proof. induction l as [|[q r] t IH]; cbn [update_res map fst]; [reflexivity|]. destruct (bytes_eqb p q); cbn [map fst]; [reflexivity|]. rewrite IH. reflexivity. Qed.

Lemma in_update_nodup p f l q r' : NoDup (map fst l) -> In (q, r') (update_res p f l) ->
  (q <> p /\ In (q, r') l) \/ (q = p /\ exists r0, In (p, r0) l /\ r' = f r0).
Proof.
  induction l as [|[q0 r0] t IH]; cbn [update_res map fst In]; [tauto|]. intros Hnd. inversion Hnd as [|? ? Hn Ht]; subst.
  destruct (bytes_eqb p q0) eqn:E; cbn [In].
  - apply bytes_eqb_true in E. subst q0. intros [[= <- <-]|Hin].
    + right. split; [reflexivity|]. exists r0. split; [left; reflexivity|reflexivity].
    + left. split; [|right; exact Hin]. intros ->. apply Hn. apply (in_map fst) in Hin. exact Hin.
  - apply bytes_eqb_false in E. intros [[= <- <-]|Hin].
    + left. split; [congruence|left; reflexivity].
    + destruct (IH Ht Hin) as [(H1 & H2)|(H1 & r1 & H2 & H3)].
      * left. split; [exact H1|right; exact H2].
      * right. split; [exact H1|]. exists r1. split; [right; exact H2|exact H3].
Qed.

Lemma seqs_update p f l : (forall r, rseq (f r) = rseq r) ->
  map (fun pr => (fst pr, rseq (snd pr))) (update_res p f l) = map (fun pr : bytes * resource => (fst pr, rseq (snd pr))) l.
Proof.
  intros Hf. induction l as [|[q r] t IH]; cbn [update_res map fst snd]; [reflexivity|].
  destruct (bytes_eqb p q); cbn [map fst snd]; [rewrite Hf; reflexivity|]. rewrite IH. reflexivity.
Qed.

Lemma has_path_seqs p l :
  has_path p (map (fun pr : bytes * resource => (fst pr, rseq (snd pr))) l) = match lookup_res p l with Some _ => true | None => false end.
Proof.
  unfold has_path. induction l as [|[q r] t IH]; cbn [map existsb lookup_res fst snd]; [reflexivity|].
  rewrite (bytes_eqb_sym q p). destruct (bytes_eqb p q); [reflexivity|exact IH].
Qed.

Lemma update_app_none p f l x : lookup_res p l = None -> update_res p f (l ++ [x]) = l ++ update_res p f [x].
Proof. induction l as [|[q r] t IH]; cbn [app lookup_res update_res]; [reflexivity|]. destruct (bytes_eqb p q); [discriminate|]. intros H. rewrite IH by exact H. reflexivity. Qed.

Lemma update_absent p f l : lookup_res p l = None -> update_res p f l = l.
Proof. induction l as [|[q r] t IH]; cbn [lookup_res update_res]; [reflexivity|]. destruct (bytes_eqb p q); [discriminate|]. intros H. rewrite IH by exact H. reflexivity. Qed.

(* ---------- the reference's row operations seen through [view] ---------- *)
Lemma view_app p a b : view p (a ++ b) = view p a ++ view p b.
Proof. unfold view. rewrite filter_app, map_app. reflexivity. Qed.

Lemma on_path_true p x : on_path p x = true <-> en_path x = p.
Proof. unfold on_path. apply bytes_eqb_true. Qed.

Lemma same_spec p e x : same p e x = true <-> en_path x = p /\ en_e x = e.
Proof. unfold same. rewrite andb_true_iff, bytes_eqb_true, N.eqb_eq. tauto. Qed.

Lemma eps_view_in p e l : In e (eps (view p l)) <-> exists x, In x l /\ en_path x = p /\ en_e x = e.
Proof.
  unfold eps, view. rewrite map_map. cbn [obs_of oe]. rewrite in_map_iff. split.
  - intros (x & H1 & H2). apply filter_In in H2. destruct H2 as (H2 & H3). apply on_path_true in H3. eauto.
  - intros (x & H1 & H2 & H3). exists x. split; [exact H3|]. apply filter_In. split; [exact H1|apply on_path_true; exact H2].
Qed.

Lemma exists_same_view p e l : existsb (same p e) l = true <-> In e (eps (view p l)).
Proof.
  rewrite existsb_exists, eps_view_in. split; intros (x & H1 & H2); exists x; (split; [exact H1|]); apply same_spec; exact H2.
Qed.

Definition reg_upd (p : bytes) (e : N) (tok : bytes) (x : entry) : entry :=
  if same p e x then mkEntry p e tok 0 None (en_stamp x) else x.

Lemma reg_upd_id p e tok l : ~ In e (eps (view p l)) -> map (reg_upd p e tok) l = l.
Proof.
  intros H. rewrite <- (map_id l) at 2. apply map_ext_in. intros x Hx. unfold reg_upd.
  destruct (same p e x) eqn:E; [|reflexivity]. exfalso. apply H. apply eps_view_in. exists x. apply same_spec in E. tauto.
Qed.

Lemma reg_upd_same p e tok x : same p e x = true -> reg_upd p e tok x = mkEntry p e tok 0 None (en_stamp x).
Proof. unfold reg_upd. intros ->. reflexivity. Qed.
Lemma reg_upd_not p e tok x : same p e x = false -> reg_upd p e tok x = x.
Proof. unfold reg_upd. intros ->. reflexivity. Qed.

Lemma view_cons p x t : view p (x :: t) = if on_path p x then obs_of x :: view p t else view p t.
Proof. unfold view. cbn [filter]. destruct (on_path p x); reflexivity. Qed.

Lemma view_reg_known p e tok l : NoDup (eps (view p l)) -> In e (eps (view p l)) ->
  view p (map (reg_upd p e tok) l) = reg_obs (mkObs e tok 0 None) (view p l).
Proof.
  induction l as [|x t IH]; [cbn; tauto|]. cbn [map]. rewrite !view_cons.
  destruct (same p e x) eqn:ES; [rewrite (reg_upd_same _ _ _ _ ES)|rewrite (reg_upd_not _ _ _ _ ES)].
  - apply same_spec in ES. destruct ES as (E1 & E2).
    assert (on_path p x = true) as -> by (apply on_path_true; exact E1).
    assert (on_path p (mkEntry p e tok 0 None (en_stamp x)) = true) as -> by (apply on_path_true; reflexivity).
    cbn [eps map]. intros Hnd _. apply NoDup_cons_iff in Hnd. destruct Hnd as (Hn & Ht).
    cbn [reg_obs oe obs_of]. replace (en_e x =? e) with true by lia. unfold obs_of at 1. cbn [en_e en_tok en_count en_pend]. f_equal.
    rewrite reg_upd_id; [reflexivity|]. cbn [oe obs_of] in Hn. rewrite <- E2. exact Hn.
  - destruct (on_path p x) eqn:Hx.
    + cbn [eps map]. intros Hnd Hin. apply NoDup_cons_iff in Hnd. destruct Hnd as (Hn & Ht).
      assert (en_e x <> e).
      { intro. assert (same p e x = true) by (apply same_spec; split; [apply on_path_true; exact Hx|assumption]). congruence. }
      cbn [reg_obs oe obs_of]. replace (en_e x =? e) with false by lia. f_equal. apply IH; [exact Ht|].
      cbn [In oe obs_of] in Hin. destruct Hin as [Hin|Hin]; [congruence|exact Hin].
    + exact IH.
Qed.

Lemma view_reg_other p q e tok l : q <> p -> view q (map (reg_upd p e tok) l) = view q l.
Proof.
  intros Hne. induction l as [|x t IH]; [reflexivity|]. cbn [map]. rewrite !view_cons.
  destruct (same p e x) eqn:ES; [rewrite (reg_upd_same _ _ _ _ ES)|rewrite (reg_upd_not _ _ _ _ ES)].
  - apply same_spec in ES. destruct ES as (E1 & _).
    assert (on_path q x = false) as -> by (unfold on_path; apply bytes_eqb_false; congruence).
    assert (on_path q (mkEntry p e tok 0 None (en_stamp x)) = false) as -> by (unfold on_path; apply bytes_eqb_false; cbn; congruence).
    exact IH.
  - destruct (on_path q x); [f_equal|]; exact IH.
Qed.

(* deregister *)
Definition dereg_keep (p : bytes) (e : N) (tok : bytes) (x : entry) : bool := negb (same p e x && bytes_eqb (en_tok x) tok).

Lemma view_dereg p e tok l :
  view p (filter (dereg_keep p e tok) l) = filter (fun x => negb ((oe x =? e) && bytes_eqb (otok x) tok)) (view p l).
Proof.
  induction l as [|x t IH]; [reflexivity|]. cbn [filter]. rewrite view_cons.
  destruct (on_path p x) eqn:Hx.
  - cbn [filter oe otok obs_of]. unfold dereg_keep at 1, same. fold (on_path p x). rewrite Hx. cbn [andb].
    destruct ((en_e x =? e) && bytes_eqb (en_tok x) tok); cbn [negb]; [exact IH|].
    rewrite view_cons, Hx. f_equal. exact IH.
  - unfold dereg_keep at 1, same. fold (on_path p x). rewrite Hx. cbn [andb negb]. rewrite view_cons, Hx. exact IH.
Qed.

Lemma view_dereg_other p q e tok l : q <> p -> view q (filter (dereg_keep p e tok) l) = view q l.
Proof.
  intros Hne. induction l as [|x t IH]; [reflexivity|]. cbn [filter]. rewrite view_cons.
  destruct (dereg_keep p e tok x) eqn:EK.
  - rewrite view_cons. destruct (on_path q x); [f_equal|]; exact IH.
  - unfold dereg_keep in EK. apply negb_false_iff, andb_true_iff in EK. destruct EK as (ES & _). apply same_spec in ES.
    assert (on_path q x = false) as -> by (unfold on_path; apply bytes_eqb_false; destruct ES; congruence). exact IH.
Qed.

(* resource_changed *)
Definition bump_e (p : bytes) (mid : N) (conf : bool) (x : entry) : entry :=
  if bytes_eqb (en_path x) p then mkEntry (en_path x) (en_e x) (en_tok x) (en_count x + b2n conf) (Some mid) (en_stamp x) else x.
Definition keep_e (p : bytes) (lim : N) (x : entry) : bool := negb (bytes_eqb (en_path x) p) || (en_count x <=? lim).

Lemma bump_obs mid conf x : obs_of (mkEntry (en_path x) (en_e x) (en_tok x) (en_count x + b2n conf) (Some mid) (en_stamp x)) = bump mid conf (obs_of x).
Proof. unfold obs_of, bump. cbn. destruct conf; cbn [b2n]; f_equal; lia. Qed.

Lemma bump_e_on p mid conf x : on_path p x = true ->
  bump_e p mid conf x = mkEntry (en_path x) (en_e x) (en_tok x) (en_count x + b2n conf) (Some mid) (en_stamp x).
Proof. unfold bump_e, on_path. intros ->. reflexivity. Qed.
Lemma bump_e_off p mid conf x : on_path p x = false -> bump_e p mid conf x = x.
Proof. unfold bump_e, on_path. intros ->. reflexivity. Qed.
Lemma keep_e_eq p lim y : keep_e p lim y = negb (on_path p y) || (en_count y <=? lim).
Proof. reflexivity. Qed.
Lemma on_path_mk q a b c d e f : on_path q (mkEntry a b c d e f) = bytes_eqb a q.
Proof. reflexivity. Qed.

Lemma view_changed p lim mid conf l :
  view p (filter (keep_e p lim) (map (bump_e p mid conf) l)) = filter (fun x => unack x <=? lim) (map (bump mid conf) (view p l)).
Proof.
  induction l as [|x t IH]; [reflexivity|]. cbn [map filter]. rewrite view_cons.
  destruct (on_path p x) eqn:Hx.
  - rewrite (bump_e_on _ _ _ _ Hx), keep_e_eq, on_path_mk. fold (on_path p x). rewrite Hx. cbn [negb orb map filter en_count].
    rewrite <- bump_obs. cbn [unack obs_of en_count].
    destruct (en_count x + b2n conf <=? lim).
    + rewrite view_cons, on_path_mk. fold (on_path p x). rewrite Hx. f_equal. exact IH.
    + exact IH.
  - rewrite (bump_e_off _ _ _ _ Hx), keep_e_eq, Hx. cbn [negb orb]. rewrite view_cons, Hx. exact IH.
Qed.

Lemma view_changed_other p q lim mid conf l : q <> p ->
  view q (filter (keep_e p lim) (map (bump_e p mid conf) l)) = view q l.
Proof.
  intros Hne. induction l as [|x t IH]; [reflexivity|]. cbn [map filter]. rewrite view_cons.
  destruct (on_path p x) eqn:Hx.
  - rewrite (bump_e_on _ _ _ _ Hx), keep_e_eq, on_path_mk. fold (on_path p x). rewrite Hx. cbn [negb orb en_count].
    assert (on_path q x = false) as Hq by (unfold on_path; apply bytes_eqb_false; apply on_path_true in Hx; congruence). rewrite Hq.
    destruct (_ <=? lim); [|exact IH]. rewrite view_cons, on_path_mk. fold (on_path q x). rewrite Hq. exact IH.
  - rewrite (bump_e_off _ _ _ _ Hx), keep_e_eq, Hx. cbn [negb orb]. rewrite view_cons. destruct (on_path q x); [f_equal|]; exact IH.
Qed.

(* acknowledge *)
Definition ack_e (e mid : N) (x : entry) : entry :=
  if (en_e x =? e) && (match en_pend x with Some m => m =? mid | None => false end)
  then mkEntry (en_path x) (en_e x) (en_tok x) 0 None (en_stamp x) else x.

Lemma view_ack q e mid l :
  view q (map (ack_e e mid) l) = map (fun x => if ack_match e mid x then mkObs (oe x) (otok x) 0 None else x) (view q l).
Proof.
  induction l as [|x t IH]; [reflexivity|]. cbn [map]. rewrite !view_cons.
  assert (on_path q (ack_e e mid x) = on_path q x) as -> by (unfold ack_e, on_path; destruct (_ && _); reflexivity).
  destruct (on_path q x); [|exact IH]. cbn [map]. f_equal; [|exact IH].
  unfold ack_e, ack_match, obs_of. cbn [pend oe otok]. destruct (en_pend x) as [m|] eqn:EP; [|rewrite andb_false_r, EP; reflexivity].
  destruct ((en_e x =? e) && (m =? mid)); cbn; rewrite ?EP; reflexivity.
Qed.

(* stamps are untouched by the row operations *)
Lemma stamps_map g l : (forall x, en_stamp (g x) = en_stamp x) -> forall lo, stamps_from lo l -> stamps_from lo (map g l).
Proof.
  intros Hg. induction l as [|x t IH]; intros lo; cbn [map stamps_from]; [auto|]. rewrite Hg. intros (H1 & H2). split; [exact H1|apply IH; exact H2].
Qed.

Lemma stamps_app l : forall lo x, stamps_from lo l -> Forall (fun y => en_stamp y < en_stamp x) l -> lo <= en_stamp x -> stamps_from lo (l ++ [x]).
Proof.
  induction l as [|y t IH]; intros lo x; cbn [app stamps_from]; [intros _ _ H; split; [exact H|exact I]|].
  intros (H1 & H2) HF Hlo. inversion HF as [|? ? Hy Ht]; subst. split; [exact H1|]. apply IH; [exact H2|exact Ht|lia].
Qed.

Lemma forall_map_stamp (P : N -> Prop) g l : (forall x, en_stamp (g x) = en_stamp x) ->
  Forall (fun x => P (en_stamp x)) l -> Forall (fun x => P (en_stamp x)) (map g l).
Proof. intros Hg H. apply Forall_forall. intros y Hy. apply in_map_iff in Hy. destruct Hy as (x & <- & Hx). rewrite Hg. rewrite Forall_forall in H. apply H. exact Hx. Qed.

Lemma forall_filter {A} (P : A -> Prop) f l : Forall P l -> Forall P (filter f l).
Proof. intros H. apply Forall_forall. intros y Hy. apply filter_In in Hy. rewrite Forall_forall in H. apply H. tauto. Qed.

(* ---------- the generic update of one resource ---------- *)
Definition upd_seq (p : bytes) (h : N -> N) (x : bytes * N) : bytes * N := if bytes_eqb (fst x) p then (fst x, h (snd x)) else x.

Lemma upd_seq_absent p h (l : list (bytes * resource)) : ~ In p (map fst l) ->
  map (upd_seq p h) (map (fun pr => (fst pr, rseq (snd pr))) l) = map (fun pr => (fst pr, rseq (snd pr))) l.
Proof.
  induction l as [|[q r] t IH]; cbn [map fst snd In]; [reflexivity|]. intros Hn. unfold upd_seq at 1. cbn [fst snd].
  assert (bytes_eqb q p = false) as -> by (apply bytes_eqb_false; intro; apply Hn; left; assumption).
  f_equal. apply IH. tauto.
Qed.

Lemma seqs_update_gen p h g l : NoDup (map fst l) ->
  map (fun pr => (fst pr, rseq (snd pr))) (update_res p (fun r => mkRes (h (rseq r)) (g (robs r))) l) =
  map (upd_seq p h) (map (fun pr => (fst pr, rseq (snd pr))) l).
Proof.
  induction l as [|[q r] t IH]; cbn [map fst snd update_res]; [reflexivity|]. intros Hnd. apply NoDup_cons_iff in Hnd. destruct Hnd as (Hn & Ht).
  unfold upd_seq at 1. cbn [fst snd]. rewrite (bytes_eqb_sym q p). destruct (bytes_eqb p q) eqn:E; cbn [map fst snd rseq].
  - apply bytes_eqb_true in E. subst q. f_equal. symmetry. apply upd_seq_absent. exact Hn.
  - f_equal. apply IH. exact Ht.
Qed.

Lemma upd_seq_id p l : map (upd_seq p (fun n => n)) l = l.
Proof. rewrite <- (map_id l) at 2. apply map_ext. intros [q n]. unfold upd_seq. cbn. destruct (bytes_eqb q p); reflexivity. Qed.

Lemma update_const_first p (f : resource -> resource) l r : lookup_res p l = Some r -> update_res p (fun _ => f r) l = update_res p f l.
Proof.
  induction l as [|[q r'] t IH]; cbn [lookup_res update_res]; [discriminate|]. destruct (bytes_eqb p q); [intros [= ->]; reflexivity|].
  intros H. rewrite IH by exact H. reflexivity.
Qed.

Lemma R_update s rs p h g ents' nx :
  R s rs ->
  view p ents' = g (view p (ents rs)) ->
  (forall q, q <> p -> view q ents' = view q (ents rs)) ->
  stamps_from 0 ents' -> Forall (fun x => en_stamp x < nx) ents' ->
  Forall (fun x => In (en_path x) (map fst (res s))) ents' ->
  let s' := mkSubj (update_res p (fun r => mkRes (h (rseq r)) (g (robs r))) (res s)) (limit s) in
  CountInv s' -> Inv s' ->
  R s' (mkR ents' (map (upd_seq p h) (seqs rs)) (rlimit rs) nx).
Proof.
  intros HR Hp Hq Hs Hn Hk s' HC HI. constructor; cbn [limit rlimit seqs ents rnext res s'].
  - exact (R_lim _ _ HR).
  - rewrite (R_seqs _ _ HR). symmetry. apply seqs_update_gen. exact (R_nodup _ _ HR).
  - rewrite map_fst_update. exact (R_nodup _ _ HR).
  - exact Hs.
  - exact Hn.
  - intros q r' Hin. apply in_update_nodup in Hin; [|exact (R_nodup _ _ HR)].
    destruct Hin as [(H1 & H2)|(H1 & r0 & H2 & H3)].
    + rewrite (Hq q H1). apply (R_obs _ _ HR). exact H2.
    + subst q r'. cbn [robs]. rewrite Hp. f_equal. apply (R_obs _ _ HR). exact H2.
  - rewrite map_fst_update. exact Hk.
  - exact HC.
  - exact HI.
Qed.

Lemma NoDup_app_one {A} (l : list A) x : NoDup l -> ~ In x l -> NoDup (l ++ [x]).
Proof.
  induction l as [|y t IH]; cbn [app]; intros Hnd Hn; [constructor; [intros []|constructor]|].
  apply NoDup_cons_iff in Hnd. destruct Hnd as (H1 & H2). constructor.
  - rewrite in_app_iff. cbn [In]. intros [H|[H|[]]]; [exact (H1 H)|apply Hn; left; symmetry; exact H].
  - apply IH; [exact H2|]. intro. apply Hn. right. assumption.
Qed.

Lemma filter_nil {A} (f : A -> bool) l : (forall x, In x l -> f x = false) -> filter f l = [].
Proof. induction l as [|x t IH]; intros H; cbn [filter]; [reflexivity|]. rewrite H by (left; reflexivity). apply IH. intros; apply H; right; assumption. Qed.

(* adding the (empty) resource a registration addresses *)
Lemma R_ensure s rs p : R s rs ->
  R (mkSubj (ensure_res p (res s)) (limit s))
    (mkR (ents rs) (if has_path p (seqs rs) then seqs rs else seqs rs ++ [(p, 0)]) (rlimit rs) (rnext rs)).
Proof.
  intros HR. rewrite (R_seqs _ _ HR), has_path_seqs. unfold ensure_res.
  destruct (lookup_res p (res s)) as [r|] eqn:EL.
  - destruct s as [rl lm]. cbn [res limit] in *.
    constructor; cbn [limit rlimit seqs ents rnext res];
      [exact (R_lim _ _ HR)|reflexivity|exact (R_nodup _ _ HR)|exact (R_sorted _ _ HR)|exact (R_next _ _ HR)
      |exact (R_obs _ _ HR)|exact (R_known _ _ HR)|exact (R_count _ _ HR)|exact (R_inv _ _ HR)].
  - pose proof (lookup_none_notin _ _ EL) as Hnp.
    constructor; cbn [limit rlimit seqs ents rnext res].
    + exact (R_lim _ _ HR).
    + rewrite map_app. reflexivity.
    + rewrite map_app. cbn [map fst]. apply NoDup_app_one; [exact (R_nodup _ _ HR)|exact Hnp].
    + exact (R_sorted _ _ HR).
    + exact (R_next _ _ HR).
    + intros q r' Hin. apply in_app_iff in Hin. destruct Hin as [Hin|[[= <- <-]|[]]].
      * apply (R_obs _ _ HR). exact Hin.
      * cbn [robs]. symmetry. unfold view.
        assert (filter (on_path p) (ents rs) = []) as ->; [|reflexivity].
        apply filter_nil. intros x Hx. apply bytes_eqb_false. intros Hp. apply Hnp.
        pose proof (R_known _ _ HR) as HK. rewrite Forall_forall in HK. rewrite <- Hp. apply HK. exact Hx.
    + rewrite map_app. eapply Forall_impl; [|exact (R_known _ _ HR)]. cbn. intros x Hx. apply in_app_iff. left. exact Hx.
    + destruct (R_count _ _ HR) as (HC1 & HC2). split; [exact HC1|]. cbn [res]. intros q r' x Hin Hx.
      apply in_app_iff in Hin. destruct Hin as [Hin|[[= <- <-]|[]]]; [exact (HC2 q r' x Hin Hx)|destruct Hx].
    + intros q r' Hin. cbn [res] in Hin. apply in_app_iff in Hin. destruct Hin as [Hin|[[= <- <-]|[]]].
      * apply (R_inv _ _ HR q r' Hin).
      * cbn. constructor.
Qed.

Lemma R_init : R subject_default rinit.
Proof.
  constructor.
  - reflexivity.
  - reflexivity.
  - constructor.
  - exact I.
  - constructor.
  - intros p r [].
  - constructor.
  - exact count_default.
  - exact inv_default.
Qed.

Lemma reg_upd_stamp p e tok x : en_stamp (reg_upd p e tok x) = en_stamp x.
Proof. unfold reg_upd. destruct (same p e x); reflexivity. Qed.
Lemma reg_upd_path p e tok x : en_path (reg_upd p e tok x) = en_path x.
Proof. unfold reg_upd. destruct (same p e x) eqn:E; [|reflexivity]. apply same_spec in E. destruct E as (-> & _). reflexivity. Qed.
Lemma bump_e_stamp p mid conf x : en_stamp (bump_e p mid conf x) = en_stamp x.
Proof. unfold bump_e. destruct (bytes_eqb _ _); reflexivity. Qed.
Lemma bump_e_path p mid conf x : en_path (bump_e p mid conf x) = en_path x.
Proof. unfold bump_e. destruct (bytes_eqb _ _); reflexivity. Qed.
Lemma ack_e_stamp e mid x : en_stamp (ack_e e mid x) = en_stamp x.
Proof. unfold ack_e. destruct (_ && _); reflexivity. Qed.
Lemma ack_e_path e mid x : en_path (ack_e e mid x) = en_path x.
Proof. unfold ack_e. destruct (_ && _); reflexivity. Qed.

Lemma forall_map_path (P : bytes -> Prop) g l : (forall x, en_path (g x) = en_path x) ->
  Forall (fun x => P (en_path x)) l -> Forall (fun x => P (en_path x)) (map g l).
Proof. intros Hg H. apply Forall_forall. intros y Hy. apply in_map_iff in Hy. destruct Hy as (x & <- & Hx). rewrite Hg. rewrite Forall_forall in H. apply H. exact Hx. Qed.

Lemma lookup_in_fst p l r : lookup_res p l = Some r -> In p (map fst l).
Proof. intros H. apply lookup_in_eq in H. apply (in_map fst) in H. exact H. Qed.

Lemma sim_step s rs o rs' : R s rs -> op_ok o = true -> rstep rs o = Some rs' ->
  exists s', step s o = Ok s' /\ R s' rs'.
Proof.
  intros HR Hok Hst.
  assert (HCI : forall s', step s o = Ok s' -> CountInv s' /\ Inv s').
  { intros s' E. split; [exact (count_step s o s' Hok (R_count _ _ HR) E)|exact (inv_step s o s' E (R_inv _ _ HR))]. }
  destruct o as [e p tok|e p tok|p mid conf|e mid|l|p q].
  - (* Register *)
    eexists. split; [reflexivity|]. destruct (HCI _ eq_refl) as (HC' & HI'). clear HCI.
    pose proof (R_ensure s rs p HR) as HR1.
    set (s1 := mkSubj (ensure_res p (res s)) (limit s)) in *.
    set (sq := if has_path p (seqs rs) then seqs rs else seqs rs ++ [(p, 0)]) in *.
    set (rs1 := mkR (ents rs) sq (rlimit rs) (rnext rs)) in *.
    assert (Hp1 : In p (map fst (res s1))).
    { cbn [s1 res]. unfold ensure_res. destruct (lookup_res p (res s)) eqn:EL; [exact (lookup_in_fst _ _ _ EL)|].
      rewrite map_app. apply in_app_iff. right. left. reflexivity. }
    assert (Hnd1 : NoDup (eps (view p (ents rs)))).
    { apply in_map_iff in Hp1. destruct Hp1 as ([p' r1] & Hf & Hin1). cbn [fst] in Hf. subst p'.
      pose proof (R_obs _ _ HR1 p r1 Hin1) as HO. cbn [ents rs1] in HO. rewrite <- HO. exact (R_inv _ _ HR1 p r1 Hin1). }
    cbn [rstep] in Hst. fold sq in Hst. rewrite <- (upd_seq_id p sq) in Hst.
    destruct (existsb (same p e) (ents rs)) eqn:EX; injection Hst as <-.
    + apply (R_update s1 rs1 p (fun n => n) (reg_obs (mkObs e tok 0 None)) (map (reg_upd p e tok) (ents rs)) (rnext rs) HR1).
      * apply view_reg_known; [exact Hnd1|]. apply exists_same_view. exact EX.
      * intros q Hq. apply view_reg_other. exact Hq.
      * apply stamps_map; [apply reg_upd_stamp|exact (R_sorted _ _ HR)].
      * apply (forall_map_stamp (fun n => n < rnext rs)); [apply reg_upd_stamp|exact (R_next _ _ HR)].
      * apply (forall_map_path (fun q => In q (map fst (res s1)))); [apply reg_upd_path|exact (R_known _ _ HR1)].
      * exact HC'.
      * exact HI'.
    + assert (Hni : ~ In e (eps (view p (ents rs)))) by (rewrite <- exists_same_view, EX; discriminate).
      apply (R_update s1 rs1 p (fun n => n) (reg_obs (mkObs e tok 0 None)) (ents rs ++ [mkEntry p e tok 0 None (rnext rs)]) (rnext rs + 1) HR1).
      * rewrite view_app. cbn [ents rs1]. rewrite (reg_obs_new (mkObs e tok 0 None) (view p (ents rs)) Hni). f_equal.
        rewrite view_cons, on_path_mk, bytes_eqb_refl'. reflexivity.
      * intros q Hq. rewrite view_app, view_cons, on_path_mk. cbn [ents rs1].
        assert (bytes_eqb p q = false) as -> by (apply bytes_eqb_false; congruence). apply app_nil_r.
      * apply stamps_app; [exact (R_sorted _ _ HR)|exact (R_next _ _ HR)|cbn; lia].
      * apply Forall_app. split; [eapply Forall_impl; [|exact (R_next _ _ HR)]; cbn; intros; lia|constructor; [cbn; lia|constructor]].
      * apply Forall_app. split; [exact (R_known _ _ HR1)|constructor; [exact Hp1|constructor]].
      * exact HC'.
      * exact HI'.
  - (* Deregister *)
    eexists. split; [reflexivity|]. destruct (HCI _ eq_refl) as (HC' & HI'). clear HCI.
    cbn [rstep] in Hst. injection Hst as <-. rewrite <- (upd_seq_id p (seqs rs)).
    destruct (lookup_res p (res s)) as [r0|] eqn:EL.
    + apply (R_update s rs p (fun n => n) (dereg_obs e tok) (filter (dereg_keep p e tok) (ents rs)) (rnext rs) HR).
      * rewrite view_dereg. symmetry. apply dereg_obs_filter.
        apply lookup_in_eq in EL. rewrite <- (R_obs _ _ HR p r0 EL). exact (R_inv _ _ HR p r0 EL).
      * intros q Hq. apply view_dereg_other. exact Hq.
      * apply stamps_filter. exact (R_sorted _ _ HR).
      * apply forall_filter. exact (R_next _ _ HR).
      * apply forall_filter. exact (R_known _ _ HR).
      * exact HC'.
      * exact HI'.
    + (* no such resource: nothing is stored under that path on either side *)
      pose proof (lookup_none_notin _ _ EL) as Hnp.
      assert (HF : filter (dereg_keep p e tok) (ents rs) = ents rs).
      { pose proof (R_known _ _ HR) as HK. rewrite Forall_forall in HK. clear - HK Hnp.
        induction (ents rs) as [|x t IH]; [reflexivity|]. cbn [filter].
        assert (dereg_keep p e tok x = true) as ->.
        { unfold dereg_keep. apply negb_true_iff, andb_false_iff. left. apply not_true_is_false. intro ES. apply same_spec in ES.
          apply Hnp. destruct ES as (<- & _). apply HK. left. reflexivity. }
        f_equal. apply IH. intros y Hy. apply HK. right. exact Hy. }
      change (fun x : entry => negb (same p e x && bytes_eqb (en_tok x) tok)) with (dereg_keep p e tok). rewrite HF.
      rewrite upd_seq_id. rewrite update_absent in * by exact EL.
      destruct s as [rl lm], rs as [en sq rlm nx]. exact HR.
  - (* Changed *)
    cbn [rstep] in Hst. rewrite (R_seqs _ _ HR), has_path_seqs in Hst. cbn [step].
    destruct (lookup_res p (res s)) as [r|] eqn:EL.
    + destruct (existsb _ _) eqn:EX in Hst; [discriminate|]. injection Hst as <-.
      assert (Hseq : rseq r < 4294967295).
      { apply not_true_iff_false in EX. destruct (rseq r <? 4294967295) eqn:E; [lia|]. exfalso. apply EX. apply existsb_exists.
        exists (p, rseq r). split; [|cbn [fst snd]; rewrite bytes_eqb_refl'; cbn [andb]; lia].
        apply in_map_iff. exists (p, r). split; [reflexivity|apply lookup_in_eq; exact EL]. }
      unfold round. replace (U32 <=? rseq r + 1) with false by (unfold U32; lia).
      assert (HE : existsb (fun x => U16 <=? unack x + 1) (robs r) = false).
      { apply not_true_is_false. intro HX. apply existsb_exists in HX. destruct HX as (x & Hx & Hu).
        destruct (R_count _ _ HR) as (_ & HC2). specialize (HC2 p r x (lookup_in_eq _ _ _ EL) Hx). unfold U16 in Hu. lia. }
      rewrite HE, andb_false_r. cbn [bind]. eexists. split; [reflexivity|].
      assert (HS : step s (Changed p mid conf) = Ok (mkSubj (update_res p (fun _ => mkRes (rseq r + 1) (filter (fun x => unack x <=? limit s) (map (bump mid conf) (robs r)))) (res s)) (limit s))).
      { cbn [step]. rewrite EL. unfold round. replace (U32 <=? rseq r + 1) with false by (unfold U32; lia). rewrite HE, andb_false_r. reflexivity. }
      destruct (HCI _ HS) as (HC' & HI'). clear HCI HS.
      rewrite (update_const_first p (fun r => mkRes (rseq r + 1) (filter (fun x => unack x <=? limit s) (map (bump mid conf) (robs r)))) _ _ EL) in *.
      rewrite <- (R_seqs _ _ HR).
      apply (R_update s rs p (fun n => n + 1) (fun l => filter (fun x => unack x <=? limit s) (map (bump mid conf) l))
                      (filter (keep_e p (rlimit rs)) (map (bump_e p mid conf) (ents rs))) (rnext rs) HR).
      * rewrite (R_lim _ _ HR). apply view_changed.
      * intros q Hq. apply view_changed_other. exact Hq.
      * apply stamps_filter, stamps_map; [apply bump_e_stamp|exact (R_sorted _ _ HR)].
      * apply forall_filter, (forall_map_stamp (fun n => n < rnext rs)); [apply bump_e_stamp|exact (R_next _ _ HR)].
      * apply forall_filter, (forall_map_path (fun q => In q (map fst (res s)))); [apply bump_e_path|exact (R_known _ _ HR)].
      * exact HC'.
      * exact HI'.
    + injection Hst as <-. exists s. split; [reflexivity|exact HR].
  - (* Ack *)
    eexists. split; [reflexivity|]. destruct (HCI _ eq_refl) as (HC' & HI'). clear HCI.
    cbn [rstep] in Hst. injection Hst as <-.
    constructor; cbn [limit rlimit seqs ents rnext res].
    + exact (R_lim _ _ HR).
    + rewrite (R_seqs _ _ HR), map_map. reflexivity.
    + rewrite map_map. cbn [fst]. exact (R_nodup _ _ HR).
    + apply (stamps_map (ack_e e mid)); [apply ack_e_stamp|exact (R_sorted _ _ HR)].
    + apply (forall_map_stamp (fun n => n < rnext rs) (ack_e e mid)); [apply ack_e_stamp|exact (R_next _ _ HR)].
    + intros q r' Hin. apply in_map_iff in Hin. destruct Hin as ([q0 r0] & [= <- <-] & Hin). cbn [fst snd robs].
      change (map _ (ents rs)) with (map (ack_e e mid) (ents rs)). rewrite view_ack.
      rewrite <- (R_obs _ _ HR q0 r0 Hin). apply ack_obs_spec. exact (R_inv _ _ HR q0 r0 Hin).
    + rewrite map_map. cbn [fst]. apply (forall_map_path (fun q => In q (map fst (res s))) (ack_e e mid)); [apply ack_e_path|exact (R_known _ _ HR)].
    + exact HC'.
    + exact HI'.
  - (* SetLimit *)
    eexists. split; [reflexivity|]. destruct (HCI _ eq_refl) as (HC' & HI'). clear HCI.
    cbn [rstep] in Hst. injection Hst as <-.
    constructor; cbn [limit rlimit seqs ents rnext res];
      [reflexivity|exact (R_seqs _ _ HR)|exact (R_nodup _ _ HR)|exact (R_sorted _ _ HR)|exact (R_next _ _ HR)
      |exact (R_obs _ _ HR)|exact (R_known _ _ HR)|exact HC'|exact HI'].
  - (* SetSeq *)
    eexists. split; [reflexivity|]. destruct (HCI _ eq_refl) as (HC' & HI'). clear HCI.
    cbn [rstep] in Hst. injection Hst as <-.
    apply (R_update s rs p (fun _ => q) (fun l => l) (ents rs) (rnext rs) HR);
      [reflexivity|reflexivity|exact (R_sorted _ _ HR)|exact (R_next _ _ HR)|exact (R_known _ _ HR)|exact HC'|exact HI'].
Qed.

(* ---------- every history: the model's printed states are the reference's ---------- *)
Theorem model_refines_reference ops : forall s rs e, R s rs -> forallb op_ok ops = true ->
  rrun rs ops = (e, false) -> run_hist s ops = e.
Proof.
  induction ops as [|o r IH]; intros s rs e HR Hok; cbn [rrun run_hist].
  - intros [= <-]. reflexivity.
  - cbn [forallb] in Hok. apply andb_true_iff in Hok. destruct Hok as (Ho & Hr).
    destruct (rstep rs o) as [rs'|] eqn:ES; [|discriminate].
    destruct (sim_step s rs o rs' HR Ho ES) as (s' & E1 & HR'). rewrite E1.
    destruct (rrun rs' r) as [d k] eqn:ER. intros HE. apply pair_equal_spec in HE. destruct HE as (HE1 & HE2). subst k. rewrite <- HE1.
    rewrite (dump_eq _ _ HR'). f_equal. exact (IH s' rs' d HR' Hr ER).
Qed.

Lemma list_eqb_refl l : list_eqb N.eqb l l = true.
Proof. induction l as [|x t IH]; cbn [list_eqb]; [reflexivity|]. rewrite N.eqb_refl. exact IH. Qed.

(* the model passes the suite-140 oracle on every input outside the known-finding class *)
Theorem model_passes_oracle140 s : known140 s = 0 -> verdict140 s (run140 s) = true.
Proof.
  unfold known140, verdict140, run140, in_domain140.
  destruct (rd_list rd_obs_op s) as [[ops [|x rest]]|] eqn:ERD; try reflexivity.
  destruct (forallb op_ok ops) eqn:EO; [|reflexivity].
  destruct (rrun rinit ops) as [e k] eqn:ER. cbn [snd]. destruct k; [discriminate|]. intros _.
  rewrite (model_refines_reference ops subject_default rinit e R_init EO ER). apply list_eqb_refl.
Qed.

(* P01.v -- assembly of the codec theorems C01..C04 from PWire/PEnc/PDec. *)
From CoapV Require Import proofs.Tac Header Packet WireSpec Encode Decode PacketOps Suite01
  proofs.PWire proofs.PEnc proofs.PDec.

(* ---------- the reference parser accepts every wire image ---------- *)
Lemma ref_parse_wire m : amsg_wf m ->
  let odd := negb (a_ver m =? 1)
             || ((a_code m =? 0) && negb (len (wire_image m) =? 4)) in
  ref_parse (wire_image m) = if odd then Either m else MustAccept m.
Proof.
  intros (Hv & Ht & Hk8 & Hkw & Hc & Hm & Hasc & Hpw). cbv zeta.
  unfold ref_parse. unfold wire_image at 1. unfold wire_header. cbn [app].
  set (b0 := a_ver m * 64 + a_type m * 16 + len (a_token m)).
  replace (b0 mod 16) with (len (a_token m)) by (unfold b0; lia).
  replace (8 <? len (a_token m)) with false by lia.
  rewrite split_at_app.
  rewrite ref_opts_wire; [|exact Hasc|lia].
  replace (b0 / 64) with (a_ver m) by (unfold b0; lia).
  replace ((b0 / 16) mod 4) with (a_type m) by (unfold b0; lia).
  replace (a_mid m / 256 * 256 + a_mid m mod 256) with (a_mid m) by lia.
  assert (Hpl : match wire_payload (a_payload m) with [] => [] | _ :: p => p end = a_payload m)
    by (unfold wire_payload; destruct (a_payload m); reflexivity).
  rewrite Hpl.
  assert (Hs : match wire_payload (a_payload m) with [_] => true | _ => false end = false)
    by (unfold wire_payload; destruct (a_payload m); reflexivity).
  rewrite Hs. rewrite orb_false_r.
  change (b0 :: a_code m :: a_mid m / 256 :: a_mid m mod 256
          :: a_token m ++ wire_opts 0 (a_opts m) ++ wire_payload (a_payload m)) with (wire_image m).
  destruct m; reflexivity.
Qed.

Lemma from_bytes_lenient bs m : bytes_wf bs ->
  (ref_parse bs = MustAccept m \/ ref_parse bs = Either m) ->
  exists p, from_bytes lenient bs = Ok p /\ view p = m /\ pkt_wf p.
Proof.
  intros Hw H. pose proof (from_bytes_ref lenient bs Hw) as R.
  destruct H as [H|H]; rewrite H in R; [exact R|].
  destruct R as [R|[R _]]; [exact R|discriminate].
Qed.

Lemma wire_image_wf m : amsg_wf m -> bytes_wf (wire_image m).
Proof.
  intros (Hv & Ht & Hk8 & Hkw & Hc & Hm & Hasc & Hpw).
  unfold wire_image, wire_header, wire_payload.
  repeat (apply bytes_wf_app; split); auto.
  - repeat (apply bytes_wf_cons; split); try lia. constructor.
  - apply wire_opts_wf. exact Hasc.
  - destruct (a_payload m); [constructor|]. apply bytes_wf_cons. split; [lia|exact Hpw].
Qed.

Theorem decode_inverts_wire_image m : amsg_wf m ->
  exists p', from_bytes lenient (wire_image m) = Ok p' /\ view p' = m /\ pkt_wf p'.
Proof.
  intros H. apply from_bytes_lenient; [apply wire_image_wf; exact H|].
  rewrite ref_parse_wire by exact H. destruct (_ || _); auto.
Qed.

(* strictly conformant messages are accepted under every policy *)
Theorem accepts_conformant pol m : amsg_wf m -> a_ver m = 1 ->
  (a_code m = 0 -> a_token m = [] /\ a_opts m = [] /\ a_payload m = []) ->
  exists p, from_bytes pol (wire_image m) = Ok p /\ view p = m /\ pkt_wf p.
Proof.
  intros H Hv Hc. pose proof (from_bytes_ref pol (wire_image m) (wire_image_wf m H)) as R.
  rewrite ref_parse_wire in R by exact H. rewrite Hv in R. change (negb (1 =? 1)) with false in R.
  cbn [orb] in R.
  destruct (a_code m =? 0) eqn:E; cbn [andb] in R; [|exact R].
  destruct (Hc ltac:(lia)) as (Ht & Ho & Hp).
  assert (len (wire_image m) = 4) as HL.
  { rewrite wire_image_len. unfold wire_len. rewrite Ht, Ho, Hp. reflexivity. }
  rewrite HL in R. exact R.
Qed.

(* ---------- amsg_wf of what a well-formed packet denotes ---------- *)
Lemma abs_wf p : pkt_wf p -> amsg_wf (abs p).
Proof.
  intros (Hv & Ht & Ht8 & Htw & Hc & Hm & Hk & Hpw). unfold amsg_wf, abs.
  cbn [a_ver a_type a_token a_code a_mid a_opts a_payload].
  destruct (flatten_ascending (opts p) 0 Hk) as (Hasc & _).
  repeat split; auto; try lia.
  destruct (mclass_eqb (code (hdr p)) Empty); [constructor|exact Hpw].
Qed.

Theorem roundtrip p : pkt_wf p ->
  exists bs p', to_bytes_unlimited p = Ok bs /\ bs = wire_image (abs p) /\
                from_bytes lenient bs = Ok p' /\ view p' = abs p.
Proof.
  intros H. unfold to_bytes_unlimited. rewrite to_bytes_internal_spec by exact H.
  destruct (decode_inverts_wire_image (abs p) (abs_wf p H)) as (p' & E & V & _).
  exists (wire_image (abs p)), p'. auto.
Qed.

(* ---------- C02: decode then encode ---------- *)
Lemma bytes_eqb_refl l : bytes_eqb l l = true.
Proof. unfold bytes_eqb. induction l as [|x l IH]; cbn [list_eqb]; [reflexivity|]. rewrite N.eqb_refl, IH. reflexivity. Qed.

Lemma ref_parse_shape bs m : bytes_wf bs ->
  (ref_parse bs = MustAccept m \/ ref_parse bs = Either m) ->
  exists tail, bs = wire_header m ++ a_token m ++ wire_opts 0 (a_opts m) ++ tail /\
               (tail = [] /\ a_payload m = [] \/ tail = 255 :: a_payload m) /\ a_code m < 256.
Proof.
  intros Hwf H. unfold ref_parse in H.
  destruct bs as [|b0 [|c [|m1 [|m2 r]]]]; try (destruct H; discriminate).
  apply bytes_wf_cons in Hwf. destruct Hwf as (Hb0 & Hwf).
  apply bytes_wf_cons in Hwf. destruct Hwf as (Hc & Hwf).
  apply bytes_wf_cons in Hwf. destruct Hwf as (Hm1 & Hwf).
  apply bytes_wf_cons in Hwf. destruct Hwf as (Hm2 & Hwr).
  destruct (8 <? b0 mod 16) eqn:E8; [destruct H; discriminate|].
  destruct (split_at (b0 mod 16) r) as [[tok r1]|] eqn:ES; [|destruct H; discriminate].
  destruct (ref_opts (S (length r1)) r1 0 []) as [[os tail]|] eqn:ER; [|destruct H; discriminate].
  apply split_at_inv in ES. destruct ES as (-> & Htl).
  apply bytes_wf_app in Hwr. destruct Hwr as (Hwt & Hwr1).
  apply ref_opts_inv in ER; [|exact Hwr1]. destruct ER as (l & Hl & -> & Hasc & Htail & Hwtl).
  cbn [rev app] in Hl. subst l.
  set (mm := mkAmsg (b0 / 64) ((b0 / 16) mod 4) tok c (m1 * 256 + m2) os
                    (match tail with [] => [] | _ :: p => p end)) in *.
  assert (m = mm) as -> by (destruct (_ || _); destruct H as [H|H]; congruence).
  exists tail. unfold mm, wire_header. cbn [a_ver a_type a_token a_code a_mid a_opts a_payload].
  split; [|split; [|exact Hc]].
  - cbn [app]. f_equal; [lia|]. f_equal. f_equal; [lia|]. f_equal. lia.
  - destruct Htail as [->|(t & ->)]; auto.
Qed.

Theorem decode_then_encode pol bs p : bytes_wf bs -> from_bytes pol bs = Ok p ->
  exists bs', to_bytes_unlimited p = Ok bs' /\ canonb bs bs' = true.
Proof.
  intros Hwf Hd. pose proof (from_bytes_ref pol bs Hwf) as R.
  assert (exists m, (ref_parse bs = MustAccept m \/ ref_parse bs = Either m) /\ view p = m /\ pkt_wf p) as (m & Hm & Hv & Hp).
  { destruct (ref_parse bs) as [m|m|] eqn:E.
    - destruct R as (p' & E' & V & W). rewrite Hd in E'. injection E' as <-. eauto.
    - destruct R as [(p' & E' & V & W)|(_ & e & E')]; [|congruence]. rewrite Hd in E'. injection E' as <-. eauto.
    - destruct R as (e & E'). congruence. }
  exists (wire_image (abs p)). split.
  { unfold to_bytes_unlimited. rewrite to_bytes_internal_spec by exact Hp. reflexivity. }
  destruct (ref_parse_shape bs m Hwf Hm) as (tail & Hbs & Htail & Hc256).
  unfold canonb.
  assert (Habs : abs p = mkAmsg (a_ver m) (a_type m) (a_token m) (a_code m) (a_mid m) (a_opts m)
                               (if mclass_eqb (code (hdr p)) Empty then [] else a_payload m)).
  { rewrite <- Hv. reflexivity. }
  unfold wire_image. rewrite Habs. cbn [a_ver a_type a_token a_code a_mid a_opts a_payload].
  change (wire_header {| a_ver := a_ver m; a_type := a_type m; a_token := a_token m; a_code := a_code m;
            a_mid := a_mid m; a_opts := a_opts m;
            a_payload := if mclass_eqb (code (hdr p)) Empty then [] else a_payload m |})
    with (wire_header m).
  destruct (mclass_eqb (code (hdr p)) Empty) eqn:EE.
  - (* 0.00: everything after the options is dropped *)
    apply mclass_eqb_empty in EE.
    assert (a_code m = 0) as Hc0 by (rewrite <- Hv; unfold view; cbn [a_code]; rewrite EE; reflexivity).
    cbn [wire_payload]. rewrite app_nil_r.
    set (pre := wire_header m ++ a_token m ++ wire_opts 0 (a_opts m)).
    assert (Hbs' : bs = pre ++ tail) by (unfold pre; rewrite Hbs, <- !app_assoc; reflexivity).
    apply orb_true_iff. right.
    assert (exists x y z, bs = x :: a_code m :: y :: z) as (x & y & z & Hx).
    { rewrite Hbs. unfold wire_header. cbn [app]. eauto. }
    rewrite Hx at 1. rewrite Hc0. change (0 =? 0) with true. cbn [andb].
    rewrite Hbs', len_app. replace (len pre <=? len pre + len tail) with true by lia. cbn [andb].
    rewrite take_app_len, drop_app_len, bytes_eqb_refl. cbn [andb].
    destruct Htail as [(-> & _)| ->]; [reflexivity|]. reflexivity.
  - destruct Htail as [(-> & Hpl)| ->].
    + rewrite Hpl. cbn [wire_payload]. rewrite Hbs. rewrite bytes_eqb_refl. reflexivity.
    + rewrite Hbs. destruct (a_payload m) as [|b pl] eqn:Epl; cbn [wire_payload].
      * apply orb_true_iff. left. apply orb_true_iff. right.
        rewrite app_nil_r. rewrite <- !app_assoc. apply bytes_eqb_refl.
      * rewrite bytes_eqb_refl. reflexivity.
Qed.

Lemma bytes_eqb_eq a : forall b, bytes_eqb a b = true -> a = b.
Proof.
  unfold bytes_eqb. induction a as [|x a IH]; intros [|y b]; cbn [list_eqb]; try discriminate; [reflexivity|].
  intros H. apply andb_true_iff in H. destruct H as (H1 & H2). f_equal; [lia|auto].
Qed.

Corollary decode_injective pol b1 b2 p : bytes_wf b1 -> bytes_wf b2 ->
  from_bytes pol b1 = Ok p -> from_bytes pol b2 = Ok p ->
  exists c, canonb b1 c = true /\ canonb b2 c = true.
Proof.
  intros W1 W2 D1 D2.
  destruct (decode_then_encode pol b1 p W1 D1) as (c1 & E1 & C1).
  destruct (decode_then_encode pol b2 p W2 D2) as (c2 & E2 & C2).
  rewrite E1 in E2. injection E2 as <-. eauto.
Qed.

(* ---------- C03: totality ---------- *)
Theorem from_bytes_total pol bs : bytes_wf bs -> forall s, from_bytes pol bs <> Panic s.
Proof.
  intros Hw s. pose proof (from_bytes_ref pol bs Hw) as R.
  destruct (ref_parse bs).
  - destruct R as (p & -> & _). discriminate.
  - destruct R as [(p & -> & _)|(_ & e & ->)]; discriminate.
  - destruct R as (e & ->). discriminate.
Qed.

(* ---------- every state the public API builds is well formed ---------- *)
Lemma opt_insert_keys m : forall lo k vs, keys_above lo m -> lo <= k -> k < 65536 ->
  Forall (fun v => len v <= MAX_EXT /\ bytes_wf v) vs -> keys_above lo (opt_insert m k vs).
Proof.
  induction m as [|[k' vs'] r IH]; intros lo k vs Hka Hlo Hk Hf; cbn [opt_insert keys_above].
  - auto.
  - cbn [keys_above] in Hka. destruct Hka as (H1 & H2 & H3 & H4).
    destruct (k =? k') eqn:E1.
    + assert (k = k') by lia. subst. cbn [keys_above]. auto.
    + destruct (k <? k') eqn:E2; cbn [keys_above].
      * repeat split; auto. lia.
      * repeat split; auto. apply IH; auto. lia.
Qed.

Lemma opt_get_wf m : forall lo k vs, keys_above lo m -> opt_get m k = Some vs ->
  Forall (fun v => len v <= MAX_EXT /\ bytes_wf v) vs.
Proof.
  induction m as [|[k' vs'] r IH]; intros lo k vs Hka; cbn [opt_get]; [discriminate|].
  cbn [keys_above] in Hka. destruct Hka as (H1 & H2 & H3 & H4).
  destruct (k' =? k); [intros [= <-]; exact H3|]. destruct (k <? k'); [discriminate|]. eapply IH; eauto.
Qed.

Lemma forallb_bytes_wf v : forallb (fun b => b <? 256) v = true -> bytes_wf v.
Proof. intros H. rewrite forallb_forall in H. apply Forall_forall. intros x Hx. specialize (H x Hx). lia. Qed.

Lemma apply_op_wf p o p' : pkt_wf p -> op_wf o = true -> apply_op p o = Ok p' -> pkt_wf p'.
Proof.
  intros (Hv & Ht & Ht8 & Htw & Hc & Hm & Hk & Hpw) Ho.
  destruct o as [v|t|c|m|t|b|k v|k vs|k| |t]; cbn [apply_op op_wf] in *.
  - intros [= <-]. unfold pkt_wf, set_hdr, set_version. cbn [hdr vtt code mid token opts payload].
    repeat split; auto; lia.
  - intros [= <-]. unfold pkt_wf, set_hdr, set_type. cbn [hdr vtt code mid token opts payload].
    assert (type_bits (type_of_bits t) < 4) by (destruct (type_of_bits t); cbn; lia).
    repeat split; auto; lia.
  - intros [= <-]. unfold pkt_wf, set_code, set_hdr. cbn [hdr vtt code mid token opts payload].
    repeat split; auto; lia.
  - intros [= <-]. unfold pkt_wf, set_mid, set_hdr. cbn [hdr vtt code mid token opts payload].
    repeat split; auto; lia.
  - apply andb_true_iff in Ho. destruct Ho as (Ho1 & Ho2). apply forallb_bytes_wf in Ho2.
    unfold set_token, set_token_length.
    replace (len t mod 256 <? 16) with true by lia. cbn [bind]. intros [= <-].
    unfold pkt_wf. cbn [hdr vtt code mid token opts payload]. repeat split; auto; lia.
  - apply forallb_bytes_wf in Ho. intros [= <-].
    unfold pkt_wf, set_payload. cbn [hdr vtt code mid token opts payload]. repeat split; auto.
  - apply andb_true_iff in Ho. destruct Ho as (Ho & Ho3). apply andb_true_iff in Ho. destruct Ho as (Ho1 & Ho2).
    apply forallb_bytes_wf in Ho3. intros [= <-].
    unfold pkt_wf, add_option, set_opts. cbn [hdr vtt code mid token opts payload]. repeat split; auto.
    unfold opt_add. destruct (opt_get (opts p) k) as [vs|] eqn:EG.
    + apply opt_insert_keys; auto; try lia. apply Forall_app. split; [eapply opt_get_wf; eauto|].
      constructor; [split; [lia|auto]|constructor].
    + apply opt_insert_keys; auto; try lia. constructor; [split; [lia|auto]|constructor].
  - apply andb_true_iff in Ho. destruct Ho as (Ho1 & Ho2). intros [= <-].
    unfold pkt_wf, set_option, set_opts. cbn [hdr vtt code mid token opts payload]. repeat split; auto.
    apply opt_insert_keys; auto; try lia. rewrite forallb_forall in Ho2. apply Forall_forall. intros v Hv'.
    specialize (Ho2 v Hv'). apply andb_true_iff in Ho2. destruct Ho2 as (A & B). apply forallb_bytes_wf in B.
    split; [lia|auto].
  - intros [= <-]. unfold pkt_wf, clear_option, set_opts. cbn [hdr vtt code mid token opts payload]. repeat split; auto.
    unfold opt_clear. destruct (opt_get (opts p) k); [|exact Hk]. apply opt_insert_keys; auto; lia.
  - intros [= <-]. unfold pkt_wf, clear_all_options, set_opts. cbn [hdr vtt code mid token opts payload]. repeat split; auto.
  - apply andb_true_iff in Ho. destruct Ho as (Ho1 & Ho2). apply forallb_bytes_wf in Ho2.
    unfold set_token, set_token_length, set_hdr, header_new. cbn [hdr vtt code mid token opts payload].
    replace (len t mod 256 <? 16) with true by lia. cbn [bind]. intros [= <-].
    unfold pkt_wf. cbn [hdr vtt code mid token opts payload class_to_byte]. repeat split; auto; try lia.
Qed.

Lemma packet_new_wf : pkt_wf packet_new.
Proof. unfold pkt_wf, packet_new, header_new. cbn. repeat split; try lia; try constructor. Qed.

Lemma run_ops_wf ops : forall p p', pkt_wf p -> ops_wf ops = true -> run_ops p ops = Ok p' -> pkt_wf p'.
Proof.
  induction ops as [|o ops IH]; intros p p' Hp Ho; cbn [run_ops].
  - intros [= <-]. exact Hp.
  - cbn [ops_wf forallb] in Ho. apply andb_true_iff in Ho. destruct Ho as (Ho1 & Ho2).
    destruct (apply_op p o) as [p1|e|s] eqn:E; cbn [bind]; try discriminate.
    apply IH; [eapply apply_op_wf; eauto|exact Ho2].
Qed.

(* a well-formed call sequence never fails or panics *)
Lemma run_ops_ok ops : forall p, ops_wf ops = true -> exists p', run_ops p ops = Ok p'.
Proof.
  induction ops as [|o ops IH]; intros p Ho; cbn [run_ops]; [eauto|].
  cbn [ops_wf forallb] in Ho. apply andb_true_iff in Ho. destruct Ho as (Ho1 & Ho2).
  assert (exists p1, apply_op p o = Ok p1) as (p1 & ->).
  { destruct o; cbn [apply_op]; eauto; cbn [op_wf] in Ho1; apply andb_true_iff in Ho1; destruct Ho1 as (A & _);
    unfold set_token, set_token_length; replace (len t mod 256 <? 16) with true by lia; cbn [bind]; eauto. }
  cbn [bind]. apply IH. exact Ho2.
Qed.

Theorem api_roundtrip ops : ops_wf ops = true ->
  exists p bs p', run_ops packet_new ops = Ok p /\ pkt_wf p /\
    to_bytes_unlimited p = Ok bs /\ bs = wire_image (abs p) /\
    from_bytes lenient bs = Ok p' /\ view p' = abs p.
Proof.
  intros Ho. destruct (run_ops_ok ops packet_new Ho) as (p & E).
  pose proof (run_ops_wf ops packet_new p packet_new_wf Ho E) as Hp.
  destruct (roundtrip p Hp) as (bs & p' & A & B & C & D).
  exists p, bs, p'. split; [exact E|]. split; [exact Hp|]. split; [exact A|]. split; [exact B|]. split; [exact C|exact D].
Qed.

(* ---------- C04: an over-long option value is refused ---------- *)
Fixpoint nums_asc (prev : N) (l : list (N * bytes)) : Prop :=
  match l with [] => True | (n, _) :: r => prev <= n /\ nums_asc n r end.

Lemma enc_opts_no_panic l : forall prev acc s, nums_asc prev l -> enc_opts prev l acc <> Panic s.
Proof.
  induction l as [|[n v] l IH]; intros prev acc s; cbn [nums_asc enc_opts]; [discriminate|].
  intros (Hp & Ha). replace (n <? prev) with false by lia.
  destruct (enc_opt_header (n - prev) (len v)) as [h|e|s'] eqn:E; cbn [bind]; [apply IH; exact Ha|discriminate|].
  exfalso. eapply enc_opt_header_no_panic. exact E.
Qed.

Theorem oversize_refused p lim : nums_asc 0 (flatten (opts p)) -> value_too_long p = true ->
  exists e, to_bytes_internal p lim = Err e.
Proof.
  intros Ha Hl. unfold to_bytes_internal.
  destruct (enc_opts_too_long (flatten (opts p)) 0 [] Hl) as (e & ->).
  - intros s. apply enc_opts_no_panic. exact Ha.
  - exists e. reflexivity.
Qed.

(* the serialiser never panics on a state whose option numbers ascend (every BTreeMap state) *)
Theorem to_bytes_no_panic p lim s : nums_asc 0 (flatten (opts p)) -> to_bytes_internal p lim <> Panic s.
Proof.
  intros Ha. unfold to_bytes_internal.
  destruct (enc_opts 0 (flatten (opts p)) []) as [ob|e|s'] eqn:E; cbn [bind].
  - destruct (match lim with Some l => _ | None => false end); [discriminate|].
    destruct (_ <? 4); discriminate.
  - discriminate.
  - exfalso. eapply enc_opts_no_panic; eauto.
Qed.

(* P15c.v -- C15: create_notification passes the suite-150 oracle on every input. *)
From CoapV Require Import proofs.Tac Header Packet UintOpt Numbers TypedOpt Observe Suite14 proofs.P14 proofs.P14b.

Theorem model_passes_oracle150 s : verdict150 s (run150 s) = true.
Proof.
  unfold verdict150. destruct (in_domain150 s) eqn:ED; [|reflexivity].
  unfold in_domain150, run150 in *. destruct s as [|mid [|c [|seq r]]]; try discriminate.
  destruct (rd_bytes r) as [[tok r1]|]; [|discriminate]. destruct (rd_bytes r1) as [[pl [|? ?]]|]; try discriminate.
  apply andb_true_iff in ED. destruct ED as (ED & E4). apply andb_true_iff in ED. destruct ED as (ED & E3).
  apply andb_true_iff in ED. destruct ED as (E1 & E2).
  rewrite notification_spec by lia.
  assert ((if negb (c =? 0) then 0 else 16) = (if c =? 0 then 16 else 0)) as -> by (destruct (c =? 0); reflexivity).
  apply list_eqb_refl.
Qed.

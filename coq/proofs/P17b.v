(* P17b.v -- C17: the parser model passes the suite-170 oracle on EVERY input string: driving the three iterators to
   completion over any document yields slices that are the input's content at the offsets reported, left to right
   and without overlap through the whole document (not just within one item), nothing after an error, and equal
   unquoted forms. *)
From CoapV Require Import proofs.Tac LinkFormat Suite16 proofs.P17 proofs.P01c proofs.P14b.

Ltac norm := repeat (progress (repeat rewrite <- app_assoc; cbn [app])).

Lemma str_eqb_refl x : str_eqb x x = true.
Proof. apply list_eqb_refl. Qed.

Lemma slice_at_nil inp : slice_at inp 0 [] = true.
Proof. unfold slice_at. change (take (len (@nil N)) (drop 0 inp)) with (@nil N). change (str_eqb [] []) with true. cbn [andb]. apply N.leb_le. change (len (@nil N)) with 0. lia. Qed.

Lemma slice_at_mid inp a b c : inp = a ++ b ++ c -> slice_at inp (len a) b = true.
Proof.
  intros ->. unfold slice_at. rewrite take_drop_mid, str_eqb_refl. cbn [andb]. rewrite !len_app. apply N.leb_le. lia.
Qed.

Lemma slice_eoff inp a b c base : inp = a ++ b ++ c -> len a = base -> slice_at inp (eoff b base) b = true.
Proof.
  intros H <-. destruct b as [|x b]; [apply slice_at_nil|]. cbn [eoff]. apply (slice_at_mid inp a (x :: b) c H).
Qed.

(* ---------- attributes of one link ---------- *)
Lemma check_attrs_items : forall fuel inp pre s post base lo rest,
  inp = pre ++ s ++ post -> len pre = base -> lo <= base ->
  exists hi, check_attrs (length (attrs_all fuel base s)) inp lo (concat (attrs_all fuel base s) ++ rest) = Some (hi, rest)
             /\ hi <= base + len s.
Proof.
  induction fuel as [|f IH]; intros inp pre s post base lo rest Hinp Hpre Hlo.
  { exists lo. split; [reflexivity|lia]. }
  cbn [attrs_all]. destruct (attr_next s) as [[it r]|] eqn:EN; [|exists lo; split; [reflexivity|lia]].
  destruct (attr_next_substrings _ _ _ EN) as (x & y & z & Hs & Hk & Hv).
  assert (Hlen : len s = len x + len (akey it) + len y + len (aval it) + len z + len r).
  { rewrite Hs at 1. rewrite !len_app. lia. }
  destruct (IH inp (pre ++ x ++ akey it ++ y ++ aval it ++ z) r post (base + (len s - len r))
              (match aval it with [] => match akey it with [] => lo | _ => eoff (akey it) (base + koff it) + len (akey it) end
                                | _ => eoff (aval it) (base + voff it) + len (aval it) end) rest) as (hi & Hc & Hhi).
  { rewrite Hinp, Hs. norm. reflexivity. }
  { rewrite !len_app. lia. }
  { destruct (aval it) as [|v0 vr] eqn:EV.
    - destruct (akey it) as [|k0 kr] eqn:EK; [lia|]. cbn [eoff]. lia.
    - cbn [eoff]. rewrite Hv by discriminate. lia. }
  exists hi. split; [|lia].
  cbn [length concat check_attrs]. rewrite to_cow_eq. cbn [wr_cow]. norm.
  rewrite rd_bytes_wr. norm. rewrite rd_bytes_wr. norm. rewrite rd_bytes_wr. norm. rewrite N.eqb_refl, rd_bytes_wr.
  assert (S1 : slice_at inp (eoff (akey it) (base + koff it)) (akey it) = true).
  { apply (slice_eoff inp (pre ++ x) (akey it) (y ++ aval it ++ z ++ r ++ post)).
    - rewrite Hinp, Hs. norm. reflexivity.
    - rewrite len_app. lia. }
  rewrite S1, str_eqb_refl. cbn [andb].
  assert (S2 : match akey it with [] => true | _ => lo <=? eoff (akey it) (base + koff it) end = true).
  { destruct (akey it); [reflexivity|]. cbn [eoff]. apply N.leb_le. lia. }
  rewrite S2. cbn [andb].
  assert (S3 : match aval it with
               | [] => true
               | _ => slice_at inp (eoff (aval it) (base + voff it)) (aval it)
                      && (match akey it with [] => lo | _ => eoff (akey it) (base + koff it) + len (akey it) end
                          <=? eoff (aval it) (base + voff it))
               end = true).
  { destruct (aval it) as [|v0 vr] eqn:EV; [reflexivity|]. rewrite <- EV in *.
    assert (HV : voff it = len x + len (akey it) + len y) by (apply Hv; rewrite EV; discriminate).
    rewrite (slice_eoff inp (pre ++ x ++ akey it ++ y) (aval it) (z ++ r ++ post)).
    - cbn [andb]. rewrite EV. cbn [eoff]. apply N.leb_le.
      destruct (akey it) as [|k0 kr]; [lia|]. cbn [eoff]. lia.
    - rewrite Hinp, Hs. norm. reflexivity.
    - rewrite !len_app. lia. }
  rewrite S3. cbn [andb].
  rewrite <- Hc. f_equal.
Qed.

Lemma parse_all_nil f base : parse_all f base [] = [].
Proof. destruct f; reflexivity. Qed.

Lemma link_err_last s r : link_next s = Some (LErr, r) -> r = [].
Proof.
  unfold link_next. destruct s as [|c0 s0]; [discriminate|].
  destruct (skip_to_lt (c0 :: s0) 0) as [| |off r1]; [discriminate|intros [= <-]; reflexivity|].
  destruct (scan_to GT r1) as [p r2]. destruct (scan_quoted COMMA r2 false) as [q r3]. discriminate.
Qed.

(* ---------- the whole document ---------- *)
Lemma check_links_parse : forall f inp pre s base lo, inp = pre ++ s -> len pre = base -> lo <= base ->
  forall fuel, (length (parse_all f base s) < fuel)%nat -> check_links fuel inp lo (parse_all f base s) = true.
Proof.
  induction f as [|f IH]; intros inp pre s base lo Hinp Hpre Hlo fuel Hf.
  { destruct fuel; [cbn in Hf; lia|reflexivity]. }
  cbn [parse_all] in *. destruct (link_next s) as [[[|loff l aoff a] r]|] eqn:EN.
  - apply link_err_last in EN. subst r. rewrite parse_all_nil in *. destruct fuel; [cbn in Hf; lia|reflexivity].
  - destruct (link_next_substrings _ _ _ _ _ _ EN) as (x & y & z & Hs & Hl & Ha).
    assert (Hlen : len s = len x + len l + len y + len a + len z + len r).
    { rewrite Hs at 1. rewrite !len_app. lia. }
    destruct fuel as [|fuel']; [lia|].
    set (items := attrs_all (S (length a)) (base + aoff) a) in *.
    set (tail := parse_all f (base + (len s - len r)) r) in *.
    assert (Hft : (length tail < fuel')%nat).
    { revert Hf. cbn [app length]. rewrite app_length. lia. }
    cbn [check_links]. norm. cbn [check_links]. rewrite rd_bytes_wr. norm. rewrite rd_bytes_wr. norm.
    assert (S1 : slice_at inp (eoff l (base + loff)) l = true).
    { apply (slice_eoff inp (pre ++ x) l (y ++ a ++ z ++ r)).
      - rewrite Hinp, Hs. norm. reflexivity.
      - rewrite len_app. lia. }
    assert (S2 : match l with [] => true | _ => lo <=? eoff l (base + loff) end = true).
    { destruct l; [reflexivity|]. cbn [eoff]. apply N.leb_le. lia. }
    assert (S3 : slice_at inp (eoff a (base + aoff)) a = true).
    { apply (slice_eoff inp (pre ++ x ++ l ++ y) a (z ++ r)).
      - rewrite Hinp, Hs. norm. reflexivity.
      - rewrite !len_app. lia. }
    assert (S4 : match a with [] => true
                 | _ => match l with [] => lo | _ => eoff l (base + loff) + len l end <=? eoff a (base + aoff) end = true).
    { destruct a as [|a0 ar]; [reflexivity|]. cbn [eoff]. apply N.leb_le. destruct l; [lia|]. cbn [eoff]. lia. }
    rewrite S1, S2, S3, S4. cbn [andb].
    replace (N.to_nat (len items)) with (length items) by (unfold len; lia).
    set (lend := match l with [] => lo | _ => eoff l (base + loff) + len l end).
    assert (Hlend : lend <= base + len x + len l).
    { unfold lend. destruct l; [rewrite len_nil; lia|]. cbn [eoff]. lia. }
    subst items. destruct a as [|a0 ar] eqn:EA.
    + (* no attribute text: no items *)
      cbn [attrs_all attr_next length concat app check_attrs].
      rewrite N.leb_refl. cbn [andb]. change (len (@nil N)) with 0 in Hlen.
      apply (IH inp (pre ++ x ++ l ++ y ++ z) r); [rewrite Hinp, Hs; norm; reflexivity|rewrite !len_app; lia|lia|exact Hft].
    + rewrite <- EA in *.
      destruct (check_attrs_items (S (length a)) inp (pre ++ x ++ l ++ y) a (z ++ r) (base + aoff) (eoff a (base + aoff)) tail)
        as (hi & Hc & Hhi).
      { rewrite Hinp, Hs. norm. reflexivity. }
      { rewrite !len_app. lia. }
      { rewrite EA. cbn [eoff]. lia. }
      rewrite Hc.
      assert (Heo : eoff a (base + aoff) = base + aoff) by (rewrite EA; reflexivity).
      rewrite Heo.
      assert (Hle : (hi <=? base + aoff + len a) = true) by (apply N.leb_le; lia).
      rewrite Hle. cbn [andb].
      apply (IH inp (pre ++ x ++ l ++ y ++ a ++ z) r); [rewrite Hinp, Hs; norm; reflexivity|rewrite !len_app; lia|lia|exact Hft].
  - destruct fuel; [cbn in Hf; lia|reflexivity].
Qed.

Theorem model_passes_oracle170 s w : rd_bytes s = Some (w, []) -> verdict170 s (run170 s) = true.
Proof.
  intros H. unfold verdict170, run170. rewrite H. destruct (forallb scalar_ok w); [|reflexivity].
  unfold parse_doc. apply (check_links_parse _ w [] w 0 0); [reflexivity|reflexivity|lia|lia].
Qed.

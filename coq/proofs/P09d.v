(* P09d.v -- C09: inside the property's domain (the budget admits the client's block size) the acknowledgement
   carries the client's own block number and size. *)
From CoapV Require Import proofs.Tac Header Packet UintOpt BlockValue BlockHandler proofs.P13 proofs.P11.

Theorem ack_echoes cb overhead tp M r : b_szx cb <= 6 -> b_num cb < 65536 ->
  overhead + block_size cb + BLOCK_OPTIONS_MAX_LENGTH <= M ->
  negotiate (Some cb) (overhead + tp) tp M = Ok (Some r) ->
  b_num r = b_num cb /\ b_szx r = b_szx cb /\ b_more r = (b_num cb * block_size cb + block_size cb <? tp).
Proof.
  intros Hs Hn Hfit. unfold negotiate, BLOCK_OPTIONS_MAX_LENGTH in *.
  replace (overhead + tp + 12 - tp) with (overhead + 12) by lia.
  replace (M <? overhead + 12) with false by lia.
  assert (Hsz : block_size cb = 2 ^ (b_szx cb + 4)) by reflexivity.
  assert (Hpos : 16 <= block_size cb) by (rewrite Hsz; change 16 with (2 ^ 4); apply N.pow_le_mono_r; lia).
  assert (Hle : block_size cb <= 1024) by (rewrite Hsz; change 1024 with (2 ^ 10); apply N.pow_le_mono_r; lia).
  rewrite N.min_l by lia. replace (block_size cb =? 0) with false by lia.
  rewrite N.div_mul by lia.
  rewrite block_new_spec by (unfold U64; lia).
  replace (block_size cb =? 0) with false by lia. replace (4096 <=? block_size cb) with false by lia.
  replace (65536 <=? b_num cb) with false by lia. cbn [orb].
  intros [= <-]. cbn [b_num b_szx b_more]. repeat split.
  rewrite Hsz, N.log2_pow2 by lia. lia.
Qed.

(* P01b.v -- C01: the state built by any sequence of public API calls denotes exactly the message a
   last-writer-wins reading of the calls describes (options: insertion-ordered multiset, stably
   sorted by number) -- so the order of setter calls is immaterial and cleared-and-re-added options
   behave as specified. *)
From CoapV Require Import proofs.Tac Header Packet WireSpec Encode Decode PacketOps Suite01
  proofs.PWire proofs.PEnc proofs.PDec proofs.P01.

(* ---------- sorted sequences and stable insertion ---------- *)
Fixpoint sorted_from (lo : N) (l : list (N * list N)) : Prop :=
  match l with [] => True | (n, _) :: r => lo <= n /\ sorted_from n r end.
Definition gt_all (k : N) (l : list (N * list N)) : Prop := Forall (fun x => k < fst x) l.

Lemma sorted_gt l : forall lo k, sorted_from lo l -> k < lo -> gt_all k l.
Proof.
  induction l as [|[n v] r IH]; intros lo k; cbn [sorted_from]; [constructor|]. intros (H1 & H2) Hk.
  constructor; [cbn; lia|]. apply (IH n); [exact H2|lia].
Qed.

Lemma ins_sorted_sorted kv l : forall lo, sorted_from lo l -> lo <= fst kv -> sorted_from lo (ins_sorted kv l).
Proof.
  induction l as [|[n v] r IH]; intros lo; cbn [ins_sorted sorted_from fst].
  - intros _ H. destruct kv. cbn in *. auto.
  - intros (H1 & H2) Hk. destruct (n <=? fst kv) eqn:E.
    + cbn [sorted_from]. split; [exact H1|]. apply IH; [exact H2|lia].
    + destruct kv as [k x]. cbn [sorted_from fst] in *. repeat split; auto; lia.
Qed.

Lemma sort_opts_snoc l kv : sort_opts (l ++ [kv]) = ins_sorted kv (sort_opts l).
Proof. unfold sort_opts. rewrite fold_left_app. reflexivity. Qed.

Lemma sort_opts_sorted l : sorted_from 0 (sort_opts l).
Proof. induction l as [|kv l IH] using rev_ind; [exact I|]. rewrite sort_opts_snoc. apply ins_sorted_sorted; [exact IH|lia]. Qed.

Lemma ins_sorted_app_le kv a b : Forall (fun x => fst x <= fst kv) a -> ins_sorted kv (a ++ b) = a ++ ins_sorted kv b.
Proof.
  induction a as [|x a IH]; intros H; [reflexivity|]. inversion H as [|? ? Hx Ha]; subst.
  cbn [app ins_sorted]. replace (fst x <=? fst kv) with true by lia. f_equal. apply IH. exact Ha.
Qed.
Lemma ins_sorted_front kv l : gt_all (fst kv) l -> ins_sorted kv l = kv :: l.
Proof. destruct l as [|x r]; [reflexivity|]. intros H. inversion H as [|? ? Hx _]; subst. cbn [ins_sorted]. replace (fst x <=? fst kv) with false by lia. reflexivity. Qed.

(* ---------- remove_key ---------- *)
Lemma remove_key_app k a b : remove_key k (a ++ b) = remove_key k a ++ remove_key k b.
Proof. unfold remove_key. apply filter_app. Qed.
Lemma remove_key_none k l : Forall (fun x => fst x <> k) l -> remove_key k l = l.
Proof.
  induction l as [|x l IH]; intros H; [reflexivity|]. inversion H as [|? ? Hx Hl]; subst. cbn [remove_key filter].
  replace (fst x =? k) with false by lia. cbn [negb]. f_equal. apply IH. exact Hl.
Qed.
Lemma remove_key_all k (vs : list (list N)) : remove_key k (map (fun v => (k, v)) vs) = [].
Proof. induction vs as [|v vs IH]; [reflexivity|]. cbn [map remove_key filter fst]. rewrite N.eqb_refl. exact IH. Qed.
Lemma gt_all_ne k l : gt_all k l -> Forall (fun x => fst x <> k) l.
Proof. unfold gt_all. apply Forall_impl. intros; lia. Qed.
Lemma gt_all_filter k f l : gt_all k l -> gt_all k (filter f l).
Proof. unfold gt_all. rewrite !Forall_forall. intros H x Hx. apply filter_In in Hx. apply H. tauto. Qed.

Lemma remove_ins_same k x S : fst x = k -> remove_key k (ins_sorted x S) = remove_key k S.
Proof.
  intros Hx. induction S as [|y r IH]; cbn [ins_sorted remove_key filter].
  - replace (fst x =? k) with true by lia. reflexivity.
  - destruct (fst y <=? fst x); cbn [filter].
    + fold (remove_key k (ins_sorted x r)). fold (remove_key k r). rewrite IH. reflexivity.
    + replace (fst x =? k) with true by lia. reflexivity.
Qed.

Lemma remove_ins_other k x S : forall lo, sorted_from lo S -> fst x <> k -> remove_key k (ins_sorted x S) = ins_sorted x (remove_key k S).
Proof.
  induction S as [|[n v] r IH]; intros lo; cbn [sorted_from]; intros HS Hx.
  - cbn [ins_sorted remove_key filter]. replace (fst x =? k) with false by lia. reflexivity.
  - destruct HS as (H1 & H2). cbn [ins_sorted]. cbn [fst]. destruct (n <=? fst x) eqn:E.
    + cbn [remove_key filter fst]. fold (remove_key k (ins_sorted x r)). fold (remove_key k r). rewrite (IH n H2 Hx).
      destruct (n =? k); cbn [negb]; [reflexivity|]. cbn [ins_sorted fst]. rewrite E. reflexivity.
    + change (remove_key k (x :: (n, v) :: r)) with (if negb (fst x =? k) then x :: remove_key k ((n, v) :: r) else remove_key k ((n, v) :: r)).
      replace (fst x =? k) with false by lia. cbn [negb].
      symmetry. apply ins_sorted_front. unfold remove_key. apply gt_all_filter. constructor; [cbn; lia|]. apply (sorted_gt r n); [exact H2|lia].
Qed.

Lemma sort_remove k l : sort_opts (remove_key k l) = remove_key k (sort_opts l).
Proof.
  induction l as [|x l IH] using rev_ind; [reflexivity|]. rewrite remove_key_app, sort_opts_snoc.
  cbn [remove_key filter]. destruct (fst x =? k) eqn:E; cbn [negb].
  - rewrite app_nil_r. rewrite remove_ins_same by lia. exact IH.
  - rewrite sort_opts_snoc, IH. symmetry. apply (remove_ins_other k x _ 0); [apply sort_opts_sorted|lia].
Qed.

(* ---------- a block of values under one number, at its place ---------- *)
Fixpoint place (k : N) (blk l : list (N * list N)) : list (N * list N) :=
  match l with
  | [] => blk
  | x :: r => if fst x <? k then x :: place k blk r else blk ++ l
  end.

Lemma place_nil k l : place k [] l = l.
Proof. induction l as [|x r IH]; [reflexivity|]. cbn [place]. destruct (fst x <? k); [f_equal; exact IH|reflexivity]. Qed.
Lemma place_front k blk l : Forall (fun x => k <= fst x) l -> place k blk l = blk ++ l.
Proof. destruct l as [|x r]; [intros; cbn; rewrite app_nil_r; reflexivity|]. intros H. inversion H; subst. cbn [place]. replace (fst x <? k) with false by lia. reflexivity. Qed.
Lemma place_app_lt k blk a b : Forall (fun x => fst x < k) a -> place k blk (a ++ b) = a ++ place k blk b.
Proof.
  induction a as [|x a IH]; intros H; [reflexivity|]. inversion H as [|? ? Hx Ha]; subst. cbn [app place].
  replace (fst x <? k) with true by lia. f_equal. apply IH. exact Ha.
Qed.

Lemma ins_into_place k v blk S : forall lo, sorted_from lo S -> Forall (fun x => fst x <> k) S -> Forall (fun x => fst x = k) blk ->
  ins_sorted (k, v) (place k blk S) = place k (blk ++ [(k, v)]) S.
Proof.
  induction S as [|[n w] r IH]; intros lo HS HN HB.
  - cbn [place]. rewrite <- (app_nil_r blk) at 1. rewrite ins_sorted_app_le; [reflexivity|].
    eapply Forall_impl; [|exact HB]. cbn. intros; lia.
  - cbn [sorted_from] in HS. destruct HS as (H1 & H2). inversion HN as [|? ? Hn HN']; subst. cbn [fst] in Hn.
    cbn [place fst]. destruct (n <? k) eqn:E.
    + cbn [ins_sorted fst]. replace (n <=? k) with true by lia. f_equal. apply (IH n); assumption.
    + rewrite ins_sorted_app_le by (eapply Forall_impl; [|exact HB]; cbn; intros; lia).
      rewrite ins_sorted_front by (constructor; [cbn; lia|apply (sorted_gt r n); [exact H2|cbn; lia]]).
      rewrite <- app_assoc. reflexivity.
Qed.

Lemma sort_block k (vs : list (list N)) l : Forall (fun x => fst x <> k) (sort_opts l) ->
  sort_opts (l ++ map (fun v => (k, v)) vs) = place k (map (fun v => (k, v)) vs) (sort_opts l).
Proof.
  intros HN. induction vs as [|v vs IH] using rev_ind; [cbn [map]; rewrite app_nil_r, place_nil; reflexivity|].
  rewrite map_app. cbn [map]. rewrite app_assoc, sort_opts_snoc, IH.
  apply (ins_into_place k v _ _ 0); [apply sort_opts_sorted|exact HN|].
  apply Forall_forall. intros x Hx. apply in_map_iff in Hx. destruct Hx as (y & <- & _). reflexivity.
Qed.

(* ---------- the option map against the sorted sequence ---------- *)
Lemma flatten_gt m : forall lo k, keys_above lo m -> k < lo -> gt_all k (flatten m).
Proof.
  induction m as [|[k' vs] r IH]; intros lo k; cbn [keys_above]; [intros; constructor|].
  intros (H1 & H2 & H3 & H4) Hk. rewrite flatten_cons. apply Forall_app. split.
  - apply Forall_forall. intros x Hx. apply in_map_iff in Hx. destruct Hx as (y & <- & _). cbn. lia.
  - apply (IH (k' + 1)); [exact H4|lia].
Qed.

Lemma map_le k (vs : list (list N)) k2 : k <= k2 -> Forall (fun x : N * list N => fst x <= k2) (map (fun v => (k, v)) vs).
Proof. intros H. apply Forall_forall. intros x Hx. apply in_map_iff in Hx. destruct Hx as (y & <- & _). cbn. lia. Qed.
Lemma map_lt k (vs : list (list N)) k2 : k < k2 -> Forall (fun x : N * list N => fst x < k2) (map (fun v => (k, v)) vs).
Proof. intros H. apply Forall_forall. intros x Hx. apply in_map_iff in Hx. destruct Hx as (y & <- & _). cbn. lia. Qed.
Lemma map_ne k (vs : list (list N)) k2 : k <> k2 -> Forall (fun x : N * list N => fst x <> k2) (map (fun v => (k, v)) vs).
Proof. intros H. apply Forall_forall. intros x Hx. apply in_map_iff in Hx. destruct Hx as (y & <- & _). cbn. lia. Qed.

Lemma flatten_add m : forall lo k v, keys_above lo m -> flatten (opt_add m k v) = ins_sorted (k, v) (flatten m).
Proof.
  induction m as [|[k' vs] r IH]; intros lo k v; [reflexivity|]. cbn [keys_above]. intros (H1 & H2 & H3 & H4).
  rewrite opt_add_cons. destruct (k' =? k) eqn:E1.
  - assert (k' = k) by lia. subst k'. rewrite !flatten_cons, map_app. cbn [map]. rewrite <- app_assoc. cbn [app].
    rewrite ins_sorted_app_le by (apply map_le; cbn; lia).
    rewrite ins_sorted_front by (apply (flatten_gt r (k + 1)); [exact H4|cbn; lia]). reflexivity.
  - destruct (k <? k') eqn:E2.
    + symmetry. rewrite (flatten_cons k [v]). cbn [map app]. apply ins_sorted_front.
      apply (flatten_gt _ k'); [cbn [keys_above]; repeat split; auto; lia|cbn; lia].
    + rewrite !flatten_cons. rewrite (IH (k' + 1) k v H4). symmetry. apply ins_sorted_app_le. apply map_le. cbn. lia.
Qed.

Lemma flatten_insert m : forall lo k vs, keys_above lo m ->
  flatten (opt_insert m k vs) = place k (map (fun v => (k, v)) vs) (remove_key k (flatten m)).
Proof.
  induction m as [|[k' vs'] r IH]; intros lo k vs; cbn [keys_above opt_insert].
  - intros _. cbn. rewrite app_nil_r. reflexivity.
  - intros (H1 & H2 & H3 & H4). destruct (k =? k') eqn:E1.
    + assert (k = k') by lia. subst k'. rewrite !flatten_cons, remove_key_app, remove_key_all. cbn [app].
      assert (HG : gt_all k (flatten r)) by (apply (flatten_gt r (k + 1)); [exact H4|lia]).
      rewrite remove_key_none by (apply gt_all_ne; exact HG).
      symmetry. apply place_front. eapply Forall_impl; [|exact HG]. cbn. intros; lia.
    + destruct (k <? k') eqn:E2.
      * assert (HG : gt_all k (flatten ((k', vs') :: r))) by (apply (flatten_gt _ k'); [cbn [keys_above]; repeat split; auto; lia|lia]).
        rewrite (flatten_cons k vs). rewrite remove_key_none by (apply gt_all_ne; exact HG).
        symmetry. apply place_front. eapply Forall_impl; [|exact HG]. cbn. intros; lia.
      * rewrite !flatten_cons, remove_key_app. rewrite (remove_key_none k (map _ vs')) by (apply map_ne; lia).
        rewrite place_app_lt by (apply map_lt; lia). f_equal. apply (IH (k' + 1)). exact H4.
Qed.

Lemma flatten_clear m lo k : keys_above lo m -> flatten (opt_clear m k) = remove_key k (flatten m).
Proof.
  intros H. unfold opt_clear. destruct (opt_get m k) eqn:E.
  - rewrite (flatten_insert m lo k [] H). cbn [map]. apply place_nil.
  - symmetry. apply remove_key_none. clear -H E. revert lo H E.
    induction m as [|[k' vs] r IH]; intros lo; cbn [keys_above opt_get]; [constructor|].
    intros (H1 & H2 & H3 & H4). destruct (k' =? k) eqn:E1; [discriminate|]. destruct (k <? k') eqn:E2.
    + intros _. apply gt_all_ne. apply (flatten_gt _ k'); [cbn [keys_above]; repeat split; auto; lia|lia].
    + intros HG. rewrite flatten_cons. apply Forall_app. split; [apply map_ne; lia|]. apply (IH (k' + 1)); assumption.
Qed.

(* ---------- the simulation ---------- *)
Definition Sim (p : packet) (s : smsg) : Prop :=
  pkt_wf p /\
  vtt (hdr p) = s_ver s * 64 + s_type s * 16 + len (s_token s) /\ s_ver s < 4 /\ s_type s < 4 /\
  token p = s_token s /\ code (hdr p) = s_code s /\ mid (hdr p) = s_mid s /\ payload p = s_payload s /\
  flatten (opts p) = sort_opts (s_opts s).

Lemma sim_new : Sim packet_new smsg_new.
Proof. unfold Sim. split; [exact packet_new_wf|]. cbn. repeat split; lia. Qed.

Lemma sim_step p s o p' : Sim p s -> op_wf o = true -> apply_op p o = Ok p' -> Sim p' (spec_op s o).
Proof.
  intros HS Ho E. pose proof HS as (Hw & Hv & Hver & Hty & Htok & Hcode & Hmid & Hpl & Hopts).
  pose proof (apply_op_wf p o p' Hw Ho E) as Hw'.
  pose proof Hw as (_ & _ & Ht8 & _ & _ & _ & Hk & _).
  unfold Sim. split; [exact Hw'|].
  destruct o as [v|t|c|m|t|b|k v|k vs|k| |t]; cbn [apply_op op_wf spec_op] in *.
  - injection E as <-. cbn [set_hdr set_version hdr vtt code mid token opts payload s_ver s_type s_token s_code s_mid s_payload s_opts].
    rewrite <- Htok in *. repeat split; auto; lia.
  - injection E as <-. cbn [set_hdr set_type hdr vtt code mid token opts payload s_ver s_type s_token s_code s_mid s_payload s_opts].
    assert (HT : type_bits (type_of_bits t) = t) by (assert (t = 0 \/ t = 1 \/ t = 2 \/ t = 3) as [->|[->|[->| ->]]] by lia; reflexivity).
    rewrite HT. rewrite <- Htok in *. replace (if t <? 3 then t else 3) with t by (destruct (t <? 3) eqn:?; lia).
    repeat split; auto; lia.
  - injection E as <-. cbn. repeat split; auto.
  - injection E as <-. cbn. repeat split; auto.
  - apply andb_true_iff in Ho. destruct Ho as (Ho1 & _).
    unfold set_token, set_token_length in E. replace (len t mod 256 <? 16) with true in E by lia. cbn [bind] in E. injection E as <-.
    cbn [hdr vtt code mid token opts payload s_ver s_type s_token s_code s_mid s_payload s_opts]. rewrite <- Htok in *.
    repeat split; auto; lia.
  - injection E as <-. cbn. repeat split; auto.
  - injection E as <-. cbn [add_option set_opts hdr vtt code mid token opts payload s_ver s_type s_token s_code s_mid s_payload s_opts].
    repeat split; auto. rewrite (flatten_add (opts p) 0 k v Hk), Hopts, sort_opts_snoc. reflexivity.
  - injection E as <-. cbn [set_option set_opts hdr vtt code mid token opts payload s_ver s_type s_token s_code s_mid s_payload s_opts].
    repeat split; auto. rewrite (flatten_insert (opts p) 0 k vs Hk), Hopts, <- sort_remove.
    symmetry. apply sort_block. rewrite sort_remove. unfold remove_key. apply Forall_forall. intros x Hx. apply filter_In in Hx. destruct Hx as (_ & Hx). lia.
  - injection E as <-. cbn [clear_option set_opts hdr vtt code mid token opts payload s_ver s_type s_token s_code s_mid s_payload s_opts].
    repeat split; auto. rewrite (flatten_clear (opts p) 0 k Hk), Hopts. symmetry. apply sort_remove.
  - injection E as <-. cbn. repeat split; auto.
  - apply andb_true_iff in Ho. destruct Ho as (Ho1 & _).
    unfold set_token, set_token_length, set_hdr, header_new in E. cbn [hdr vtt code mid token opts payload] in E.
    replace (len t mod 256 <? 16) with true in E by lia. cbn [bind] in E. injection E as <-.
    cbn [hdr vtt code mid token opts payload s_ver s_type s_token s_code s_mid s_payload s_opts].
    repeat split; auto; lia.
Qed.

Lemma sim_run ops : forall p s p', Sim p s -> ops_wf ops = true -> run_ops p ops = Ok p' -> Sim p' (fold_left spec_op ops s).
Proof.
  induction ops as [|o ops IH]; intros p s p' HS Ho; cbn [run_ops fold_left]; [intros [= <-]; exact HS|].
  cbn [ops_wf forallb] in Ho. apply andb_true_iff in Ho. destruct Ho as (Ho1 & Ho2).
  destruct (apply_op p o) as [p1|e|st] eqn:E; cbn [bind]; try discriminate.
  apply IH; [eapply sim_step; eauto|exact Ho2].
Qed.

Theorem api_denotes_spec ops p : ops_wf ops = true -> run_ops packet_new ops = Ok p -> abs p = amsg_of_smsg (spec_run ops).
Proof.
  intros Ho E. pose proof (sim_run ops packet_new smsg_new p sim_new Ho E) as (Hw & Hv & Hver & Hty & Htok & Hcode & Hmid & Hpl & Hopts).
  unfold abs, amsg_of_smsg, spec_run. rewrite Hv, Htok, Hcode, Hmid, Hpl, Hopts.
  destruct Hw as (_ & _ & Ht8 & _). rewrite Htok in Ht8.
  f_equal; lia.
Qed.

(* P08b.v -- C08 / C09 end to end on the handler's state functions: a client that asks for the
   blocks in order gets exactly the chunks of the body and the cache entry is released with the last
   one; an upload whose blocks arrive in order (after anything an abandoned upload left behind)
   hands exactly the body to the application. *)
From CoapV Require Import proofs.Tac Header Packet UintOpt Utf8 BlockValue Encode Response Accessors BlockHandler
  WireSpec PacketOps proofs.PWire proofs.PEnc proofs.PDec proofs.P01 proofs.P06 proofs.P13 proofs.P11.

(* ---------- Block2: follow-up requests num = k, k+1, ... at a fixed size exponent ---------- *)
(* a follow-up request for block k: any packet whose first Block2 option decodes to (k, _, szx), with a prepared response *)
Definition followup (szx k : N) (req : request) : Prop :=
  (exists m, first_block OPT_BLOCK2 (message req) = Some (mkBlock k m szx)) /\ response req <> None.

Fixpoint serve_all (st : bstate) (reqs : list request) : list (outcome bool * request) * bstate :=
  match reqs with
  | [] => ([], st)
  | r :: rest => let '(o, r', st') := handle_block2 r st in let '(l, st'') := serve_all st' rest in ((o, r') :: l, st'')
  end.

Definition payload_of (x : outcome bool * request) : bytes :=
  match response (snd x) with Some r => payload r | None => [] end.

Fixpoint nums_from (k : N) (szx : N) (reqs : list request) : Prop :=
  match reqs with [] => True | r :: rest => followup szx k r /\ nums_from (k + 1) szx rest end.

Lemma chunks_from_S g sz off body : chunks_from (S g) sz off body =
  if len body <=? off then [] else take sz (drop off body) :: chunks_from g sz (off + sz) body.
Proof. reflexivity. Qed.

Lemma serve_payload req b2 cached rp hm req' : response req = Some rp -> serve_cached req b2 cached = (Ok hm, req') ->
  payload_of (Ok hm, req') = take (block_size b2) (drop (b_num b2 * block_size b2) (payload cached)).
Proof.
  intros Hr. unfold serve_cached. rewrite Hr. destruct (_ && _); [discriminate|].
  destruct (block_encode _); try discriminate. intros [= <- <-]. reflexivity.
Qed.

(* the follow-ups for blocks k .. k+n-1, where block k+n-1 is the last: every one is answered by the handler from the
   cache (Ok true), their payloads are the chunks of the cached body from offset k*size on, and afterwards the entry is released *)
Theorem followups_served szx c : forall reqs k st, cached_resp st = Some c -> k < 65536 ->
  let sz := 2 ^ (szx + 4) in
  nums_from k szx reqs -> reqs <> [] ->
  (k + len reqs - 1) * sz < len (payload c) -> len (payload c) <= (k + len reqs) * sz ->
  let '(outs, st') := serve_all st reqs in
  Forall (fun x => fst x = Ok true) outs /\
  map payload_of outs = chunks_from (length reqs) sz (k * sz) (payload c) /\
  cached_resp st' = None.
Proof.
  cbv zeta. induction reqs as [|r rest IH]; intros k st Hc Hk Hn Hne Hlo Hhi; [congruence|].
  cbn [nums_from] in Hn. destruct Hn as (((m & Hfb) & Hresp) & Hrest).
  destruct (response r) as [rp|] eqn:Hr; [|congruence].
  cbn [serve_all]. unfold handle_block2. rewrite Hfb, Hc.
  rewrite len_cons in Hlo, Hhi.
  set (b2 := mkBlock k m szx). set (sz := 2 ^ (szx + 4)) in *.
  assert (Hbs : block_size b2 = sz) by reflexivity.
  assert (Hoff : b_num b2 * block_size b2 < len (payload c)).
  { rewrite Hbs. cbn [b_num b2]. assert (k * sz <= (k + (1 + len rest) - 1) * sz) by (apply N.mul_le_mono_r; lia). lia. }
  destruct (serve_cached_spec r b2 c rp Hr ltac:(cbn; lia) (or_introl Hoff)) as (v & _ & ES).
  rewrite ES. rewrite Hbs. cbn [b_num b2].
  destruct rest as [|r2 rest2].
  - (* the last block *)
    cbn [serve_all]. rewrite len_nil in *.
    replace (k * sz + sz <? len (payload c)) with false by lia.
    unfold st_resp, st_b2. cbn [cached_resp].
    repeat split; [repeat constructor|].
    cbn [map length chunks_from]. replace (len (payload c) <=? k * sz) with false by lia.
    unfold payload_of. cbn [snd response with_response set_option set_payload set_opts payload]. reflexivity.
  - replace (k * sz + sz <? len (payload c)) with true.
    2:{ symmetry. apply N.ltb_lt. rewrite len_cons in Hlo.
        assert ((k + 1) * sz <= (k + (1 + (1 + len rest2)) - 1) * sz) by (apply N.mul_le_mono_r; lia). lia. }
    specialize (IH (k + 1) (st_b2 st (Some b2)) ltac:(exact Hc)).
    assert (Hk1 : k + 1 < 65536).
    { (* the next request's block number was decoded from an option value *)
      cbn [nums_from] in Hrest. destruct Hrest as (((m2 & Hfb2) & _) & _). apply first_block_num in Hfb2. exact Hfb2. }
    specialize (IH Hk1 Hrest ltac:(discriminate)).
    rewrite !len_cons in *.
    specialize (IH ltac:(replace (k + 1 + (1 + len rest2) - 1) with (k + (1 + (1 + len rest2)) - 1) by lia; exact Hlo)
                   ltac:(replace (k + 1 + (1 + len rest2)) with (k + (1 + (1 + len rest2))) by lia; exact Hhi)).
    destruct (serve_all (st_b2 st (Some b2)) (r2 :: rest2)) as [outs st'] eqn:ESA.
    destruct IH as (I1 & I2 & I3). repeat split.
    + constructor; [reflexivity|exact I1].
    + change (length (r :: r2 :: rest2)) with (S (length (r2 :: rest2))). rewrite chunks_from_S.
      replace (len (payload c) <=? k * sz) with false by lia. cbn [map].
      f_equal; try (unfold payload_of; reflexivity). rewrite I2. f_equal. lia.
    + exact I3.
Qed.

(* ---------- Block1: the blocks of a body delivered in order, on top of any stale buffer ---------- *)
(* what maybe_handle_request_block1 does to the buffer over a whole in-order upload at block size sz:
   every block is spliced in at its offset; the final one ends the body *)
Fixpoint upload (g : nat) (buf : bytes) (sz off : N) (body : bytes) : option bytes :=
  match g with
  | O => None
  | S g' =>
    let chunk := take sz (drop off body) in
    match extending_splice buf off (off + sz) chunk with
    | None => None
    | Some buf' => if off + sz <? len body then upload g' buf' sz (off + sz) body   (* more = true *)
                   else Some (take (off + len chunk) buf')                          (* final block *)
    end
  end.

Lemma len_take_drop sz off (body : bytes) : off + sz <= len body -> len (take sz (drop off body)) = sz.
Proof. intros H. apply len_take. rewrite len_drop. lia. Qed.

Lemma take_drop_rest sz off (body : bytes) : off <= len body -> len body <= off + sz -> take off body ++ take sz (drop off body) = body.
Proof.
  intros H1 H2. assert (take sz (drop off body) = drop off body) as ->.
  { unfold take. apply firstn_all2. pose proof (len_drop off body). unfold len in *. lia. }
  apply take_drop.
Qed.

Theorem upload_delivers_body g : forall stale sz off body, 0 < sz -> sz <= MAX_RESERVE ->
  take off stale = take off body -> off <= len stale -> off <= len body ->
  (length body - N.to_nat off < g)%nat ->
  upload g stale sz off body = Some body.
Proof.
  induction g as [|g IH]; intros stale sz off body Hsz Hmax Hpre Hls Hlb Hg; [lia|].
  cbn [upload]. set (chunk := take sz (drop off body)).
  destruct (extending_splice stale off (off + sz) chunk) as [buf'|] eqn:ES.
  2:{ exfalso. unfold extending_splice in ES. replace (MAX_RESERVE <? off + sz - len stale) with false in ES by lia. discriminate. }
  destruct (off + sz <? len body) eqn:EM.
  - assert (Hfull : len chunk = sz) by (apply len_take_drop; lia).
    destruct (splice_extends_prefix stale body off sz buf' Hfull Hpre Hls ltac:(lia) ES) as (P1 & P2).
    apply IH; try assumption; try lia. unfold len in *. lia.
  - f_equal. apply (final_block_body stale body off chunk buf' Hpre Hls); [|exact Hlb|right; exists sz; exact ES].
    symmetry. apply take_drop_rest; lia.
Qed.

(* from the first block: whatever an abandoned upload left in the buffer *)
Corollary upload_from_scratch stale sz body : 0 < sz -> sz <= MAX_RESERVE ->
  upload (S (length body)) stale sz 0 body = Some body.
Proof. intros H1 H2. apply upload_delivers_body; auto; try lia; reflexivity. Qed.

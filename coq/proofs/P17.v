(* P17.v -- C17: the link-format iterators terminate, yield substrings in order, and the two
   unquoting paths agree. *)
From CoapV Require Import proofs.Tac LinkFormat.

Lemma scan_to_app stop s : forall p r, scan_to stop s = (p, r) -> s = p ++ r /\ (s <> [] -> p <> []).
Proof.
  induction s as [|c s IH]; intros p r; cbn [scan_to]; [intros [= <- <-]; split; [reflexivity|tauto]|].
  destruct (c =? stop); [intros [= <- <-]; split; [reflexivity|discriminate]|].
  destruct (scan_to stop s) as [a b]. intros [= <- <-]. destruct (IH a b eq_refl) as (-> & _). split; [reflexivity|discriminate].
Qed.

Lemma scan_quoted_app stop : forall n s inq p r, (length s <= n)%nat -> scan_quoted stop s inq = (p, r) ->
  s = p ++ r /\ (s <> [] -> p <> []).
Proof.
  induction n as [|n IH]; intros s inq p r Hn.
  - destruct s; [|cbn in Hn; lia]. cbn. intros [= <- <-]. split; [reflexivity|tauto].
  - destruct s as [|c s]; [cbn; intros [= <- <-]; split; [reflexivity|tauto]|].
    cbn [length] in Hn. cbn [scan_quoted]. destruct inq.
    + destruct (c =? QUOTE).
      * destruct (scan_quoted stop s false) as [a b] eqn:E. intros [= <- <-].
        destruct (IH s false a b ltac:(lia) E) as (-> & _). split; [reflexivity|discriminate].
      * destruct (c =? BSL).
        -- destruct s as [|c2 s2]; [intros [= <- <-]; split; [reflexivity|discriminate]|].
           destruct (scan_quoted stop s2 true) as [a b] eqn:E. intros [= <- <-].
           cbn [length] in Hn. destruct (IH s2 true a b ltac:(lia) E) as (-> & _). split; [reflexivity|discriminate].
        -- destruct (scan_quoted stop s true) as [a b] eqn:E. intros [= <- <-].
           destruct (IH s true a b ltac:(lia) E) as (-> & _). split; [reflexivity|discriminate].
    + destruct (c =? stop); [intros [= <- <-]; split; [reflexivity|discriminate]|].
      destruct (c =? QUOTE).
      * destruct (scan_quoted stop s true) as [a b] eqn:E. intros [= <- <-].
        destruct (IH s true a b ltac:(lia) E) as (-> & _). split; [reflexivity|discriminate].
      * destruct (scan_quoted stop s false) as [a b] eqn:E. intros [= <- <-].
        destruct (IH s false a b ltac:(lia) E) as (-> & _). split; [reflexivity|discriminate].
Qed.

Lemma skip_to_lt_spec s : forall n off r, skip_to_lt s n = SkOk off r ->
  exists pre, s = pre ++ r /\ off = n + len pre /\ pre <> [].
Proof.
  induction s as [|c s IH]; intros n off r; cbn [skip_to_lt]; [discriminate|].
  destruct (is_ascii_ws c).
  - intros H. destruct (IH _ _ _ H) as (pre & -> & -> & _). exists (c :: pre).
    split; [reflexivity|split; [rewrite len_cons; lia|discriminate]].
  - destruct (c =? LT); [|discriminate]. intros [= <- <-]. exists [c].
    split; [reflexivity|split; [unfold len; cbn [length]; lia|discriminate]].
Qed.

(* ---------- termination: every iterator consumes at least one character per item ---------- *)
Theorem link_next_progress s item r : link_next s = Some (item, r) -> (length r < length s)%nat.
Proof.
  unfold link_next. destruct s as [|c0 s0]; [discriminate|]. remember (c0 :: s0) as s eqn:Heqs.
  destruct (skip_to_lt s 0) as [| |off r1] eqn:E; [discriminate|intros [= <- <-]; rewrite Heqs; cbn [length]; lia|].
  destruct (skip_to_lt_spec _ _ _ _ E) as (pre & Hs & _ & Hne).
  destruct (scan_to GT r1) as [p r2] eqn:E1. destruct (scan_quoted COMMA r2 false) as [q r3] eqn:E2.
  intros [= <- <-]. apply scan_to_app in E1. destruct E1 as (-> & _).
  apply (scan_quoted_app COMMA (length r2)) in E2; [|lia]. destruct E2 as (-> & _).
  rewrite Hs. rewrite !app_length. destruct pre; [congruence|cbn [length]; lia].
Qed.

Theorem attr_next_progress s item r : attr_next s = Some (item, r) -> (length r < length s)%nat.
Proof.
  unfold attr_next. destruct s as [|c0 s0]; [discriminate|]. remember (c0 :: s0) as s eqn:Heqs.
  destruct (scan_quoted SEMI s false) as [q r1] eqn:E.
  apply (scan_quoted_app SEMI (length s)) in E; [|lia]. destruct E as (Hs & Hne).
  assert (q <> []) by (apply Hne; rewrite Heqs; discriminate).
  assert (HL : (length r1 < length s)%nat) by (rewrite Hs, app_length; destruct q; [congruence|cbn [length]; lia]).
  destruct (split_eq _) as [[k v]|]; intros [= <- <-]; exact HL.
Qed.

(* ---------- substrings, left to right, without overlap ---------- *)
Lemma drop_while_suffix f s : exists pre, s = pre ++ drop_while f s /\ len pre = lead f s.
Proof.
  unfold lead. induction s as [|c s IH]; cbn [drop_while]; [exists []; split; [reflexivity|cbn; lia]|].
  destruct (f c); [|exists []; split; [reflexivity|rewrite len_nil; lia]].
  destruct IH as (pre & Hs & Hl). exists (c :: pre). split; [cbn; f_equal; exact Hs|].
  assert (len s = len pre + len (drop_while f s)) by (rewrite Hs at 1; apply len_app).
  rewrite !len_cons. lia.
Qed.

Lemma trim_end_prefix f s : exists suf, s = trim_end_by f s ++ suf.
Proof.
  unfold trim_end_by. destruct (drop_while_suffix f (rev s)) as (pre & Hs & _).
  exists (rev pre). rewrite <- rev_app_distr, <- Hs, rev_involutive. reflexivity.
Qed.

Lemma take_drop_mid {A} (a b c : list A) : take (len b) (drop (len a) (a ++ b ++ c)) = b.
Proof.
  unfold take, drop, len. rewrite !Nat2N.id. rewrite skipn_app, skipn_all, Nat.sub_diag. cbn [skipn app].
  rewrite firstn_app, Nat.sub_diag, firstn_all. cbn. apply app_nil_r.
Qed.

Theorem link_next_substrings s loff l aoff a r : link_next s = Some (LOk loff l aoff a, r) ->
  exists x y z, s = x ++ l ++ y ++ a ++ z ++ r /\ loff = len x /\ aoff = len x + len l + len y.
Proof.
  unfold link_next. destruct s as [|c0 s0]; [discriminate|]. remember (c0 :: s0) as s eqn:Heqs.
  destruct (skip_to_lt s 0) as [| |off r1] eqn:E; [discriminate|discriminate|].
  destruct (skip_to_lt_spec _ _ _ _ E) as (pre & Hs & Hoff & _).
  destruct (scan_to GT r1) as [p r2] eqn:E1. destruct (scan_quoted COMMA r2 false) as [q r3] eqn:E2.
  intros [= <- <- <- <- <-]. apply scan_to_app in E1. destruct E1 as (Hr1 & _).
  apply (scan_quoted_app COMMA (length r2)) in E2; [|lia]. destruct E2 as (Hr2 & _).
  destruct (trim_end_prefix (N.eqb GT) p) as (sp & Hp).
  destruct (trim_end_prefix (N.eqb COMMA) q) as (sq & Hq).
  destruct (drop_while_suffix (N.eqb SEMI) (trim_end_by (N.eqb COMMA) q)) as (lq & Hq1 & Hlq).
  destruct (trim_end_prefix (N.eqb SEMI) (trim_start_by (N.eqb SEMI) (trim_end_by (N.eqb COMMA) q))) as (sa & Ha).
  exists pre, (sp ++ lq), (sa ++ sq). split; [|split].
  - rewrite Hs, Hr1, Hr2. rewrite Hp at 1. rewrite Hq at 1. rewrite Hq1 at 1. unfold trim_start_by in Ha. rewrite Ha at 1.
    unfold trim_start_by. rewrite <- !app_assoc. reflexivity.
  - lia.
  - rewrite Hoff, <- Hlq. rewrite Hp at 1. rewrite !len_app. lia.
Qed.

Lemma split_eq_app a k v : split_eq a = Some (k, v) -> a = k ++ EQS :: v.
Proof.
  revert k v. induction a as [|c a IH]; intros k v; cbn [split_eq]; [discriminate|].
  destruct (c =? EQS) eqn:E; [intros [= <- <-]; cbn; f_equal; unfold EQS in *; lia|].
  destruct (split_eq a) as [[k' v']|]; [|discriminate]. intros [= <- <-]. cbn. f_equal. apply IH. reflexivity.
Qed.

Lemma trim_mid s : exists x z, s = x ++ trim s ++ z /\ len x = lead is_ws s.
Proof.
  unfold trim. destruct (drop_while_suffix is_ws s) as (x & Hs & Hl).
  destruct (trim_end_prefix is_ws (trim_start_by is_ws s)) as (z & Hz).
  exists x, z. split; [|exact Hl]. rewrite Hs at 1. unfold trim_start_by in *. rewrite Hz at 1. reflexivity.
Qed.

Theorem attr_next_substrings s it r : attr_next s = Some (it, r) ->
  exists x y z, s = x ++ akey it ++ y ++ aval it ++ z ++ r /\ koff it = len x /\
                (aval it <> [] -> voff it = len x + len (akey it) + len y).
Proof.
  unfold attr_next. destruct s as [|c0 s0]; [discriminate|]. remember (c0 :: s0) as s eqn:Heqs.
  destruct (scan_quoted SEMI s false) as [q r1] eqn:E.
  apply (scan_quoted_app SEMI (length s)) in E; [|lia]. destruct E as (Hs & _).
  destruct (trim_end_prefix (N.eqb SEMI) q) as (sq & Hq).
  destruct (split_eq (trim_end_by (N.eqb SEMI) q)) as [[k v]|] eqn:ES.
  - intros [= <- <-]. cbn [akey aval koff voff]. apply split_eq_app in ES.
    destruct (trim_mid k) as (xk & zk & Hk & Hlk). destruct (trim_mid v) as (xv & zv & Hv & Hlv).
    exists xk, (zk ++ EQS :: xv), (zv ++ sq). split; [|split].
    + rewrite Hs. rewrite Hq at 1. rewrite ES. rewrite Hk at 1. rewrite Hv at 1. rewrite <- !app_assoc. cbn [app].
      rewrite <- !app_assoc. reflexivity.
    + lia.
    + intros _. rewrite <- Hlv. rewrite Hk at 1. rewrite !len_app, len_cons. lia.
  - intros [= <- <-]. cbn [akey aval koff voff].
    destruct (trim_mid (trim_end_by (N.eqb SEMI) q)) as (xa & za & Ha & Hla).
    exists xa, [], (za ++ sq). split; [|split].
    + rewrite Hs. rewrite Hq at 1. rewrite Ha at 1. rewrite <- !app_assoc. reflexivity.
    + lia.
    + intros H. congruence.
Qed.

(* ---------- the two unquoting paths agree ---------- *)
Lemma find_idx_last x body : forall i j, find_idx x body i = Some j -> j + 1 = i + len body ->
  exists pre, body = pre ++ [x] /\ ~ In x pre.
Proof.
  induction body as [|c body IH]; intros i j; cbn [find_idx]; [discriminate|].
  destruct (c =? x) eqn:E.
  - intros [= <-] H. rewrite len_cons in H. assert (len body = 0) by lia.
    destruct body; [|rewrite len_cons in *; lia]. exists []. split; [cbn; f_equal; lia|intros []].
  - intros H1 H2. rewrite len_cons in H2. destruct (IH (i + 1) j H1 ltac:(lia)) as (pre & -> & Hn).
    exists (c :: pre). split; [reflexivity|]. intros [H|H]; [lia|tauto].
Qed.

Lemma unq_plain pre : ~ In QUOTE pre -> existsb (N.eqb BSL) pre = false -> forall tail, unq_quoted (pre ++ QUOTE :: tail) = pre.
Proof.
  induction pre as [|c pre IH]; intros Hq Hb tail; cbn [app unq_quoted].
  - change (QUOTE =? QUOTE) with true. reflexivity.
  - cbn [existsb] in Hb. apply orb_false_iff in Hb. destruct Hb as (Hb1 & Hb2).
    replace (c =? QUOTE) with false by (symmetry; apply N.eqb_neq; intro; apply Hq; left; congruence).
    replace (c =? BSL) with false by (rewrite N.eqb_sym; symmetry; exact Hb1).
    f_equal. apply IH; [intro; apply Hq; right; assumption|exact Hb2].
Qed.

Theorem to_cow_eq v : to_cow v = Ok (unquote_to_string v).
Proof.
  unfold to_cow. destruct v as [|c body]; [reflexivity|]. destruct (c =? QUOTE) eqn:EQ; [|unfold unquote_to_string; rewrite EQ; reflexivity].
  destruct (negb (existsb (N.eqb BSL) body)) eqn:EB; cbn [andb]; [|reflexivity].
  destruct (find_idx QUOTE body 0) as [i|] eqn:EF; [|reflexivity].
  destruct (i + 1 =? len body) eqn:EL; [|reflexivity].
  f_equal. destruct (find_idx_last QUOTE body 0 i EF ltac:(lia)) as (pre & -> & Hn).
  rewrite removelast_last. unfold unquote_to_string. rewrite EQ.
  apply negb_true_iff in EB. rewrite existsb_app in EB. apply orb_false_iff in EB. destruct EB as (EB & _).
  rewrite unq_plain by assumption. reflexivity.
Qed.

(* P05.v -- C05 by reflection over the finite number spaces (vm_compute, lifted with
   forallb_forall; the bound is part of every statement). *)
From CoapV Require Import proofs.Tac Header Numbers Registry Suite05.

Definition nrange (n : N) : list N := N.recursion [] (fun k acc => k :: acc) n.

Lemma nrange_succ n : nrange (N.succ n) = n :: nrange n.
Proof. unfold nrange. rewrite N.recursion_succ; [reflexivity|reflexivity|]. intros a b -> x y ->. reflexivity. Qed.

Lemma in_nrange n : forall x, x < n -> In x (nrange n).
Proof.
  induction n as [|n IH] using N.peano_ind; intros x H; [lia|].
  rewrite nrange_succ. destruct (N.eq_dec x n) as [->|Hne]; [left; reflexivity|right; apply IH; lia].
Qed.

Lemma forall_range (P : N -> bool) (n : N) :
  forallb P (nrange n) = true -> forall x, x < n -> P x = true.
Proof. intros H x Hx. rewrite forallb_forall in H. apply H. apply in_nrange. exact Hx. Qed.

Definition option_eqb (a b : coap_option) : bool :=
  (option_index a =? option_index b) && (u16_of_option a =? u16_of_option b).
Lemma option_eqb_eq a b : option_eqb a b = true -> a = b.
Proof.
  unfold option_eqb. intros H. apply andb_true_iff in H. destruct H as (H1 & H2).
  destruct a, b; cbn in H1; try discriminate; try reflexivity. cbn in H2. f_equal. lia.
Qed.

Lemma option_roundtrip n : n < 65536 -> u16_of_option (option_of_u16 n) = n.
Proof.
  intros H. apply N.eqb_eq. revert n H.
  apply (forall_range (fun n => u16_of_option (option_of_u16 n) =? n) 65536). vm_compute. reflexivity.
Qed.

Lemma option_registry_agrees n : n < 65536 -> option_of_u16 n = registry_option n.
Proof.
  intros H. apply option_eqb_eq. revert n H.
  apply (forall_range (fun n => option_eqb (option_of_u16 n) (registry_option n)) 65536). vm_compute. reflexivity.
Qed.

Lemma option_names o : In o all_named_options -> option_of_u16 (u16_of_option o) = o.
Proof. unfold all_named_options. cbn [In]. intuition (subst; reflexivity). Qed.

Lemma option_unknown_not_aliased n : n < 65536 -> lookup n option_registry = None -> option_of_u16 n = O_Unknown n.
Proof. intros H L. rewrite option_registry_agrees by exact H. unfold registry_option. rewrite L. reflexivity. Qed.

Definition cf_opt_eqb (a b : option content_format) : bool :=
  match a, b with
  | Some x, Some y => cf_index x =? cf_index y
  | None, None => true
  | _, _ => false
  end.
Lemma cf_index_inj x y : cf_index x = cf_index y -> x = y.
Proof. destruct x; destruct y; cbn; intros H; try reflexivity; discriminate. Qed.
Lemma cf_opt_eqb_eq a b : cf_opt_eqb a b = true -> a = b.
Proof.
  destruct a as [x|], b as [y|]; cbn; try discriminate; [|reflexivity].
  intros H. f_equal. apply cf_index_inj. lia.
Qed.

Lemma cf_registry_agrees n : n < 65536 -> content_format_of n = registry_content_format n.
Proof.
  intros H. apply cf_opt_eqb_eq. revert n H.
  apply (forall_range (fun n => cf_opt_eqb (content_format_of n) (registry_content_format n)) 65536). vm_compute. reflexivity.
Qed.

Lemma cf_roundtrip n c : n < 65536 -> content_format_of n = Some c -> of_content_format c = n.
Proof.
  intros H. revert c.
  assert (HA : (match content_format_of n with Some c => of_content_format c =? n | None => true end) = true).
  { revert n H. apply (forall_range (fun n => match content_format_of n with Some c => of_content_format c =? n | None => true end) 65536).
    vm_compute. reflexivity. }
  intros c E. rewrite E in HA. lia.
Qed.

Lemma cf_names c : content_format_of (of_content_format c) = Some c.
Proof. destruct c; reflexivity. Qed.

Lemma code_registry_agrees b : b < 256 -> class_of_byte b = registry_code b.
Proof.
  intros H.
  assert (HA : mclass_eqb (class_of_byte b) (registry_code b) = true).
  { revert b H. apply (forall_range (fun b => mclass_eqb (class_of_byte b) (registry_code b)) 256). vm_compute. reflexivity. }
  destruct (class_of_byte b) as [|r|s|n], (registry_code b) as [|r'|s'|n']; cbn in HA; try discriminate; try reflexivity.
  - f_equal. destruct r, r'; cbn in HA; try discriminate; reflexivity.
  - f_equal. destruct s, s'; cbn in HA; try discriminate; reflexivity.
  - f_equal. lia.
Qed.

Lemma code_roundtrip b : b < 256 -> class_to_byte (class_of_byte b) = b.
Proof.
  intros H. apply N.eqb_eq. revert b H.
  apply (forall_range (fun b => class_to_byte (class_of_byte b) =? b) 256). vm_compute. reflexivity.
Qed.

Lemma code_names c : (match c with Reserved _ | Request ReqUnKnown | Response RespUnKnown => False | _ => True end) ->
  class_of_byte (class_to_byte c) = c.
Proof. destruct c as [|r|s|n]; [reflexivity|destruct r|destruct s|]; cbn; intros H; try reflexivity; contradiction. Qed.

Lemma code_text b : b < 256 -> parse_code (fmt_code b) = Ok b /\ fmt_code b = spec_fmt b.
Proof.
  intros H.
  assert (HA : (match parse_code (fmt_code b) with Ok b' => b' =? b | _ => false end
               && list_eqb N.eqb (fmt_code b) (spec_fmt b)) = true).
  { revert b H. apply (forall_range (fun b => match parse_code (fmt_code b) with Ok b' => b' =? b | _ => false end
                                              && list_eqb N.eqb (fmt_code b) (spec_fmt b)) 256). vm_compute. reflexivity. }
  apply andb_true_iff in HA. destruct HA as (H1 & H2). split.
  - destruct (parse_code (fmt_code b)); try discriminate. f_equal. lia.
  - revert H2. generalize (fmt_code b) (spec_fmt b). induction l as [|x l IH]; intros [|y l']; cbn [list_eqb]; try discriminate; [reflexivity|].
    intros E. apply andb_true_iff in E. destruct E as (E1 & E2). f_equal; [lia|auto].
Qed.

Lemma is_error_spec s : is_error s = (128 <=? resp_to_byte s).
Proof. destruct s; reflexivity. Qed.

Lemma type_registry_agrees t : t < 4 -> registry_type t = Some (type_of_bits t) /\ type_bits (type_of_bits t) = t.
Proof. intros H. assert (t = 0 \/ t = 1 \/ t = 2 \/ t = 3) as [->|[->|[->| ->]]] by lia; split; reflexivity. Qed.

Lemma observe_registry_agrees n : observe_of n = registry_observe n /\
  (forall o, observe_of n = Some o -> of_observe o = n).
Proof.
  split.
  - destruct n as [|[p|p|]]; reflexivity.
  - intros o. destruct n as [|[p|p|]]; cbn; intros [= <-]; reflexivity.
Qed.

(* header first byte: the getters read the RFC fields, set_type/set_version change only theirs *)
Lemma header_fields v t x : v < 256 -> t < 4 ->
  let h := mkHeader v Empty 0 in
  get_version h = v / 64 /\ type_bits (get_type h) = (v / 16) mod 4 /\ get_token_length h = v mod 16 /\
  vtt (set_type h (type_of_bits t)) = (v / 64) * 64 + t * 16 + v mod 16 /\
  vtt (set_version h x) = (x mod 4) * 64 + v mod 64.
Proof.
  intros Hv Ht h. unfold get_version, get_type, get_token_length, set_type, set_version, h. cbn [vtt].
  assert (Hm : (v / 16) mod 4 < 4) by lia.
  assert (HT : forall k, k < 4 -> type_bits (type_of_bits k) = k).
  { intros k Hk. assert (k = 0 \/ k = 1 \/ k = 2 \/ k = 3) as [->|[->|[->| ->]]] by lia; reflexivity. }
  rewrite !HT by assumption. repeat split; lia.
Qed.

(* the model meets the registry-only oracle on the whole finite part of the domain *)
Lemma oracle_kind01 : forallb (fun x => verdict50 [0; x] (run50 [0; x])) (nrange 65536) = true
                      /\ forallb (fun x => verdict50 [1; x] (run50 [1; x])) (nrange 21) = true.
Proof. split; vm_compute; reflexivity. Qed.
Lemma oracle_kind23 : forallb (fun x => verdict50 [2; x] (run50 [2; x])) (nrange 65536) = true
                      /\ forallb (fun x => verdict50 [3; x] (run50 [3; x])) (nrange 60) = true.
Proof. split; vm_compute; reflexivity. Qed.
Lemma oracle_kind45 : forallb (fun x => verdict50 [4; x] (run50 [4; x])) (nrange 256) = true
                      /\ forallb (fun x => verdict50 [5; x] (run50 [5; x])) (nrange 768) = true.
Proof. split; vm_compute; reflexivity. Qed.
Lemma oracle_kind6 : forallb (fun v => forallb (fun t => verdict50 [6; v; t] (run50 [6; v; t])) (nrange 4)) (nrange 256) = true.
Proof. vm_compute. reflexivity. Qed.
Lemma oracle_kind7 : forallb (fun x => verdict50 [7; x] (run50 [7; x])) (nrange 28) = true
                     /\ forallb (fun x => verdict50 [10; x] (run50 [10; x])) (nrange 8) = true.
Proof. split; vm_compute; reflexivity. Qed.
Lemma oracle_kind9 : forallb (fun v => forallb (fun x => verdict50 [9; v; x] (run50 [9; v; x])) (nrange 256)) (nrange 256) = true.
Proof. vm_compute. reflexivity. Qed.

Lemma oracle_kind11 : forallb (fun x => verdict50 [11; x] (run50 [11; x])) (nrange 768) = true.
Proof. vm_compute. reflexivity. Qed.
Theorem oracle_code_readers : forall x, x < 768 -> verdict50 [11; x] (run50 [11; x]) = true.
Proof. exact (forall_range _ _ oracle_kind11). Qed.

Theorem oracle_all :
  (forall x, x < 65536 -> verdict50 [0; x] (run50 [0; x]) = true) /\
  (forall i, i < 21 -> verdict50 [1; i] (run50 [1; i]) = true) /\
  (forall x, x < 65536 -> verdict50 [2; x] (run50 [2; x]) = true) /\
  (forall i, i < 60 -> verdict50 [3; i] (run50 [3; i]) = true) /\
  (forall b, b < 256 -> verdict50 [4; b] (run50 [4; b]) = true) /\
  (forall x, x < 768 -> verdict50 [5; x] (run50 [5; x]) = true) /\
  (forall v t, v < 256 -> t < 4 -> verdict50 [6; v; t] (run50 [6; v; t]) = true) /\
  (forall i, i < 28 -> verdict50 [7; i] (run50 [7; i]) = true) /\
  (forall v x, v < 256 -> x < 256 -> verdict50 [9; v; x] (run50 [9; v; x]) = true) /\
  (forall i, i < 8 -> verdict50 [10; i] (run50 [10; i]) = true).
Proof.
  destruct oracle_kind01 as (O0 & O1). destruct oracle_kind23 as (O2 & O3). destruct oracle_kind45 as (O4 & O5).
  destruct oracle_kind7 as (O7 & O10). pose proof oracle_kind6 as O6. pose proof oracle_kind9 as O9.
  repeat split.
  - exact (forall_range _ _ O0).
  - exact (forall_range _ _ O1).
  - exact (forall_range _ _ O2).
  - exact (forall_range _ _ O3).
  - exact (forall_range _ _ O4).
  - exact (forall_range _ _ O5).
  - intros v t Hv Ht. pose proof (forall_range _ _ O6 v Hv) as H. cbv beta in H. exact (forall_range _ _ H t Ht).
  - exact (forall_range _ _ O7).
  - intros v x Hv Hx. pose proof (forall_range _ _ O9 v Hv) as H. cbv beta in H. exact (forall_range _ _ H x Hx).
  - exact (forall_range _ _ O10).
Qed.

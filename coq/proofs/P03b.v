(* P03b.v -- C03: the reject classes the property names, each as a theorem about from_bytes (every policy):
   shorter than four bytes; token length 9-15; truncated token; and, at an option-header position after any valid
   option prefix: nibble 15 in delta or length (other than the 0xFF marker), truncated extended delta / length,
   truncated value, cumulative option number above 65535. *)
From CoapV Require Import proofs.Tac Header Packet WireSpec Encode Decode PacketOps proofs.PWire proofs.PEnc proofs.PDec.

Lemma reject_of_ref pol bs : bytes_wf bs -> ref_parse bs = MustReject -> exists e, from_bytes pol bs = Err e.
Proof. intros Hw H. pose proof (from_bytes_ref pol bs Hw) as R. rewrite H in R. exact R. Qed.

Theorem rejects_short pol bs : bytes_wf bs -> len bs < 4 -> exists e, from_bytes pol bs = Err e.
Proof.
  intros Hw Hl. apply reject_of_ref; [exact Hw|].
  destruct bs as [|b0 [|c [|m1 [|m2 r]]]]; try reflexivity. rewrite !len_cons in Hl. lia.
Qed.

Theorem rejects_token_length pol b0 c m1 m2 r : bytes_wf (b0 :: c :: m1 :: m2 :: r) -> 8 < b0 mod 16 ->
  exists e, from_bytes pol (b0 :: c :: m1 :: m2 :: r) = Err e.
Proof. intros Hw H. apply reject_of_ref; [exact Hw|]. cbn [ref_parse]. replace (8 <? b0 mod 16) with true by lia. reflexivity. Qed.

Theorem rejects_truncated_token pol b0 c m1 m2 r : bytes_wf (b0 :: c :: m1 :: m2 :: r) -> len r < b0 mod 16 ->
  exists e, from_bytes pol (b0 :: c :: m1 :: m2 :: r) = Err e.
Proof.
  intros Hw H. apply reject_of_ref; [exact Hw|]. cbn [ref_parse]. destruct (8 <? b0 mod 16); [reflexivity|].
  unfold split_at. replace (b0 mod 16 <=? len r) with false by lia. reflexivity.
Qed.

Lemma opts_count_le l : forall prev, (length l <= length (wire_opts prev l))%nat.
Proof.
  induction l as [|[n v] l IH]; intros prev; cbn [wire_opts length]; [lia|].
  rewrite app_length. unfold wire_opt. destruct (ext_field (n - prev)), (ext_field (len v)). cbn [length]. specialize (IH n). lia.
Qed.

(* a byte b (not the marker) at an option-header position after the valid options l, where no option can be read *)
Theorem rejects_bad_option pol b0 c m1 m2 tok l b rest :
  bytes_wf (b0 :: c :: m1 :: m2 :: tok ++ wire_opts 0 l ++ b :: rest) ->
  b0 mod 16 = len tok -> len tok <= 8 -> ascending 0 l -> b <> 255 ->
  ref_one (last_num 0 l) b rest = None ->
  exists e, from_bytes pol (b0 :: c :: m1 :: m2 :: tok ++ wire_opts 0 l ++ b :: rest) = Err e.
Proof.
  intros Hw Ht H8 Hasc Hb Hone. apply reject_of_ref; [exact Hw|]. cbn [ref_parse].
  replace (8 <? b0 mod 16) with false by lia. unfold split_at. rewrite Ht.
  replace (len tok <=? len (tok ++ wire_opts 0 l ++ b :: rest)) with true by (rewrite len_app; lia).
  unfold take, drop. rewrite firstn_app, skipn_app. replace (N.to_nat (len tok) - length tok)%nat with 0%nat by (unfold len; lia).
  rewrite firstn_all2, skipn_all2 by (unfold len; lia). cbn [firstn skipn app]. rewrite app_nil_r.
  set (tail := wire_opts 0 l ++ b :: rest).
  assert (Hl : (length l <= length tail)%nat) by (unfold tail; rewrite app_length; pose proof (opts_count_le l 0); lia).
  replace (S (length tail)) with (length l + (S (length tail) - length l))%nat by lia.
  unfold tail at 2. rewrite prefix_lemma by exact Hasc.
  destruct (S (length tail) - length l)%nat as [|f] eqn:E; [lia|].
  cbn [ref_opts]. replace (b =? 255) with false by lia. rewrite Hone. reflexivity.
Qed.

(* ---- which bytes make ref_one fail: exactly the classes the property lists ---- *)
Lemma class_delta_nibble_15 num b rest : b / 16 = 15 -> ref_one num b rest = None.
Proof. intros H. unfold ref_one, ref_ext. rewrite H. reflexivity. Qed.

Lemma class_length_nibble_15 num b rest : b mod 16 = 15 -> ref_one num b rest = None.
Proof. intros H. unfold ref_one. destruct (ref_ext (b / 16) rest) as [[d r1]|]; [|reflexivity]. unfold ref_ext at 1. rewrite H. reflexivity. Qed.

Lemma class_truncated_delta num b rest : (b / 16 = 13 /\ rest = []) \/ (b / 16 = 14 /\ len rest < 2) -> ref_one num b rest = None.
Proof.
  intros [(H & ->)|(H & Hl)]; unfold ref_one, ref_ext; rewrite H; [reflexivity|].
  destruct rest as [|x [|y r]]; try reflexivity. rewrite !len_cons in Hl. lia.
Qed.

Lemma class_truncated_length num b rest d r1 : ref_ext (b / 16) rest = Some (d, r1) ->
  (b mod 16 = 13 /\ r1 = []) \/ (b mod 16 = 14 /\ len r1 < 2) -> ref_one num b rest = None.
Proof.
  intros Hd [(H & ->)|(H & Hl)]; unfold ref_one; rewrite Hd; unfold ref_ext at 1; rewrite H; [reflexivity|].
  destruct r1 as [|x [|y r]]; try reflexivity. rewrite !len_cons in Hl. lia.
Qed.

Lemma class_number_overflow num b rest d r1 : ref_ext (b / 16) rest = Some (d, r1) -> 65535 < num + d -> ref_one num b rest = None.
Proof.
  intros Hd Ho. unfold ref_one. rewrite Hd. destruct (ref_ext (b mod 16) r1) as [[L r2]|]; [|reflexivity].
  replace (65535 <? num + d) with true by lia. reflexivity.
Qed.

Lemma class_truncated_value num b rest d r1 L r2 : ref_ext (b / 16) rest = Some (d, r1) -> ref_ext (b mod 16) r1 = Some (L, r2) ->
  len r2 < L -> ref_one num b rest = None.
Proof.
  intros Hd HL Hl. unfold ref_one. rewrite Hd, HL. destruct (65535 <? num + d); [reflexivity|].
  unfold split_at. replace (L <=? len r2) with false by lia. reflexivity.
Qed.

(* ... and nothing else does: a failing header byte is in one of the classes *)
Theorem ref_one_none_classes num b rest : b < 256 -> ref_one num b rest = None ->
  b / 16 = 15 \/ b mod 16 = 15 \/
  ((b / 16 = 13 /\ rest = []) \/ (b / 16 = 14 /\ len rest < 2)) \/
  (exists d r1, ref_ext (b / 16) rest = Some (d, r1) /\
     (((b mod 16 = 13 /\ r1 = []) \/ (b mod 16 = 14 /\ len r1 < 2)) \/ 65535 < num + d \/
      exists L r2, ref_ext (b mod 16) r1 = Some (L, r2) /\ len r2 < L)).
Proof.
  intros Hb. unfold ref_one.
  assert (Hd : b / 16 < 16) by (apply N.div_lt_upper_bound; lia).
  assert (Hm : b mod 16 < 16) by (apply N.mod_lt; lia).
  destruct (ref_ext (b / 16) rest) as [[d r1]|] eqn:ED.
  - destruct (ref_ext (b mod 16) r1) as [[L r2]|] eqn:EL.
    + destruct (65535 <? num + d) eqn:EO.
      * intros _. right. right. right. exists d, r1. split; [reflexivity|]. right. left. lia.
      * unfold split_at. destruct (L <=? len r2) eqn:ES; [discriminate|]. intros _.
        right. right. right. exists d, r1. split; [reflexivity|]. right. right. exists L, r2. split; [exact EL|lia].
    + intros _. unfold ref_ext in EL.
      destruct (b mod 16 <? 13) eqn:E1; [discriminate|]. destruct (b mod 16 =? 13) eqn:E2.
      * destruct r1; [|discriminate]. right. right. right. exists d, []. split; [reflexivity|]. left. left. split; [lia|reflexivity].
      * destruct (b mod 16 =? 14) eqn:E3; [|right; left; lia].
        right. right. right. exists d, r1. split; [reflexivity|]. left. right. split; [lia|].
        destruct r1 as [|x [|y r]]; try discriminate; rewrite ?len_cons, ?len_nil; lia.
  - intros _. unfold ref_ext in ED.
    destruct (b / 16 <? 13) eqn:E1; [discriminate|]. destruct (b / 16 =? 13) eqn:E2.
    + destruct rest; [|discriminate]. right. right. left. left. split; [lia|reflexivity].
    + destruct (b / 16 =? 14) eqn:E3; [|left; lia].
      right. right. left. right. split; [lia|]. destruct rest as [|x [|y r]]; try discriminate; rewrite ?len_cons, ?len_nil; lia.
Qed.

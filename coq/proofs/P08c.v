(* P08c.v -- C08 with the block size changing mid-transfer: a run of follow-up requests whose block numbers agree
   with the running byte offset at whatever size each of them names (the client may pick a smaller -- or any -- size
   at every step and recompute the number) is served entirely from the cache; the payloads concatenate to exactly
   the rest of the body, every block but the last is full and flagged, and the entry is released with the last. *)
From CoapV Require Import proofs.Tac Header Packet UintOpt Utf8 BlockValue Encode Response Accessors BlockHandler
  WireSpec PacketOps proofs.PWire proofs.PEnc proofs.PDec proofs.P01 proofs.P06 proofs.P13 proofs.P11 proofs.P08b.

(* the requests continue a transfer of a body of length L at byte offset off *)
Fixpoint continues (L off : N) (reqs : list request) : Prop :=
  match reqs with
  | [] => False
  | r :: rest =>
      exists k m szx, first_block OPT_BLOCK2 (message r) = Some (mkBlock k m szx) /\ response r <> None /\
        k * 2 ^ (szx + 4) = off /\ off < L /\
        match rest with
        | [] => L <= off + 2 ^ (szx + 4)
        | _ => off + 2 ^ (szx + 4) < L /\ continues L (off + 2 ^ (szx + 4)) rest
        end
  end.

Definition more_of (x : outcome bool * request) : option bool :=
  match response (snd x) with
  | Some r => match first_block OPT_BLOCK2 r with Some b => Some (b_more b) | None => None end
  | None => None
  end.

Theorem renegotiated_followups_served c : forall reqs off st, cached_resp st = Some c ->
  continues (len (payload c)) off reqs ->
  let '(outs, st') := serve_all st reqs in
  Forall (fun x => fst x = Ok true) outs /\
  concat (map payload_of outs) = drop off (payload c) /\
  cached_resp st' = None.
Proof.
  induction reqs as [|r rest IH]; intros off st Hc Hcont; [destruct Hcont|].
  cbn [continues] in Hcont. destruct Hcont as (k & m & szx & Hfb & Hresp & Hk & Hoff & Hrest).
  destruct (response r) as [rp|] eqn:Hr; [|congruence].
  cbn [serve_all]. unfold handle_block2. rewrite Hfb, Hc.
  set (b2 := mkBlock k m szx). set (sz := 2 ^ (szx + 4)) in *.
  assert (Hbs : block_size b2 = sz) by reflexivity.
  assert (Hn : b_num b2 < 65536) by (apply (first_block_num _ _ _ Hfb)).
  assert (Hoff' : b_num b2 * block_size b2 < len (payload c)) by (rewrite Hbs; cbn [b_num b2]; lia).
  destruct (serve_cached_spec r b2 c rp Hr Hn (or_introl Hoff')) as (v & _ & ES).
  rewrite ES. rewrite Hbs. cbn [b_num b2]. rewrite Hk.
  destruct rest as [|r2 rest2].
  - cbn [serve_all]. replace (off + sz <? len (payload c)) with false by lia.
    unfold st_resp, st_b2. cbn [cached_resp]. repeat split; [repeat constructor|].
    cbn [map concat]. unfold payload_of. cbn [snd response with_response set_option set_payload set_opts payload].
    rewrite app_nil_r. unfold take. apply firstn_all2. pose proof (len_drop off (payload c)). unfold len in *. lia.
  - destruct Hrest as (Hlt & Hrest).
    replace (off + sz <? len (payload c)) with true by lia.
    specialize (IH (off + sz) (st_b2 st (Some b2)) Hc Hrest).
    destruct (serve_all (st_b2 st (Some b2)) (r2 :: rest2)) as [outs st'] eqn:ESA.
    destruct IH as (I1 & I2 & I3). repeat split.
    + constructor; [reflexivity|exact I1].
    + cbn [map concat]. rewrite I2. unfold payload_of at 1. cbn [snd response with_response set_option set_payload set_opts payload].
      symmetry. apply take_drop_step.
    + exact I3.
Qed.

Lemma block_new_szx n m sz b : block_new n m sz = Ok b -> b_szx b < 8 /\ b_num b < 65536.
Proof.
  unfold block_new. destruct (largest_power_of_2_not_in_excess sz) as [e|]; [|discriminate].
  destruct (7 <? e - 4) eqn:E; [discriminate|]. destruct (n <? U16) eqn:E2; [|discriminate]. intros [= <-]. cbn. unfold U16 in E2. lia.
Qed.

Lemma negotiate_szx rb ms tp M b : negotiate rb ms tp M = Ok (Some b) -> b_szx b < 8.
Proof.
  unfold negotiate. destruct (M <? _); [discriminate|]. destruct rb as [rb|].
  - destruct (_ =? 0); [discriminate|]. destruct (block_new _ _ _) as [r|e|s] eqn:EB; try discriminate.
    intros [= <-]. apply (block_new_szx _ _ _ _ EB).
  - destruct (_ <? _); [discriminate|]. destruct (block_new _ _ _) as [r|e|s] eqn:EB; try discriminate.
    intros [= <-]. apply (block_new_szx _ _ _ _ EB).
Qed.

Lemma block_decode_encoded num more szx v : num < 65536 -> szx < 8 ->
  block_encode (mkBlock num more szx) = Ok v -> block_decode v = Ok (mkBlock num more szx).
Proof.
  intros Hn Hs EV. destruct (block_roundtrip num more szx Hn Hs) as (R1 & R2 & _). rewrite R1 in EV. injection EV as <-. exact R2.
Qed.

(* the first exchange: the application's response is fragmented, block 0 goes out, the response is cached *)
Theorem first_fragment req M st rp ms b2 : response req = Some rp -> get_option rp OPT_BLOCK2 = None ->
  message_size_hack rp = Ok ms -> negotiate (last_b2 st) ms (len (payload rp)) M = Ok (Some b2) -> b_num b2 = 0 ->
  let hm := block_size b2 <? len (payload rp) in
  exists req', intercept_response_st req M st = (Ok hm, req', if hm then st_resp st (Some rp) else st) /\
    payload_of (Ok hm, req') = take (block_size b2) (payload rp) /\
    more_of (Ok hm, req') = Some hm.
Proof.
  intros Hr Hnb Hms Hneg Hnum hm. unfold intercept_response_st. rewrite Hr, Hnb, Hms, Hneg.
  assert (Hoff : b_num b2 * block_size b2 < len (payload rp) \/ (payload rp = [] /\ b_num b2 = 0)).
  { rewrite Hnum. destruct (payload rp) as [|x t] eqn:EP; [right; split; reflexivity|left; rewrite len_cons; lia]. }
  destruct (serve_cached_spec req b2 rp rp Hr ltac:(lia) Hoff) as (v & EV & ES). rewrite ES.
  rewrite Hnum, N.mul_0_l, N.add_0_l in *. fold hm.
  eexists. split; [destruct hm; reflexivity|]. split.
  - unfold payload_of. cbn [snd response with_response set_option set_payload set_opts payload]. unfold drop. reflexivity.
  - unfold more_of. cbn [snd response with_response].
    unfold first_block, get_first_option, set_option, set_opts. cbn [opts].
    rewrite opt_get_insert.
    rewrite (block_decode_encoded 0 hm (b_szx b2) v ltac:(lia) (negotiate_szx _ _ _ _ _ Hneg) EV). reflexivity.
Qed.

(* a whole transfer: the first exchange fragments the application's response, then any run of follow-ups that
   continues at the right offsets (at whatever sizes) -- the client reassembles exactly the body, the application
   is not consulted again, and the cache entry is released at the end *)
Theorem whole_transfer req M st rp ms b2 reqs : response req = Some rp -> get_option rp OPT_BLOCK2 = None ->
  message_size_hack rp = Ok ms -> negotiate (last_b2 st) ms (len (payload rp)) M = Ok (Some b2) -> b_num b2 = 0 ->
  block_size b2 < len (payload rp) ->
  continues (len (payload rp)) (block_size b2) reqs ->
  exists req' st1, intercept_response_st req M st = (Ok true, req', st1) /\
    let '(outs, st') := serve_all st1 reqs in
    Forall (fun x => fst x = Ok true) outs /\
    payload_of (Ok true, req') ++ concat (map payload_of outs) = payload rp /\
    cached_resp st' = None.
Proof.
  intros Hr Hnb Hms Hneg Hnum Hlt Hcont.
  destruct (first_fragment req M st rp ms b2 Hr Hnb Hms Hneg Hnum) as (req' & E1 & E2 & _).
  replace (block_size b2 <? len (payload rp)) with true in * by lia.
  exists req', (st_resp st (Some rp)). split; [exact E1|].
  pose proof (renegotiated_followups_served rp reqs (block_size b2) (st_resp st (Some rp)) eq_refl Hcont) as HF.
  destruct (serve_all (st_resp st (Some rp)) reqs) as [outs st'].
  destruct HF as (F1 & F2 & F3). repeat split; [exact F1| |exact F3].
  rewrite E2, F2. apply take_drop.
Qed.

(* whatever block the request names, the served payload is at most that block's size (the clause the suite-80 oracle
   checks on every response to a request that names a size) *)
Theorem served_within_size req b2 cached hm req' : serve_cached req b2 cached = (Ok hm, req') ->
  exists r', response req' = Some r' /\ len (payload r') <= block_size b2.
Proof.
  unfold serve_cached. destruct (response req) as [rp|]; [|discriminate].
  destruct (_ && _); [discriminate|]. destruct (block_encode _) as [v|e|s]; try discriminate.
  intros [= <- <-]. eexists. split; [reflexivity|].
  unfold set_option, set_payload, set_opts. cbn [payload].
  unfold take, len. rewrite firstn_length. lia.
Qed.

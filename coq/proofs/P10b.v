(* P10b.v -- C10 / C08: whatever else a request does (also when it ends an upload), the Block2 size it names is what the
   response to it is negotiated against: after intercept_request lets a request through to the application, the
   state remembers exactly the request's own Block2 option (or its absence). *)
From CoapV Require Import proofs.Tac Header Packet UintOpt Utf8 BlockValue Encode Response Accessors BlockHandler proofs.P11.

Lemma set_payload_first_block n p b : first_block n (set_payload p b) = first_block n p.
Proof. reflexivity. Qed.

Ltac inj3 := cbv beta iota in *;
  match goal with EH : _ = (Ok false, _, _) |- _ => first [discriminate EH | (injection EH; intros; subst; reflexivity)] end.

Theorem request_block2_remembered req M st req' st' : intercept_request_st req M st = (Ok false, req', st') ->
  last_b2 st' = first_block OPT_BLOCK2 (message req).
Proof.
  unfold intercept_request_st. destruct (handle_block1 req M st) as [[o req1] st1] eqn:EH.
  destruct o as [[|]|e|s]; try (intros E; discriminate E).
  assert (HM : first_block OPT_BLOCK2 (message req1) = first_block OPT_BLOCK2 (message req)).
  { unfold handle_block1 in EH.
    destruct (message_size_hack (message req)); try (inj3).
    destruct (negotiate _ _ _ M) as [rsp| |]; try (inj3).
    destruct (first_block OPT_BLOCK1 (message req)) as [b1|], rsp as [r1|]; try (inj3).
    - revert EH. destruct (extending_splice _ _ _ _); [|intros EH; inj3].
      destruct (b_more b1); destruct (response req); intros EH; inj3.
    - revert EH. destruct (response req); intros EH; inj3. }
  unfold handle_block2. rewrite HM.
  destruct (first_block OPT_BLOCK2 (message req)) as [b2|]; [|intros [= _ <-]; reflexivity].
  destruct (cached_resp st1) as [c|].
  - destruct (serve_cached req1 b2 c) as [[[|]|e|s] rq]; intros E; try discriminate E.
  - intros [= _ <-]. reflexivity.
Qed.

(* PEnc.v -- the encoder model produces exactly the RFC wire image (C01 (d), C04). *)
From CoapV Require Import proofs.Tac Header Packet WireSpec Encode PacketOps proofs.PWire.

Lemma enc_opt_header_spec delta vlen :
  delta < 65536 -> vlen <= MAX_EXT ->
  enc_opt_header delta vlen =
    Ok ((fst (ext_field delta) * 16 + fst (ext_field vlen)) :: snd (ext_field delta) ++ snd (ext_field vlen)).
Proof.
  unfold MAX_EXT. intros Hd Hv. unfold enc_opt_header, ext_field.
  destruct (delta <=? 12) eqn:D1; destruct (vlen <=? 12) eqn:V1;
  destruct (delta <? 269) eqn:D2; destruct (vlen <? 269) eqn:V2; try lia;
  cbn [fst snd andb app];
  repeat match goal with
  | |- context [?a <? ?b] => let E := fresh in destruct (a <? b) eqn:E; try lia
  | |- context [?a <=? ?b] => let E := fresh in destruct (a <=? b) eqn:E; try lia
  end; cbn [andb app]; do 2 f_equal; try lia;
  repeat (f_equal; try lia).
Qed.

Lemma enc_opts_spec l : forall prev acc, ascending prev l ->
  enc_opts prev l acc = Ok (acc ++ wire_opts prev l).
Proof.
  induction l as [|[n v] l IH]; intros prev acc; cbn [ascending enc_opts wire_opts].
  - intros _. rewrite app_nil_r. reflexivity.
  - intros (Hp & Hn & Hv & Hw & Ha).
    replace (n <? prev) with false by lia.
    rewrite enc_opt_header_spec by (try assumption; lia). cbn [bind].
    rewrite IH by assumption. f_equal. unfold wire_opt.
    destruct (ext_field (n - prev)), (ext_field (len v)). cbn [fst snd].
    rewrite <- !app_assoc. cbn [app]. rewrite <- !app_assoc. reflexivity.
Qed.

(* ---- well-formed packet states: what the public API can build ---- *)
Fixpoint keys_above (lo : N) (m : optmap) : Prop :=
  match m with
  | [] => True
  | (k, vs) :: r => lo <= k /\ k < 65536 /\ Forall (fun v => len v <= MAX_EXT /\ bytes_wf v) vs /\ keys_above (k + 1) r
  end.

Definition pkt_wf (p : packet) : Prop :=
  vtt (hdr p) < 256 /\ vtt (hdr p) mod 16 = len (token p) /\ len (token p) <= 8 /\ bytes_wf (token p) /\
  class_to_byte (code (hdr p)) < 256 /\ mid (hdr p) < 65536 /\ keys_above 0 (opts p) /\ bytes_wf (payload p).

Lemma keys_above_weaken m : forall lo lo', lo' <= lo -> keys_above lo m -> keys_above lo' m.
Proof. destruct m as [|[k vs] r]; cbn [keys_above]; intros lo lo' H; [auto|]. intros (?&?&?&?). repeat split; auto; lia. Qed.

Lemma ascending_app a : forall prev b, ascending prev a -> ascending (last_num prev a) b -> ascending prev (a ++ b).
Proof.
  induction a as [|[n v] a IH]; intros prev b; cbn [ascending last_num app]; [auto|].
  intros (?&?&?&?&?) Hb. repeat split; auto.
Qed.

Lemma ascending_weaken l prev prev' : prev' <= prev -> ascending prev l -> ascending prev' l.
Proof. destruct l as [|[n v] l]; cbn [ascending]; [auto|]. intros ? (?&?&?&?&?). repeat split; auto; lia. Qed.

Lemma ascending_same k vs : forall prev, prev <= k -> k < 65536 ->
  Forall (fun v => len v <= MAX_EXT /\ bytes_wf v) vs ->
  ascending prev (map (fun v => (k, v)) vs) /\ last_num prev (map (fun v : bytes => (k, v)) vs) <= k /\
  prev <= last_num prev (map (fun v : bytes => (k, v)) vs).
Proof.
  induction vs as [|v vs IH]; intros prev Hp Hk Hf; cbn [map ascending last_num]; [repeat split; auto; lia|].
  inversion Hf as [|? ? [Hv Hw] Hf']; subst.
  destruct (IH k ltac:(lia) Hk Hf') as (IA & IL & IG). repeat split; auto; lia.
Qed.

Lemma flatten_ascending m : forall lo, keys_above lo m ->
  ascending lo (flatten m) /\ lo <= last_num lo (flatten m).
Proof.
  induction m as [|[k vs] r IH]; intros lo; cbn [keys_above]; [cbn; split; [auto|lia]|].
  intros (Hlo & Hk & Hf & Hr).
  unfold flatten. cbn [flat_map fst snd]. fold (flatten r).
  destruct (ascending_same k vs lo Hlo Hk Hf) as (A1 & L1 & G1).
  destruct (IH (k + 1) Hr) as (A2 & G2).
  assert (HL : forall a prev b, last_num prev (a ++ b) = last_num (last_num prev a) b).
  { clear. induction a as [|[n v] a IHa]; intros; cbn [last_num app]; auto. }
  split.
  - apply ascending_app; [exact A1|]. eapply ascending_weaken; [|exact A2]. lia.
  - rewrite HL.
    assert (HM : forall l p q, p <= q -> ascending q l -> last_num p l >= p).
    { clear. induction l as [|[n v] l IHl]; intros p q Hpq; cbn [last_num ascending]; [lia|].
      intros (?&?&?&?&Ha). specialize (IHl n n ltac:(lia) Ha). lia. }
    destruct (flatten r) as [|[n v] fr] eqn:Efr; cbn [last_num]; [lia|].
    cbn [ascending] in A2. destruct A2 as (?&?&?&?&A2').
    specialize (HM fr n n ltac:(lia) A2'). lia.
Qed.

Lemma class_byte_wf c : c < 256 -> class_to_byte (class_of_byte c) = c.
Proof.
  intros H.
  assert (forallb (fun c => class_to_byte (class_of_byte c) =? c) (map N.of_nat (seq 0 256)) = true) as HA
    by (vm_compute; reflexivity).
  rewrite forallb_forall in HA. specialize (HA c).
  rewrite N.eqb_eq in HA. apply HA. apply in_map_iff. exists (N.to_nat c). split; [lia|].
  apply in_seq. lia.
Qed.

Lemma mclass_eqb_empty c : mclass_eqb c Empty = true <-> c = Empty.
Proof. destruct c; cbn; split; congruence. Qed.

Lemma class_byte_empty c : class_to_byte c = 0 -> class_to_byte c < 256 -> c = Empty \/ c = Reserved 0.
Proof. destruct c as [|r|s|n]; [auto|destruct r; cbn; lia|destruct s; cbn; lia|cbn; intros ->; auto]. Qed.

(* the header byte the crate stores is the byte the RFC layout prescribes *)
Lemma vtt_layout v t : v < 256 -> v mod 16 = t -> (v / 64) * 64 + ((v / 16) mod 4) * 16 + t = v.
Proof. intros. lia. Qed.

Theorem to_bytes_internal_spec p lim : pkt_wf p ->
  to_bytes_internal p lim =
    if match lim with Some l => wire_len (abs p) <=? l | None => true end
    then Ok (wire_image (abs p)) else Err ERR_PACKET_LENGTH.
Proof.
  intros (Hv & Ht & Ht8 & Htw & Hc & Hm & Hk & Hpw).
  unfold to_bytes_internal.
  destruct (flatten_ascending (opts p) 0 Hk) as (Hasc & _).
  rewrite enc_opts_spec by exact Hasc. rewrite app_nil_l. cbn [bind].
  assert (HL : 4 + len (token p) + (if sends_payload p then 1 + len (payload p) else 0)
               + len (wire_opts 0 (flatten (opts p))) = wire_len (abs p)).
  { unfold wire_len, abs, sends_payload. cbn [a_token a_opts a_payload]. rewrite wire_opts_len.
    destruct (mclass_eqb (code (hdr p)) Empty); cbn [negb andb]; [lia|].
    destruct (payload p) as [|x pl]; cbn [negb]; [lia|]. rewrite len_cons. lia. }
  rewrite HL.
  assert (HI : [vtt (hdr p); class_to_byte (code (hdr p)); mid (hdr p) / 256; mid (hdr p) mod 256]
               ++ token p ++ wire_opts 0 (flatten (opts p))
               ++ (if sends_payload p then 255 :: payload p else []) = wire_image (abs p)).
  { unfold wire_image, wire_header, abs, sends_payload, wire_payload.
    cbn [a_ver a_type a_token a_code a_mid a_opts a_payload].
    rewrite vtt_layout by assumption.
    destruct (mclass_eqb (code (hdr p)) Empty); cbn [negb andb]; [reflexivity|].
    destruct (payload p); reflexivity. }
  rewrite HI.
  assert (H4 : 4 <= wire_len (abs p)) by (unfold wire_len; lia).
  destruct lim as [l|].
  - destruct (wire_len (abs p) <=? l) eqn:E.
    + replace (l <? wire_len (abs p)) with false by lia.
      replace (wire_len (abs p) <? 4) with false by lia. reflexivity.
    + replace (l <? wire_len (abs p)) with true by lia. reflexivity.
  - replace (wire_len (abs p) <? 4) with false by lia. reflexivity.
Qed.

(* a value longer than the 16-bit extended form can carry is refused, never emitted *)
Lemma enc_opts_too_long l : forall prev acc,
  existsb (fun kv => MAX_EXT <? len (snd kv)) l = true ->
  (forall s, enc_opts prev l acc <> Panic s) ->
  exists e, enc_opts prev l acc = Err e.
Proof.
  induction l as [|[n v] l IH]; intros prev acc; cbn [existsb enc_opts snd]; [discriminate|].
  intros Hex Hnp. destruct (n <? prev) eqn:E; [exfalso; eapply Hnp; reflexivity|].
  destruct (enc_opt_header (n - prev) (len v)) as [h|e|s] eqn:EH; cbn [bind] in *.
  - destruct (MAX_EXT <? len v) eqn:EV.
    + exfalso. unfold enc_opt_header, MAX_EXT in *.
      replace ((269 <=? len v) && (65535 <? len v - 269)) with true in EH by lia. discriminate.
    + cbn [orb] in Hex. apply IH; assumption.
  - exists e. reflexivity.
  - exfalso. eapply Hnp. reflexivity.
Qed.

Lemma enc_opt_header_no_panic d l s : enc_opt_header d l <> Panic s.
Proof. unfold enc_opt_header. destruct ((269 <=? l) && (65535 <? l - 269)); discriminate. Qed.


(* P10.v -- C10: a block-wise response built by the handler encodes within the budget
   (the insertion lemma on the wire image, and its use for serve_cached). *)
From CoapV Require Import proofs.Tac Header Packet UintOpt Utf8 BlockValue Encode Response Accessors BlockHandler
  WireSpec PacketOps proofs.PWire proofs.PEnc proofs.PDec proofs.P01 proofs.P06 proofs.P13 proofs.P11.

(* inserting (n0, v0) into an ascending option sequence at its place *)
Fixpoint insert (n0 : N) (v0 : bytes) (l : list (N * bytes)) : list (N * bytes) :=
  match l with
  | [] => [(n0, v0)]
  | (n, v) :: r => if n <=? n0 then (n, v) :: insert n0 v0 r else (n0, v0) :: (n, v) :: r
  end.

Lemma ext_len_mono a b : a <= b -> ext_len a <= ext_len b.
Proof. unfold ext_len. intros. destruct (a <=? 12) eqn:?, (b <=? 12) eqn:?, (a <? 269) eqn:?, (b <? 269) eqn:?; lia. Qed.

(* one option with number <= 268 and a value of at most 12 bytes costs at most 2 + its length:
   its own delta may need one extension byte, and its successor's delta can only get shorter *)
Lemma insert_growth l : forall prev n0 v0,
  prev <= n0 -> n0 <= 268 -> len v0 <= 12 ->
  nums_asc prev l ->
  opts_len prev (insert n0 v0 l) <= opts_len prev l + 2 + len v0.
Proof.
  induction l as [|[n v] r IH]; intros prev n0 v0 Hp Hn Hv Hasc.
  - cbn [insert opts_len]. unfold ext_len.
    destruct (n0 - prev <=? 12) eqn:?, (n0 - prev <? 269) eqn:?, (len v0 <=? 12) eqn:?; lia.
  - cbn [insert]. cbn [nums_asc] in Hasc. destruct Hasc as (H1 & Hasc).
    destruct (n <=? n0) eqn:E.
    + cbn [opts_len]. specialize (IH n n0 v0 ltac:(lia) Hn Hv Hasc). lia.
    + cbn [opts_len].
      pose proof (ext_len_mono (n - n0) (n - prev) ltac:(lia)).
      assert (ext_len (n0 - prev) <= 1) by (unfold ext_len; destruct (n0 - prev <=? 12) eqn:?, (n0 - prev <? 269) eqn:?; lia).
      assert (ext_len (len v0) = 0) by (unfold ext_len; destruct (len v0 <=? 12) eqn:?; lia).
      lia.
Qed.

(* ---------- the option map side ---------- *)
Fixpoint all_gt (k : N) (l : list (N * bytes)) : Prop :=
  match l with [] => True | (n, _) :: r => k < n /\ all_gt k r end.

Lemma insert_front k v l : all_gt k l -> insert k v l = (k, v) :: l.
Proof. destruct l as [|[n x] r]; cbn [all_gt insert]; [reflexivity|]. intros (H & _). replace (n <=? k) with false by lia. reflexivity. Qed.

Lemma insert_app_le k v a b : Forall (fun x => fst x <= k) a -> insert k v (a ++ b) = a ++ insert k v b.
Proof.
  induction a as [|[n x] a IH]; intros H; [reflexivity|]. inversion H as [|? ? Hn Ha]; subst. cbn [fst] in Hn.
  cbn [app insert]. replace (n <=? k) with true by lia. f_equal. apply IH. exact Ha.
Qed.

Lemma flatten_all_gt m : forall lo k, keys_above lo m -> k < lo -> all_gt k (flatten m).
Proof.
  induction m as [|[k' vs] r IH]; intros lo k; cbn [keys_above]; [intros; exact I|].
  intros (H1 & H2 & H3 & H4) Hk. rewrite flatten_cons.
  assert (HA : forall a b, (forall x, In x a -> k < fst x) -> all_gt k b -> all_gt k (a ++ b)).
  { clear. induction a as [|[n x] a IHa]; intros b Ha Hb; [exact Hb|]. cbn [app all_gt]. split; [apply (Ha (n, x)); left; reflexivity|].
    apply IHa; [intros y Hy; apply Ha; right; exact Hy|exact Hb]. }
  apply HA.
  - intros x Hx. apply in_map_iff in Hx. destruct Hx as (y & <- & _). cbn. lia.
  - apply (IH (k' + 1)); [exact H4|lia].
Qed.

Lemma flatten_insert_absent m : forall lo k v, keys_above lo m -> opt_get m k = None ->
  flatten (opt_insert m k [v]) = insert k v (flatten m).
Proof.
  induction m as [|[k' vs] r IH]; intros lo k v; cbn [keys_above opt_get opt_insert]; [reflexivity|].
  intros (H1 & H2 & H3 & H4). destruct (k' =? k) eqn:E1; [discriminate|].
  replace (k =? k') with false by lia. destruct (k <? k') eqn:E2.
  - intros _. rewrite insert_front; [reflexivity|]. apply (flatten_all_gt _ k'); [cbn [keys_above]; repeat split; auto; lia|lia].
  - intros HG. rewrite !flatten_cons. rewrite (IH (k' + 1) k v H4 HG). symmetry. apply insert_app_le.
    apply Forall_forall. intros x Hx. apply in_map_iff in Hx. destruct Hx as (y & <- & _). cbn. lia.
Qed.

Lemma flatten_nums_asc m : forall lo, keys_above lo m -> nums_asc lo (flatten m).
Proof.
  intros lo H. destruct (flatten_ascending m lo H) as (HA & _). clear H. revert lo HA.
  induction (flatten m) as [|[n v] l IH]; intros lo; cbn [ascending nums_asc]; [auto|]. intros (H1 & _ & _ & _ & H5). split; [exact H1|apply IH; exact H5].
Qed.

(* ---------- cloning a response onto itself changes nothing ---------- *)
Lemma opt_insert_same m : forall lo k vs, keys_above lo m -> opt_get m k = Some vs -> opt_insert m k vs = m.
Proof.
  induction m as [|[k' vs'] r IH]; intros lo k vs; cbn [keys_above opt_get opt_insert]; [discriminate|].
  intros (H1 & H2 & H3 & H4). destruct (k' =? k) eqn:E1.
  - intros [= <-]. replace (k =? k') with true by lia. f_equal. f_equal. lia.
  - replace (k =? k') with false by lia. destruct (k <? k') eqn:E2; [discriminate|]. intros HG. f_equal. eapply IH; eauto.
Qed.

Lemma opt_get_in m : forall lo k vs, keys_above lo m -> In (k, vs) m -> opt_get m k = Some vs.
Proof.
  induction m as [|[k' vs'] r IH]; intros lo k vs; cbn [keys_above opt_get In]; [tauto|].
  intros (H1 & H2 & H3 & H4) [H|H].
  - injection H as -> ->. rewrite N.eqb_refl. reflexivity.
  - assert (k' < k).
    { assert (HG : forall (r0 : optmap) lo0, k' < lo0 -> keys_above lo0 r0 -> In (k, vs) r0 -> k' < k).
      { clear. induction r0 as [|[k2 v2] r0 IHr]; intros lo0 Hlo; cbn [keys_above In]; [tauto|].
        intros (A & B & C & D) [E|E]; [injection E as -> ->; lia|]. apply (IHr (k2 + 1)); [lia|exact D|exact E]. }
      apply (HG r (k' + 1)); [lia|exact H4|exact H]. }
    replace (k' =? k) with false by lia. replace (k <? k') with false by lia. eapply IH; eauto.
Qed.

Lemma fold_insert_self m : forall lo, keys_above lo m ->
  forall sub, (forall x, In x sub -> In x m) -> fold_left (fun o kv => opt_insert o (fst kv) (snd kv)) sub m = m.
Proof.
  intros lo Hk sub. induction sub as [|[k vs] sub IH]; intros Hs; [reflexivity|]. cbn [fold_left fst snd].
  rewrite (opt_insert_same m lo k vs Hk) by (eapply opt_get_in; [exact Hk|apply Hs; left; reflexivity]).
  apply IH. intros x Hx. apply Hs. right. exact Hx.
Qed.

Lemma clone_self p : pkt_wf p -> clone_limited p p = p.
Proof.
  intros (Hv & Ht & Ht8 & Htw & Hc & Hm & Hk & Hpw). unfold clone_limited, set_opts, set_code, set_hdr, set_type, set_version, get_type, get_version.
  cbn [hdr vtt code mid token opts payload].
  rewrite (fold_insert_self (opts p) 0 Hk (opts p) (fun x H => H)).
  assert (HT : forall x, x < 4 -> type_bits (type_of_bits x) = x).
  { intros x Hx. assert (x = 0 \/ x = 1 \/ x = 2 \/ x = 3) as [->|[->|[->| ->]]] by lia; reflexivity. }
  destruct p as [[v c m] tok o pl]. cbn [hdr vtt code mid token opts payload] in *. f_equal. f_equal.
  rewrite HT by lia. lia.
Qed.

(* ---------- the fragment fits ---------- *)
Definition overhead_of (p : packet) : N := 4 + len (token p) + opts_len 0 (flatten (opts p)).

Lemma message_size_spec p : pkt_wf p -> message_size_hack p = Ok (overhead_of p + len (payload p)).
Proof.
  intros Hw. unfold message_size_hack.
  assert (Hw' : pkt_wf (set_payload p [])).
  { destruct Hw as (A & B & C & D & E & F & G & H). unfold pkt_wf, set_payload. cbn [hdr token opts payload]. repeat split; auto. constructor. }
  unfold to_bytes_unlimited. rewrite (to_bytes_internal_spec _ None Hw'). rewrite wire_image_len. unfold wire_len, abs, overhead_of, set_payload.
  cbn [a_token a_opts a_payload hdr token opts payload]. destruct (mclass_eqb _ _); f_equal; lia.
Qed.

Lemma block_encode_len b v : b_num b < 65536 -> block_encode b = Ok v -> len v <= 3.
Proof.
  intros Hn. unfold block_encode. rewrite option_from_uint_spec.
  - intros [= <-]. apply be_min_len_bound. assert (b2n (b_more b) < 2) by (destruct (b_more b); cbn; lia). change (256 ^ 3) with 16777216. lia.
  - assert (b2n (b_more b) < 2) by (destruct (b_more b); cbn; lia). change (256 ^ 4) with 4294967296. lia.
Qed.

Theorem fragment_fits req rp lb M b2 hm req' : pkt_wf rp -> response req = Some rp -> get_option rp OPT_BLOCK2 = None ->
  overhead_of rp + 28 <= M -> M <= 1280 ->
  negotiate lb (overhead_of rp + len (payload rp)) (len (payload rp)) M = Ok (Some b2) ->
  serve_cached req b2 rp = (Ok hm, req') ->
  exists r', response req' = Some r' /\ wire_len (abs r') <= M /\ len (payload r') <= block_size b2.
Proof.
  intros Hw Hr Hg H28 HM HN HS.
  destruct (negotiate_size lb (overhead_of rp) (len (payload rp)) M b2 H28 HM HN) as (_ & Hsz & _ & _).
  pose proof (negotiate_num _ _ _ _ _ HN) as Hnum.
  unfold serve_cached in HS. rewrite Hr in HS. rewrite (clone_self rp Hw) in HS.
  destruct (_ && _); [discriminate|].
  destruct (block_encode _) as [v|e|s0] eqn:EB; try discriminate. injection HS as <- <-.
  eexists. split; [reflexivity|].
  pose proof (block_encode_len (mkBlock (b_num b2) (b_num b2 * block_size b2 + block_size b2 <? len (payload rp)) (b_szx b2)) v Hnum EB) as Hv.
  remember (take (block_size b2) (drop (b_num b2 * block_size b2) (payload rp))) as chunk eqn:Hck.
  assert (Hchunk : len chunk <= block_size b2).
  { rewrite Hck. unfold take, len. rewrite firstn_length. lia. }
  destruct Hw as (A & B & C & D & E & F & G & H).
  unfold get_option in Hg.
  split; [|exact Hchunk].
  unfold wire_len, abs, set_option, set_payload, set_opts. cbn [a_token a_opts a_payload hdr token opts payload].
  rewrite (flatten_insert_absent (opts rp) 0 OPT_BLOCK2 v G Hg).
  pose proof (insert_growth (flatten (opts rp)) 0 OPT_BLOCK2 v ltac:(lia) ltac:(unfold OPT_BLOCK2; lia) ltac:(lia) (flatten_nums_asc _ _ G)) as HI.
  unfold overhead_of, BLOCK_OPTIONS_MAX_LENGTH in *.
  clear Hck. destruct (mclass_eqb (code (hdr rp)) Empty); [cbv iota; lia|]. destruct chunk as [|c0 ch]; cbv iota; lia.
Qed.

(* P18.v -- C18: the link-format writer under an arbitrary fault schedule. *)
From CoapV Require Import proofs.Tac LinkFormat.

Section Fault.
Variable fail : nat -> bool.

(* index of the first failing call when [ts] is written from call index n *)
Fixpoint first_fail (n : nat) (ts : list (list N)) : option nat :=
  match ts with [] => None | _ :: r => if fail n then Some n else first_fail (S n) r end.

Lemma gwrites_err s ts : gwrites fail (true, s) ts = (true, s).
Proof. induction ts as [|t ts IH]; [reflexivity|]. cbn [gwrites fold_left gwrite]. exact IH. Qed.

Lemma gwrites_cons w t ts : gwrites fail w (t :: ts) = gwrites fail (gwrite fail w t) ts.
Proof. reflexivity. Qed.

Lemma first_fail_ge ts : forall n k, first_fail n ts = Some k -> (n <= k)%nat.
Proof.
  induction ts as [|x xs IH]; intros n k H; [discriminate|]. cbn [first_fail] in H.
  destruct (fail n); [injection H; intros; lia|]. apply IH in H. lia.
Qed.

Lemma gwrites_spec ts : forall n acc,
  gwrites fail (false, mkSink n acc) ts =
  match first_fail n ts with
  | None => (false, mkSink (n + length ts) (acc ++ ts))
  | Some k => (true, mkSink (S k) (acc ++ firstn (k - n) ts))
  end.
Proof.
  induction ts as [|t ts IH]; intros n acc.
  - cbn. rewrite Nat.add_0_r, app_nil_r. reflexivity.
  - rewrite gwrites_cons. unfold gwrite at 1, sink_write. cbn [calls accepted first_fail].
    destruct (fail n) eqn:F; cbv beta iota zeta.
    + rewrite gwrites_err. rewrite Nat.sub_diag. cbn [firstn]. rewrite app_nil_r. reflexivity.
    + rewrite IH. cbn [length]. destruct (first_fail (S n) ts) as [k|] eqn:FF.
      * apply first_fail_ge in FF.
        replace (k - n)%nat with (S (k - S n)) by lia. cbn [firstn]. rewrite <- app_assoc. reflexivity.
      * rewrite Nat.add_succ_r. rewrite <- app_assoc. reflexivity.
Qed.

(* a link is just its chunk list written through the guarded writer *)
Lemma write_link_is_gwrites first nl w l :
  write_link fail first nl w l = gwrites fail w (link_chunks first nl l).
Proof.
  unfold write_link, link_chunks, gwrites. destruct first; [reflexivity|].
  destruct w as [e s]. cbn [fst]. destruct e.
  - rewrite fold_left_app. destruct nl; cbn [fold_left gwrite]; reflexivity.
  - rewrite fold_left_app. destruct nl; reflexivity.
Qed.

Lemma write_doc_is_gwrites d : forall first nl w,
  write_doc fail first nl w d = gwrites fail w (doc_chunks first nl d).
Proof.
  induction d as [|l d IH]; intros first nl w; [reflexivity|].
  cbn [write_doc doc_chunks]. rewrite IH, write_link_is_gwrites. unfold gwrites. rewrite fold_left_app. reflexivity.
Qed.

Theorem fault_theorem d nl :
  write_doc fail true nl sink0 d =
  match first_fail 0 (doc_chunks true nl d) with
  | None => (false, mkSink (length (doc_chunks true nl d)) (doc_chunks true nl d))
  | Some k => (true, mkSink (S k) (firstn k (doc_chunks true nl d)))
  end.
Proof.
  unfold sink0. rewrite write_doc_is_gwrites, gwrites_spec.
  destruct (first_fail 0 (doc_chunks true nl d)); cbn [app Nat.add]; rewrite ?Nat.sub_0_r; reflexivity.
Qed.

Lemma first_fail_none ts : forall n, (forall i, (n <= i < n + length ts)%nat -> fail i = false) -> first_fail n ts = None.
Proof.
  induction ts as [|t ts IH]; intros n H; [reflexivity|]. cbn [first_fail]. rewrite H by (cbn [length]; lia).
  apply IH. intros i Hi. apply H. cbn [length]. lia.
Qed.

Lemma first_fail_some ts : forall n k, (n <= k < n + length ts)%nat -> fail k = true ->
  (forall i, (n <= i < k)%nat -> fail i = false) -> first_fail n ts = Some k.
Proof.
  induction ts as [|t ts IH]; intros n k Hk Hf Hb; cbn [length] in Hk; [lia|]. cbn [first_fail].
  destruct (Nat.eq_dec n k) as [->|Hne]; [rewrite Hf; reflexivity|].
  rewrite Hb by lia. apply IH; [lia|exact Hf|]. intros i Hi. apply Hb. lia.
Qed.
End Fault.

(* when the sink never fails the result is success and the output is complete *)
Corollary no_fault d nl :
  write_doc (fun _ => false) true nl sink0 d = (false, mkSink (length (doc_chunks true nl d)) (doc_chunks true nl d)).
Proof. rewrite fault_theorem. rewrite first_fail_none; [reflexivity|reflexivity]. Qed.

(* PWire.v -- lemmas about the specification side (WireSpec.v): the reference decoder
   inverts the wire image of an ascending option list, and conversely every byte string it
   accepts is the wire image of what it returns. *)
From CoapV Require Import proofs.Tac WireSpec.

Lemma bytes_wf_app a b : bytes_wf (a ++ b) <-> bytes_wf a /\ bytes_wf b.
Proof. unfold bytes_wf. apply Forall_app. Qed.
Lemma bytes_wf_cons x a : bytes_wf (x :: a) <-> x < 256 /\ bytes_wf a.
Proof. unfold bytes_wf. split; [intros H; inversion H; auto|intros [H1 H2]; constructor; auto]. Qed.
Lemma bytes_wf_nil : bytes_wf [].
Proof. constructor. Qed.

Lemma take_app_len {A} (v r : list A) : take (len v) (v ++ r) = v.
Proof. unfold take, len. rewrite Nat2N.id, firstn_app, Nat.sub_diag, firstn_all. cbn. apply app_nil_r. Qed.
Lemma drop_app_len {A} (v r : list A) : drop (len v) (v ++ r) = r.
Proof. unfold drop, len. rewrite Nat2N.id, skipn_app, Nat.sub_diag, skipn_all. reflexivity. Qed.
Lemma take_drop {A} n (l : list A) : take n l ++ drop n l = l.
Proof. apply firstn_skipn. Qed.
Lemma len_take {A} n (l : list A) : n <= len l -> len (take n l) = n.
Proof. unfold take, len. rewrite firstn_length. lia. Qed.
Lemma len_drop {A} n (l : list A) : len (drop n l) = len l - n.
Proof. unfold drop, len. rewrite skipn_length. lia. Qed.

Lemma ext_field_nib x : x <= MAX_EXT -> fst (ext_field x) < 15.
Proof.
  unfold MAX_EXT, ext_field. intros H. destruct (x <=? 12) eqn:?; [cbn; lia|].
  destruct (x <? 269) eqn:?; cbn; lia.
Qed.

Lemma ext_field_wf x : x <= MAX_EXT -> bytes_wf (snd (ext_field x)).
Proof.
  unfold MAX_EXT, ext_field. intros H. destruct (x <=? 12) eqn:?; [constructor|].
  destruct (x <? 269) eqn:?; cbn [snd]; repeat (constructor; try lia).
Qed.

Lemma ext_field_len x : len (snd (ext_field x)) = ext_len x.
Proof.
  unfold ext_field, ext_len. destruct (x <=? 12); [reflexivity|]. destruct (x <? 269); reflexivity.
Qed.

Lemma ref_ext_enc x r : x <= MAX_EXT ->
  ref_ext (fst (ext_field x)) (snd (ext_field x) ++ r) = Some (x, r).
Proof.
  unfold MAX_EXT. intros H. unfold ext_field.
  destruct (x <=? 12) eqn:E1; cbn [fst snd app].
  - unfold ref_ext. replace (x <? 13) with true by lia. reflexivity.
  - destruct (x <? 269) eqn:E2; cbn [fst snd app]; unfold ref_ext.
    + change (13 <? 13) with false. change (13 =? 13) with true. cbv iota. do 2 f_equal. lia.
    + change (14 <? 13) with false. change (14 =? 13) with false. change (14 =? 14) with true. cbv iota.
      do 2 f_equal. lia.
Qed.

Lemma split_at_app v r : split_at (len v) (v ++ r) = Some (v, r).
Proof.
  unfold split_at. rewrite len_app. replace (len v <=? len v + len r) with true by lia.
  rewrite take_app_len, drop_app_len. reflexivity.
Qed.

Lemma split_at_inv n bs v r : split_at n bs = Some (v, r) -> bs = v ++ r /\ len v = n.
Proof.
  unfold split_at. destruct (n <=? len bs) eqn:E; [|discriminate]. intros [= <- <-].
  split; [symmetry; apply take_drop|]. apply len_take. lia.
Qed.

Lemma ref_one_wire prev n v r :
  prev <= n -> n < 65536 -> len v <= MAX_EXT ->
  exists b rest, wire_opt prev (n, v) ++ r = b :: rest /\ b <> 255 /\ b < 256 /\
                 ref_one prev b rest = Some (n, v, r).
Proof.
  intros Hp Hn Hv. unfold wire_opt.
  pose proof (ext_field_nib (n - prev) ltac:(unfold MAX_EXT; lia)) as Hd.
  pose proof (ext_field_nib (len v) Hv) as Hl.
  pose proof (ref_ext_enc (n - prev)) as Dd.
  pose proof (ref_ext_enc (len v)) as Dl.
  destruct (ext_field (n - prev)) as [dn dx]. destruct (ext_field (len v)) as [ln lx].
  cbn [fst snd] in *.
  exists (dn * 16 + ln), ((dx ++ lx ++ v) ++ r). split; [reflexivity|]. split; [lia|]. split; [lia|].
  unfold ref_one. replace ((dn * 16 + ln) / 16) with dn by lia. replace ((dn * 16 + ln) mod 16) with ln by lia.
  rewrite <- !app_assoc. rewrite Dd by (unfold MAX_EXT; lia). rewrite Dl by lia.
  replace (65535 <? prev + (n - prev)) with false by lia.
  rewrite split_at_app. do 3 f_equal. lia.
Qed.

Fixpoint last_num (prev : N) (l : list (N * bytes)) : N :=
  match l with [] => prev | (n, _) :: r => last_num n r end.

Lemma prefix_lemma l : forall prev acc tail fuel,
  ascending prev l ->
  ref_opts (length l + fuel) (wire_opts prev l ++ tail) prev acc =
  ref_opts fuel tail (last_num prev l) (rev l ++ acc).
Proof.
  induction l as [|[n v] l IH]; intros prev acc tail fuel Hasc.
  - reflexivity.
  - cbn [ascending] in Hasc. destruct Hasc as (Hp & Hn & Hv & Hw & Hasc).
    cbn [wire_opts length Nat.add]. rewrite <- app_assoc.
    destruct (ref_one_wire prev n v (wire_opts n l ++ tail) Hp Hn Hv) as (b & rest & Heq & Hb & _ & Hpo).
    rewrite Heq. cbn [ref_opts]. replace (b =? 255) with false by lia. rewrite Hpo.
    rewrite IH by assumption. cbn [last_num rev]. rewrite <- app_assoc. reflexivity.
Qed.

Lemma ref_opts_fuel_mono fuel : forall bs num acc r extra,
  ref_opts fuel bs num acc = Some r -> ref_opts (fuel + extra) bs num acc = Some r.
Proof.
  induction fuel as [|f IH]; intros bs num acc r extra; cbn [ref_opts Nat.add]; [discriminate|].
  destruct bs as [|b rest]; [auto|]. destruct (b =? 255); [auto|].
  destruct (ref_one num b rest) as [[[n v] r']|]; [|discriminate]. apply IH.
Qed.

(* the reference decoder inverts the wire image of an ascending option list *)
Lemma ref_opts_wire l pl fuel :
  ascending 0 l -> (length (wire_opts 0 l ++ wire_payload pl) < fuel)%nat ->
  ref_opts fuel (wire_opts 0 l ++ wire_payload pl) 0 [] = Some (l, wire_payload pl).
Proof.
  intros Hasc Hf.
  assert (Hl : (length l <= length (wire_opts 0 l))%nat).
  { clear. generalize 0 as prev. induction l as [|[n v] l IH]; intros prev; cbn [wire_opts length]; [lia|].
    rewrite app_length. unfold wire_opt. destruct (ext_field (n - prev)), (ext_field (len v)).
    cbn [length]. specialize (IH n). lia. }
  rewrite app_length in Hf.
  replace fuel with (length l + (fuel - length l))%nat by lia.
  rewrite prefix_lemma by assumption. rewrite app_nil_r.
  destruct (fuel - length l)%nat as [|f] eqn:E; [lia|].
  unfold wire_payload. destruct pl; cbn [ref_opts]; [rewrite rev_involutive; reflexivity|].
  change (255 =? 255) with true. cbv iota. rewrite rev_involutive. reflexivity.
Qed.

(* ---------- converse direction ---------- *)
Lemma ref_ext_inv nib bs x r :
  nib < 16 -> bytes_wf bs -> ref_ext nib bs = Some (x, r) ->
  exists pre, ext_field x = (nib, pre) /\ bs = pre ++ r /\ x <= MAX_EXT /\ bytes_wf r.
Proof.
  unfold MAX_EXT. intros Hn Hw. unfold ref_ext.
  destruct (nib <? 13) eqn:E1.
  - intros [= <- <-]. exists []. unfold ext_field.
    replace (nib <=? 12) with true by lia. repeat split; auto; lia.
  - destruct (nib =? 13) eqn:E2.
    + destruct bs as [|b bs]; [discriminate|]. intros [= <- <-].
      apply bytes_wf_cons in Hw. destruct Hw as [Hb Hw']. exists [b].
      unfold ext_field. replace (b + 13 <=? 12) with false by lia. replace (b + 13 <? 269) with true by lia.
      repeat split; auto; try lia. do 2 f_equal; lia.
    + destruct (nib =? 14) eqn:E3; [|discriminate].
      destruct bs as [|b1 [|b2 bs]]; try discriminate. intros [= <- <-].
      apply bytes_wf_cons in Hw. destruct Hw as [Hb1 Hw']. apply bytes_wf_cons in Hw'. destruct Hw' as [Hb2 Hw''].
      exists [b1; b2].
      unfold ext_field. replace (b1 * 256 + b2 + 269 <=? 12) with false by lia.
      replace (b1 * 256 + b2 + 269 <? 269) with false by lia.
      repeat split; auto; try lia. f_equal; try lia. f_equal; [lia|]. f_equal; lia.
Qed.

Lemma ref_one_inv num b rest n v r :
  bytes_wf (b :: rest) -> ref_one num b rest = Some (n, v, r) ->
  b :: rest = wire_opt num (n, v) ++ r /\ num <= n /\ n < 65536 /\ len v <= MAX_EXT /\ bytes_wf v /\ bytes_wf r.
Proof.
  intros Hw. apply bytes_wf_cons in Hw. destruct Hw as [Hb Hwr]. unfold ref_one.
  destruct (ref_ext (b / 16) rest) as [[delta r1]|] eqn:D1; [|discriminate].
  destruct (ref_ext (b mod 16) r1) as [[length r2]|] eqn:D2; [|discriminate].
  destruct (65535 <? num + delta) eqn:E; [discriminate|].
  destruct (split_at length r2) as [[v' r3]|] eqn:S; [|discriminate]. intros [= <- <- <-].
  apply ref_ext_inv in D1; [|lia|assumption]. destruct D1 as (p1 & F1 & -> & B1 & W1).
  apply ref_ext_inv in D2; [|lia|assumption]. destruct D2 as (p2 & F2 & -> & B2 & W2).
  apply split_at_inv in S. destruct S as (-> & L3).
  apply bytes_wf_app in W2. destruct W2 as (Wv & Wr).
  unfold wire_opt. replace (num + delta - num) with delta by lia. rewrite L3, F1, F2.
  repeat split; auto; try lia.
  cbn [app]. rewrite <- !app_assoc. f_equal. lia.
Qed.

Lemma ref_opts_inv fuel : forall bs num acc res tail,
  bytes_wf bs -> ref_opts fuel bs num acc = Some (res, tail) ->
  exists l, res = rev acc ++ l /\ bs = wire_opts num l ++ tail /\ ascending num l /\
            (tail = [] \/ exists t, tail = 255 :: t) /\ bytes_wf tail.
Proof.
  induction fuel as [|f IH]; intros bs num acc res tail Hw; cbn [ref_opts]; [discriminate|].
  destruct bs as [|b rest].
  - intros [= <- <-]. exists []. rewrite app_nil_r. cbn. repeat split; auto using bytes_wf_nil.
  - destruct (b =? 255) eqn:E.
    + intros [= <- <-]. exists []. rewrite app_nil_r. cbn. repeat split; auto. right. exists rest. f_equal. lia.
    + destruct (ref_one num b rest) as [[[n v] r]|] eqn:P; [|discriminate]. intros H.
      apply ref_one_inv in P; [|assumption]. destruct P as (Heq & H1 & H2 & H3 & H4 & H5).
      apply IH in H; [|assumption]. destruct H as (l & -> & -> & Hasc & Ht & Hwt).
      exists ((n, v) :: l). cbn [rev wire_opts ascending]. rewrite <- !app_assoc. cbn [app].
      repeat split; auto.
Qed.

(* ---------- lengths ---------- *)
Lemma wire_opts_len l : forall prev, len (wire_opts prev l) = opts_len prev l.
Proof.
  induction l as [|[n v] l IH]; intros prev; cbn [wire_opts opts_len]; [reflexivity|].
  rewrite len_app, IH. unfold wire_opt.
  pose proof (ext_field_len (n - prev)). pose proof (ext_field_len (len v)).
  destruct (ext_field (n - prev)), (ext_field (len v)). cbn [snd] in *.
  rewrite len_cons. repeat rewrite len_app. lia.
Qed.

Lemma wire_image_len m : len (wire_image m) = wire_len m.
Proof.
  unfold wire_image, wire_len, wire_header, wire_payload.
  rewrite !len_app, wire_opts_len.
  destruct (a_payload m); unfold len; cbn [length]; lia.
Qed.

Lemma wire_opts_wf l : forall prev, ascending prev l -> bytes_wf (wire_opts prev l).
Proof.
  induction l as [|[n v] l IH]; intros prev; cbn [wire_opts ascending]; [intros; constructor|].
  intros (Hp & Hn & Hv & Hw & Ha). apply bytes_wf_app. split; [|auto].
  unfold wire_opt.
  pose proof (ext_field_nib (n - prev) ltac:(unfold MAX_EXT; lia)).
  pose proof (ext_field_nib (len v) Hv).
  pose proof (ext_field_wf (n - prev) ltac:(unfold MAX_EXT; lia)).
  pose proof (ext_field_wf (len v) Hv).
  destruct (ext_field (n - prev)), (ext_field (len v)). cbn [fst snd] in *.
  apply bytes_wf_cons. split; [lia|]. apply bytes_wf_app. split; [auto|]. apply bytes_wf_app. auto.
Qed.

(* P16b.v -- C16: integer attribute values.  The decimal text attr_u32 / attr_u16 write is a non-empty string of
   digits without a leading zero (except "0" itself) that denotes the integer, for every integer below 10^40 (so for
   every u16, u32 and u64); hence integer attributes are inside the domain of the round-trip theorem. *)
From CoapV Require Import proofs.Tac LinkFormat.

Definition dec_value (s : str) : N := fold_left (fun acc d => acc * 10 + (d - 48)) s 0.

Lemma dec_value_app a b : dec_value (a ++ b) = fold_left (fun acc d => acc * 10 + (d - 48)) b (dec_value a).
Proof. unfold dec_value. apply fold_left_app. Qed.

Lemma digits_fuel_spec f : forall n acc, n < 10 ^ N.of_nat (S f) ->
  exists pre, digits_fuel (S f) n acc = pre ++ acc /\ pre <> [] /\ forallb is_digit pre = true /\
              dec_value pre = n /\ (n <> 0 -> hd 0 pre <> 48) /\ (n = 0 -> pre = [48]).
Proof.
  induction f as [|f IH]; intros n acc Hn; cbn [digits_fuel]; destruct (n <? 10) eqn:E.
  1,3: exists [48 + n]; cbn [app]; repeat split; try discriminate;
       [cbn [forallb]; unfold is_digit; rewrite andb_true_r; lia|unfold dec_value; cbn [fold_left]; lia|cbn [hd]; lia|intros ->; reflexivity].
  - change (10 ^ N.of_nat 1) with 10 in Hn. lia.
  - assert (Hq : n / 10 < 10 ^ N.of_nat (S f)).
    { rewrite (Nat2N.inj_succ (S f)), N.pow_succ_r' in Hn. apply N.div_lt_upper_bound; lia. }
    destruct (IH (n / 10) ((48 + n mod 10) :: acc) Hq) as (pre & E1 & E2 & E3 & E4 & E5 & E6).
    exists (pre ++ [48 + n mod 10]). change (if n / 10 <? 10 then _ else _) with (digits_fuel (S f) (n / 10) ((48 + n mod 10) :: acc)).
    rewrite E1, <- app_assoc. cbn [app]. repeat split.
    + destruct pre; [congruence|discriminate].
    + rewrite forallb_app, E3. cbn [forallb]. unfold is_digit. pose proof (N.mod_upper_bound n 10). rewrite andb_true_r. cbn [andb]. lia.
    + rewrite dec_value_app, E4. cbn [fold_left]. pose proof (N.div_mod n 10). lia.
    + intros _. assert (n / 10 <> 0) by (intro H0; apply N.div_small_iff in H0; lia). specialize (E5 H).
      destruct pre; [congruence|exact E5].
    + intros ->. discriminate.
Qed.

Theorem digits_spec n : n < 10 ^ 40 ->
  forallb is_digit (digits n) = true /\ digits n <> [] /\ dec_value (digits n) = n /\
  (n <> 0 -> hd 0 (digits n) <> 48) /\ (n = 0 -> digits n = [48]).
Proof.
  intros Hn. unfold digits. destruct (digits_fuel_spec 39 n [] Hn) as (pre & E1 & E2 & E3 & E4 & E5 & E6).
  rewrite app_nil_r in E1. rewrite E1. repeat split; assumption.
Qed.

(* integer attributes are inside the domain of the round-trip theorem *)
Corollary int_attr_wf n : n < 10 ^ 40 -> aval_wf (AInt (digits n)) = true.
Proof.
  intros Hn. destruct (digits_spec n Hn) as (H1 & H2 & _). cbn [aval_wf]. rewrite H1. destruct (digits n); [congruence|reflexivity].
Qed.

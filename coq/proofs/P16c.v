(* P16c.v -- C16: the link-format model passes the suite-160 oracle on EVERY input the suite's reader accepts:
   the run-time check (what is stripped from the serialised parse result equals the keys and values the case
   named) is a consequence of the round-trip theorem, and the oracle's domain (doc_in_ok) lies inside the
   theorem's domain (doc_wf). *)
From CoapV Require Import proofs.Tac LinkFormat Suite16 proofs.P16 proofs.P16b proofs.P17 proofs.P01c proofs.P14b.

Definition conv3 (kv : str * str) : str * str * str := (fst kv, snd kv, snd kv).
Definition conv_link (lc : str * list (str * str)) : str * list (str * str * str) := (fst lc, map conv3 (snd lc)).

Ltac norm := repeat (progress (repeat rewrite <- app_assoc; cbn [app])).

Lemma strip_attrs_items : forall fuel base a rest,
  strip_attrs (length (attrs_all fuel base a)) (concat (attrs_all fuel base a) ++ rest)
  = Some (map conv3 (attrs_content fuel a), rest).
Proof.
  induction fuel as [|f IH]; intros base a rest; [reflexivity|].
  cbn [attrs_all attrs_content]. destruct (attr_next a) as [[it r]|]; [|reflexivity].
  cbn [length concat map]. rewrite to_cow_eq. cbn [wr_cow].
  cbn [strip_attrs]. norm. rewrite rd_bytes_wr. norm. rewrite rd_bytes_wr. norm. rewrite rd_bytes_wr. norm.
  rewrite N.eqb_refl. rewrite rd_bytes_wr.
  rewrite IH. reflexivity.
Qed.

Lemma strip_links_parse : forall f base s c, links_content f s = Some c ->
  forall fuel, (length (parse_all f base s) < fuel)%nat ->
  strip_links fuel (parse_all f base s) = Some (map conv_link c).
Proof.
  induction f as [|f IH]; intros base s c Hc fuel Hf.
  - cbn in Hc. injection Hc as <-. destruct fuel; [cbn in Hf; lia|reflexivity].
  - cbn [links_content] in Hc. cbn [parse_all] in *.
    destruct (link_next s) as [[[|loff l aoff a] r]|].
    + discriminate.
    + destruct (links_content f r) as [restc|] eqn:ER; [|discriminate]. injection Hc as <-.
      destruct fuel as [|fuel']; [lia|].
      set (items := attrs_all (S (length a)) (base + aoff) a) in *.
      set (tail := parse_all f (base + (len s - len r)) r) in *.
      assert (Hlen : (length tail < fuel')%nat).
      { revert Hf. cbn [app length]. rewrite app_length. lia. }
      cbn [strip_links]. norm. cbn [strip_links]. rewrite rd_bytes_wr. norm. rewrite rd_bytes_wr. norm.
      replace (N.to_nat (len items)) with (length items) by (unfold len; lia).
      unfold items. rewrite strip_attrs_items. unfold tail. rewrite (IH _ _ _ ER _ Hlen).
      reflexivity.
    + injection Hc as <-. destruct fuel; [cbn in Hf; lia|reflexivity].
Qed.

(* ---------- the oracle's domain lies inside the theorem's ---------- *)
Lemma forallb_weaken {A} (f g : A -> bool) l : (forall x, f x = true -> g x = true) -> forallb f l = true -> forallb g l = true.
Proof. intros H. induction l as [|x l IH]; [reflexivity|]. cbn [forallb]. intros E. apply andb_true_iff in E. destruct E as (E1 & E2). rewrite (H _ E1), (IH E2). reflexivity. Qed.

Lemma key_ok_wf k : key_ok k = true -> key_wf k = true.
Proof.
  unfold key_ok, key_wf. intros H. apply andb_true_iff in H. destruct H as (H & H3). apply andb_true_iff in H. destruct H as (H1 & H2).
  rewrite H2, H3.
  assert (W : forallb (fun c => negb ((c =? SEMI) || (c =? COMMA) || (c =? EQS) || (c =? QUOTE))) k = true).
  { revert H1. apply forallb_weaken. intros c Hc.
    destruct ((c =? SEMI) || (c =? COMMA) || (c =? EQS) || (c =? QUOTE)); [discriminate Hc|reflexivity]. }
  rewrite W. reflexivity.
Qed.

Lemma attr_of_in_int k kind v n : 2 <= kind -> attr_of_in (AIn k kind v n) = (k, AInt (digits n)).
Proof. intros H. destruct kind as [|[p|p|]]; try reflexivity; lia. Qed.

Lemma U32_small : U32 < 10 ^ 40. Proof. vm_compute. reflexivity. Qed.
Lemma U16_small : U16 < 10 ^ 40. Proof. vm_compute. reflexivity. Qed.

Lemma attr_in_wf a : attr_in_ok a = true -> key_wf (fst (attr_of_in a)) && aval_wf (snd (attr_of_in a)) = true.
Proof.
  destruct a as [k kind v n]. unfold attr_in_ok. intros H.
  apply andb_true_iff in H. destruct H as (H & Hk). apply andb_true_iff in H. destruct H as (H & _).
  apply andb_true_iff in H. destruct H as (Hkey & _). apply key_ok_wf in Hkey.
  destruct (N.eq_dec kind 0) as [->|N0].
  { cbn [attr_of_in]. pose proof (C := fun k => eq_refl (attr_auto k v)). unfold attr_auto at 1 in C.
    unfold attr_auto. destruct (forallb is_alnum v) eqn:E; cbn [fst snd aval_wf]; rewrite Hkey; [exact E|reflexivity]. }
  destruct (N.eq_dec kind 1) as [->|N1].
  { cbn [attr_of_in fst snd aval_wf]. rewrite Hkey. reflexivity. }
  rewrite attr_of_in_int by lia. cbn [fst snd]. rewrite Hkey. cbn [andb]. apply int_attr_wf.
  destruct (kind =? 2) eqn:E2.
  - eapply N.lt_trans; [|exact U32_small]. lia.
  - destruct (kind =? 3) eqn:E3; [|lia]. eapply N.lt_trans; [|exact U16_small]. lia.
Qed.

Lemma doc_in_wf d : doc_in_ok d = true -> doc_wf (doc_of_in d) = true.
Proof.
  unfold doc_in_ok, doc_wf, doc_of_in. induction d as [|l d IH]; [reflexivity|]. cbn [forallb map]. intros H.
  apply andb_true_iff in H. destruct H as (Hl & Hd). rewrite (IH Hd), andb_true_r.
  apply andb_true_iff in Hl. destruct Hl as (Ht & Ha). unfold link_wf. cbn [fst snd]. apply andb_true_iff. split.
  - revert Ht. apply forallb_weaken. intros c Hc. apply andb_true_iff in Hc. tauto.
  - clear -Ha. induction (snd l) as [|a r IHr]; [reflexivity|]. cbn [forallb map] in *.
    apply andb_true_iff in Ha. destruct Ha as (A1 & A2). rewrite (attr_in_wf _ A1), (IHr A2). reflexivity.
Qed.

(* ---------- what comes back is what the case named ---------- *)
Lemma attr_expected a : (fst (attr_of_in a), value_text (snd (attr_of_in a))) = expected_attr a.
Proof.
  destruct a as [k kind v n]. destruct kind as [|[p|p|]]; cbn [attr_of_in expected_attr fst snd value_text]; try reflexivity.
  unfold attr_auto. destruct (forallb is_alnum v); reflexivity.
Qed.

Lemma str_eqb_refl x : str_eqb x x = true.
Proof. apply list_eqb_refl. Qed.

Lemma content_matches d :
  list_eqb2 (fun g e =>
      str_eqb (fst g) (fst e)
      && list_eqb2 (fun ga ea => let '(k, us, cw) := ga in
                                str_eqb k (fst (expected_attr ea)) && str_eqb us (snd (expected_attr ea))
                                && str_eqb cw (snd (expected_attr ea)))
                  (snd g) (snd e))
    (map conv_link (doc_content (doc_of_in d))) d = true.
Proof.
  induction d as [|l d IH]; [reflexivity|]. cbn [doc_of_in doc_content map list_eqb2 conv_link fst snd].
  unfold doc_of_in, doc_content in IH. rewrite IH, andb_true_r, str_eqb_refl. cbn [andb].
  induction (snd l) as [|a r IHr]; [reflexivity|]. cbn [map list_eqb2 conv3 fst snd].
  rewrite IHr, andb_true_r. pose proof (attr_expected a) as E. rewrite <- E. cbn [fst snd].
  rewrite !str_eqb_refl. reflexivity.
Qed.

Theorem model_passes_oracle160 s : rd_case160 s <> None -> verdict160 s (run160 s) = true.
Proof.
  intros Hrd. unfold verdict160, run160. destruct (rd_case160 s) as [[nl d]|]; [|congruence].
  destruct (doc_in_ok d) eqn:Hok; [|reflexivity]. cbn [negb].
  rewrite rd_bytes_wr.
  pose proof (roundtrip (doc_of_in d) nl (doc_in_wf d Hok)) as RT.
  unfold parse_content in RT. unfold parse_doc, written, no_fail.
  rewrite (strip_links_parse _ 0 _ _ RT) by lia.
  apply content_matches.
Qed.

(* P12.v -- C12 (isolation of concurrent transfers) and C20 (lifetime of cached state): the block
   handler's expiring map is an instance of the generic keyed machine of PNonInt.v. *)
From CoapV Require Import proofs.Tac Header Packet UintOpt Utf8 BlockValue Encode Response Accessors BlockHandler
  proofs.PNonInt proofs.P14.

(* ---------- keys ---------- *)
Lemma path_eqb_true a b : path_eqb a b = true <-> a = b.
Proof.
  unfold path_eqb. revert b. induction a as [|x a IH]; intros [|y b]; cbn [list_eqb]; split; try discriminate; try reflexivity.
  - intros H. apply andb_true_iff in H. destruct H as (H1 & H2). f_equal; [apply bytes_eqb_true; exact H1|apply IH; exact H2].
  - intros [= -> ->]. apply andb_true_iff. split; [apply bytes_eqb_true; reflexivity|apply IH; reflexivity].
Qed.

Lemma key_eqb_spec a b : key_eqb a b = true <-> a = b.
Proof.
  unfold key_eqb. destruct a as [m1 p1 s1], b as [m2 p2 s2]. cbn [k_method k_path k_src]. split.
  - intros H. apply andb_true_iff in H. destruct H as (H & H3). apply andb_true_iff in H. destruct H as (H1 & H2).
    apply path_eqb_true in H2. assert (m1 = m2) by lia. subst.
    destruct s1, s2; try discriminate; [f_equal; f_equal; lia|reflexivity].
  - intros [= -> -> ->]. rewrite N.eqb_refl. rewrite (proj2 (path_eqb_true p2 p2) eq_refl).
    destruct s2; [rewrite N.eqb_refl|]; reflexivity.
Qed.

(* the cache key separates exactly method, path segments and requester *)
Theorem request_key_injective r1 r2 :
  request_key r1 = request_key r2 <->
  get_method (message r1) = get_method (message r2) /\
  (match get_path_as_vec (message r1) with Ok l => l | _ => [] end) = (match get_path_as_vec (message r2) with Ok l => l | _ => [] end) /\
  source r1 = source r2.
Proof.
  unfold request_key. split.
  - intros [= H1 H2 H3]. repeat split; auto.
    destruct (get_method (message r1)), (get_method (message r2)); cbn in H1; try reflexivity; discriminate.
  - intros (-> & -> & ->). reflexivity.
Qed.

(* for requests whose Uri-Path segments are all valid UTF-8 the path component is the raw segment list
   (so ["a","b"] and ["a/b"] are different keys, and a prefix differs from the longer path) *)
Lemma path_component r : forallb utf8_valid (match get_option (message r) OPT_URI_PATH with Some l => l | None => [] end) = true ->
  k_path (request_key r) = match get_option (message r) OPT_URI_PATH with Some l => l | None => [] end.
Proof.
  intros H. unfold request_key, get_path_as_vec. cbn [k_path]. destruct (get_option (message r) OPT_URI_PATH); [rewrite H|]; reflexivity.
Qed.

(* ---------- the handler as a keyed machine ---------- *)
Inductive hev := EvReq (req : request) | EvResp (req : request).
Definition ev_req (e : hev) : request := match e with EvReq r | EvResp r => r end.
Definition kstep (M : N) (v : bstate) (e : hev) : bstate * (outcome bool * request) :=
  match e with
  | EvReq r => let '(o, r', st') := intercept_request_st r M v in (st', (o, r'))
  | EvResp r => let '(o, r', st') := intercept_response_st r M v in (st', (o, r'))
  end.

Definition gaccess (M ttl : N) := access ckey bstate hev (outcome bool * request) key_eqb bstate_default (kstep M) ttl.
Definition gview (ttl : N) := view ckey bstate key_eqb ttl.

Lemma remove_expired_same ttl now c : BlockHandler.remove_expired ttl now c = PNonInt.remove_expired ckey bstate ttl now c.
Proof. induction c as [|[[k v] t] c IH]; [reflexivity|]. cbn. destruct (t + ttl <? now); [exact IH|reflexivity]. Qed.
Lemma c_find_same k c : BlockHandler.c_find k c = PNonInt.c_find ckey bstate key_eqb k c.
Proof. induction c as [|[[k2 v] t] c IH]; [reflexivity|]. cbn. destruct (key_eqb k k2); [reflexivity|exact IH]. Qed.
Lemma c_remove_same k c : BlockHandler.c_remove k c = PNonInt.c_remove ckey bstate key_eqb k c.
Proof. reflexivity. Qed.

Lemma key_eqb_refl k : key_eqb k k = true.
Proof. apply key_eqb_spec. reflexivity. Qed.

Lemma c_store_removed k v c : c_store k v (BlockHandler.c_remove k c) = BlockHandler.c_remove k c.
Proof.
  unfold c_store, BlockHandler.c_remove. induction c as [|[[k2 v2] t2] c IH]; [reflexivity|]. cbn [filter fst].
  destruct (key_eqb k k2) eqn:E; cbn [negb]; [exact IH|]. cbn [map fst snd]. rewrite E. f_equal. exact IH.
Qed.

Lemma c_store_snoc k v v0 now c : c_store k v (BlockHandler.c_remove k c ++ [(k, v0, now)]) = BlockHandler.c_remove k c ++ [(k, v, now)].
Proof.
  unfold c_store. rewrite map_app. fold (c_store k v (BlockHandler.c_remove k c)). rewrite c_store_removed.
  cbn [map fst snd]. rewrite key_eqb_refl. reflexivity.
Qed.

Lemma find_none_remove k c : BlockHandler.c_find k c = None -> BlockHandler.c_remove k c = c.
Proof.
  induction c as [|[[k2 v2] t2] c IH]; [reflexivity|]. cbn [BlockHandler.c_find BlockHandler.c_remove filter fst].
  destruct (key_eqb k k2); [discriminate|]. intros H. cbn [negb]. f_equal. apply IH. exact H.
Qed.
Lemma find_none_expired k ttl now c : BlockHandler.c_find k c = None -> BlockHandler.c_find k (BlockHandler.remove_expired ttl now c) = None.
Proof.
  induction c as [|[[k2 v2] t2] c IH]; [reflexivity|]. cbn [BlockHandler.c_find BlockHandler.remove_expired].
  destruct (key_eqb k k2) eqn:E; [discriminate|]. intros H. destruct (t2 + ttl <? now); [apply IH; exact H|].
  cbn [BlockHandler.c_find]. rewrite E. exact H.
Qed.

(* intercept_request / intercept_response are accesses of the keyed machine *)
Lemma intercept_is_access (f : request -> N -> bstate -> hres) (mk : request -> hev) h now req :
  (forall v, kstep (h_M h) v (mk req) = let '(o, r', st') := f req (h_M h) v in (st', (o, r'))) ->
  intercept f h now req =
  (fst (snd (gaccess (h_M h) (h_ttl h) (request_key req) now (mk req) (h_cache h))),
   snd (snd (gaccess (h_M h) (h_ttl h) (request_key req) now (mk req) (h_cache h))),
   mkHandler (h_M h) (h_ttl h) (fst (gaccess (h_M h) (h_ttl h) (request_key req) now (mk req) (h_cache h)))).
Proof.
  intros HK. unfold intercept, entry_or_insert, gaccess, access.
  change (PNonInt.c_find ckey bstate key_eqb) with BlockHandler.c_find.
  rewrite <- remove_expired_same.
  change (PNonInt.c_remove ckey bstate key_eqb) with BlockHandler.c_remove.
  destruct (BlockHandler.c_find (request_key req) (h_cache h)) as [[v t]|] eqn:EF.
  - destruct (now <=? t + h_ttl h); rewrite HK; destruct (f req (h_M h) _) as [[o r'] st']; cbn [fst snd];
      rewrite c_store_snoc; reflexivity.
  - rewrite HK. destruct (f req (h_M h) bstate_default) as [[o r'] st']; cbn [fst snd].
    pose proof (find_none_remove (request_key req) (BlockHandler.remove_expired (h_ttl h) now (h_cache h))
                  (find_none_expired _ _ _ _ EF)) as HR.
    replace (BlockHandler.remove_expired (h_ttl h) now (h_cache h) ++ [(request_key req, bstate_default, now)])
      with (BlockHandler.c_remove (request_key req) (BlockHandler.remove_expired (h_ttl h) now (h_cache h)) ++ [(request_key req, bstate_default, now)])
      by (rewrite HR; reflexivity).
    rewrite c_store_snoc. reflexivity.
Qed.

Theorem intercept_request_is_access h now req :
  intercept_request h now req =
  (fst (snd (gaccess (h_M h) (h_ttl h) (request_key req) now (EvReq req) (h_cache h))),
   snd (snd (gaccess (h_M h) (h_ttl h) (request_key req) now (EvReq req) (h_cache h))),
   mkHandler (h_M h) (h_ttl h) (fst (gaccess (h_M h) (h_ttl h) (request_key req) now (EvReq req) (h_cache h)))).
Proof. apply (intercept_is_access intercept_request_st EvReq). intros v. reflexivity. Qed.

Theorem intercept_response_is_access h now req :
  intercept_response h now req =
  (fst (snd (gaccess (h_M h) (h_ttl h) (request_key req) now (EvResp req) (h_cache h))),
   snd (snd (gaccess (h_M h) (h_ttl h) (request_key req) now (EvResp req) (h_cache h))),
   mkHandler (h_M h) (h_ttl h) (fst (gaccess (h_M h) (h_ttl h) (request_key req) now (EvResp req) (h_cache h)))).
Proof. apply (intercept_is_access intercept_response_st EvResp). intros v. reflexivity. Qed.

(* ---------- C12: every interleaving ---------- *)
(* events of the server: (cache key, time, entry point + request); the key is the request's *)
Definition grun (M ttl : N) := run ckey bstate hev (outcome bool * request) key_eqb bstate_default (kstep M) ttl.

Theorem handler_noninterference M ttl k evs now0 :
  times_sorted ckey hev now0 evs ->
  filter (fun ko => key_eqb k (fst ko)) (grun M ttl [] evs) =
  grun M ttl [] (filter (for_key ckey hev key_eqb k) evs).
Proof.
  intros HT. unfold grun.
  apply (noninterference ckey bstate hev (outcome bool * request) key_eqb key_eqb_spec bstate_default (kstep M) ttl k evs [] [] now0);
    [constructor|constructor|reflexivity|exact HT].
Qed.

(* ---------- C20: lifetime of the cached state ---------- *)
(* what the next access of key k at time now will be handed: the stored state while not expired, the default after *)
Theorem state_handed ttl M k now e c :
  snd (gaccess M ttl k now e c) = snd (kstep M (match gview ttl c k now with Some v => v | None => bstate_default end) e).
Proof. apply out_access. Qed.

(* retained: accesses to other keys never change what k will see, at any later time *)
Theorem retained_across_other_keys ttl M k k' now0 now e c : k <> k' -> PNonInt.Inv ckey bstate c -> now0 <= now ->
  gview ttl (fst (gaccess M ttl k' now0 e c)) k now = gview ttl c k now.
Proof. intros. apply view_access_other; first [assumption | exact key_eqb_spec]. Qed.

(* exact boundary: after an access at now0 the state is seen until now0 + ttl inclusive and never after *)
Theorem retained_until_expiry ttl M k now0 now e c :
  gview ttl (fst (gaccess M ttl k now0 e c)) k now =
  if now <=? now0 + ttl
  then Some (fst (kstep M (match gview ttl c k now0 with Some v => v | None => bstate_default end) e)) else None.
Proof. apply view_access_same. exact key_eqb_spec. Qed.

Theorem cache_keys_unique ttl M k now e c : PNonInt.Inv ckey bstate c -> PNonInt.Inv ckey bstate (fst (gaccess M ttl k now e c)).
Proof. apply inv_access. exact key_eqb_spec. Qed.

(* reclaimed: with time-ordered entries, after an access at time now every entry physically left has t + ttl >= now *)
Fixpoint times_asc (c : BlockHandler.cache) (lo : N) : Prop :=
  match c with [] => True | (_, _, t) :: r => lo <= t /\ times_asc r t end.

Lemma remove_expired_fresh ttl now c lo : times_asc c lo ->
  Forall (fun e => now <= snd e + ttl) (BlockHandler.remove_expired ttl now c).
Proof.
  revert lo. induction c as [|[[k v] t] c IH]; intros lo; cbn [times_asc BlockHandler.remove_expired]; [constructor|].
  intros (Hlo & Hr). destruct (t + ttl <? now) eqn:E; [eapply IH; exact Hr|].
  constructor; [cbn; lia|].
  clear IH Hlo. revert t E Hr. induction c as [|[[k2 v2] t2] c IHc]; intros t E Hr; [constructor|].
  cbn [times_asc] in Hr. destruct Hr as (H1 & H2). constructor; [cbn; lia|]. apply (IHc t2); [lia|exact H2].
Qed.

Theorem reclaimed ttl M k now e c lo : times_asc c lo ->
  Forall (fun en => now <= snd en + ttl) (fst (gaccess M ttl k now e c)).
Proof.
  intros HT. unfold gaccess, access. destruct (kstep M _ e) as [v1 o]. cbn [fst].
  apply Forall_app. split; [|constructor; [cbn; lia|constructor]].
  rewrite <- remove_expired_same. pose proof (remove_expired_fresh ttl now c lo HT) as HF.
  unfold PNonInt.c_remove. rewrite Forall_forall in *. intros x Hx. apply filter_In in Hx. apply HF. tauto.
Qed.

Lemma times_asc_weaken c lo lo' : lo' <= lo -> times_asc c lo -> times_asc c lo'.
Proof. destruct c as [|[[k v] t] c]; cbn; [auto|]. intros H (H1 & H2). split; [lia|exact H2]. Qed.

Lemma times_asc_filter f c lo : times_asc c lo -> times_asc (filter f c) lo.
Proof.
  revert lo. induction c as [|[[k v] t] c IH]; intros lo; cbn [times_asc filter]; [auto|]. intros (H1 & H2).
  destruct (f (k, v, t)); cbn [times_asc].
  - split; [exact H1|apply IH; exact H2].
  - eapply times_asc_weaken; [exact H1|apply IH; exact H2].
Qed.

Lemma times_asc_expired ttl now c lo : times_asc c lo -> times_asc (BlockHandler.remove_expired ttl now c) lo.
Proof.
  revert lo. induction c as [|[[k v] t] c IH]; intros lo; cbn [times_asc BlockHandler.remove_expired]; [auto|]. intros (H1 & H2).
  destruct (t + ttl <? now); [eapply times_asc_weaken; [exact H1|apply IH; exact H2]|]. cbn [times_asc]. auto.
Qed.

Lemma times_asc_snoc c lo x : times_asc c lo -> Forall (fun e => snd e <= snd x) c -> lo <= snd x -> times_asc (c ++ [x]) lo.
Proof.
  revert lo. induction c as [|[[k v] t] c IH]; intros lo HT HF Hlo; cbn [app times_asc].
  - destruct x as [[k v] t]. cbn in *. auto.
  - cbn [times_asc] in HT. destruct HT as (H1 & H2). inversion HF as [|? ? Hx HF']; subst. cbn in Hx.
    split; [exact H1|]. apply IH; [exact H2|exact HF'|exact Hx].
Qed.

(* the time order is an invariant of the handler as long as the clock does not go backwards *)
Theorem times_asc_access ttl M k now e c lo : times_asc c lo -> Forall (fun en => snd en <= now) c -> lo <= now ->
  times_asc (fst (gaccess M ttl k now e c)) lo /\ Forall (fun en => snd en <= now) (fst (gaccess M ttl k now e c)).
Proof.
  intros HT HF Hlo. unfold gaccess, access. destruct (kstep M _ e) as [v1 o]. cbn [fst].
  rewrite <- remove_expired_same.
  assert (HS : Forall (fun en => snd en <= now) (PNonInt.c_remove ckey bstate key_eqb k (BlockHandler.remove_expired ttl now c))).
  { rewrite Forall_forall in *. intros x Hx. unfold PNonInt.c_remove in Hx. apply filter_In in Hx. destruct Hx as (Hx & _).
    apply HF. clear -Hx. induction c as [|[[k2 v2] t2] c IH]; [exact Hx|]. cbn [BlockHandler.remove_expired] in Hx.
    destruct (t2 + ttl <? now); [right; apply IH; exact Hx|exact Hx]. }
  split.
  - apply times_asc_snoc; [apply times_asc_filter, times_asc_expired; exact HT|exact HS|cbn; exact Hlo].
  - apply Forall_app. split; [exact HS|constructor; [cbn; lia|constructor]].
Qed.

(* P09c.v -- C09 with repeated blocks: an in-order upload in which every non-final block may be delivered any
   number of times in a row, on top of any stale buffer, either makes the handler report an error or answers all
   non-final deliveries with Continue and hands the application exactly the body at the final block. *)
From CoapV Require Import proofs.Tac Header Packet UintOpt Utf8 BlockValue Encode Response Accessors BlockHandler
  WireSpec PacketOps proofs.PWire proofs.PEnc proofs.PDec proofs.P01 proofs.P06 proofs.P13 proofs.P11 proofs.P08b proofs.P09b.

Definition carries (sz szx k : N) (body : bytes) (r : request) : Prop :=
  first_block OPT_BLOCK1 (message r) = Some (mkBlock k (k * sz + sz <? len body) szx) /\
  payload (message r) = take sz (drop (k * sz) body).

(* deliveries of blocks k, k, ..., k+1, k+1, ..., last (each non-final block one or more times) *)
Inductive deliveries (sz szx : N) (body : bytes) : N -> list request -> Prop :=
| del_final k r : carries sz szx k body r -> len body <= k * sz + sz -> deliveries sz szx body k [r]
| del_next k r rest : carries sz szx k body r -> k * sz + sz < len body -> deliveries sz szx body (k + 1) rest -> deliveries sz szx body k (r :: rest)
| del_again k r rest : carries sz szx k body r -> k * sz + sz < len body -> deliveries sz szx body k rest -> deliveries sz szx body k (r :: rest).

Definition agrees (k sz : N) (body : bytes) (st : bstate) : Prop :=
  take (k * sz) (buf_of st) = take (k * sz) body /\ k * sz <= len (buf_of st) /\ k * sz <= len body.

Lemma take_take {A} a b (l : list A) : a <= b -> take a (take b l) = take a l.
Proof. intros H. unfold take. rewrite firstn_firstn. f_equal. lia. Qed.

Lemma block1_more M szx body k r st b r' st1 : let sz := 2 ^ (szx + 4) in
  carries sz szx k body r -> k * sz + sz < len body -> agrees k sz body st ->
  handle_block1 r M st = (Ok b, r', st1) ->
  b = true /\ agrees (k + 1) sz body st1.
Proof.
  intros sz (Hfb & Hpl) Hlt (Hpre & Hlb & Hlk) EH.
  unfold handle_block1 in EH. rewrite Hfb in EH.
  destruct (message_size_hack (message r)) as [ms|e|s]; try (injection EH as EH _ _; discriminate).
  destruct (negotiate _ ms _ M) as [rsp|e|s] eqn:EN; try (injection EH as EH _ _; discriminate).
  destruct (negotiate_some _ _ _ _ _ EN) as (r1 & ->).
  set (b1 := mkBlock k (k * sz + sz <? len body) szx) in *.
  change (block_size b1) with sz in EH. change (b_num b1) with k in EH. change (b_more b1) with (k * sz + sz <? len body) in EH.
  fold (buf_of st) in EH. rewrite Hpl in EH.
  destruct (extending_splice (buf_of st) (k * sz) (k * sz + sz) (take sz (drop (k * sz) body))) as [buf'|] eqn:ES;
    [|injection EH as EH _ _; discriminate].
  replace (k * sz + sz <? len body) with true in EH by lia.
  destruct (response r) as [rp|]; [|injection EH as EH _ _; discriminate].
  injection EH as <- <- <-. split; [reflexivity|].
  assert (Hfull : len (take sz (drop (k * sz) body)) = sz) by (apply len_take_drop; lia).
  destruct (splice_extends_prefix (buf_of st) body (k * sz) sz buf' Hfull Hpre Hlb ltac:(lia) ES) as (P1 & P2).
  unfold agrees, buf_of. cbn [st_buf cached_payload]. replace ((k + 1) * sz) with (k * sz + sz) by lia.
  repeat split; [exact P1|exact P2|lia].
Qed.

Lemma block1_final M szx body k r st b r' st1 : let sz := 2 ^ (szx + 4) in
  carries sz szx k body r -> len body <= k * sz + sz -> agrees k sz body st ->
  handle_block1 r M st = (Ok b, r', st1) ->
  b = false /\ payload (message r') = body /\ cached_payload st1 = None.
Proof.
  intros sz (Hfb & Hpl) Hge (Hpre & Hlb & Hlk) EH.
  unfold handle_block1 in EH. rewrite Hfb in EH.
  destruct (message_size_hack (message r)) as [ms|e|s]; try (injection EH as EH _ _; discriminate).
  destruct (negotiate _ ms _ M) as [rsp|e|s] eqn:EN; try (injection EH as EH _ _; discriminate).
  destruct (negotiate_some _ _ _ _ _ EN) as (r1 & ->).
  set (b1 := mkBlock k (k * sz + sz <? len body) szx) in *.
  change (block_size b1) with sz in EH. change (b_num b1) with k in EH. change (b_more b1) with (k * sz + sz <? len body) in EH.
  fold (buf_of st) in EH. rewrite Hpl in EH.
  destruct (extending_splice (buf_of st) (k * sz) (k * sz + sz) (take sz (drop (k * sz) body))) as [buf'|] eqn:ES;
    [|injection EH as EH _ _; discriminate].
  replace (k * sz + sz <? len body) with false in EH by lia.
  assert (Hbody : take (k * sz + len (take sz (drop (k * sz) body))) buf' = body).
  { apply (final_block_body (buf_of st) body (k * sz) _ buf' Hpre Hlb); [|exact Hlk|right; exists sz; exact ES].
    symmetry. apply take_drop_rest; lia. }
  rewrite Hbody in EH.
  destruct (response r) as [rp|]; [|injection EH as EH _ _; discriminate].
  injection EH as <- <- <-. repeat split; reflexivity.
Qed.

Lemma agrees_weaken k sz body st : agrees (k + 1) sz body st -> agrees k sz body st.
Proof.
  intros (H1 & H2 & H3). unfold agrees. assert (k * sz <= (k + 1) * sz) by lia. repeat split; [|lia|lia].
  rewrite <- (take_take (k * sz) ((k + 1) * sz) (buf_of st)) by lia. rewrite H1. apply take_take. lia.
Qed.

Theorem upload_with_repeats M szx body : forall k reqs, let sz := 2 ^ (szx + 4) in
  deliveries sz szx body k reqs -> forall st outs st', agrees k sz body st ->
  run_block1 M st reqs = (outs, st') -> Forall (fun x => exists b, fst x = Ok b) outs ->
  exists front lastreq, outs = front ++ [(Ok false, lastreq)] /\ Forall (fun x => fst x = Ok true) front /\
    payload (message lastreq) = body /\ cached_payload st' = None.
Proof.
  intros k reqs sz Hd. induction Hd as [k r Hc Hge|k r rest Hc Hlt Hd IH|k r rest Hc Hlt Hd IH]; intros st outs st' Hag Hrun Hok;
    cbn [run_block1] in Hrun; destruct (handle_block1 r M st) as [[o r'] st1] eqn:EH.
  - injection Hrun as <- <-. inversion Hok as [|x xs [b Hb] _]; subst x xs. cbn [fst] in Hb. subst o.
    destruct (block1_final M szx body k r st b r' st1 Hc Hge Hag EH) as (-> & Hp & Hn).
    exists [], r'. repeat split; [constructor|exact Hp|exact Hn].
  - destruct (run_block1 M st1 rest) as [l st2] eqn:ER. injection Hrun as <- <-.
    inversion Hok as [|x xs [b Hb] Hok']; subst x xs. cbn [fst] in Hb. subst o.
    destruct (block1_more M szx body k r st b r' st1 Hc Hlt Hag EH) as (-> & Hag1).
    destruct (IH st1 l st2 Hag1 ER Hok') as (front & lastreq & -> & IF & IP & IS).
    exists ((Ok true, r') :: front), lastreq. repeat split; [constructor; [reflexivity|exact IF]|exact IP|exact IS].
  - destruct (run_block1 M st1 rest) as [l st2] eqn:ER. injection Hrun as <- <-.
    inversion Hok as [|x xs [b Hb] Hok']; subst x xs. cbn [fst] in Hb. subst o.
    destruct (block1_more M szx body k r st b r' st1 Hc Hlt Hag EH) as (-> & Hag1).
    destruct (IH st1 l st2 (agrees_weaken _ _ _ _ Hag1) ER Hok') as (front & lastreq & -> & IF & IP & IS).
    exists ((Ok true, r') :: front), lastreq. repeat split; [constructor; [reflexivity|exact IF]|exact IP|exact IS].
Qed.

(* from block 0, after anything an abandoned upload left in the buffer *)
Corollary upload_with_repeats_from_scratch M szx body reqs st outs st' : let sz := 2 ^ (szx + 4) in
  deliveries sz szx body 0 reqs -> run_block1 M st reqs = (outs, st') -> Forall (fun x => exists b, fst x = Ok b) outs ->
  exists front lastreq, outs = front ++ [(Ok false, lastreq)] /\ Forall (fun x => fst x = Ok true) front /\
    payload (message lastreq) = body /\ cached_payload st' = None.
Proof.
  intros sz Hd Hrun Hok. apply (upload_with_repeats M szx body 0 reqs Hd st outs st'); [|exact Hrun|exact Hok].
  unfold agrees. rewrite N.mul_0_l. repeat split; try lia. 
Qed.

(* P19c.v -- C19: the method / status accessors, the path getters and the trait view of the model pass the
   suite-190 oracle (spec190, stated on the raw state) on every input of kinds 0-3, 5 and 11. *)
From CoapV Require Import proofs.Tac Header Packet UintOpt Utf8 Numbers TypedOpt Accessors Suite06 Suite19 proofs.P19 proofs.P14b.

Lemma nth_req m rt : nth_error all_reqtypes (N.to_nat m) = Some rt -> req_index rt = m.
Proof.
  unfold all_reqtypes. intros H.
  assert (Hm : (N.to_nat m < 8)%nat) by (change 8%nat with (length [Get; Post; Put; Delete; Fetch; Patch; IPatch; ReqUnKnown]); apply nth_error_Some; rewrite H; discriminate).
  assert (m = 0 \/ m = 1 \/ m = 2 \/ m = 3 \/ m = 4 \/ m = 5 \/ m = 6 \/ m = 7) as Hc by lia.
  repeat (destruct Hc as [-> | Hc]; [cbn in H; injection H as <-; reflexivity|]). subst. cbn in H. injection H as <-. reflexivity.
Qed.

Lemma nth_resp m st : nth_error all_resptypes (N.to_nat m) = Some st -> resp_index st = m.
Proof.
  unfold all_resptypes. intros H.
  assert (Hm : (N.to_nat m < 28)%nat) by (change 28%nat with (length all_resptypes); apply nth_error_Some; unfold all_resptypes; rewrite H; discriminate).
  assert (HA : forallb (fun i => match nth_error all_resptypes (N.to_nat i) with Some s => resp_index s =? i | None => false end)
                       (map N.of_nat (seq 0 28)) = true) by (vm_compute; reflexivity).
  rewrite forallb_forall in HA. specialize (HA m). unfold all_resptypes in HA. rewrite H in HA. apply N.eqb_eq. apply HA.
  apply in_map_iff. exists (N.to_nat m). split; [lia|apply in_seq; lia].
Qed.

Theorem model_passes_oracle190_part s :
  (exists r, s = 0 :: r \/ s = 1 :: r \/ s = 2 :: r \/ s = 3 :: r \/ s = 5 :: r \/ s = 11 :: r) -> verdict190 s (run190 s) = true.
Proof.
  intros (r & [->|[->|[->|[->|[->| ->]]]]]); unfold verdict190;
    match goal with |- (if in_domain190 ?x then _ else _) = _ => destruct (in_domain190 x) eqn:ED; [|reflexivity] end;
    cbn [in_domain190 spec190 run190] in *.
  - destruct (rd_packet r) as [[p [|m [|? ?]]]|]; try discriminate.
    destruct (nth_error all_reqtypes (N.to_nat m)) as [rt|] eqn:EN.
    + destruct (method_roundtrip p rt) as (G & _). rewrite G, (nth_req m rt EN). apply list_eqb_refl.
    + exfalso. apply andb_true_iff in ED. destruct ED as (Hm & _). apply nth_error_None in EN. cbn in EN. lia.
  - destruct (rd_packet r) as [[p [|? ?]]|]; try discriminate. unfold get_method, named_req_of_code.
    destruct (code (hdr p)) as [|rq| |]; try reflexivity. destruct rq; reflexivity.
  - destruct (rd_packet r) as [[p [|m [|? ?]]]|]; try discriminate.
    destruct (nth_error all_resptypes (N.to_nat m)) as [st|] eqn:EN.
    + destruct (status_roundtrip p st) as (G & _). rewrite G, (nth_resp m st EN). apply list_eqb_refl.
    + exfalso. apply andb_true_iff in ED. destruct ED as (Hm & _). apply nth_error_None in EN. cbn in EN. lia.
  - destruct (rd_packet r) as [[p [|? ?]]|]; try discriminate. unfold get_status, named_resp_of_code.
    destruct (code (hdr p)) as [| |st|]; try reflexivity. cbn. rewrite N.eqb_refl. reflexivity.
  - destruct (rd_packet r) as [[p [|? ?]]|]; try discriminate.
    unfold get_path, get_path_as_vec, raw_of, get_option, wr_vec. change OPT_URI_PATH with 11. destruct (opt_get (opts p) 11) as [vs|]; [|reflexivity].
    destruct (forallb utf8_valid vs); apply list_eqb_refl.
  - destruct (rd_packet r) as [[p [|? ?]]|]; try discriminate. unfold wr_view.
    destruct (readable_view p) as (-> & -> & ->). apply list_eqb_refl.
Qed.

(* P19c.v -- C19: the method / status accessors, the path getters and the trait view of the model pass the
   suite-190 oracle (spec190, stated on the raw state) on every input of kinds 0-3, 5 and 11. *)
From CoapV Require Import proofs.Tac Header Packet UintOpt Utf8 Numbers TypedOpt Accessors Suite06 Suite19 proofs.PEnc proofs.P06 proofs.P06b proofs.P19 proofs.P19b proofs.P13b proofs.P14b.

Lemma nth_req m rt : nth_error all_reqtypes (N.to_nat m) = Some rt -> req_index rt = m.
Proof.
  unfold all_reqtypes. intros H.
  assert (Hm : (N.to_nat m < 8)%nat) by (change 8%nat with (length [Get; Post; Put; Delete; Fetch; Patch; IPatch; ReqUnKnown]); apply nth_error_Some; rewrite H; discriminate).
  assert (m = 0 \/ m = 1 \/ m = 2 \/ m = 3 \/ m = 4 \/ m = 5 \/ m = 6 \/ m = 7) as Hc by lia.
  repeat (destruct Hc as [-> | Hc]; [cbn in H; injection H as <-; reflexivity|]). subst. cbn in H. injection H as <-. reflexivity.
Qed.

Lemma nth_resp m st : nth_error all_resptypes (N.to_nat m) = Some st -> resp_index st = m.
Proof.
  unfold all_resptypes. intros H.
  assert (Hm : (N.to_nat m < 28)%nat) by (change 28%nat with (length all_resptypes); apply nth_error_Some; unfold all_resptypes; rewrite H; discriminate).
  assert (HA : forallb (fun i => match nth_error all_resptypes (N.to_nat i) with Some s => resp_index s =? i | None => false end)
                       (map N.of_nat (seq 0 28)) = true) by (vm_compute; reflexivity).
  rewrite forallb_forall in HA. specialize (HA m). unfold all_resptypes in HA. rewrite H in HA. apply N.eqb_eq. apply HA.
  apply in_map_iff. exists (N.to_nat m). split; [lia|apply in_seq; lia].
Qed.

Theorem model_passes_oracle190_part s :
  (exists r, s = 0 :: r \/ s = 1 :: r \/ s = 2 :: r \/ s = 3 :: r \/ s = 5 :: r \/ s = 11 :: r) -> verdict190 s (run190 s) = true.
Proof.
  intros (r & [->|[->|[->|[->|[->| ->]]]]]); unfold verdict190;
    match goal with |- (if in_domain190 ?x then _ else _) = _ => destruct (in_domain190 x) eqn:ED; [|reflexivity] end;
    cbn [in_domain190 spec190 run190] in *.
  - destruct (rd_packet r) as [[p [|m [|? ?]]]|]; try discriminate.
    destruct (nth_error all_reqtypes (N.to_nat m)) as [rt|] eqn:EN.
    + destruct (method_roundtrip p rt) as (G & _). rewrite G, (nth_req m rt EN). apply list_eqb_refl.
    + exfalso. apply andb_true_iff in ED. destruct ED as (Hm & _). apply nth_error_None in EN. cbn in EN. lia.
  - destruct (rd_packet r) as [[p [|? ?]]|]; try discriminate. unfold get_method, named_req_of_code.
    destruct (code (hdr p)) as [|rq| |]; try reflexivity. destruct rq; reflexivity.
  - destruct (rd_packet r) as [[p [|m [|? ?]]]|]; try discriminate.
    destruct (nth_error all_resptypes (N.to_nat m)) as [st|] eqn:EN.
    + destruct (status_roundtrip p st) as (G & _). rewrite G, (nth_resp m st EN). apply list_eqb_refl.
    + exfalso. apply andb_true_iff in ED. destruct ED as (Hm & _). apply nth_error_None in EN. cbn in EN. lia.
  - destruct (rd_packet r) as [[p [|? ?]]|]; try discriminate. unfold get_status, named_resp_of_code.
    destruct (code (hdr p)) as [| |st|]; try reflexivity. cbn. rewrite N.eqb_refl. reflexivity.
  - destruct (rd_packet r) as [[p [|? ?]]|]; try discriminate.
    unfold get_path, get_path_as_vec, raw_of, get_option, wr_vec. change OPT_URI_PATH with 11. destruct (opt_get (opts p) 11) as [vs|]; [|reflexivity].
    destruct (forallb utf8_valid vs); apply list_eqb_refl.
  - destruct (rd_packet r) as [[p [|? ?]]|]; try discriminate. unfold wr_view.
    destruct (readable_view p) as (-> & -> & ->). apply list_eqb_refl.
Qed.

(* kind 7: the observe-flag getter on any raw state *)
Lemma raw_first_wf p k b r : pkt_bytes_ok p = true -> raw_of p k = b :: r -> bytes_wf b.
Proof.
  unfold pkt_bytes_ok, raw_of. intros H E. apply andb_true_iff in H. destruct H as (H & _). apply andb_true_iff in H. destruct H as (H & _).
  destruct (opt_get (opts p) k) as [vs|] eqn:EG; [|discriminate]. subst vs.
  rewrite forallb_forall in H.
  assert (HI : In (k, b :: r) (opts p)).
  { clear H. induction (opts p) as [|[k' vs'] m IH]; cbn [opt_get] in EG; [discriminate|].
    destruct (k' =? k) eqn:EK; [left; assert (k' = k) by lia; congruence|].
    destruct (k <? k'); [discriminate|right; apply IH; exact EG]. }
  specialize (H _ HI). cbn [fst snd] in H. apply andb_true_iff in H. destruct H as (_ & H). cbn [forallb] in H.
  apply andb_true_iff in H. destruct H as (H & _). apply bytes_wf_forallb. exact H.
Qed.

Theorem model_passes_oracle190_flag r : verdict190 (7 :: r) (run190 (7 :: r)) = true.
Proof.
  unfold verdict190. destruct (in_domain190 (7 :: r)) eqn:ED; [|reflexivity]. cbn [in_domain190 spec190 run190] in *.
  destruct (rd_packet r) as [[p [|? ?]]|]; try discriminate.
  rewrite observe_flag_raw. destruct (raw_of p 6) as [|b t] eqn:ER; [reflexivity|].
  pose proof (raw_first_wf p 6 b t ED ER) as Hw.
  destruct (len b <=? 4) eqn:EL; cbn [andb]; [|reflexivity].
  rewrite be_fold_value by (auto; lia).
  assert (Hb : be_value b < 256 ^ 4).
  { pose proof (be_value_bound b Hw). assert (256 ^ len b <= 256 ^ 4) by (apply N.pow_le_mono_r; lia). lia. }
  rewrite N.mod_small by exact Hb.
  destruct (be_value b) as [|[q|q|]] eqn:EV; cbn [observe_of wr_flag of_observe]; try reflexivity.
  - replace (N.pos q~1 <? 2) with false by lia. reflexivity.
  - replace (N.pos q~0 <? 2) with false by lia. reflexivity.
Qed.

(* suite 60 kind 6: get_observe_value and get_content_format on any raw state *)
Lemma first_as_uint p k w : pkt_bytes_ok p = true -> 0 < w -> w <= 8 ->
  get_first_option_as p k w =
    match raw_of p k with
    | [] => None
    | b :: _ => Some (if len b <=? w then Ok (be_value b, []) else Err ERR_INCOMPATIBLE)
    end.
Proof.
  intros HP Hw0 Hw8. unfold get_first_option_as, get_first_option. pose proof (raw_first_wf p k) as HW. unfold raw_of in *.
  destruct (opt_get (opts p) k) as [[|b t]|]; try reflexivity.
  specialize (HW b t HP eq_refl). unfold dec_value. replace (w =? 0) with false by lia.
  rewrite uint_try_from_spec by assumption. destruct (len b <=? w); reflexivity.
Qed.

Theorem model_passes_oracle60_getters r : verdict60 (6 :: r) (run60 (6 :: r)) = true.
Proof.
  unfold verdict60. destruct (in_domain60 (6 :: r)) eqn:ED; [|reflexivity]. cbn [in_domain60 spec60 run60] in *.
  destruct (rd_packet r) as [[p [|? ?]]|]; try discriminate.
  unfold get_observe_value, get_content_format, OPT_OBSERVE, OPT_CONTENT_FORMAT.
  rewrite !first_as_uint by (auto; lia).
  destruct (raw_of p 6) as [|b1 t1]; destruct (raw_of p 12) as [|b2 t2];
    repeat match goal with |- context [?a <=? ?b] => destruct (a <=? b) end; cbn [wr_obs wr_cf app]; try apply list_eqb_refl.
Qed.

(* suite 60 kinds 5 and 7: the setters that replace the whole value list *)
Lemma opt_insert_insert m k a b : opt_insert (opt_insert m k a) k b = opt_insert m k b.
Proof.
  induction m as [|[k' vs] m IH]; cbn [opt_insert].
  - rewrite N.eqb_refl. reflexivity.
  - destruct (k =? k') eqn:E1; cbn [opt_insert].
    + rewrite N.eqb_refl. reflexivity.
    + destruct (k <? k') eqn:E2; cbn [opt_insert].
      * rewrite N.eqb_refl. reflexivity.
      * rewrite E1, E2, IH. reflexivity.
Qed.

Lemma add_after_clear m k v : opt_add (opt_clear m k) k v = opt_insert m k [v].
Proof.
  unfold opt_add, opt_clear. destruct (opt_get m k) eqn:E.
  - rewrite opt_get_insert. cbn [app]. apply opt_insert_insert.
  - rewrite E. reflexivity.
Qed.

Lemma set_as_uint p k w v : 0 < w -> v < 256 ^ w ->
  add_option_as (clear_option p k) k w v [] = Ok (set_opts p (opt_insert (opts p) k [be_min v])).
Proof.
  intros Hw Hv. unfold add_option_as, enc_value. replace (w =? 0) with false by lia.
  rewrite option_from_uint_spec by exact Hv. cbn [bind]. unfold add_option, clear_option, set_opts. cbn [opts hdr token payload].
  rewrite add_after_clear. reflexivity.
Qed.

Theorem model_passes_oracle60_set_observe r : verdict60 (5 :: r) (run60 (5 :: r)) = true.
Proof.
  unfold verdict60. destruct (in_domain60 (5 :: r)) eqn:ED; [|reflexivity]. cbn [in_domain60 spec60 run60] in *.
  destruct (rd_packet r) as [[p [|v [|? ?]]]|]; try discriminate.
  apply andb_true_iff in ED. destruct ED as (Hv & HP).
  destruct (set_observe_value_spec p v ltac:(lia)) as (p' & E & _ & G & _).
  unfold set_observe_value in E. rewrite set_as_uint in E by (unfold U32 in *; change (256 ^ 4) with 4294967296; lia).
  injection E as <-. unfold set_observe_value. rewrite set_as_uint by (unfold U32 in *; change (256 ^ 4) with 4294967296; lia).
  rewrite G. apply list_eqb_refl.
Qed.

Lemma nth_cf i c : nth_error all_content_formats (N.to_nat i) = Some c -> cf_index c = i.
Proof.
  intros H.
  assert (Hm : (N.to_nat i < length all_content_formats)%nat) by (apply nth_error_Some; rewrite H; discriminate).
  assert (HA : forallb (fun j => match nth_error all_content_formats (N.to_nat j) with Some c' => cf_index c' =? j | None => false end)
                       (map N.of_nat (seq 0 (length all_content_formats))) = true) by (vm_compute; reflexivity).
  rewrite forallb_forall in HA. specialize (HA i). rewrite H in HA. apply N.eqb_eq. apply HA.
  apply in_map_iff. exists (N.to_nat i). split; [lia|apply in_seq; lia].
Qed.

Theorem model_passes_oracle60_set_cf r : verdict60 (7 :: r) (run60 (7 :: r)) = true.
Proof.
  unfold verdict60. destruct (in_domain60 (7 :: r)) eqn:ED; [|reflexivity]. cbn [in_domain60 spec60 run60] in *.
  destruct (rd_packet r) as [[p [|i [|? ?]]]|]; try discriminate.
  destruct (nth_error all_content_formats (N.to_nat i)) as [c|] eqn:EN.
  - destruct (content_format_roundtrip p c) as (p' & E & G & _).
    assert (Hn : of_content_format c < 65536) by (destruct c; cbn; lia).
    unfold set_content_format in *. unfold U16 in *. replace (of_content_format c <? 65536) with true in * by lia.
    rewrite set_as_uint in * by (change (256 ^ 2) with 65536; lia). injection E as <-.
    rewrite G. cbn [wr_cf]. rewrite (nth_cf i c EN). apply list_eqb_refl.
  - exfalso. apply andb_true_iff in ED. destruct ED as (Hi & _). apply nth_error_None in EN.
    assert (length all_content_formats = 60%nat) by reflexivity. lia.
Qed.

(* suite 190 kind 8 is suite 60 kind 7 *)
Theorem model_passes_oracle190_cf r : verdict190 (8 :: r) (run190 (8 :: r)) = true.
Proof. exact (model_passes_oracle60_set_cf r). Qed.

(* suite 190 kind 12 is suite 60 kind 6: the Observe and Content-Format getters over any raw state *)
Theorem model_passes_oracle190_getters r : verdict190 (12 :: r) (run190 (12 :: r)) = true.
Proof. exact (model_passes_oracle60_getters r). Qed.

Theorem model_passes_oracle190_set_flag r : verdict190 (6 :: r) (run190 (6 :: r)) = true.
Proof.
  unfold verdict190. destruct (in_domain190 (6 :: r)) eqn:ED; [|reflexivity]. cbn [in_domain190 spec190 run190] in *.
  destruct (rd_packet r) as [[p [|f [|? ?]]]|]; try discriminate.
  apply andb_true_iff in ED. destruct ED as (Hf & HP).
  assert (f = 0 \/ f = 1) as [-> | ->] by lia; cbn [observe_of].
  - destruct (observe_flag_roundtrip p ObsRegister) as (p' & E & G & _).
    unfold set_observe_flag, set_observe_value in *. cbn [of_observe] in *.
    rewrite set_as_uint in * by (change (256 ^ 4) with 4294967296; lia). injection E as <-.
    rewrite G. apply list_eqb_refl.
  - destruct (observe_flag_roundtrip p ObsDeregister) as (p' & E & G & _).
    unfold set_observe_flag, set_observe_value in *. cbn [of_observe] in *.
    rewrite set_as_uint in * by (change (256 ^ 4) with 4294967296; lia). injection E as <-.
    rewrite G. apply list_eqb_refl.
Qed.

(* ---------- suite 60 kinds 3 and 4: lists of typed values ---------- *)
Lemma enc_ok w x : width_ok w = true -> tval_ok w x = true -> enc_value w (fst x) (snd x) = Ok (spec_enc w x).
Proof.
  intros Hw Ht. unfold enc_value, spec_enc, tval_ok in *. destruct (w =? 0) eqn:E; [reflexivity|].
  apply option_from_uint_spec. lia.
Qed.

Lemma enc_all_ok w vs : width_ok w = true -> forallb (tval_ok w) vs = true -> enc_all w vs = Ok (map (spec_enc w) vs).
Proof.
  intros Hw. induction vs as [|[v s] r IH]; cbn [enc_all forallb map]; [reflexivity|]. intros H.
  apply andb_true_iff in H. destruct H as (H1 & H2). pose proof (enc_ok w (v, s) Hw H1) as HE. cbn [fst snd] in HE. rewrite HE, (IH H2). reflexivity.
Qed.

Lemma dec_enc w x : width_ok w = true -> tval_ok w x = true ->
  dec_value w (spec_enc w x) = Ok (if w =? 0 then (0, snd x) else (fst x, [])).
Proof.
  intros Hw Ht. unfold dec_value, spec_enc, tval_ok in *. destruct (w =? 0) eqn:E.
  - apply andb_true_iff in Ht. destruct Ht as (Hu & _). rewrite string_spec, Hu. reflexivity.
  - rewrite uint_try_from_spec by (auto using be_min_wf, width_le8).
    replace (len (be_min (fst x)) <=? w) with true by (symmetry; apply N.leb_le, be_min_len_bound; lia).
    cbn [bind]. rewrite be_value_min. reflexivity.
Qed.

Lemma wr_typed_dec w bs : width_ok w = true -> bytes_wf bs -> wr_typed w (dec_value w bs) = wr_typed w (spec_dec w bs).
Proof.
  intros Hw Hb. unfold dec_value, spec_dec. destruct (w =? 0) eqn:E.
  - rewrite string_spec. destruct (utf8_valid bs); reflexivity.
  - rewrite uint_try_from_spec by (auto using width_le8). destruct (len bs <=? w); reflexivity.
Qed.

Lemma flat_map_wr_typed w (l1 l2 : list (outcome (N * bytes))) :
  map (wr_typed w) l1 = map (wr_typed w) l2 -> wr_typed_list w (Some l1) = wr_typed_list w (Some l2).
Proof.
  intros H. unfold wr_typed_list, wr_list. f_equal.
  assert (HL : len l1 = len l2) by (unfold len; rewrite <- (map_length (wr_typed w) l1), H, map_length; reflexivity).
  rewrite HL. f_equal. rewrite !flat_map_concat_map, H. reflexivity.
Qed.

Theorem model_passes_oracle60_set_list r : verdict60 (4 :: r) (run60 (4 :: r)) = true.
Proof.
  unfold verdict60. destruct (in_domain60 (4 :: r)) eqn:ED; [|reflexivity]. cbn [in_domain60 spec60 run60] in *.
  destruct (rd_packet r) as [[p [|k [|w r']]]|]; try discriminate.
  destruct (rd_list rd_tval r') as [[vs [|? ?]]|]; try discriminate.
  apply andb_true_iff in ED. destruct ED as (ED & HP). apply andb_true_iff in ED. destruct ED as (ED & Hvs).
  apply andb_true_iff in ED. destruct ED as (Hw & Hk).
  unfold set_options_as. rewrite (enc_all_ok w vs Hw Hvs). cbn [bind].
  unfold set_option. set (p' := set_opts p (opt_insert (opts p) k (map (spec_enc w) vs))).
  unfold observe_all, expect_typed, raw_of, get_option, get_options_as, get_first_option_as, get_first_option, get_option.
  assert (HG : opt_get (opts p') k = Some (map (spec_enc w) vs)) by (unfold p', set_opts; cbn [opts]; apply opt_get_insert).
  rewrite HG.
  assert (HM : map (dec_value w) (map (spec_enc w) vs) = map (fun x => Ok (if w =? 0 then (0, snd x) else (fst x, []))) vs).
  { rewrite map_map. apply map_ext_in. intros x Hx. apply dec_enc; [exact Hw|]. rewrite forallb_forall in Hvs. apply Hvs. exact Hx. }
  rewrite HM. destruct vs as [|x vs']; [apply list_eqb_refl|].
  cbn [map]. rewrite dec_enc by (auto; cbn [forallb] in Hvs; apply andb_true_iff in Hvs; tauto). apply list_eqb_refl.
Qed.

Lemma opt_add_raw m k b : opt_add m k b = opt_insert m k ((match opt_get m k with Some l => l | None => [] end) ++ [b]).
Proof. unfold opt_add. destruct (opt_get m k); reflexivity. Qed.

Lemma add_all_spec k w : width_ok w = true -> forall vs p, forallb (tval_ok w) vs = true ->
  add_all p k w vs = Ok (match vs with [] => p | _ => set_opts p (opt_insert (opts p) k (raw_of p k ++ map (spec_enc w) vs)) end).
Proof.
  intros Hw. induction vs as [|[v s] r IH]; intros p H; [reflexivity|].
  cbn [forallb] in H. apply andb_true_iff in H. destruct H as (H1 & H2).
  cbn [add_all]. unfold add_option_as. pose proof (enc_ok w (v, s) Hw H1) as HE. cbn [fst snd] in HE. rewrite HE. cbn [bind].
  rewrite (IH _ H2). f_equal. unfold add_option, set_opts, raw_of. cbn [opts hdr token payload].
  rewrite opt_add_raw. destruct r as [|x r']; [reflexivity|].
  rewrite opt_get_insert, opt_insert_insert, <- app_assoc. reflexivity.
Qed.

Lemma raw_all_wf p k : pkt_bytes_ok p = true -> Forall bytes_wf (raw_of p k).
Proof.
  intros HP. unfold raw_of. destruct (opt_get (opts p) k) as [vs|] eqn:EG; [|constructor].
  unfold pkt_bytes_ok in HP. apply andb_true_iff in HP. destruct HP as (HP & _). apply andb_true_iff in HP. destruct HP as (HP & _).
  rewrite forallb_forall in HP.
  assert (HI : In (k, vs) (opts p)).
  { clear HP. induction (opts p) as [|[k' vs'] m IH]; cbn [opt_get] in EG; [discriminate|].
    destruct (k' =? k) eqn:EK; [left; assert (k' = k) by lia; congruence|]. destruct (k <? k'); [discriminate|right; apply IH; exact EG]. }
  specialize (HP _ HI). cbn [fst snd] in HP. apply andb_true_iff in HP. destruct HP as (_ & HP).
  apply Forall_forall. intros b Hb. rewrite forallb_forall in HP. apply bytes_wf_forallb. apply HP. exact Hb.
Qed.

Theorem model_passes_oracle60_add_list r : verdict60 (3 :: r) (run60 (3 :: r)) = true.
Proof.
  unfold verdict60. destruct (in_domain60 (3 :: r)) eqn:ED; [|reflexivity]. cbn [in_domain60 spec60 run60] in *.
  destruct (rd_packet r) as [[p [|k [|w r']]]|]; try discriminate.
  destruct (rd_list rd_tval r') as [[vs [|? ?]]|]; try discriminate.
  apply andb_true_iff in ED. destruct ED as (ED & HP). apply andb_true_iff in ED. destruct ED as (ED & Hvs).
  apply andb_true_iff in ED. destruct ED as (Hw & Hk).
  rewrite (add_all_spec k w Hw vs p Hvs). destruct vs as [|x vs']; [apply list_eqb_refl|].
  set (vs := x :: vs') in *. set (old := raw_of p k).
  set (p' := set_opts p (opt_insert (opts p) k (old ++ map (spec_enc w) vs))).
  unfold observe_all, expect_typed, raw_of, get_option, get_options_as, get_first_option_as, get_first_option, get_option.
  assert (HG : opt_get (opts p') k = Some (old ++ map (spec_enc w) vs)) by (unfold p', set_opts; cbn [opts]; apply opt_get_insert).
  rewrite HG.
  pose proof (raw_all_wf p k HP) as Hold. fold old in Hold.
  assert (HM : map (wr_typed w) (map (dec_value w) (old ++ map (spec_enc w) vs)) =
               map (wr_typed w) (map (spec_dec w) old ++ map (fun x => Ok (if w =? 0 then (0, snd x) else (fst x, []))) vs)).
  { rewrite !map_app, !map_map. f_equal.
    - apply map_ext_in. intros b Hb. apply wr_typed_dec; [exact Hw|]. rewrite Forall_forall in Hold. apply Hold. exact Hb.
    - apply map_ext_in. intros y Hy. rewrite dec_enc; [reflexivity|exact Hw|]. rewrite forallb_forall in Hvs. apply Hvs. exact Hy. }
  rewrite (flat_map_wr_typed w _ _ HM).
  assert (HF : wr_typed_first w (match (match old ++ map (spec_enc w) vs with [] => None | v :: _ => Some v end) with Some b => Some (dec_value w b) | None => None end) =
               wr_typed_first w (match map (spec_dec w) old ++ map (fun x => Ok (if w =? 0 then (0, snd x) else (fst x, []))) vs with [] => None | y :: _ => Some y end)).
  { destruct old as [|b t]; cbn [app map].
    - unfold vs. cbn [map]. rewrite dec_enc by (auto; cbn [forallb] in Hvs; apply andb_true_iff in Hvs; tauto). reflexivity.
    - unfold wr_typed_first. f_equal. apply wr_typed_dec; [exact Hw|]. inversion Hold; assumption. }
  rewrite HF. apply list_eqb_refl.
Qed.

(* the whole of suite 60 *)
Theorem model_passes_oracle60 s : verdict60 s (run60 s) = true.
Proof.
  destruct s as [|k r]; [reflexivity|].
  destruct k as [|p]; [apply model_passes_oracle60_codec; exists r; auto|].
  destruct p as [[[p|p|]|[p|p|]|]|[[p|p|]|[p|p|]|]|];
    try (unfold verdict60; reflexivity).
  - apply model_passes_oracle60_set_cf.
  - apply model_passes_oracle60_set_observe.
  - apply model_passes_oracle60_add_list.
  - apply model_passes_oracle60_getters.
  - apply model_passes_oracle60_set_list.
  - apply model_passes_oracle60_codec. exists r. auto.
  - apply model_passes_oracle60_codec. exists r. auto.
Qed.

(* ---------- suite 190 kind 4: set_path ---------- *)
Lemma segs_split s : forall cur, segs s cur = split_slash s cur.
Proof. induction s as [|c s IH]; intros cur; cbn [segs split_slash]; [reflexivity|]. destruct (c =? 47); rewrite ?IH; reflexivity. Qed.

Lemma split_head_nonempty s : forall cur, cur <> [] -> match split_slash s cur with [] :: _ => False | _ => True end.
Proof.
  induction s as [|c s IH]; intros cur Hc; cbn [split_slash].
  - destruct (rev cur) eqn:E; [|exact I]. apply (f_equal (@rev N)) in E. rewrite rev_involutive in E. cbn in E. congruence.
  - destruct (c =? 47).
    + destruct (rev cur) eqn:E; [|exact I]. apply (f_equal (@rev N)) in E. rewrite rev_involutive in E. cbn in E. congruence.
    + apply IH. discriminate.
Qed.

Lemma spec_segments_eq s : spec_segments s = path_segments s.
Proof.
  unfold spec_segments, path_segments. destruct s as [|c t]; [reflexivity|].
  cbn [strip_slash split_slash]. destruct (c =? 47) eqn:E; [apply segs_split|].
  rewrite segs_split. cbn [split_slash]. rewrite E.
  pose proof (split_head_nonempty t [c] ltac:(discriminate)) as H. destruct (split_slash t [c]) as [|[|x y] l]; [reflexivity|destruct H|reflexivity].
Qed.

Lemma fold_add_opts k segs : forall q, segs <> [] ->
  fold_left (fun q seg => add_option q k seg) segs q = set_opts q (opt_insert (opts q) k (raw_of q k ++ segs)).
Proof.
  induction segs as [|x r IH]; intros q Hne; [congruence|]. cbn [fold_left].
  destruct r as [|y r'].
  - cbn [fold_left]. unfold add_option, raw_of. rewrite opt_add_raw. reflexivity.
  - rewrite IH by discriminate. unfold add_option, set_opts, raw_of. cbn [opts hdr token payload].
    rewrite opt_add_raw, opt_get_insert, opt_insert_insert, <- app_assoc. reflexivity.
Qed.

Theorem model_passes_oracle190_set_path r : verdict190 (4 :: r) (run190 (4 :: r)) = true.
Proof.
  unfold verdict190. destruct (in_domain190 (4 :: r)) eqn:ED; [|reflexivity]. cbn [in_domain190 spec190 run190] in *.
  destruct (rd_packet r) as [[p r']|]; [|discriminate]. destruct (rd_bytes r') as [[path [|? ?]]|]; try discriminate.
  apply andb_true_iff in ED. destruct ED as (ED & HP). apply andb_true_iff in ED. destruct ED as (Hu & Hb).
  destruct (path_roundtrip p path (segments_valid path Hu)) as (_ & G1 & G2 & _).
  cbv zeta in G1, G2. rewrite G1, G2, spec_segments_eq. cbn [wr_vec].
  assert (HE : set_path p path = match path_segments path, opt_get (opts p) 11 with [], None => p | _, _ => with_opt p 11 (path_segments path) end).
  { unfold set_path, with_opt. change OPT_URI_PATH with 11.
    destruct (path_segments path) as [|x sg] eqn:ES.
    - cbn [fold_left]. unfold clear_option, opt_clear, set_opts. destruct (opt_get (opts p) 11); [reflexivity|]. destruct p as [h t o pl]. reflexivity.
    - rewrite fold_add_opts by discriminate. unfold clear_option, raw_of, set_opts, opt_clear. cbn [opts hdr token payload].
      destruct (opt_get (opts p) 11) eqn:EG; cbn [opts].
      + rewrite opt_get_insert, opt_insert_insert. reflexivity.
      + rewrite EG. reflexivity. }
  rewrite HE. apply list_eqb_refl.
Qed.

(* ---------- suite 190 kinds 9 / 10: set_from_message (coap-message 0.2 / 0.3) ---------- *)
Lemma fold_add_fields l : forall q,
  let q' := fold_left (fun q kv => add_option q (fst kv) (snd kv)) l q in
  hdr q' = hdr q /\ token q' = token q /\ payload q' = payload q /\
  opts q' = fold_left (fun m kv => opt_insert m (fst kv) (raw_of (mkPacket (hdr q) [] m []) (fst kv) ++ [snd kv])) l (opts q).
Proof.
  induction l as [|[k v] l IH]; intros q; cbn [fold_left]; [repeat split|].
  destruct (IH (add_option q k v)) as (H1 & H2 & H3 & H4). cbv zeta in *. cbn [fst snd].
  rewrite H1, H2, H3, H4.
  unfold add_option, set_opts. cbn [hdr token payload opts fst snd]. repeat split.
  rewrite opt_add_raw. unfold raw_of. cbn [opts]. reflexivity.
Qed.

Theorem model_passes_oracle190_copy k r : k = 9 \/ k = 10 ->
  (forall src r', rd_packet r = Some (src, r') -> class_to_byte (code (hdr src)) < 256) ->
  verdict190 (k :: r) (run190 (k :: r)) = true.
Proof.
  intros Hk Hcode. unfold verdict190.
  assert (HD : in_domain190 (k :: r) = in_domain190 (9 :: r)) by (destruct Hk as [-> | ->]; reflexivity).
  assert (HS : spec190 (k :: r) = spec190 (9 :: r)) by (destruct Hk as [-> | ->]; reflexivity).
  assert (HR : run190 (k :: r) = run190 (9 :: r)) by (destruct Hk as [-> | ->]; reflexivity).
  rewrite HD, HS, HR. clear HD HS HR Hk k.
  destruct (in_domain190 (9 :: r)) eqn:ED; [|reflexivity]. cbn [in_domain190 spec190 run190] in *.
  destruct (rd_packet r) as [[src r']|] eqn:ER; [|discriminate]. destruct (rd_packet r') as [[dst [|? ?]]|]; try discriminate.
  specialize (Hcode src r' eq_refl).
  unfold set_from_message, readable_options, readable_code, readable_payload.
  set (d0 := set_code dst (class_of_byte (class_to_byte (code (hdr src))))).
  destruct (fold_add_fields (flatten (opts src)) d0) as (H1 & H2 & H3 & H4). cbv zeta in *.
  set (d1 := fold_left (fun q kv => add_option q (fst kv) (snd kv)) (flatten (opts src)) d0) in *.
  assert (HE : set_payload d1 (payload src) =
               mkPacket (mkHeader (vtt (hdr dst)) (class_of_byte (class_to_byte (code (hdr src)))) (mid (hdr dst))) (token dst)
                 (fold_left (fun m kv => opt_insert m (fst kv) (raw_of (mkPacket (hdr dst) [] m []) (fst kv) ++ [snd kv])) (flatten (opts src)) (opts dst))
                 (payload src)).
  { unfold set_payload. rewrite H1, H2, H4. unfold d0, set_code, set_hdr. cbn [hdr token opts]. reflexivity. }
  rewrite HE. unfold wr_view, readable_code, readable_options, readable_payload. cbn [hdr code opts payload].
  rewrite class_byte_wf by exact Hcode. apply list_eqb_refl.
Qed.

(* P11b.v -- C11: the byte offsets the handler computes from a decoded block option cannot overflow a machine word:
   num <= 65535 and szx <= 7 keep num * size + size at or below 2^27 (the model computes on unbounded N; this is the
   fact that makes that faithful on every target with at least 32-bit usize). *)
From CoapV Require Import proofs.Tac Header Packet UintOpt Utf8 BlockValue Encode Response Accessors BlockHandler proofs.P11.

Lemma block_decode_szx bs b : block_decode bs = Ok b -> b_szx b < 8.
Proof.
  unfold block_decode. destruct (3 <? len bs); [discriminate|].
  destruct (uint_try_from bs 4) as [v|e|s]; cbn [bind]; try discriminate.
  destruct (65535 <? v / 16); [discriminate|]. intros [= <-]. cbn [b_szx]. apply N.mod_lt. lia.
Qed.

Theorem decoded_offsets_bounded n p b : first_block n p = Some b ->
  block_size b <= 2048 /\ b_num b * block_size b + block_size b <= 134217728.
Proof.
  intros H. pose proof (first_block_num _ _ _ H) as Hn.
  assert (Hs : b_szx b < 8).
  { unfold first_block in H. destruct (get_first_option p n); [|discriminate].
    destruct (block_decode l) eqn:E; try discriminate. injection H as <-. eapply block_decode_szx. exact E. }
  assert (Hb : block_size b <= 2048).
  { unfold block_size. change 2048 with (2 ^ 11). apply N.pow_le_mono_r; lia. }
  split; [exact Hb|]. nia.
Qed.

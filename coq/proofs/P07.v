(* P07.v -- lemmas behind C07. *)
From CoapV Require Import proofs.Tac Header Packet UintOpt Response Suite07.

Lemma opt_get_insert m k x : opt_get (opt_insert m k x) k = Some x.
Proof.
  induction m as [|[k' vs] m IH]; cbn [opt_insert opt_get].
  - rewrite N.eqb_refl. reflexivity.
  - destruct (k =? k') eqn:E1.
    + cbn [opt_get]. rewrite N.eqb_refl. reflexivity.
    + destruct (k <? k') eqn:E2; cbn [opt_get].
      * rewrite N.eqb_refl. reflexivity.
      * replace (k' =? k) with false by lia. rewrite E2. exact IH.
Qed.

Lemma opt_insert_insert m k x y : opt_insert (opt_insert m k x) k y = opt_insert m k y.
Proof.
  induction m as [|[k' vs] m IH]; cbn [opt_insert].
  - rewrite N.eqb_refl. reflexivity.
  - destruct (k =? k') eqn:E1.
    + cbn [opt_insert]. rewrite N.eqb_refl. reflexivity.
    + destruct (k <? k') eqn:E2; cbn [opt_insert].
      * rewrite N.eqb_refl. reflexivity.
      * rewrite E1, E2. f_equal. exact IH.
Qed.

Lemma opt_add_clear m k v : opt_add (opt_clear m k) k v = opt_insert m k [v].
Proof.
  unfold opt_clear. destruct (opt_get m k) eqn:E.
  - unfold opt_add. rewrite opt_get_insert. cbn [app]. apply opt_insert_insert.
  - unfold opt_add. rewrite E. reflexivity.
Qed.

Lemma type_cases h :
  let t := (vtt h / 16) mod 4 in
  get_type h = match t with 0 => Confirmable | 1 => NonConfirmable | 2 => Acknowledgement | _ => Reset end.
Proof. reflexivity. Qed.

Lemma response_new_spec req :
  len (token req) < 16 -> response_new req = Ok (spec_response req).
Proof.
  intros Ht. unfold response_new, spec_response, get_type, type_of_bits.
  assert (Hr : (vtt (hdr req) / 16) mod 4 < 4) by (apply N.mod_lt; lia).
  destruct ((vtt (hdr req) / 16) mod 4) as [|p] eqn:Et.
  - (* Confirmable *)
    change (0 <? 2) with true. cbv iota. change (0 =? 0) with true. cbv iota.
    unfold set_token, set_token_length.
    replace (len (token req) mod 256) with (len (token req)) by lia.
    replace (len (token req) <? 16) with true by lia.
    cbn. do 4 f_equal. lia.
  - destruct p as [p|p|]; try destruct p; try lia.
    + (* 3 : Reset *) reflexivity.
    + (* 2 : Ack *) reflexivity.
    + (* 1 : NonConfirmable *)
      change (1 <? 2) with true. cbv iota. change (1 =? 0) with false. cbv iota.
      unfold set_token, set_token_length.
      replace (len (token req) mod 256) with (len (token req)) by lia.
      replace (len (token req) <? 16) with true by lia.
      cbn. do 4 f_equal. lia.
Qed.

Lemma from_packet_spec p src :
  len (token p) < 16 -> from_packet p src = Ok (mkRequest p (spec_response p) (Some src)).
Proof. intros H. unfold from_packet. rewrite response_new_spec by exact H. reflexivity. Qed.

Lemma apply_from_error_spec r e : apply_from_error r e = Ok (spec_apply r e).
Proof.
  unfold apply_from_error, spec_apply.
  destruct (response r) as [reply|]; [|reflexivity].
  destruct (he_code e) as [c|]; [|reflexivity].
  unfold set_content_format_num. change (0 <? U16) with true. cbv iota.
  unfold add_option_uint, option_from_uint. change (0 =? 0) with true. cbv iota.
  cbn [bind]. unfold add_option, clear_option, set_opts, set_code, set_hdr, set_payload.
  cbn [opts hdr token payload vtt mid]. rewrite opt_add_clear. reflexivity.
Qed.


Lemma list_eqb_refl l : list_eqb N.eqb l l = true.
Proof. induction l as [|x l IH]; cbn [list_eqb]; [reflexivity|]. rewrite N.eqb_refl, IH. reflexivity. Qed.

Lemma run07_verdict s c : rd_case07 s = Some c -> verdict07 s (run07 s) = true.
Proof.
  intros E. unfold verdict07, run07. rewrite E.
  destruct (case07_ok c) eqn:Hok; [|reflexivity].
  unfold case07_ok in Hok. assert (Ht : len (token (c_req c)) < 16) by lia.
  unfold out07. rewrite response_new_spec, from_packet_spec by exact Ht. cbn [bind].
  rewrite apply_from_error_spec. cbn [bind].
  unfold spec07. destruct (spec_apply _ _) as [rq' b]. cbn [fst snd wr_outcome].
  apply list_eqb_refl.
Qed.

(* readable consequences of spec_response *)
Lemma spec_response_fields req r :
  len (token req) < 16 -> spec_response req = Some r ->
  get_version (hdr r) = 1 /\
  get_type (hdr r) = (match get_type (hdr req) with Confirmable => Acknowledgement | _ => NonConfirmable end) /\
  get_token_length (hdr r) = len (token req) /\
  code (hdr r) = Response Content /\ mid (hdr r) = mid (hdr req) /\
  token r = token req /\ opts r = [] /\ payload r = [].
Proof.
  intros Ht. unfold spec_response, get_type.
  assert (Hr : (vtt (hdr req) / 16) mod 4 < 4) by (apply N.mod_lt; lia).
  destruct ((vtt (hdr req) / 16) mod 4 <? 2) eqn:E; [|discriminate].
  intros H. inv H. cbn [hdr vtt code mid token opts payload].
  unfold get_version, get_token_length. cbn [vtt].
  assert (Hc : (vtt (hdr req) / 16) mod 4 = 0 \/ (vtt (hdr req) / 16) mod 4 = 1) by lia.
  destruct Hc as [Hc|Hc]; rewrite Hc.
  - change (0 =? 0) with true. cbv iota.
    repeat split; try lia.
    replace (((64 + 2 * 16 + len (token req)) / 16) mod 4) with 2 by lia. reflexivity.
  - change (1 =? 0) with false. cbv iota.
    repeat split; try lia.
    replace (((64 + 1 * 16 + len (token req)) / 16) mod 4) with 1 by lia. reflexivity.
Qed.

Lemma spec_response_none req :
  spec_response req = None <-> (get_type (hdr req) = Acknowledgement \/ get_type (hdr req) = Reset).
Proof.
  unfold spec_response, get_type, type_of_bits.
  assert (Hr : (vtt (hdr req) / 16) mod 4 < 4) by (apply N.mod_lt; lia).
  destruct ((vtt (hdr req) / 16) mod 4) as [|p] eqn:Et.
  - change (0 <? 2) with true. cbv iota. split; [discriminate|intros [H|H]; discriminate].
  - destruct p as [p|p|]; try destruct p; try lia; cbn; split; auto; try discriminate;
      intros [H|H]; discriminate.
Qed.

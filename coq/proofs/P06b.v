(* P06b.v -- C06: the uint / string codec entry points of the model pass the suite-60 oracle (spec60: be_min, be_value
   and the UTF-8 table only) on every input of kinds 0 (encode), 1 (decode) and 2 (string). *)
From CoapV Require Import proofs.Tac Header Packet UintOpt Utf8 Numbers TypedOpt Suite06 proofs.P06 proofs.P13b proofs.P14b.

Lemma width_le8 w : width_ok w = true -> w <= 8.
Proof. unfold width_ok. intros H. repeat (apply orb_true_iff in H; destruct H as [H|H]); lia. Qed.

Theorem model_passes_oracle60_codec s : (exists r, s = 0 :: r \/ s = 1 :: r \/ s = 2 :: r) -> verdict60 s (run60 s) = true.
Proof.
  intros (r & [->|[->| ->]]); unfold verdict60.
  - (* encode *)
    destruct (in_domain60 (0 :: r)) eqn:ED; [|reflexivity].
    destruct r as [|w [|v [|? ?]]]; try discriminate. cbn [in_domain60] in ED.
    apply andb_true_iff in ED. destruct ED as (ED & Hv). cbn [spec60 run60].
    rewrite option_from_uint_spec by lia. apply list_eqb_refl.
  - (* decode *)
    destruct (in_domain60 (1 :: r)) eqn:ED; [|reflexivity].
    destruct r as [|w r]; [discriminate|]. cbn [in_domain60 spec60 run60] in *.
    apply andb_true_iff in ED. destruct ED as (ED & Hb). apply andb_true_iff in ED. destruct ED as (Hw & _).
    destruct (rd_bytes r) as [[bs [|? ?]]|]; try discriminate.
    rewrite uint_try_from_spec by (auto using bytes_wf_forallb, width_le8).
    destruct (len bs <=? w); apply list_eqb_refl.
  - (* string *)
    destruct (in_domain60 (2 :: r)) eqn:ED; [|reflexivity]. cbn [in_domain60 spec60 run60] in *.
    destruct (rd_bytes r) as [[bs [|? ?]]|]; try discriminate.
    rewrite string_spec. destruct (utf8_valid bs); apply list_eqb_refl.
Qed.

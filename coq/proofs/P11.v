(* P11.v -- C11 (the handler survives hostile traffic), C10 (chosen block sizes), and the list facts
   behind C08 (chunk reassembly) and C09 (upload reassembly). *)
From CoapV Require Import proofs.Tac Header Packet UintOpt Utf8 BlockValue Encode Response Accessors BlockHandler
  WireSpec PacketOps proofs.PWire proofs.PEnc proofs.PDec proofs.P01 proofs.P06 proofs.P13.

(* ---------- no panic ---------- *)
Lemma block_new_no_panic n m sz s : block_new n m sz <> Panic s.
Proof.
  unfold block_new. destruct (largest_power_of_2_not_in_excess sz); [|discriminate].
  destruct (7 <? _); [discriminate|]. destruct (n <? U16); discriminate.
Qed.

Lemma block_encode_ok b : b_num b < 65536 -> exists v, block_encode b = Ok v.
Proof.
  intros H. unfold block_encode. eexists. apply option_from_uint_spec.
  assert (b2n (b_more b) < 2) by (destruct (b_more b); cbn; lia).
  change (256 ^ 4) with 4294967296. lia.
Qed.

Lemma block_decode_num bs b : block_decode bs = Ok b -> b_num b < 65536.
Proof.
  unfold block_decode. destruct (3 <? len bs); [discriminate|].
  destruct (uint_try_from bs 4) as [v|e|s]; cbn [bind]; try discriminate.
  destruct (65535 <? v / 16) eqn:E; [discriminate|]. intros [= <-]. cbn. lia.
Qed.

Lemma first_block_num n p b : first_block n p = Some b -> b_num b < 65536.
Proof.
  unfold first_block. destruct (get_first_option p n); [|discriminate].
  destruct (block_decode l) eqn:E; try discriminate. intros [= <-]. eapply block_decode_num. exact E.
Qed.

Lemma block_new_num n m sz b : block_new n m sz = Ok b -> b_num b < 65536.
Proof.
  unfold block_new. destruct (largest_power_of_2_not_in_excess sz); [|discriminate].
  destruct (7 <? _); [discriminate|]. destruct (n <? U16) eqn:E; [|discriminate]. intros [= <-]. cbn. unfold U16 in E. lia.
Qed.

Definition opts_sorted (p : packet) : Prop := nums_asc 0 (flatten (opts p)).

Lemma message_size_no_panic p s : opts_sorted p -> message_size_hack p <> Panic s.
Proof.
  intros H. unfold message_size_hack, to_bytes_unlimited.
  destruct (to_bytes_internal (set_payload p []) None) eqn:E; try discriminate.
  exfalso. eapply (to_bytes_no_panic (set_payload p []) None); [exact H|exact E].
Qed.

Lemma negotiate_no_panic rb ms tp M s : negotiate rb ms tp M <> Panic s.
Proof.
  unfold negotiate. destruct (M <? _); [discriminate|]. destruct rb as [b|].
  - destruct (N.min _ _ =? 0); [discriminate|].
    destruct (block_new _ _ _) eqn:E; try discriminate. exfalso. eapply block_new_no_panic. exact E.
  - destruct (tp <? _); [discriminate|].
    destruct (block_new _ _ _) eqn:E; try discriminate. exfalso. eapply block_new_no_panic. exact E.
Qed.

Lemma negotiate_num rb ms tp M b : negotiate rb ms tp M = Ok (Some b) -> b_num b < 65536.
Proof.
  unfold negotiate. destruct (M <? _); [discriminate|]. destruct rb as [b0|].
  - destruct (N.min _ _ =? 0); [discriminate|].
    destruct (block_new _ _ _) eqn:E; try discriminate. intros [= <-]. eapply block_new_num. exact E.
  - destruct (tp <? _); [discriminate|].
    destruct (block_new _ _ _) eqn:E; try discriminate. intros [= <-]. eapply block_new_num. exact E.
Qed.

Definition req_wf (req : request) : Prop :=
  opts_sorted (message req) /\ match response req with Some r => opts_sorted r | None => True end.
Definition st_wf (st : bstate) : Prop := match last_b2 st with Some b => b_num b < 65536 | None => True end.

Theorem handle_block1_no_panic req M st s : req_wf req -> fst (fst (handle_block1 req M st)) <> Panic s.
Proof.
  intros (Hm & _). unfold handle_block1.
  destruct (message_size_hack (message req)) as [sz|e|s0] eqn:E1; cbn [fst]; try discriminate.
  2:{ exfalso. eapply message_size_no_panic; eauto. }
  destruct (negotiate _ sz _ M) as [rsp|e|s0] eqn:E2; cbn [fst]; try discriminate.
  2:{ exfalso. eapply negotiate_no_panic; eauto. }
  destruct (first_block OPT_BLOCK1 (message req)) as [b1|]; destruct rsp as [r1|]; cbn [fst]; try discriminate.
  - destruct (extending_splice _ _ _ _); cbn [fst]; [|discriminate].
    destruct (b_more b1); destruct (response req); cbn [fst]; discriminate.
  - destruct (response req); cbn [fst]; discriminate.
Qed.

Theorem serve_cached_no_panic req b2 cached s : b_num b2 < 65536 -> fst (serve_cached req b2 cached) <> Panic s.
Proof.
  intros Hn. unfold serve_cached. destruct (response req); cbn [fst]; [|discriminate].
  destruct (_ && _); cbn [fst]; [discriminate|].
  destruct (block_encode_ok (mkBlock (b_num b2) (b_num b2 * block_size b2 + block_size b2 <? len (payload cached)) (b_szx b2)) Hn) as (v & ->).
  cbn [fst]. discriminate.
Qed.

Theorem handle_block2_no_panic req st s : fst (fst (handle_block2 req st)) <> Panic s.
Proof.
  unfold handle_block2. destruct (first_block OPT_BLOCK2 (message req)) as [b2|] eqn:E; cbn [fst]; [|discriminate].
  destruct (cached_resp st) as [c|]; cbn [fst]; [|discriminate].
  pose proof (serve_cached_no_panic req b2 c s (first_block_num _ _ _ E)) as H.
  destruct (serve_cached req b2 c) as [[hm|e|s0] r']; cbn [fst] in *; try discriminate. intros [= ->]. apply H. reflexivity.
Qed.

(* handle_block1 leaves the message options alone (only the payload may change) *)
Theorem intercept_request_no_panic req M st s : req_wf req -> fst (fst (intercept_request_st req M st)) <> Panic s.
Proof.
  intros Hw. unfold intercept_request_st.
  pose proof (handle_block1_no_panic req M st s Hw) as H1.
  destruct (handle_block1 req M st) as [[[[|]|e|s0] r1] st1]; cbn [fst] in *; try discriminate; try exact H1.
  apply handle_block2_no_panic.
Qed.

Theorem intercept_response_no_panic req M st s : req_wf req -> st_wf st -> fst (fst (intercept_response_st req M st)) <> Panic s.
Proof.
  intros (_ & Hr) Hs. unfold intercept_response_st. destruct (response req) as [rp|]; cbn [fst]; [|discriminate].
  destruct (get_option rp OPT_BLOCK2); cbn [fst]; [discriminate|].
  destruct (message_size_hack rp) as [sz|e|s0] eqn:E1; cbn [fst]; try discriminate.
  2:{ exfalso. eapply message_size_no_panic; eauto. }
  destruct (negotiate (last_b2 st) sz _ M) as [[b2|]|e|s0] eqn:E2; cbn [fst]; try discriminate.
  2:{ exfalso. eapply negotiate_no_panic; eauto. }
  pose proof (serve_cached_no_panic req b2 rp s (negotiate_num _ _ _ _ _ E2)) as H.
  destruct (serve_cached req b2 rp) as [[[|]|e|s0] r']; cbn [fst] in *; try discriminate. intros [= ->]. apply H. reflexivity.
Qed.

(* ---------- errors can be rendered ---------- *)
(* an error either carries a 4.xx/5.xx code, or it is "not handled" and there is no response to render it into *)
Theorem handle_block1_errors req M st e : fst (fst (handle_block1 req M st)) = Err e ->
  e = E_INTERNAL \/ (e = E_NOT_HANDLED /\ response req = None).
Proof.
  unfold handle_block1, message_size_hack.
  destruct (to_bytes_unlimited _) as [bs|e0|s0]; cbn [fst]; [|intros [= <-]; auto|discriminate].
  assert (HN : forall rb ms tp e', negotiate rb ms tp M = Err e' -> e' = E_INTERNAL).
  { clear. intros rb ms tp e'. unfold negotiate. destruct (M <? _); [intros [= <-]; reflexivity|]. destruct rb.
    - destruct (_ =? 0); [intros [= <-]; reflexivity|]. destruct (block_new _ _ _); try discriminate. intros [= <-]. reflexivity.
    - destruct (tp <? _); [discriminate|]. destruct (block_new _ _ _); try discriminate. intros [= <-]. reflexivity. }
  destruct (negotiate _ _ _ M) as [rsp|e0|s0] eqn:E2; cbn [fst]; [|intros [= <-]; left; eapply HN; eauto|discriminate].
  destruct (first_block OPT_BLOCK1 (message req)) as [b1|]; destruct rsp as [r1|]; cbn [fst]; try discriminate.
  - destruct (extending_splice _ _ _ _); cbn [fst]; [|intros [= <-]; auto].
    destruct (b_more b1); destruct (response req); cbn [fst]; try discriminate; intros [= <-]; auto.
  - destruct (response req); cbn [fst]; try discriminate. intros [= <-]; auto.
Qed.

Theorem serve_cached_errors req b2 cached e : b_num b2 < 65536 -> fst (serve_cached req b2 cached) = Err e ->
  e = E_BAD_REQUEST \/ (e = E_NOT_HANDLED /\ response req = None).
Proof.
  intros Hn. unfold serve_cached. destruct (response req); cbn [fst]; [|intros [= <-]; auto].
  destruct (_ && _); cbn [fst]; [intros [= <-]; auto|].
  destruct (block_encode_ok (mkBlock (b_num b2) (b_num b2 * block_size b2 + block_size b2 <? len (payload cached)) (b_szx b2)) Hn) as (v & ->).
  cbn [fst]. discriminate.
Qed.

(* ---------- bounded growth of the upload buffer ---------- *)
Lemma len_repeat {A} (x : A) n : len (repeat x n) = N.of_nat n.
Proof. unfold len. rewrite repeat_length. reflexivity. Qed.

Theorem extending_splice_growth dst start stop repl out : start <= stop ->
  extending_splice dst start stop repl = Some out ->
  len out <= len dst + MAX_RESERVE + len repl /\ stop - len dst <= MAX_RESERVE.
Proof.
  intros Hs. unfold extending_splice. destruct (MAX_RESERVE <? stop - len dst) eqn:E; [discriminate|]. intros [= <-].
  rewrite !len_app, len_take, len_drop; rewrite ?len_app, ?len_repeat; try lia.
Qed.

Theorem extending_splice_rejects dst start stop repl : MAX_RESERVE < stop - len dst -> extending_splice dst start stop repl = None.
Proof. intros H. unfold extending_splice. replace (MAX_RESERVE <? stop - len dst) with true by lia. reflexivity. Qed.

Lemma len_take_le {A} n (l : list A) : len (take n l) <= len l.
Proof. unfold take, len. rewrite firstn_length. lia. Qed.

(* an accepted block grows the buffer by at most 16 KiB beyond its own payload, and so does the body handed on *)
Theorem handle_block1_buffer req M st :
  let before := match cached_payload st with Some b => b | None => [] end in
  let bound := len before + MAX_RESERVE + len (payload (message req)) in
  (forall b', cached_payload (snd (handle_block1 req M st)) = Some b' -> len b' <= bound) /\
  len (payload (message (snd (fst (handle_block1 req M st))))) <= bound.
Proof.
  cbv zeta. unfold handle_block1.
  assert (HB : forall b', cached_payload st = Some b' ->
                 len b' <= len match cached_payload st with Some b => b | None => [] end + MAX_RESERVE + len (payload (message req))).
  { intros b' E. rewrite E. lia. }
  destruct (message_size_hack (message req)) as [sz|e|s0]; cbn [fst snd]; [|split; [exact HB|lia]..].
  destruct (negotiate _ sz _ M) as [rsp|e|s0]; cbn [fst snd]; [|split; [exact HB|lia]..].
  destruct (first_block OPT_BLOCK1 (message req)) as [b1|]; destruct rsp as [r1|]; cbn [fst snd]; try (split; [exact HB|lia]).
  - set (before := match cached_payload st with Some b => b | None => [] end) in *.
    destruct (extending_splice before _ _ _) as [buf'|] eqn:ES.
    + apply extending_splice_growth in ES; [|lia]. destruct ES as (HG & _).
      destruct (b_more b1); destruct (response req); cbn [fst snd cached_payload st_buf message with_message with_response set_payload payload].
      * split; [intros b' [= <-]; exact HG|lia].
      * split; [intros b' [= <-]; exact HG|lia].
      * split; [intros b' H; discriminate|]. pose proof (len_take_le (b_num b1 * block_size b1 + len (payload (message req))) buf'). lia.
      * split; [intros b' H; discriminate|]. pose proof (len_take_le (b_num b1 * block_size b1 + len (payload (message req))) buf'). lia.
    + cbn [fst snd cached_payload st_buf]. split; [intros b' [= <-]; lia|lia].
  - destruct (response req); cbn [fst snd message with_response]; (split; [exact HB|lia]).
Qed.

(* a block whose offset would need a larger jump is rejected and the buffered data stays as it was *)
Theorem handle_block1_rejects_jump req M st sz r1 b1 :
  message_size_hack (message req) = Ok sz ->
  negotiate (first_block OPT_BLOCK1 (message req)) sz (len (payload (message req))) M = Ok (Some r1) ->
  first_block OPT_BLOCK1 (message req) = Some b1 ->
  let before := match cached_payload st with Some b => b | None => [] end in
  MAX_RESERVE < b_num b1 * block_size b1 + block_size b1 - len before ->
  handle_block1 req M st = (Err E_INTERNAL, req, st_buf st (Some before)).
Proof.
  intros E1 E2 E3 before HJ. unfold handle_block1. rewrite E1. rewrite E3 in *. rewrite E2.
  fold before. rewrite extending_splice_rejects by exact HJ. reflexivity.
Qed.

(* ---------- C10: the size the handler chooses ---------- *)
Theorem negotiate_size cb overhead tp M b : overhead + 28 <= M -> M <= 1280 ->
  negotiate cb (overhead + tp) tp M = Ok (Some b) ->
  (exists k, k <= 6 /\ block_size b = 2 ^ (k + 4)) /\
  block_size b <= M - overhead - BLOCK_OPTIONS_MAX_LENGTH /\
  (forall c, cb = Some c -> block_size b <= block_size c) /\
  (forall c, cb = Some c -> b_szx c <= 7 -> overhead + block_size c + 32 <= M -> block_size b = block_size c).
Proof.
  intros H28 HM. unfold negotiate, BLOCK_OPTIONS_MAX_LENGTH.
  replace (overhead + tp + 12 - tp) with (overhead + 12) by lia.
  replace (M <? overhead + 12) with false by lia.
  set (mb := M - (overhead + 12)). assert (Hmb : 16 <= mb /\ mb <= 1268) by (unfold mb; lia).
  assert (HB : forall n m sz bb, 16 <= sz -> sz <= 1268 -> block_new n m sz = Ok bb ->
               block_size bb = 2 ^ N.log2 sz /\ b_szx bb = N.log2 sz - 4 /\ 4 <= N.log2 sz /\ N.log2 sz <= 10).
  { intros n m sz bb H1 H2. rewrite block_new_spec by (unfold U64; lia).
    replace (sz =? 0) with false by lia. replace (4096 <=? sz) with false by lia. cbn [orb].
    destruct (65536 <=? n); [discriminate|]. intros [= <-]. unfold block_size. cbn [b_szx].
    assert (4 <= N.log2 sz) by (change 4 with (N.log2 16); apply N.log2_le_mono; lia).
    assert (N.log2 sz <= 10) by (change 10 with (N.log2 1268); apply N.log2_le_mono; lia).
    replace (N.log2 sz - 4 + 4) with (N.log2 sz) by lia. auto. }
  destruct cb as [c|].
  - set (neg := N.min (block_size c) mb).
    assert (Hc16 : 16 <= block_size c) by (unfold block_size; change 16 with (2 ^ 4); apply N.pow_le_mono_r; lia).
    assert (Hneg : 16 <= neg /\ neg <= 1268) by (unfold neg; lia).
    replace (neg =? 0) with false by lia.
    destruct (block_new _ _ neg) as [bb|e|s0] eqn:EB; try discriminate. intros [= <-].
    destruct (HB _ _ _ _ (proj1 Hneg) (proj2 Hneg) EB) as (S1 & S2 & L1 & L2).
    pose proof (N.log2_spec neg ltac:(lia)) as (P1 & P2).
    split; [exists (N.log2 neg - 4); split; [lia|rewrite S1; f_equal; lia]|].
    split; [rewrite S1; unfold mb in *; lia|]. split.
    + intros c0 [= <-]. rewrite S1. unfold neg in *. lia.
    + intros c0 [= <-] Hx Hfit. rewrite S1.
      assert (neg = block_size c) as -> by (unfold neg, mb; lia).
      unfold block_size. rewrite N.log2_pow2 by lia. reflexivity.
  - destruct (tp <? mb); [discriminate|].
    destruct (block_new 0 true mb) as [bb|e|s0] eqn:EB; try discriminate. intros [= <-].
    destruct (HB _ _ _ _ (proj1 Hmb) (proj2 Hmb) EB) as (S1 & S2 & L1 & L2).
    pose proof (N.log2_spec mb ltac:(lia)) as (P1 & P2).
    split; [exists (N.log2 mb - 4); split; [lia|rewrite S1; f_equal; lia]|].
    split; [rewrite S1; unfold mb in *; lia|]. split; intros c0 H; discriminate.
Qed.

(* ---------- C08: the chunks of a body, taken in order, are the body ---------- *)
Fixpoint chunks_from (fuel : nat) (sz off : N) (body : bytes) : list bytes :=
  match fuel with
  | O => []
  | S f => if len body <=? off then [] else take sz (drop off body) :: chunks_from f sz (off + sz) body
  end.

Lemma take_drop_step {A} (l : list A) off sz : drop off l = take sz (drop off l) ++ drop (off + sz) l.
Proof.
  unfold take, drop. rewrite <- (firstn_skipn (N.to_nat sz) (skipn (N.to_nat off) l)) at 1. f_equal.
  rewrite skipn_add. f_equal. lia.
Qed.

Theorem chunks_reassemble g : forall sz off body, 0 < sz -> (length body - N.to_nat off < g)%nat ->
  concat (chunks_from g sz off body) = drop off body.
Proof.
  induction g as [|g IH]; intros sz off body Hsz Hg; [lia|].
  cbn [chunks_from]. destruct (len body <=? off) eqn:E.
  - unfold drop. rewrite skipn_all2 by (unfold len in *; lia). reflexivity.
  - cbn [concat]. rewrite (take_drop_step body off sz) at 2. f_equal.
    apply IH; [exact Hsz|]. unfold len in E. lia.
Qed.

(* in particular from offset 0: block k is take sz (drop (k*sz) body), and the blocks in order give the body *)
Corollary chunks_reassemble_all sz body : 0 < sz -> concat (chunks_from (S (length body)) sz 0 body) = body.
Proof. intros H. rewrite chunks_reassemble by (auto; lia). reflexivity. Qed.

(* ---------- C09: in-order blocks rebuild the body, whatever was in the buffer ---------- *)
Lemma take_app_le {A} (a b : list A) n : n <= len a -> take n (a ++ b) = take n a.
Proof. intros H. unfold take, len in *. rewrite firstn_app. replace (N.to_nat n - length a)%nat with O by lia. cbn. apply app_nil_r. Qed.

(* splicing block k (full size) into a buffer that already agrees with the body up to its offset extends the agreement *)
Theorem splice_extends_prefix buf body off sz out : len (take sz (drop off body)) = sz ->
  take off buf = take off body -> off <= len buf -> off + sz <= len body ->
  extending_splice buf off (off + sz) (take sz (drop off body)) = Some out ->
  take (off + sz) out = take (off + sz) body /\ off + sz <= len out.
Proof.
  intros Hfull Hpre Hlen Hbody. unfold extending_splice. destruct (MAX_RESERVE <? _); [discriminate|]. intros [= <-].
  set (d := buf ++ repeat 0 (N.to_nat (off + sz - len buf))).
  assert (Hd : take off d = take off body) by (unfold d; rewrite take_app_le by lia; exact Hpre).
  assert (Hld : len (take off d) = off) by (apply len_take; unfold d; rewrite len_app; lia).
  split.
  - unfold take at 1. rewrite firstn_app. fold (take (off + sz) (take off d)).
    assert (take (off + sz) (take off d) = take off d) as ->.
    { unfold take. rewrite firstn_firstn. f_equal. lia. }
    replace (N.to_nat (off + sz) - length (take off d))%nat with (N.to_nat sz) by (unfold len in Hld; lia).
    rewrite firstn_app. fold (take sz (take sz (drop off body))).
    assert (take sz (take sz (drop off body)) = take sz (drop off body)) as -> by (unfold take; rewrite firstn_firstn; f_equal; lia).
    replace (N.to_nat sz - length (take sz (drop off body)))%nat with O by (unfold len in Hfull; lia). cbn [firstn]. rewrite app_nil_r.
    rewrite Hd. unfold take, drop. rewrite <- (firstn_skipn (N.to_nat off) (firstn (N.to_nat (off + sz)) body)).
    rewrite firstn_firstn. replace (Init.Nat.min (N.to_nat off) (N.to_nat (off + sz))) with (N.to_nat off) by lia. f_equal.
    rewrite skipn_firstn_comm. f_equal. lia.
  - rewrite !len_app, Hld, Hfull. lia.
Qed.

(* the final block: the delivered body is the agreed prefix followed by the block's payload *)
Theorem final_block_body buf body off pl out : take off buf = take off body -> off <= len buf ->
  body = take off body ++ pl -> off <= len body ->
  extending_splice buf off (off + 16) pl = Some out \/ (exists sz, extending_splice buf off (off + sz) pl = Some out) ->
  take (off + len pl) out = body.
Proof.
  intros Hpre Hlen Hb Hob HS.
  assert (exists sz, extending_splice buf off (off + sz) pl = Some out) as (sz & ES) by (destruct HS; eauto).
  clear HS. unfold extending_splice in ES. destruct (MAX_RESERVE <? _); [discriminate|]. injection ES as <-.
  set (d := buf ++ repeat 0 (N.to_nat (off + sz - len buf))).
  assert (Hd : take off d = take off body) by (unfold d; rewrite take_app_le by lia; exact Hpre).
  assert (Hld : len (take off d) = off) by (apply len_take; unfold d; rewrite len_app; lia).
  unfold take at 1. rewrite firstn_app. fold (take (off + len pl) (take off d)).
  assert (take (off + len pl) (take off d) = take off d) as -> by (unfold take; rewrite firstn_firstn; f_equal; lia).
  replace (N.to_nat (off + len pl) - length (take off d))%nat with (length pl) by (unfold len in *; lia).
  rewrite firstn_app, firstn_all, Nat.sub_diag. cbn [firstn]. rewrite app_nil_r. rewrite Hd. symmetry. exact Hb.
Qed.

(* ---------- C08 / C12: what a served block is ---------- *)
Lemma clone_limited_correlation dst src :
  mid (hdr (clone_limited dst src)) = mid (hdr dst) /\ token (clone_limited dst src) = token dst /\
  payload (clone_limited dst src) = payload dst /\ get_token_length (hdr (clone_limited dst src)) = get_token_length (hdr dst).
Proof.
  unfold clone_limited, set_opts, set_code, set_hdr, set_type, set_version, get_token_length.
  cbn [hdr mid token payload vtt code]. repeat split. lia.
Qed.

Theorem serve_cached_spec req b2 cached rp : response req = Some rp -> b_num b2 < 65536 ->
  let body := payload cached in
  let sz := block_size b2 in
  let off := b_num b2 * sz in
  (off < len body \/ (body = [] /\ b_num b2 = 0)) ->
  exists v, block_encode (mkBlock (b_num b2) (off + sz <? len body) (b_szx b2)) = Ok v /\
    serve_cached req b2 cached =
      (Ok (off + sz <? len body),
       with_response req (Some (set_option (set_payload (clone_limited rp cached) (take sz (drop off body))) OPT_BLOCK2 [v]))).
Proof.
  intros Hr Hn body sz off Hoff. unfold serve_cached. rewrite Hr. fold body sz off.
  assert (HC : (len body <=? off) && negb ((len body =? 0) && (b_num b2 =? 0)) = false).
  { destruct Hoff as [H|(Hb & Hz)].
    - replace (len body <=? off) with false by lia. reflexivity.
    - rewrite Hb, Hz. change (len (@nil N) =? 0) with true. change (0 =? 0) with true. cbn [andb negb]. apply andb_false_r. }
  rewrite HC.
  destruct (block_encode_ok (mkBlock (b_num b2) (off + sz <? len body) (b_szx b2)) Hn) as (v & E).
  exists v. split; [exact E|]. rewrite E. reflexivity.
Qed.

(* the response keeps the message id and token it had: those of the request being answered *)
Theorem served_block_correlated req b2 cached rp hm req' : response req = Some rp ->
  serve_cached req b2 cached = (Ok hm, req') ->
  exists r', response req' = Some r' /\ mid (hdr r') = mid (hdr rp) /\ token r' = token rp /\ message req' = message req.
Proof.
  intros Hr. unfold serve_cached. rewrite Hr. destruct (_ && _); [discriminate|].
  destruct (block_encode _) as [v|e|s0]; try discriminate. intros [= <- <-].
  eexists. split; [reflexivity|]. destruct (clone_limited_correlation rp cached) as (A & B & _).
  unfold set_option, set_payload, set_opts. cbn [hdr token]. auto.
Qed.

(* follow-up blocks are served from the cache without consulting the application, and the cache entry is
   released exactly when the final block has been served *)
Theorem followup_from_cache req st b2 c rp : first_block OPT_BLOCK2 (message req) = Some b2 -> cached_resp st = Some c ->
  response req = Some rp -> (b_num b2 * block_size b2 < len (payload c) \/ (payload c = [] /\ b_num b2 = 0)) ->
  exists req', handle_block2 req st = (Ok true, req', mkBState (Some b2) (if b_num b2 * block_size b2 + block_size b2 <? len (payload c) then Some c else None) (cached_payload st)).
Proof.
  intros E1 E2 Hr Hoff. unfold handle_block2. rewrite E1, E2.
  destruct (serve_cached_spec req b2 c rp Hr (first_block_num _ _ _ E1) Hoff) as (v & _ & ->).
  unfold st_b2, st_resp. cbn [last_b2 cached_resp cached_payload]. rewrite E2.
  destruct (_ <? _); eexists; reflexivity.
Qed.

(* ---------- C09: what the handler answers to upload blocks ---------- *)
Theorem upload_block_answer req M st sz b1 r1 buf' rp : message_size_hack (message req) = Ok sz ->
  first_block OPT_BLOCK1 (message req) = Some b1 ->
  negotiate (Some b1) sz (len (payload (message req))) M = Ok (Some r1) ->
  extending_splice (match cached_payload st with Some b => b | None => [] end) (b_num b1 * block_size b1)
                   (b_num b1 * block_size b1 + block_size b1) (payload (message req)) = Some buf' ->
  response req = Some rp ->
  handle_block1 req M st =
    if b_more b1
    then (Ok true, with_response req (Some (set_code (add_block_opt OPT_BLOCK1 r1 rp) (Response Continue))), st_buf st (Some buf'))
    else (Ok false,
          with_response (with_message req (set_payload (message req) (take (b_num b1 * block_size b1 + len (payload (message req))) buf')))
                        (Some (add_block_opt OPT_BLOCK1 r1 rp)),
          st_buf st None).
Proof.
  intros E1 E2 E3 E4 E5. unfold handle_block1. rewrite E1, E2, E3, E4, E5. destruct (b_more b1); reflexivity.
Qed.

(* too large for the budget and no Block1 option: 4.13 with a size hint, the application is not consulted *)
Theorem too_large_answer req M st sz r1 rp : message_size_hack (message req) = Ok sz ->
  first_block OPT_BLOCK1 (message req) = None ->
  negotiate None sz (len (payload (message req))) M = Ok (Some r1) -> response req = Some rp ->
  handle_block1 req M st =
    (Ok true, with_response req (Some (set_code (add_block_opt OPT_BLOCK1 r1 rp) (Response RequestEntityTooLarge))), st)
  /\ b_num r1 = 0 /\ b_more r1 = true.
Proof.
  intros E1 E2 E3 E5. split; [unfold handle_block1; rewrite E1, E2, E3, E5; reflexivity|].
  unfold negotiate in E3. destruct (M <? _); [discriminate|]. destruct (_ <? _); [discriminate|].
  destruct (block_new 0 true _) as [bb|e|s0] eqn:EB; try discriminate. injection E3 as <-.
  unfold block_new in EB. destruct (largest_power_of_2_not_in_excess _); [|discriminate].
  destruct (7 <? _); [discriminate|]. destruct (0 <? U16); [|discriminate]. injection EB as <-. auto.
Qed.

(* PDec.v -- the index-based decoder model refines the reference (suffix) decoder of the
   specification: same verdict, same fields, and no read outside the buffer (C03, C01, C02). *)
From CoapV Require Import proofs.Tac Header Packet WireSpec Encode Decode PacketOps proofs.PWire proofs.PEnc.

Definition sk (i : N) (buf : bytes) : bytes := drop i buf.

Lemma len_sk i (buf : bytes) : len (sk i buf) = len buf - i.
Proof. apply len_drop. Qed.

Lemma sk_cons i (buf : bytes) : i < len buf ->
  exists b, get buf i = Ok b /\ sk i buf = b :: sk (i + 1) buf.
Proof.
  unfold sk, drop, get, len. intros H.
  destruct (nth_error buf (N.to_nat i)) as [b|] eqn:E.
  - exists b. split; [reflexivity|]. replace (N.to_nat (i + 1)) with (S (N.to_nat i)) by lia.
    clear H. revert buf E. generalize (N.to_nat i) as n. induction n as [|n IH]; intros [|x buf] E; cbn in *; try discriminate.
    + injection E as ->. reflexivity.
    + apply IH. exact E.
  - apply nth_error_None in E. lia.
Qed.

Lemma sk_nil i (buf : bytes) : len buf <= i -> sk i buf = [].
Proof.
  intros H. pose proof (len_sk i buf). destruct (sk i buf); [reflexivity|]. rewrite len_cons in *. lia.
Qed.

Lemma ext_at_refines buf nib idx e15 : idx <= len buf ->
  match ref_ext nib (sk idx buf) with
  | Some (x, r) => exists i', ext_at buf nib idx e15 = Ok (x, i') /\ sk i' buf = r /\ i' <= len buf /\ idx <= i'
  | None => exists e, ext_at buf nib idx e15 = Err e
  end.
Proof.
  intros Hi. unfold ref_ext, ext_at.
  destruct (nib <? 13) eqn:E1; [exists idx; repeat split; auto; lia|].
  destruct (nib =? 13) eqn:E2.
  - destruct (len buf <=? idx) eqn:E3.
    + rewrite sk_nil by lia. eauto.
    + destruct (sk_cons idx buf ltac:(lia)) as (b & -> & ->). cbn [bind]. exists (idx + 1). repeat split; auto; lia.
  - destruct (nib =? 14) eqn:E4.
    + destruct (len buf <=? idx + 1) eqn:E3.
      * destruct (idx <? len buf) eqn:E5.
        -- destruct (sk_cons idx buf ltac:(lia)) as (b1 & _ & ->). rewrite (sk_nil (idx + 1)) by lia. eauto.
        -- rewrite sk_nil by lia. eauto.
      * destruct (sk_cons idx buf ltac:(lia)) as (b1 & -> & ->).
        destruct (sk_cons (idx + 1) buf ltac:(lia)) as (b2 & -> & ->). cbn [bind].
        exists (idx + 2). replace (idx + 1 + 1) with (idx + 2) by lia. repeat split; auto; lia.
    + eauto.
Qed.

Lemma skipn_add {A} (l : list A) : forall m n, skipn n (skipn m l) = skipn (m + n) l.
Proof.
  induction l as [|x l IH]; intros m n; [rewrite !skipn_nil; reflexivity|].
  destruct m as [|m]; [reflexivity|]. cbn [skipn Nat.add]. apply IH.
Qed.

Lemma slice_refines (buf : bytes) i n : i + n <= len buf ->
  slice buf i (i + n) = Ok (take n (sk i buf)) /\ sk (i + n) buf = drop n (sk i buf).
Proof.
  intros H. unfold slice, sk. replace ((i <=? i + n) && (i + n <=? len buf)) with true by lia.
  replace (i + n - i) with n by lia. split; [reflexivity|].
  unfold drop. rewrite skipn_add. f_equal. lia.
Qed.

Definition push_all (m : optmap) (l : list (N * bytes)) : optmap :=
  fold_left (fun m kv => opt_push m (fst kv) (snd kv)) l m.

(* non-accumulating form of the reference option decoder *)
Fixpoint sopts (fuel : nat) (bs : bytes) (num : N) : option (list (N * bytes) * bytes) :=
  match fuel with
  | O => None
  | S f =>
    match bs with
    | [] => Some ([], [])
    | b :: rest =>
      if b =? 255 then Some ([], bs)
      else match ref_one num b rest with
           | None => None
           | Some (n, v, r) =>
             match sopts f r n with
             | Some (l, t) => Some ((n, v) :: l, t)
             | None => None
             end
           end
    end
  end.

Lemma ref_opts_sopts fuel : forall bs num acc,
  ref_opts fuel bs num acc =
  match sopts fuel bs num with Some (l, t) => Some (rev acc ++ l, t) | None => None end.
Proof.
  induction fuel as [|f IH]; intros bs num acc; cbn [ref_opts sopts]; [reflexivity|].
  destruct bs as [|b rest]; [rewrite app_nil_r; reflexivity|].
  destruct (b =? 255); [rewrite app_nil_r; reflexivity|].
  destruct (ref_one num b rest) as [[[n v] r]|]; [|reflexivity].
  rewrite IH. destruct (sopts f r n) as [[l t]|]; [|reflexivity].
  cbn [rev]. rewrite <- app_assoc. reflexivity.
Qed.

(* the option loop: same verdict as the reference decoder, options pushed in wire order *)
Theorem dec_loop_refines fuel : forall buf idx num m,
  idx <= len buf -> (length (sk idx buf) < fuel)%nat ->
  match sopts fuel (sk idx buf) num with
  | Some (l, tail) => dec_loop fuel buf idx num m = Ok (push_all m l, len buf - len tail)
  | None => exists e, dec_loop fuel buf idx num m = Err e
  end.
Proof.
  induction fuel as [|f IH]; intros buf idx num m Hi Hf; [lia|].
  cbn [dec_loop sopts].
  destruct (idx <? len buf) eqn:E.
  - destruct (sk_cons idx buf ltac:(lia)) as (b & Hg & Hs). rewrite Hg, Hs. cbn [bind].
    destruct (b =? 255) eqn:Eb.
    + rewrite <- Hs. rewrite len_sk. cbn [push_all fold_left]. do 2 f_equal. lia.
    + unfold ref_one.
      pose proof (ext_at_refines buf (b / 16) (idx + 1) ERR_OPTION_DELTA ltac:(lia)) as R1.
      destruct (ref_ext (b / 16) (sk (idx + 1) buf)) as [[delta r1]|].
      2:{ destruct R1 as (e & ->). cbn [bind]. eauto. }
      destruct R1 as (i1 & -> & <- & Hi1 & Hle1). cbn [bind].
      pose proof (ext_at_refines buf (b mod 16) i1 ERR_OPTION_LENGTH Hi1) as R2.
      destruct (ref_ext (b mod 16) (sk i1 buf)) as [[vlen r2]|].
      2:{ destruct R2 as (e & ->). cbn [bind]. eauto. }
      destruct R2 as (i2 & -> & <- & Hi2 & Hle2). cbn [bind].
      destruct (65535 <? num + delta) eqn:Eo; [eauto|].
      unfold split_at. rewrite len_sk.
      destruct (len buf <? i2 + vlen) eqn:El.
      * replace (vlen <=? len buf - i2) with false by lia. eauto.
      * replace (vlen <=? len buf - i2) with true by lia.
        destruct (slice_refines buf i2 vlen ltac:(lia)) as (-> & <-). cbn [bind].
        specialize (IH buf (i2 + vlen) (num + delta) (opt_push m (num + delta) (take vlen (sk i2 buf)))).
        assert (Hlt : (length (sk (i2 + vlen) buf) < f)%nat).
        { pose proof (len_sk (i2 + vlen) buf). pose proof (len_sk idx buf). unfold len in *. lia. }
        specialize (IH ltac:(lia) Hlt).
        destruct (sopts f (sk (i2 + vlen) buf) (num + delta)) as [[l tail]|]; [|exact IH].
        rewrite IH. reflexivity.
  - rewrite sk_nil by lia. cbn [push_all fold_left]. do 2 f_equal. rewrite len_nil. lia.
Qed.

(* ---------- the option map built by the loop ---------- *)
Lemma opt_add_cons k' vs r k v :
  opt_add ((k', vs) :: r) k v =
  if k' =? k then (k', vs ++ [v]) :: r
  else if k <? k' then (k, [v]) :: (k', vs) :: r
  else (k', vs) :: opt_add r k v.
Proof.
  unfold opt_add. cbn [opt_get].
  destruct (k' =? k) eqn:E1.
  - cbn [opt_insert]. replace (k =? k') with true by lia. f_equal. f_equal. lia.
  - destruct (k <? k') eqn:E2.
    + cbn [opt_insert]. replace (k =? k') with false by lia. rewrite E2. reflexivity.
    + destruct (opt_get r k); cbn [opt_insert]; replace (k =? k') with false by lia; rewrite E2; reflexivity.
Qed.

Definition kmax (m : optmap) (k : N) : Prop := Forall (fun kv => fst kv <= k) m.
Definition vwf (v : bytes) : Prop := len v <= MAX_EXT /\ bytes_wf v.

Lemma flatten_cons k vs r : flatten ((k, vs) :: r) = map (fun v => (k, v)) vs ++ flatten r.
Proof. reflexivity. Qed.

Lemma opt_add_end m : forall lo k v,
  keys_above lo m -> kmax m k -> lo <= k -> k < 65536 -> vwf v ->
  keys_above lo (opt_add m k v) /\ kmax (opt_add m k v) k /\ flatten (opt_add m k v) = flatten m ++ [(k, v)].
Proof.
  induction m as [|[k' vs] r IH]; intros lo k v Hka Hkm Hlo Hk Hv.
  - unfold opt_add. cbn [opt_get opt_insert keys_above]. repeat split; auto; try lia.
    repeat constructor. cbn. lia.
  - cbn [keys_above] in Hka. destruct Hka as (H1 & H2 & H3 & H4).
    inversion Hkm as [|? ? Hk' Hkm']; subst. cbn [fst] in Hk'.
    rewrite opt_add_cons.
    destruct (k' =? k) eqn:E1.
    + assert (k' = k) by lia. subst k'.
      assert (r = []) as ->.
      { destruct r as [|[k2 vs2] r2]; [reflexivity|]. cbn [keys_above] in H4.
        inversion Hkm' as [|? ? Hk2 _]; subst. cbn [fst] in Hk2. lia. }
      cbn [keys_above]. repeat split; auto.
      * apply Forall_app. split; [assumption|]. constructor; [exact Hv|constructor].
      * constructor; [cbn; lia|constructor].
      * rewrite !flatten_cons. cbn [flatten flat_map]. rewrite !app_nil_r, map_app. reflexivity.
    + replace (k <? k') with false by lia.
      destruct (IH (k' + 1) k v H4 Hkm' ltac:(lia) Hk Hv) as (I1 & I2 & I3).
      cbn [keys_above]. repeat split; auto.
      * constructor; [cbn; lia|exact I2].
      * rewrite !flatten_cons, I3, app_assoc. reflexivity.
Qed.

Lemma push_all_spec l : forall m prev,
  keys_above 0 m -> kmax m prev -> ascending prev l ->
  keys_above 0 (push_all m l) /\ flatten (push_all m l) = flatten m ++ l.
Proof.
  induction l as [|[n v] l IH]; intros m prev Hka Hkm Hasc.
  - cbn [push_all fold_left]. rewrite app_nil_r. auto.
  - change (push_all m ((n, v) :: l)) with (push_all (opt_add m n v) l).
    cbn [ascending] in Hasc. destruct Hasc as (Hp & Hn & Hv & Hw & Hasc). cbn [fst snd].
    assert (Hkm' : kmax m n). { eapply Forall_impl; [|exact Hkm]. cbn. intros; lia. }
    destruct (opt_add_end m 0 n v Hka Hkm' ltac:(lia) Hn (conj Hv Hw)) as (A1 & A2 & A3).
    destruct (IH (opt_add m n v) n A1 A2 Hasc) as (B1 & B2).
    split; [exact B1|]. rewrite B2, A3, <- app_assoc. reflexivity.
Qed.

(* ---------- fuel independence and suffix facts of the reference decoder ---------- *)
Lemma ref_ext_suffix nib bs x r : ref_ext nib bs = Some (x, r) -> exists pre, bs = pre ++ r.
Proof.
  unfold ref_ext. destruct (nib <? 13); [intros [= <- <-]; exists []; reflexivity|].
  destruct (nib =? 13); [destruct bs as [|b bs]; [discriminate|]; intros [= <- <-]; exists [b]; reflexivity|].
  destruct (nib =? 14); [|discriminate].
  destruct bs as [|b1 [|b2 bs]]; try discriminate. intros [= <- <-]. exists [b1; b2]. reflexivity.
Qed.

Lemma ref_one_suffix num b rest n v r : ref_one num b rest = Some (n, v, r) -> exists pre, rest = pre ++ r.
Proof.
  unfold ref_one.
  destruct (ref_ext (b / 16) rest) as [[delta r1]|] eqn:D1; [|discriminate].
  destruct (ref_ext (b mod 16) r1) as [[length r2]|] eqn:D2; [|discriminate].
  destruct (65535 <? num + delta); [discriminate|].
  destruct (split_at length r2) as [[v' r3]|] eqn:S; [|discriminate]. intros [= <- <- <-].
  apply ref_ext_suffix in D1, D2. apply split_at_inv in S.
  destruct D1 as (p1 & ->), D2 as (p2 & ->), S as (-> & _).
  exists (p1 ++ p2 ++ v'). rewrite <- !app_assoc. reflexivity.
Qed.

Lemma sopts_fuel f1 : forall f2 bs num, (length bs < f1)%nat -> (length bs < f2)%nat ->
  sopts f1 bs num = sopts f2 bs num.
Proof.
  induction f1 as [|f1 IH]; intros f2 bs num H1 H2; [lia|].
  destruct f2 as [|f2]; [lia|]. cbn [sopts].
  destruct bs as [|b rest]; [reflexivity|]. destruct (b =? 255); [reflexivity|].
  destruct (ref_one num b rest) as [[[n v] r]|] eqn:E; [|reflexivity].
  apply ref_one_suffix in E. destruct E as (pre & ->).
  cbn [length] in *. rewrite app_length in *.
  rewrite (IH f2) by lia. reflexivity.
Qed.

Lemma sopts_suffix f : forall bs num l tail, sopts f bs num = Some (l, tail) -> exists pre, bs = pre ++ tail.
Proof.
  induction f as [|f IH]; intros bs num l tail; cbn [sopts]; [discriminate|].
  destruct bs as [|b rest]; [intros [= <- <-]; exists []; reflexivity|].
  destruct (b =? 255); [intros [= <- <-]; exists []; reflexivity|].
  destruct (ref_one num b rest) as [[[n v] r]|] eqn:E; [|discriminate].
  destruct (sopts f r n) as [[l' t']|] eqn:ES; [|discriminate]. intros [= <- <-].
  apply ref_one_suffix in E. destruct E as (pre & ->).
  apply IH in ES. destruct ES as (pre2 & ->).
  exists (b :: pre ++ pre2). cbn [app]. rewrite <- app_assoc. reflexivity.
Qed.

(* ---------- from_bytes against the reference parser ---------- *)
From CoapV Require Import Suite01.

Lemma sk_app_tail (pre tail : bytes) : sk (len (pre ++ tail) - len tail) (pre ++ tail) = tail.
Proof. unfold sk. rewrite len_app. replace (len pre + len tail - len tail) with (len pre) by lia. apply drop_app_len. Qed.

Lemma forall_wf_drop n (l : bytes) : bytes_wf l -> bytes_wf (drop n l).
Proof. intros H. rewrite <- (take_drop n l) in H. apply bytes_wf_app in H. tauto. Qed.
Lemma forall_wf_take n (l : bytes) : bytes_wf l -> bytes_wf (take n l).
Proof. intros H. rewrite <- (take_drop n l) in H. apply bytes_wf_app in H. tauto. Qed.

Definition decoded (bs : bytes) (p : packet) (m : amsg) : Prop :=
  view p = m /\ pkt_wf p.

Definition strict (pol : policy) : bool := rej_version pol || rej_empty_content pol || rej_empty_payload pol.

Theorem from_bytes_ref pol bs : bytes_wf bs ->
  match ref_parse bs with
  | MustAccept m => exists p, from_bytes pol bs = Ok p /\ view p = m /\ pkt_wf p
  | Either m => (exists p, from_bytes pol bs = Ok p /\ view p = m /\ pkt_wf p)
                \/ (strict pol = true /\ exists e, from_bytes pol bs = Err e)
  | MustReject => exists e, from_bytes pol bs = Err e
  end.
Proof.
  intros Hwf. unfold ref_parse, from_bytes.
  destruct bs as [|b0 [|c [|m1 [|m2 r]]]]; try (eexists; reflexivity).
  set (buf := b0 :: c :: m1 :: m2 :: r).
  assert (Hlen : len buf = 4 + len r) by (unfold buf; rewrite !len_cons; lia).
  replace (len buf <? 4) with false by lia.
  change (get buf 0) with (Ok b0). change (get buf 1) with (Ok c).
  change (get buf 2) with (Ok m1). change (get buf 3) with (Ok m2). cbn [bind].
  unfold get_token_length, get_version. cbn [vtt].
  apply bytes_wf_cons in Hwf. destruct Hwf as (Hb0 & Hwf).
  apply bytes_wf_cons in Hwf. destruct Hwf as (Hc & Hwf).
  apply bytes_wf_cons in Hwf. destruct Hwf as (Hm1 & Hwf).
  apply bytes_wf_cons in Hwf. destruct Hwf as (Hm2 & Hwr).
  set (tkl := b0 mod 16).
  destruct (8 <? tkl) eqn:Etk.
  { destruct (rej_version pol && negb (b0 / 64 =? 1)); eauto. }
  unfold split_at.
  destruct (tkl <=? len r) eqn:Etl.
  2:{ replace (len buf <? 4 + tkl) with true by lia.
      destruct (rej_version pol && negb (b0 / 64 =? 1)); eauto. }
  replace (len buf <? 4 + tkl) with false by lia.
  assert (Hsk4 : sk 4 buf = r) by reflexivity.
  destruct (slice_refines buf 4 tkl ltac:(lia)) as (Hsl & Hsk). rewrite Hsl, Hsk4 in *. cbn [bind].
  set (tok := take tkl r) in *. set (r1 := drop tkl r) in *.
  rewrite ref_opts_sopts.
  pose proof (dec_loop_refines (S (length buf)) buf (4 + tkl) 0 [] ltac:(lia)) as R.
  rewrite Hsk in R. specialize (R ltac:(unfold r1, drop; rewrite skipn_length; unfold buf; cbn [length]; lia)).
  rewrite (sopts_fuel (S (length buf)) (S (length r1))) in R.
  2:{ unfold r1, drop. rewrite skipn_length. unfold buf. cbn [length]. lia. }
  2:{ lia. }
  destruct (sopts (S (length r1)) r1 0) as [[os tail]|] eqn:ES.
  2:{ destruct R as (e & ->). cbn [bind].
      destruct (rej_version pol && negb (b0 / 64 =? 1)); [eauto|].
      destruct (rej_empty_content pol && (c =? 0) && negb (len buf =? 4)); eauto. }
  rewrite R. cbn [bind app rev].
  (* facts about the parse *)
  pose proof ES as ES'. rewrite <- (app_nil_l os) in ES'.
  assert (HRO : ref_opts (S (length r1)) r1 0 [] = Some (os, tail)) by (rewrite ref_opts_sopts, ES; reflexivity).
  apply ref_opts_inv in HRO; [|apply forall_wf_drop; exact Hwr].
  destruct HRO as (l & Hl & Hr1 & Hasc & Htail & Hwt). cbn [rev app] in Hl. subst l.
  destruct (push_all_spec os [] 0 I (Forall_nil _) Hasc) as (Hka & Hfl). cbn [flatten flat_map app] in Hfl.
  assert (Hbuf : buf = (b0 :: c :: m1 :: m2 :: tok ++ wire_opts 0 os) ++ tail).
  { unfold buf. cbn [app]. do 4 f_equal. rewrite <- app_assoc, <- Hr1. symmetry. apply take_drop. }
  set (idx := len buf - len tail).
  assert (Hskt : sk idx buf = tail) by (unfold idx; rewrite Hbuf; apply sk_app_tail).
  assert (Hidx : idx <= len buf) by (unfold idx; lia).
  assert (Hidx2 : idx + len tail = len buf) by (unfold idx; rewrite Hbuf, len_app; lia).
  (* payload *)
  set (plr := if idx <? len buf then slice buf (idx + 1) (len buf) else Ok []).
  assert (Hpl : plr = Ok (match tail with [] => [] | _ :: p => p end)).
  { unfold plr. destruct Htail as [->|(t & ->)].
    - rewrite len_nil in Hidx2. replace (idx <? len buf) with false by lia. reflexivity.
    - rewrite len_cons in Hidx2. replace (idx <? len buf) with true by lia.
      destruct (slice_refines buf (idx + 1) (len t) ltac:(lia)) as (S1 & _).
      replace (idx + 1 + len t) with (len buf) in S1 by lia. rewrite S1. f_equal.
      destruct (sk_cons idx buf ltac:(lia)) as (b & _ & Hc2). rewrite Hskt in Hc2. injection Hc2 as _ <-.
      unfold take, len. rewrite Nat2N.id. apply firstn_all. }
  set (pl := match tail with [] => [] | _ :: p => p end) in *.
  assert (Hplw : bytes_wf pl).
  { unfold pl. destruct tail; [constructor|]. apply bytes_wf_cons in Hwt. tauto. }
  assert (Htokl : len tok = tkl) by (apply len_take; lia).
  set (p := mkPacket (mkHeader b0 (class_of_byte c) (m1 * 256 + m2)) tok (push_all [] os) pl).
  assert (Hview : view p = mkAmsg (b0 / 64) ((b0 / 16) mod 4) tok c (m1 * 256 + m2) os pl).
  { unfold view, p. cbn [hdr vtt code mid token opts payload]. rewrite class_byte_wf by lia. rewrite Hfl. reflexivity. }
  assert (Hpwf : pkt_wf p).
  { unfold pkt_wf, p. cbn [hdr vtt code mid token opts payload]. rewrite class_byte_wf by lia.
    repeat split; auto; try lia. apply forall_wf_take. exact Hwr. }
  assert (Hsingle : (match tail with [_] => true | _ => false end) = (idx <? len buf) && (match pl with [] => true | _ => false end)).
  { unfold pl. destruct Htail as [->|(t & ->)].
    - rewrite len_nil in Hidx2. replace (idx <? len buf) with false by lia. reflexivity.
    - rewrite len_cons in Hidx2. replace (idx <? len buf) with true by lia. destruct t; reflexivity. }
  fold idx. fold plr. rewrite Hpl. cbn [bind]. fold p.
  rewrite Hsingle.
  replace (len (b0 :: c :: m1 :: m2 :: r)) with (len buf) by reflexivity.
  set (B2 := match pl with [] => true | _ :: _ => false end).
  unfold strict.
  destruct (b0 / 64 =? 1), (idx <? len buf), B2, (c =? 0), (len buf =? 4), (rej_version pol), (rej_empty_content pol), (rej_empty_payload pol);
    cbn [negb orb andb].
  all: first [solve [exists p; auto] | solve [left; exists p; auto]
          | solve [right; split; [reflexivity|eexists; reflexivity]] | solve [eexists; reflexivity]].
Qed.

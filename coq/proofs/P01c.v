(* P01c.v -- the codec models pass the codec oracles on every input (suites 40, 20, 30, 10): whatever the
   implementation is compared with has itself been proved to satisfy the run-time oracle. *)
From CoapV Require Import proofs.Tac Header Packet WireSpec Encode Decode PacketOps Suite01
  proofs.PWire proofs.PEnc proofs.PDec proofs.P01 proofs.P01b.

(* ---------- reading back what the printers wrote ---------- *)
Lemma take_len_app {A} (a b : list A) : take (len a) (a ++ b) = a.
Proof. unfold take, len. rewrite Nat2N.id, firstn_app, Nat.sub_diag, firstn_all. cbn. apply app_nil_r. Qed.
Lemma drop_len_app {A} (a b : list A) : drop (len a) (a ++ b) = b.
Proof. unfold drop, len. rewrite Nat2N.id, skipn_app, Nat.sub_diag, skipn_all. reflexivity. Qed.

Lemma rd_bytes_wr b r : rd_bytes (wr_bytes b ++ r) = Some (b, r).
Proof.
  unfold rd_bytes, wr_bytes. cbn [app]. replace (len b <=? len (b ++ r)) with true by (rewrite len_app; lia).
  rewrite take_len_app, drop_len_app. reflexivity.
Qed.

Lemma rd_res_wr_bytes (o : outcome bytes) :
  rd_res rd_bytes (wr_res wr_bytes o) = Some (match o with Ok b => ROk b | Err _ => RErr | Panic _ => RPanic end, []).
Proof.
  destruct o as [b|e|s]; cbn [wr_res rd_res]; [|reflexivity|reflexivity].
  rewrite <- (app_nil_r (wr_bytes b)), rd_bytes_wr. reflexivity.
Qed.

(* ---------- suite 40 ---------- *)
(* option maps with ascending distinct keys below 65536 and byte values (lengths unconstrained) *)
Fixpoint keys_sorted (lo : N) (m : optmap) : Prop :=
  match m with
  | [] => True
  | (k, vs) :: r => lo <= k /\ k < 65536 /\ Forall (fun v => bytes_wf v) vs /\ keys_sorted (k + 1) r
  end.

Definition state_ok (p : packet) : Prop :=
  len (token p) <= 8 /\ bytes_wf (token p) /\ class_to_byte (code (hdr p)) < 256 /\ keys_sorted 0 (opts p) /\ bytes_wf (payload p).

Lemma keys_sorted_above m : forall lo, keys_sorted lo m ->
  existsb (fun kv => MAX_EXT <? len (snd kv)) (flatten m) = false -> keys_above lo m.
Proof.
  induction m as [|[k vs] r IH]; intros lo; cbn [keys_sorted keys_above]; [auto|].
  intros (H1 & H2 & H3 & H4) Hex. unfold flatten in Hex. cbn [flat_map fst snd] in Hex. fold (flatten r) in Hex.
  rewrite existsb_app in Hex. apply orb_false_iff in Hex. destruct Hex as (E1 & E2).
  repeat split; [exact H1|exact H2| |apply IH; assumption].
  clear - H3 E1. induction vs as [|v vs IHv]; [constructor|]. inversion H3 as [|? ? Hv Hvs]; subst.
  cbn [map existsb snd] in E1. apply orb_false_iff in E1. destruct E1 as (E1 & E1').
  constructor; [split; [unfold MAX_EXT in *; lia|exact Hv]|apply IHv; assumption].
Qed.

Lemma keys_sorted_nums m : forall lo, keys_sorted lo m -> nums_asc lo (flatten m).
Proof.
  induction m as [|[k vs] r IH]; intros lo; cbn [keys_sorted]; [intros _; exact I|].
  intros (H1 & H2 & H3 & H4). unfold flatten. cbn [flat_map fst snd]. fold (flatten r).
  specialize (IH (k + 1) H4). clear H3 H4.
  assert (HW : forall l lo', lo' <= k -> nums_asc (k + 1) l -> nums_asc lo' (map (fun v : bytes => (k, v)) vs ++ l)).
  { induction vs as [|v vs IHv]; intros l lo' Hlo Hl; cbn [map app].
    - destruct l as [|[n w] l]; [exact I|]. cbn [nums_asc] in *. destruct Hl as (Hn & Hl). split; [lia|exact Hl].
    - cbn [nums_asc]. split; [exact Hlo|]. apply IHv; [lia|exact Hl]. }
  apply HW; [exact H1|exact IH].
Qed.

Theorem model_passes_oracle40 s mx lim p : rd_case40 s = Some (mx, lim, p) -> state_ok p -> verdict40 s (run40 s) = true.
Proof.
  intros ERD (Ht8 & Htw & Hc & Hk & Hpw). unfold verdict40, run40. rewrite ERD.
  destruct (pkt_tkl_ok p) eqn:ETK; [|reflexivity]. cbn [negb].
  unfold pkt_tkl_ok in ETK. apply andb_true_iff in ETK. destruct ETK as (ETK & Em). apply andb_true_iff in ETK. destruct ETK as (Ev1 & Ev2).
  rewrite rd_res_wr_bytes.
  destruct (value_too_long p) eqn:EVL.
  - destruct (oversize_refused p lim (keys_sorted_nums _ _ Hk) EVL) as (e & ->). reflexivity.
  - assert (Hwf : pkt_wf p).
    { unfold pkt_wf. repeat split; try assumption; try lia. apply keys_sorted_above; assumption. }
    rewrite (to_bytes_internal_spec p lim Hwf).
    destruct (match lim with Some l => wire_len (abs p) <=? l | None => true end) eqn:EF.
    + cbn [andb]. rewrite bytes_eqb_refl, wire_image_len, N.eqb_refl. reflexivity.
    + reflexivity.
Qed.

(* ---------- reading back a printed packet ---------- *)
Lemma rd_list_fuel_wr {A} (rdA : rd A) (wrA : A -> list N) :
  (forall a r, rdA (wrA a ++ r) = Some (a, r)) ->
  forall l r, rd_list_fuel rdA (length l) (flat_map wrA l ++ r) = Some (l, r).
Proof.
  intros H. induction l as [|a l IH]; intros r; cbn [length rd_list_fuel flat_map]; [reflexivity|].
  rewrite <- app_assoc, H, IH. reflexivity.
Qed.

Lemma rd_list_wr {A} (rdA : rd A) (wrA : A -> list N) :
  (forall a r, rdA (wrA a ++ r) = Some (a, r)) ->
  forall l r, rd_list rdA (wr_list wrA l ++ r) = Some (l, r).
Proof.
  intros H l r. unfold rd_list, wr_list. cbn [app]. unfold len. rewrite Nat2N.id. apply rd_list_fuel_wr. exact H.
Qed.

Lemma rd_optentry_wr kv r : rd_optentry ((fst kv :: wr_list wr_bytes (snd kv)) ++ r) = Some (kv, r).
Proof.
  destruct kv as [k vs]. unfold rd_optentry. cbn [fst snd app rd_n]. rewrite (rd_list_wr rd_bytes wr_bytes rd_bytes_wr). reflexivity.
Qed.

Lemma opt_insert_last acc k vs : Forall (fun kv => fst kv < k) acc -> opt_insert acc k vs = acc ++ [(k, vs)].
Proof.
  induction acc as [|[k' vs'] t IH]; intros H; cbn [opt_insert app]; [reflexivity|]. inversion H as [|? ? Hk Ht]; subst. cbn [fst] in Hk.
  replace (k =? k') with false by lia. replace (k <? k') with false by lia. rewrite IH by exact Ht. reflexivity.
Qed.

Lemma fold_insert_sorted es : forall lo acc, keys_sorted lo es -> Forall (fun kv => fst kv < lo) acc ->
  fold_left (fun m kv => opt_insert m (fst kv) (snd kv)) es acc = acc ++ es.
Proof.
  induction es as [|[k vs] r IH]; intros lo acc Hs Ha; cbn [fold_left]; [rewrite app_nil_r; reflexivity|].
  cbn [keys_sorted] in Hs. destruct Hs as (H1 & H2 & H3 & H4). cbn [fst snd].
  rewrite opt_insert_last by (eapply Forall_impl; [|exact Ha]; cbn; intros; lia).
  rewrite (IH (k + 1)); [rewrite <- app_assoc; reflexivity|exact H4|].
  apply Forall_app. split; [eapply Forall_impl; [|exact Ha]; cbn; intros; lia|constructor; [cbn; lia|constructor]].
Qed.

Lemma class_roundtrip c : class_to_byte c < 256 -> class_dec (class_enc c) = c.
Proof.
  destruct c as [|r|s|n]; [reflexivity|destruct r; reflexivity|destruct s; reflexivity|].
  cbn [class_to_byte class_enc]. intros Hn.
  destruct (mclass_eqb (class_of_byte n) (Reserved n)) eqn:E.
  - unfold class_dec. replace (n <? 256) with true by lia. destruct (class_of_byte n) as [|r|s|m] eqn:EC; try discriminate.
    cbn [mclass_eqb] in E. f_equal. lia.
  - unfold class_dec. replace (512 + n <? 256) with false by lia. replace (512 + n =? 256) with false by lia.
    replace (512 + n =? 257) with false by lia. f_equal. lia.
Qed.

Lemma keys_above_sorted m : forall lo, keys_above lo m -> keys_sorted lo m.
Proof.
  induction m as [|[k vs] r IH]; intros lo; cbn [keys_above keys_sorted]; [auto|]. intros (H1 & H2 & H3 & H4).
  repeat split; [exact H1|exact H2| |apply IH; exact H4]. eapply Forall_impl; [|exact H3]. cbn. tauto.
Qed.

Lemma rd_packet_wr p r : class_to_byte (code (hdr p)) < 256 -> keys_sorted 0 (opts p) -> rd_packet (wr_packet p ++ r) = Some (p, r).
Proof.
  intros Hc Hk. destruct p as [[v c m] tok os pl]. unfold wr_packet, rd_packet. cbn [hdr vtt code mid token opts payload app] in *.
  rewrite <- app_assoc, rd_bytes_wr. unfold wr_optmap. rewrite <- app_assoc.
  rewrite (rd_list_wr rd_optentry (fun kv => fst kv :: wr_list wr_bytes (snd kv)) rd_optentry_wr).
  rewrite rd_bytes_wr. rewrite (fold_insert_sorted os 0 []) by (auto; constructor). cbn [app].
  rewrite class_roundtrip by exact Hc. reflexivity.
Qed.

(* ---------- suites 20 / 30 ---------- *)
Lemma opts_eqb_refl l : opts_eqb l l = true.
Proof. unfold opts_eqb. induction l as [|[n v] l IH]; cbn [list_eqb fst snd]; [reflexivity|]. rewrite N.eqb_refl, bytes_eqb_refl, IH. reflexivity. Qed.
Lemma amsg_eqb_refl a : amsg_eqb a a = true.
Proof. unfold amsg_eqb. rewrite !N.eqb_refl, !bytes_eqb_refl, opts_eqb_refl. reflexivity. Qed.

Lemma from_bytes_ok pol bs p : bytes_wf bs -> from_bytes pol bs = Ok p ->
  pkt_wf p /\ (ref_parse bs = MustAccept (view p) \/ ref_parse bs = Either (view p)).
Proof.
  intros Hw E. pose proof (from_bytes_ref pol bs Hw) as R. destruct (ref_parse bs) as [m|m|].
  - destruct R as (p' & E' & V & W). rewrite E in E'. injection E' as <-. split; [exact W|left; rewrite V; reflexivity].
  - destruct R as [(p' & E' & V & W)|(_ & e & E')]; [|rewrite E in E'; discriminate].
    rewrite E in E'. injection E' as <-. split; [exact W|right; rewrite V; reflexivity].
  - destruct R as (e & E'). rewrite E in E'. discriminate.
Qed.

Lemma rd_out20_run pol bs : bytes_wf bs ->
  rd_out20 (match from_bytes pol bs with
            | Ok p => 0 :: wr_packet p ++ wr_res wr_bytes (to_bytes_unlimited p) | Err _ => [1] | Panic _ => [2] end) =
  Some (match from_bytes pol bs with
        | Ok p => ROk (p, match to_bytes_unlimited p with Ok b => ROk b | Err _ => RErr | Panic _ => RPanic end)
        | Err _ => RErr | Panic _ => RPanic end).
Proof.
  intros Hw. destruct (from_bytes pol bs) as [p|e|s] eqn:E; [|reflexivity|reflexivity].
  destruct (from_bytes_ok pol bs p Hw E) as (Hwf & _). destruct Hwf as (_ & _ & _ & _ & Hc & _ & Hk & _).
  unfold rd_out20. rewrite rd_packet_wr by (auto; apply keys_above_sorted; exact Hk). rewrite rd_res_wr_bytes. reflexivity.
Qed.

Theorem model_passes_oracle20 s pol bs : rd_case20 s = Some (pol, bs) -> bytes_wf bs -> verdict20 s (run20 s) = true.
Proof.
  intros ERD Hw. unfold verdict20, run20. rewrite ERD, (rd_out20_run pol bs Hw).
  destruct (from_bytes pol bs) as [p|e|s0] eqn:E; [|reflexivity|reflexivity].
  destruct (decode_then_encode pol bs p Hw E) as (bs' & E2 & HC). rewrite E2. exact HC.
Qed.

Theorem model_passes_oracle30 s pol bs : rd_case20 s = Some (pol, bs) -> bytes_wf bs -> verdict30 s (run20 s) = true.
Proof.
  intros ERD Hw. unfold verdict30, run20. rewrite ERD, (rd_out20_run pol bs Hw).
  pose proof (from_bytes_ref pol bs Hw) as R. pose proof (from_bytes_total pol bs Hw) as NP.
  destruct (from_bytes pol bs) as [p|e|s0] eqn:E.
  - destruct (from_bytes_ok pol bs p Hw E) as (_ & [HR|HR]); rewrite HR; apply amsg_eqb_refl.
  - destruct (ref_parse bs) as [m|m|]; [|reflexivity|reflexivity]. destruct R as (p' & E' & _). discriminate.
  - exfalso. exact (NP s0 eq_refl).
Qed.

(* ---------- suite 10 ---------- *)
Theorem model_passes_oracle10 s ops : rd_case10 s = Some (lenient, ops) -> verdict10 s (run10 s) = true.
Proof.
  intros ERD. unfold verdict10, run10. rewrite ERD.
  destruct (ops_wf ops) eqn:EW; [|reflexivity]. cbn [negb].
  destruct (api_roundtrip ops EW) as (p & bs & p' & E1 & Hwf & E2 & E3 & E4 & E5).
  rewrite E1, E2, E4. cbn [wr_res].
  pose proof (api_denotes_spec ops p EW E1) as HS. rewrite <- HS.
  assert (Hk : keys_sorted 0 (opts p)) by (destruct Hwf as (_ & _ & _ & _ & _ & _ & Hk & _); apply keys_above_sorted; exact Hk).
  assert (Hc : class_to_byte (code (hdr p)) < 256) by (destruct Hwf as (_ & _ & _ & _ & Hc & _); exact Hc).
  rewrite rd_packet_wr by assumption. rewrite rd_bytes_wr.
  destruct (from_bytes_ok lenient bs p') as (Hwf' & _).
  { subst bs. apply wire_image_wf, abs_wf. exact Hwf. }
  { exact E4. }
  assert (Hk' : keys_sorted 0 (opts p')) by (destruct Hwf' as (_ & _ & _ & _ & _ & _ & Hk' & _); apply keys_above_sorted; exact Hk').
  assert (Hc' : class_to_byte (code (hdr p')) < 256) by (destruct Hwf' as (_ & _ & _ & _ & Hc' & _); exact Hc').
  rewrite <- (app_nil_r (wr_packet p')), rd_packet_wr by assumption.
  rewrite E5, amsg_eqb_refl, E3, bytes_eqb_refl. reflexivity.
Qed.

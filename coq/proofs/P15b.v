(* P15b.v -- C14/C15: projected on a pair (endpoint, resource path) the Subject behaves as a small
   four-field automaton: absent, or present with (token, confirmable notifications since the last
   acknowledgement or registration, pending message id). *)
From CoapV Require Import proofs.Tac Header Packet UintOpt Numbers TypedOpt Observe Suite14 proofs.P06 proofs.P14.

Definition pstate := option (list N * N * option N).

Definition find_obs (e : N) (l : list observer) : pstate :=
  match find (fun x => oe x =? e) l with Some x => Some (otok x, unack x, pend x) | None => None end.
Definition proj (s : subject) (e : N) (p : list N) : pstate :=
  match lookup_res p (res s) with Some r => find_obs e (robs r) | None => None end.

(* the automaton of one (endpoint, path) pair *)
Definition pair_step (st : pstate) (o : obs_op) (lim : N) (e : N) (p : list N) : pstate :=
  match o with
  | Register e' p' tok => if (e' =? e) && bytes_eqb p' p then Some (tok, 0, None) else st
  | Deregister e' p' tok =>
    if (e' =? e) && bytes_eqb p' p
    then match st with Some (t, _, _) => if bytes_eqb t tok then None else st | None => None end
    else st
  | Changed p' mid conf =>
    if bytes_eqb p' p
    then match st with
         | Some (t, c, _) => let c' := c + b2n conf in if c' <=? lim then Some (t, c', Some mid) else None
         | None => None end
    else st
  | Ack e' mid =>
    if e' =? e
    then match st with Some (t, c, Some m) => if m =? mid then Some (t, 0, None) else st | _ => st end
    else st
  | SetLimit _ | SetSeq _ _ => st
  end.

Lemma find_reg_same o l : find_obs (oe o) (reg_obs o l) = Some (otok o, unack o, pend o).
Proof.
  unfold find_obs. induction l as [|y t IH]; cbn [reg_obs find]; [rewrite N.eqb_refl; reflexivity|].
  destruct (oe y =? oe o) eqn:E; cbn [find]; [rewrite N.eqb_refl; reflexivity|]. rewrite E. exact IH.
Qed.
Lemma find_reg_other o l e : e <> oe o -> find_obs e (reg_obs o l) = find_obs e l.
Proof.
  intros Hne. unfold find_obs. induction l as [|y t IH]; cbn [reg_obs find].
  - replace (oe o =? e) with false by lia. reflexivity.
  - destruct (oe y =? oe o) eqn:E; cbn [find].
    + replace (oe o =? e) with false by lia. replace (oe y =? e) with false by lia. reflexivity.
    + destruct (oe y =? e); [reflexivity|exact IH].
Qed.

Lemma find_none_notin e l : ~ In e (eps l) -> find (fun x => oe x =? e) l = None.
Proof.
  induction l as [|y t IH]; cbn [eps map In find]; [reflexivity|]. intros H.
  replace (oe y =? e) with false by (symmetry; apply N.eqb_neq; tauto). apply IH. tauto.
Qed.

Lemma find_dereg e' tok l e : NoDup (eps l) ->
  find_obs e (dereg_obs e' tok l) =
  if e' =? e then match find_obs e l with Some (t, c, m) => if bytes_eqb t tok then None else Some (t, c, m) | None => None end
  else find_obs e l.
Proof.
  unfold find_obs. induction l as [|y t IH]; intros Hnd; [destruct (e' =? e); reflexivity|].
  inversion Hnd as [|? ? Hn Ht]; subst. cbn [dereg_obs].
  destruct ((oe y =? e') && bytes_eqb (otok y) tok) eqn:E.
  - apply andb_true_iff in E. destruct E as (E1 & E2). assert (oe y = e') by lia. subst e'.
    cbn [find]. destruct (oe y =? e) eqn:E3.
    + assert (oe y = e) by lia. subst e. rewrite E2. rewrite (find_none_notin (oe y) t Hn). reflexivity.
    + reflexivity.
  - cbn [find]. destruct (oe y =? e) eqn:E3.
    + assert (oe y = e) by lia. subst e. destruct (e' =? oe y) eqn:E4; [|reflexivity].
      replace (oe y =? e') with true in E by lia. cbn [andb] in E. rewrite E. reflexivity.
    + exact (IH Ht).
Qed.

Lemma find_ack e' mid l e : NoDup (eps l) ->
  find_obs e (ack_obs e' mid l) =
  if e' =? e then match find_obs e l with Some (t, c, Some m) => if m =? mid then Some (t, 0, None) else Some (t, c, Some m) | x => x end
  else find_obs e l.
Proof.
  intros Hnd. rewrite (ack_obs_spec e' mid l Hnd). unfold find_obs. clear Hnd.
  induction l as [|y t IH]; [destruct (e' =? e); reflexivity|]. cbn [map find].
  assert (HO : oe (if ack_match e' mid y then mkObs (oe y) (otok y) 0 None else y) = oe y) by (destruct (ack_match e' mid y); reflexivity).
  rewrite HO. destruct (oe y =? e) eqn:E3; [|exact IH].
  assert (oe y = e) by lia. subst e. unfold ack_match. destruct (e' =? oe y) eqn:E4.
  - replace (oe y =? e') with true by lia. destruct (pend y) as [m|] eqn:EP; [|rewrite EP; reflexivity]. cbn [andb].
    destruct (m =? mid); cbn [otok unack pend]; rewrite ?EP; reflexivity.
  - replace (oe y =? e') with false by lia. destruct (pend y) as [m|] eqn:EP; cbn [andb]; rewrite EP; reflexivity.
Qed.

Lemma find_filter_none e (g : observer -> bool) (f : observer -> observer) l : (forall x, oe (f x) = oe x) -> ~ In e (eps l) ->
  find (fun x => oe x =? e) (filter g (map f l)) = None.
Proof.
  intros Hf. induction l as [|y t IH]; cbn [eps map In filter]; [reflexivity|]. intros H.
  destruct (g (f y)); [|apply IH; tauto]. cbn [find]. rewrite Hf.
  replace (oe y =? e) with false by (symmetry; apply N.eqb_neq; tauto). apply IH. tauto.
Qed.

Lemma find_round lim mid conf l e : NoDup (eps l) ->
  find_obs e (filter (fun x => unack x <=? lim) (map (bump mid conf) l)) =
  match find_obs e l with
  | Some (t, c, _) => if c + b2n conf <=? lim then Some (t, c + b2n conf, Some mid) else None
  | None => None
  end.
Proof.
  unfold find_obs. induction l as [|y t IH]; intros Hnd; [reflexivity|]. inversion Hnd as [|? ? Hn Ht]; subst.
  cbn [map filter find]. destruct (oe y =? e) eqn:E3.
  - assert (oe y = e) by lia. subst e.
    assert (HU : unack (bump mid conf y) = unack y + b2n conf) by (unfold bump; destruct conf; cbn; lia).
    rewrite HU. destruct (unack y + b2n conf <=? lim) eqn:EL.
    + cbn [find]. unfold bump at 1. cbn [oe]. rewrite N.eqb_refl. unfold bump. cbn [otok unack pend]. destruct conf; cbn [b2n]; f_equal; f_equal; f_equal; lia.
    + rewrite (find_filter_none (oe y) _ (bump mid conf) t (fun x => eq_refl) Hn). reflexivity.
  - destruct (unack (bump mid conf y) <=? lim); [cbn [find]; unfold bump at 1; cbn [oe]; rewrite E3|]; exact (IH Ht).
Qed.

(* ---------- the projection theorem ---------- *)
Lemma inv_lookup s p r : Inv s -> lookup_res p (res s) = Some r -> NoDup (eps (robs r)).
Proof. intros HI E. destruct (lookup_in _ _ _ E) as (q & Hq). eapply HI. exact Hq. Qed.

Lemma bytes_eqb_false a b : a <> b -> bytes_eqb a b = false.
Proof. intros H. destruct (bytes_eqb a b) eqn:E; [apply bytes_eqb_true in E; contradiction|reflexivity]. Qed.

Theorem projection s o s' e p : Inv s -> step s o = Ok s' ->
  proj s' e p = pair_step (proj s e p) o (limit s) e p.
Proof.
  intros HI E. destruct o as [e' p' tok|e' p' tok|p' mid conf|e' mid|l|p' sq]; cbn [pair_step].
  - destruct (register_spec s e' p' tok) as (s1 & E1 & L1 & L2 & _). rewrite E in E1. injection E1 as <-.
    unfold proj. destruct (bytes_eqb p' p) eqn:EP.
    + apply bytes_eqb_true in EP. subst p'. rewrite L1. destruct (e' =? e) eqn:EE; cbn [andb].
      * assert (e' = e) by lia. subst e'. destruct (lookup_res p (res s)); cbn [robs].
        -- change e with (oe (mkObs e tok 0 None)) at 1. rewrite find_reg_same. reflexivity.
        -- unfold find_obs. cbn. rewrite N.eqb_refl. reflexivity.
      * destruct (lookup_res p (res s)); cbn [robs].
        -- apply find_reg_other. cbn. lia.
        -- unfold find_obs. cbn. rewrite EE. reflexivity.
    + rewrite andb_false_r. rewrite L2; [reflexivity|]. intro; subst. rewrite bytes_eqb_refl' in EP. discriminate.
  - destruct (deregister_spec s e' p' tok) as (s1 & E1 & L1 & L2 & _). rewrite E in E1. injection E1 as <-.
    unfold proj. destruct (bytes_eqb p' p) eqn:EP.
    + apply bytes_eqb_true in EP. subst p'. rewrite L1. destruct (lookup_res p (res s)) as [r|] eqn:EL; cbn [option_map robs].
      * rewrite (find_dereg e' tok (robs r) e (inv_lookup s p r HI EL)).
        destruct (e' =? e); cbn [andb]; [destruct (find_obs e (robs r)) as [[[t c] m]|]; [destruct (bytes_eqb t tok)|]; reflexivity|reflexivity].
      * destruct (e' =? e); reflexivity.
    + rewrite andb_false_r. rewrite L2; [reflexivity|]. intro; subst. rewrite bytes_eqb_refl' in EP. discriminate.
  - cbn [step] in E. unfold proj. destruct (bytes_eqb p' p) eqn:EP.
    + apply bytes_eqb_true in EP. subst p'. destruct (lookup_res p (res s)) as [r|] eqn:EL; [|injection E as <-; rewrite EL; reflexivity].
      unfold round in E. destruct (U32 <=? rseq r + 1); [discriminate|]. destruct (conf && _); [discriminate|]. cbn [bind] in E. injection E as <-.
      cbn [res]. rewrite lookup_update_same, EL. cbn [option_map robs].
      rewrite (find_round (limit s) mid conf (robs r) e (inv_lookup s p r HI EL)). reflexivity.
    + assert (p' <> p) by (intro; subst; rewrite bytes_eqb_refl' in EP; discriminate).
      destruct (lookup_res p' (res s)) as [r|] eqn:EL; [|injection E as <-; reflexivity].
      destruct (round (limit s) mid conf r); cbn [bind] in E; try discriminate. injection E as <-. cbn [res].
      rewrite lookup_update_other by congruence. reflexivity.
  - destruct (ack_spec s e' mid) as (s1 & E1 & _ & L1). rewrite E in E1. injection E1 as <-.
    unfold proj. rewrite L1. destruct (lookup_res p (res s)) as [r|] eqn:EL; cbn [option_map robs]; [|destruct (e' =? e); reflexivity].
    rewrite (find_ack e' mid (robs r) e (inv_lookup s p r HI EL)). destruct (e' =? e); [|reflexivity].
    destruct (find_obs e (robs r)) as [[[t c] [m|]]|]; reflexivity.
  - cbn [step] in E. injection E as <-. reflexivity.
  - cbn [step] in E. injection E as <-. unfold proj. cbn [res].
    destruct (bytes_eqb p' p) eqn:EP.
    + apply bytes_eqb_true in EP. subst p'. rewrite lookup_update_same. destruct (lookup_res p (res s)); reflexivity.
    + rewrite lookup_update_other; [reflexivity|]. intro; subst. rewrite bytes_eqb_refl' in EP. discriminate.
Qed.

(* over a whole history: the pair's state is the fold of the automaton, with the limit in force at each step *)
Fixpoint pair_run (st : pstate) (lim : N) (ops : list obs_op) (e : N) (p : list N) : pstate :=
  match ops with
  | [] => st
  | o :: r => pair_run (pair_step st o lim e p) (match o with SetLimit l => l | _ => lim end) r e p
  end.

Lemma step_limit s o s' : step s o = Ok s' -> limit s' = match o with SetLimit l => l | _ => limit s end.
Proof.
  destruct o; cbn [step]; try (intros [= <-]; reflexivity).
  destruct (lookup_res p (res s)); [|intros [= <-]; reflexivity].
  destruct (round _ _ _ _); cbn [bind]; try discriminate. intros [= <-]. reflexivity.
Qed.

Theorem projection_run ops : forall s s' e p, Inv s -> run_ops s ops = Ok s' ->
  proj s' e p = pair_run (proj s e p) (limit s) ops e p.
Proof.
  induction ops as [|o ops IH]; intros s s' e p HI; cbn [run_ops pair_run]; [intros [= <-]; reflexivity|].
  destruct (step s o) as [s1|er|st] eqn:E; cbn [bind]; try discriminate. intros HR.
  rewrite (IH s1 s' e p (inv_step s o s1 E HI) HR). rewrite (projection s o s1 e p HI E). rewrite (step_limit s o s1 E). reflexivity.
Qed.

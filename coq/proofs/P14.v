(* P14.v -- C14 / C15: the Observe registry. *)
From CoapV Require Import proofs.Tac Header Packet UintOpt Numbers TypedOpt Observe Suite14 proofs.P06.

Definition eps (l : list observer) : list N := map oe l.
Definition Inv (s : subject) : Prop := forall p r, In (p, r) (res s) -> NoDup (eps (robs r)).

Fixpoint run_ops (s : subject) (ops : list obs_op) : outcome subject :=
  match ops with
  | [] => Ok s
  | o :: r => do s' <- step s o; run_ops s' r
  end.

Lemma eps_reg_in o l x : In x (eps (reg_obs o l)) -> x = oe o \/ In x (eps l).
Proof.
  induction l as [|y t IH]; cbn [reg_obs eps map In]; [intros [H|[]]; left; symmetry; exact H|].
  destruct (oe y =? oe o) eqn:E; cbn [eps map In].
  - intros [H|H]; [left; symmetry; exact H | right; right; exact H].
  - intros [H|H]; [tauto|]. apply IH in H. tauto.
Qed.
Lemma nodup_reg o l : NoDup (eps l) -> NoDup (eps (reg_obs o l)).
Proof.
  induction l as [|y t IH]; intros H; cbn [reg_obs]; [repeat constructor; intros []|].
  inversion H as [|? ? Hn Ht]; subst.
  destruct (oe y =? oe o) eqn:E; cbn [eps map].
  - apply N.eqb_eq in E. rewrite <- E. constructor; assumption.
  - constructor; [|apply IH; assumption]. intro Hin. apply eps_reg_in in Hin. apply N.eqb_neq in E. destruct Hin; [congruence|contradiction].
Qed.
Lemma eps_sub_dereg e tok l x : In x (eps (dereg_obs e tok l)) -> In x (eps l).
Proof.
  induction l as [|y t IH]; cbn [dereg_obs eps map In]; [tauto|].
  destruct ((oe y =? e) && bytes_eqb (otok y) tok); cbn [eps map In]; [tauto|]. intros [H|H]; [tauto|]. right. apply IH. exact H.
Qed.
Lemma nodup_dereg e tok l : NoDup (eps l) -> NoDup (eps (dereg_obs e tok l)).
Proof.
  induction l as [|y t IH]; intros H; cbn [dereg_obs]; [constructor|]. inversion H as [|? ? Hn Ht]; subst.
  destruct ((oe y =? e) && bytes_eqb (otok y) tok); [assumption|]. cbn [eps map]. constructor; [|apply IH; assumption].
  intro Hin. apply Hn. apply eps_sub_dereg in Hin. exact Hin.
Qed.
Lemma eps_ack e mid l : eps (ack_obs e mid l) = eps l.
Proof.
  induction l as [|y t IH]; [reflexivity|]. cbn [ack_obs].
  destruct (ack_match e mid y); cbn [eps map oe]; [reflexivity|]. f_equal. exact IH.
Qed.
Lemma nodup_filter_map (f : observer -> observer) (g : observer -> bool) l :
  (forall x, oe (f x) = oe x) -> NoDup (eps l) -> NoDup (eps (filter g (map f l))).
Proof.
  intros Hf. induction l as [|y t IH]; intros H; [constructor|]. inversion H as [|? ? Hn Ht]; subst.
  cbn [map filter]. destruct (g (f y)); [|apply IH; assumption]. cbn [eps map]. constructor; [|apply IH; assumption].
  rewrite Hf. intro Hin. apply Hn. clear -Hin Hf. induction t as [|z t IHt]; [destruct Hin|].
  cbn [map filter] in Hin. cbn [eps map In]. destruct (g (f z)); [|right; apply IHt; exact Hin].
  cbn [eps map In] in Hin. rewrite Hf in Hin. destruct Hin; [left; assumption | right; apply IHt; assumption].
Qed.

Lemma in_update p f l q r : In (q, r) (update_res p f l) -> In (q, r) l \/ exists r0, In (q, r0) l /\ r = f r0.
Proof.
  induction l as [|[q' r'] t IH]; cbn [update_res In]; [tauto|].
  destruct (bytes_eqb p q'); cbn [In].
  - intros [H|H]; [injection H as <- <-; right; exists r'; tauto | tauto].
  - intros [H|H]; [tauto|]. apply IH in H. destruct H as [H|(r0 & H & ->)]; [tauto|]. right. exists r0. tauto.
Qed.

Lemma lookup_in p l r : lookup_res p l = Some r -> exists q, In (q, r) l.
Proof.
  induction l as [|[q r'] t IH]; cbn [lookup_res]; [discriminate|].
  destruct (bytes_eqb p q); [intros [= <-]; exists q; left; reflexivity|].
  intros H. destruct (IH H) as (q0 & Hq). exists q0. right. exact Hq.
Qed.

Lemma inv_step s o s' : step s o = Ok s' -> Inv s -> Inv s'.
Proof.
  intros E HI. destruct o as [e p tok|e p tok|p mid conf|e mid|l|p sq]; cbn [step] in E.
  - injection E as <-. unfold Inv. cbn [res]. intros q r Hin. apply in_update in Hin.
    assert (HE : forall q r, In (q, r) (ensure_res p (res s)) -> NoDup (eps (robs r))).
    { intros q0 r0. unfold ensure_res. destruct (lookup_res p (res s)); [apply HI|]. intro H. apply in_app_or in H.
      destruct H as [H|[H|[]]]; [eapply HI; exact H|]. injection H as <- <-. constructor. }
    destruct Hin as [Hin|(r0 & Hin & ->)]; [eapply HE; exact Hin|]. cbn [robs]. apply nodup_reg. eapply HE. exact Hin.
  - injection E as <-. unfold Inv. cbn [res]. intros q r Hin. apply in_update in Hin.
    destruct Hin as [Hin|(r0 & Hin & ->)]; [eapply HI; exact Hin|]. cbn [robs]. apply nodup_dereg. eapply HI. exact Hin.
  - destruct (lookup_res p (res s)) as [r0|] eqn:EL; [|injection E as <-; exact HI].
    destruct (round (limit s) mid conf r0) as [r'|e|st] eqn:ER; cbn [bind] in E; try discriminate.
    injection E as <-. unfold Inv. cbn [res]. intros q r Hin. apply in_update in Hin.
    destruct Hin as [Hin|(r1 & Hin & ->)]; [eapply HI; exact Hin|].
    unfold round in ER. destruct (U32 <=? rseq r0 + 1); [discriminate|].
    destruct (conf && existsb _ (robs r0)); [discriminate|]. injection ER as <-. cbn [robs].
    apply nodup_filter_map; [reflexivity|]. destruct (lookup_in _ _ _ EL) as (q0 & Hq0). eapply HI. exact Hq0.
  - injection E as <-. unfold Inv. cbn [res]. intros q r Hin.
    apply in_map_iff in Hin. destruct Hin as ([q0 r0] & H & Hin). cbn [fst snd] in H. injection H as <- <-.
    cbn [robs]. rewrite eps_ack. eapply HI. exact Hin.
  - injection E as <-. exact HI.
  - injection E as <-. unfold Inv. cbn [res]. intros q r Hin. apply in_update in Hin.
    destruct Hin as [Hin|(r0 & Hin & ->)]; [eapply HI; exact Hin|]. cbn [robs]. eapply HI. exact Hin.
Qed.

Theorem invariant_reachable ops : forall s s', Inv s -> run_ops s ops = Ok s' -> Inv s'.
Proof.
  induction ops as [|o ops IH]; intros s s' HI; cbn [run_ops]; [intros [= <-]; exact HI|].
  destruct (step s o) as [s1|e|st] eqn:E; cbn [bind]; try discriminate.
  apply IH. eapply inv_step; eauto.
Qed.

Lemma inv_default : Inv subject_default.
Proof. intros p r []. Qed.

(* ---------- what each operation does to the addressed resource, and the frame ---------- *)
Lemma lookup_update_same p f l : lookup_res p (update_res p f l) = option_map f (lookup_res p l).
Proof.
  induction l as [|[q r] t IH]; cbn [update_res lookup_res]; [reflexivity|].
  destruct (bytes_eqb p q) eqn:E; cbn [lookup_res]; rewrite E; [reflexivity|exact IH].
Qed.

Lemma bytes_eqb_true a b : bytes_eqb a b = true <-> a = b.
Proof.
  unfold bytes_eqb. revert b. induction a as [|x a IH]; intros [|y b]; cbn [list_eqb]; split; try discriminate; try reflexivity.
  - intros H. apply andb_true_iff in H. destruct H as (H1 & H2). f_equal; [lia|apply IH; exact H2].
  - intros [= -> ->]. rewrite N.eqb_refl. apply IH. reflexivity.
Qed.

Lemma lookup_update_other p q f l : p <> q -> lookup_res q (update_res p f l) = lookup_res q l.
Proof.
  intros Hne. induction l as [|[q' r] t IH]; cbn [update_res lookup_res]; [reflexivity|].
  destruct (bytes_eqb p q') eqn:E; cbn [lookup_res].
  - apply bytes_eqb_true in E. subst q'. destruct (bytes_eqb q p) eqn:E2; [apply bytes_eqb_true in E2; congruence|reflexivity].
  - destruct (bytes_eqb q q'); [reflexivity|exact IH].
Qed.

Lemma lookup_app_none p l x : lookup_res p l = None -> lookup_res p (l ++ [x]) = lookup_res p [x].
Proof. induction l as [|[q r] t IH]; cbn [app lookup_res]; [reflexivity|]. destruct (bytes_eqb p q); [discriminate|exact IH]. Qed.
Lemma lookup_app_some p l x r : lookup_res p l = Some r -> lookup_res p (l ++ [x]) = Some r.
Proof. induction l as [|[q r'] t IH]; cbn [app lookup_res]; [discriminate|]. destruct (bytes_eqb p q); [auto|exact IH]. Qed.

Lemma bytes_eqb_refl' a : bytes_eqb a a = true.
Proof. apply bytes_eqb_true. reflexivity. Qed.

Theorem register_spec s e p tok :
  exists s', step s (Register e p tok) = Ok s' /\
    lookup_res p (res s') = Some (match lookup_res p (res s) with
                                  | Some r => mkRes (rseq r) (reg_obs (mkObs e tok 0 None) (robs r))
                                  | None => mkRes 0 [mkObs e tok 0 None] end) /\
    (forall q, q <> p -> lookup_res q (res s') = lookup_res q (res s)) /\ limit s' = limit s.
Proof.
  eexists. split; [reflexivity|]. cbn [res limit]. repeat split.
  - rewrite lookup_update_same. unfold ensure_res. destruct (lookup_res p (res s)) as [r|] eqn:E.
    + rewrite E. reflexivity.
    + rewrite lookup_app_none by exact E. cbn [lookup_res]. rewrite bytes_eqb_refl'. reflexivity.
  - intros q Hne. rewrite lookup_update_other by congruence. unfold ensure_res.
    destruct (lookup_res p (res s)) eqn:E; [reflexivity|].
    destruct (lookup_res q (res s)) eqn:E2; [apply lookup_app_some; exact E2|].
    rewrite lookup_app_none by exact E2. cbn [lookup_res].
    destruct (bytes_eqb q p) eqn:E3; [apply bytes_eqb_true in E3; congruence|reflexivity].
Qed.

(* re-registration replaces in place: same endpoints in the same order, token replaced, counters cleared;
   a new endpoint is appended after the existing ones *)
Lemma reg_obs_known o l : In (oe o) (eps l) -> NoDup (eps l) ->
  reg_obs o l = map (fun x => if oe x =? oe o then o else x) l.
Proof.
  induction l as [|y t IH]; cbn [eps map In]; [tauto|]. intros Hin Hnd. inversion Hnd as [|? ? Hn Ht]; subst.
  cbn [reg_obs map]. destruct (oe y =? oe o) eqn:E.
  - f_equal. assert (oe y = oe o) by lia.
    assert (HM : forall l', ~ In (oe o) (eps l') -> map (fun x => if oe x =? oe o then o else x) l' = l').
    { induction l' as [|z l' IHl]; cbn [eps map In]; [reflexivity|]. intros Hni.
      replace (oe z =? oe o) with false by (apply eq_sym, N.eqb_neq; tauto). f_equal. apply IHl. tauto. }
    symmetry. apply HM. rewrite <- H. exact Hn.
  - f_equal. apply IH; [|exact Ht]. destruct Hin as [Hin|Hin]; [lia|exact Hin].
Qed.
Lemma reg_obs_new o l : ~ In (oe o) (eps l) -> reg_obs o l = l ++ [o].
Proof.
  induction l as [|y t IH]; cbn [eps map In]; [reflexivity|]. intros Hni. cbn [reg_obs app].
  replace (oe y =? oe o) with false by (apply eq_sym, N.eqb_neq; tauto). f_equal. apply IH. tauto.
Qed.

Theorem deregister_spec s e p tok :
  exists s', step s (Deregister e p tok) = Ok s' /\
    lookup_res p (res s') = option_map (fun r => mkRes (rseq r) (dereg_obs e tok (robs r))) (lookup_res p (res s)) /\
    (forall q, q <> p -> lookup_res q (res s') = lookup_res q (res s)) /\ limit s' = limit s.
Proof.
  eexists. split; [reflexivity|]. cbn [res limit]. repeat split.
  - apply lookup_update_same.
  - intros q Hne. apply lookup_update_other. congruence.
Qed.

(* with one observer per endpoint, "the first match" is the only match: exactly the observer whose
   endpoint and token both match is removed, nothing else *)
Lemma dereg_obs_filter e tok l : NoDup (eps l) ->
  dereg_obs e tok l = filter (fun x => negb ((oe x =? e) && bytes_eqb (otok x) tok)) l.
Proof.
  induction l as [|y t IH]; intros Hnd; [reflexivity|]. inversion Hnd as [|? ? Hn Ht]; subst.
  cbn [dereg_obs filter]. destruct ((oe y =? e) && bytes_eqb (otok y) tok) eqn:E; cbn [negb].
  - apply andb_true_iff in E. destruct E as (E1 & _). assert (oe y = e) by lia. subst e.
    symmetry. clear IH Ht Hnd. induction t as [|z t IHt]; [reflexivity|]. cbn [filter eps map In] in *.
    replace (oe z =? oe y) with false by (apply eq_sym, N.eqb_neq; intro; apply Hn; left; congruence).
    cbn [andb negb]. f_equal. apply IHt. tauto.
  - f_equal. apply IH. exact Ht.
Qed.

Theorem changed_unobserved s p mid conf : lookup_res p (res s) = None -> step s (Changed p mid conf) = Ok s.
Proof. intros H. cbn [step]. rewrite H. reflexivity. Qed.

Theorem changed_spec s p mid conf r : lookup_res p (res s) = Some r -> rseq r + 1 < U32 ->
  (forall x, In x (robs r) -> unack x + 1 < U16) ->
  exists s', step s (Changed p mid conf) = Ok s' /\
    lookup_res p (res s') = Some (mkRes (rseq r + 1) (filter (fun x => unack x <=? limit s) (map (bump mid conf) (robs r)))) /\
    (forall q, q <> p -> lookup_res q (res s') = lookup_res q (res s)) /\ limit s' = limit s.
Proof.
  intros EL Hs Hc. cbn [step]. rewrite EL. unfold round.
  replace (U32 <=? rseq r + 1) with false by lia.
  assert (HE : existsb (fun x => U16 <=? unack x + 1) (robs r) = false).
  { apply not_true_is_false. intro HX. apply existsb_exists in HX. destruct HX as (x & Hx & Hu). specialize (Hc x Hx). lia. }
  rewrite HE, andb_false_r. cbn [bind]. eexists. split; [reflexivity|]. cbn [res limit]. repeat split.
  - rewrite lookup_update_same, EL. reflexivity.
  - intros q Hne. apply lookup_update_other. congruence.
Qed.

(* acknowledgement: per resource, exactly the observer with that endpoint is reset, and only if its
   pending id is the acknowledged one *)
Lemma ack_obs_spec e mid l : NoDup (eps l) ->
  ack_obs e mid l = map (fun x => if ack_match e mid x then mkObs (oe x) (otok x) 0 None else x) l.
Proof.
  induction l as [|y t IH]; intros Hnd; [reflexivity|]. inversion Hnd as [|? ? Hn Ht]; subst.
  cbn [ack_obs map]. destruct (ack_match e mid y) eqn:E.
  - f_equal. unfold ack_match in E. destruct (pend y) as [m|]; [|discriminate].
    apply andb_true_iff in E. destruct E as (E1 & _). assert (oe y = e) by lia. subst e.
    clear IH Ht Hnd. induction t as [|z t IHt]; [reflexivity|]. cbn [map eps In] in *.
    assert (ack_match (oe y) mid z = false) as ->.
    { unfold ack_match. destruct (pend z); [|reflexivity]. replace (oe z =? oe y) with false; [reflexivity|].
      apply eq_sym, N.eqb_neq. intro. apply Hn. left. congruence. }
    f_equal. apply IHt. tauto.
  - f_equal. apply IH. exact Ht.
Qed.

Theorem ack_spec s e mid :
  exists s', step s (Ack e mid) = Ok s' /\ limit s' = limit s /\
    forall p, lookup_res p (res s') = option_map (fun r => mkRes (rseq r) (ack_obs e mid (robs r))) (lookup_res p (res s)).
Proof.
  eexists. split; [reflexivity|]. cbn [res limit]. split; [reflexivity|].
  intros p. induction (res s) as [|[q r] t IH]; cbn [map lookup_res fst snd]; [reflexivity|].
  destruct (bytes_eqb p q); [reflexivity|exact IH].
Qed.

(* ---------- counting never overflows ---------- *)
Definition CountInv (s : subject) : Prop :=
  limit s < 256 /\ forall p r x, In (p, r) (res s) -> In x (robs r) -> unack x <= 255.

Lemma in_reg_obs o l x : In x (reg_obs o l) -> x = o \/ In x l.
Proof.
  induction l as [|y t IH]; cbn [reg_obs In]; [intros [H|[]]; auto|].
  destruct (oe y =? oe o); cbn [In]; [intros [H|H]; [left; symmetry; exact H|right; right; exact H]|].
  intros [H|H]; [right; left; exact H|]. apply IH in H. destruct H; [left|right; right]; assumption.
Qed.
Lemma in_dereg_obs e tok l x : In x (dereg_obs e tok l) -> In x l.
Proof.
  induction l as [|y t IH]; cbn [dereg_obs In]; [tauto|].
  destruct ((oe y =? e) && bytes_eqb (otok y) tok); cbn [In]; [tauto|]. intros [H|H]; [tauto|]. right. apply IH. exact H.
Qed.
Lemma in_ack_obs e mid l x : In x (ack_obs e mid l) -> unack x = 0 \/ In x l.
Proof.
  induction l as [|y t IH]; cbn [ack_obs In]; [tauto|].
  destruct (ack_match e mid y); cbn [In].
  - intros [H|H]; [left; subst; reflexivity|tauto].
  - intros [H|H]; [tauto|]. apply IH in H. tauto.
Qed.

Lemma count_step s o s' : op_ok o = true -> CountInv s -> step s o = Ok s' -> CountInv s'.
Proof.
  intros Hok (HL & HC) E. destruct o as [e p tok|e p tok|p mid conf|e mid|l|p sq]; cbn [step] in E.
  - injection E as <-. split; [exact HL|]. cbn [res]. intros q r x Hin Hx. apply in_update in Hin.
    assert (HE : forall q r x, In (q, r) (ensure_res p (res s)) -> In x (robs r) -> unack x <= 255).
    { intros q0 r0 x0. unfold ensure_res. destruct (lookup_res p (res s)); [apply HC|]. intros H. apply in_app_or in H.
      destruct H as [H|[H|[]]]; [eapply HC; exact H|]. injection H as <- <-. intros []. }
    destruct Hin as [Hin|(r0 & Hin & ->)]; [eapply HE; eauto|]. cbn [robs] in Hx. apply in_reg_obs in Hx.
    destruct Hx as [->|Hx]; [cbn; lia|eapply HE; eauto].
  - injection E as <-. split; [exact HL|]. cbn [res]. intros q r x Hin Hx. apply in_update in Hin.
    destruct Hin as [Hin|(r0 & Hin & ->)]; [eapply HC; eauto|]. cbn [robs] in Hx. apply in_dereg_obs in Hx. eapply HC; eauto.
  - destruct (lookup_res p (res s)) as [r0|] eqn:EL; [|injection E as <-; split; assumption].
    destruct (round (limit s) mid conf r0) as [r'|e|st] eqn:ER; cbn [bind] in E; try discriminate.
    injection E as <-. split; [exact HL|]. cbn [res]. intros q r x Hin Hx. apply in_update in Hin.
    destruct Hin as [Hin|(r1 & Hin & ->)]; [eapply HC; eauto|].
    unfold round in ER. destruct (U32 <=? rseq r0 + 1); [discriminate|].
    destruct (conf && existsb _ (robs r0)); [discriminate|]. injection ER as <-. cbn [robs] in Hx.
    apply filter_In in Hx. destruct Hx as (_ & Hx). lia.
  - injection E as <-. split; [exact HL|]. cbn [res]. intros q r x Hin Hx.
    apply in_map_iff in Hin. destruct Hin as ([q0 r0] & H & Hin). cbn [fst snd] in H. injection H as <- <-.
    cbn [robs] in Hx. apply in_ack_obs in Hx. destruct Hx as [Hx|Hx]; [lia|eapply HC; eauto].
  - injection E as <-. cbn [op_ok] in Hok. split; [cbn; lia|exact HC].
  - injection E as <-. split; [exact HL|]. cbn [res]. intros q r x Hin Hx. apply in_update in Hin.
    destruct Hin as [Hin|(r0 & Hin & ->)]; [eapply HC; eauto|]. cbn [robs] in Hx. eapply HC; eauto.
Qed.

(* the only reachable panic is the end of the 32-bit sequence counter (known finding) *)
Lemma step_no_counter_panic s o : CountInv s -> forall st, step s o = Panic st -> st = 40.
Proof.
  intros (HL & HC) st. destruct o as [e p tok|e p tok|p mid conf|e mid|l|p sq]; cbn [step]; try discriminate.
  destruct (lookup_res p (res s)) as [r0|] eqn:EL; [|discriminate].
  unfold round. destruct (U32 <=? rseq r0 + 1); cbn [bind]; [intros [= <-]; reflexivity|].
  destruct (conf && existsb (fun x => U16 <=? unack x + 1) (robs r0)) eqn:EX; cbn [bind]; [|discriminate].
  exfalso. apply andb_true_iff in EX. destruct EX as (_ & EX). apply existsb_exists in EX. destruct EX as (x & Hx & Hu).
  destruct (lookup_in _ _ _ EL) as (q & Hq). specialize (HC q r0 x Hq Hx). unfold U16 in Hu. lia.
Qed.

Theorem run_no_counter_panic ops : forall s, forallb op_ok ops = true -> CountInv s ->
  forall st, run_ops s ops = Panic st -> st = 40.
Proof.
  induction ops as [|o ops IH]; intros s Hok HC st; cbn [run_ops]; [discriminate|].
  cbn [forallb] in Hok. apply andb_true_iff in Hok. destruct Hok as (Ho & Hok).
  destruct (step s o) as [s1|e|st1] eqn:E; cbn [bind].
  - apply IH; [exact Hok|eapply count_step; eauto].
  - discriminate.
  - intros [= <-]. eapply step_no_counter_panic; eauto.
Qed.

Lemma count_default : CountInv subject_default.
Proof. split; [cbn; lia|]. intros p r x []. Qed.

(* no error is ever produced *)
Lemma step_no_err s o e : step s o <> Err e.
Proof.
  destruct o; cbn [step]; try discriminate. destruct (lookup_res p (res s)); [|discriminate].
  unfold round. destruct (U32 <=? _); cbn [bind]; [discriminate|]. destruct (conf && _); cbn [bind]; discriminate.
Qed.

(* ---------- notifications ---------- *)
Theorem notification_spec m tok seq pl conf : len tok <= 8 -> seq < U32 ->
  create_notification m tok seq pl conf =
    Ok (mkPacket (mkHeader (64 + (if conf then 0 else 16) + len tok) (Response Content) m) tok [(6, [be_min seq])] pl).
Proof.
  intros Ht Hs. unfold create_notification, set_token, set_token_length.
  cbn [packet_new header_new set_hdr set_version set_type set_code set_mid hdr vtt code mid token opts payload].
  replace (len tok mod 256 <? 16) with true by lia. cbn [bind].
  unfold set_observe_value, add_option_as, enc_value. change (4 =? 0) with false. cbv iota.
  rewrite option_from_uint_spec by (change (256 ^ 4) with 4294967296; unfold U32 in Hs; lia). cbn [bind].
  unfold add_option, clear_option, set_payload, set_opts, opt_clear, opt_add. cbn [opts hdr token payload opt_get opt_insert].
  f_equal. f_equal. f_equal. destruct conf; cbn [type_bits]; lia.
Qed.

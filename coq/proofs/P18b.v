(* P18b.v -- C18: the writer model passes the suite-180 oracle on EVERY input: every document the suite's reader
   produces, with or without newlines, every fault position, failing once or persistently. *)
From CoapV Require Import proofs.Tac LinkFormat Suite16 proofs.P18 proofs.P14b.

Lemma first_fail_of k mode ts :
  first_fail (fail_of k mode) 0 ts = if k <? len ts then Some (N.to_nat k) else None.
Proof.
  destruct (k <? len ts) eqn:E.
  - apply first_fail_some.
    + unfold len in E. lia.
    + unfold fail_of. destruct (mode mod 2 =? 0); lia.
    + intros i Hi. unfold fail_of. destruct (mode mod 2 =? 0); lia.
  - apply first_fail_none. intros i Hi. unfold fail_of, len in *. destruct (mode mod 2 =? 0); lia.
Qed.

Theorem model_passes_oracle180 s : match s with k :: mode :: r => rd_case160 r <> None | _ => False end ->
  verdict180 s (run180 s) = true.
Proof.
  destruct s as [|k [|mode r]]; [intros H; destruct H|intros H; destruct H|]. intros Hrd. unfold verdict180, run180.
  destruct (rd_case160 r) as [[nl d]|]; [|congruence].
  rewrite fault_theorem, first_fail_of.
  destruct (k <? len (doc_chunks true nl (doc_of_in d))) eqn:E.
  - cbn [b2n calls accepted]. replace (N.of_nat (S (N.to_nat k))) with (k + 1) by lia. apply list_eqb_refl.
  - cbn [b2n calls accepted]. unfold len. apply list_eqb_refl.
Qed.

(* PUnsafe.v -- soundness of the symbolic checker for the unsafe copy sites: if the generated
   sites pass the check, then for ALL lengths every copy stays inside the reserved capacity and the
   source, and set_len only exposes initialised bytes. *)
From CoapV Require Import proofs.Tac UnsafeModel.

Lemma eval_app env a b : eval env (a ++ b) = eval env a + eval env b.
Proof.
  induction a as [|x a IH]; [reflexivity|].
  change (eval env ((x :: a) ++ b)) with (env x + eval env (a ++ b)). change (eval env (x :: a)) with (env x + eval env a).
  rewrite IH. lia.
Qed.

Lemma remove1_eval env x l l' : remove1 x l = Some l' -> eval env l = env x + eval env l'.
Proof.
  revert l'. induction l as [|y r IH]; intros l'; cbn [remove1]; [discriminate|].
  destruct (x =? y) eqn:E.
  - intros [= <-]. assert (x = y) by lia. subst. reflexivity.
  - destruct (remove1 x r) as [r'|]; [|discriminate]. intros [= <-]. cbn [eval fold_right].
    fold (eval env r). fold (eval env r'). rewrite (IH r' eq_refl). lia.
Qed.

Lemma sub_sound env a : forall b, sub a b = true -> eval env a <= eval env b.
Proof.
  induction a as [|x a IH]; intros b; cbn [sub]; [intros _; cbn; lia|].
  destruct (remove1 x b) as [b'|] eqn:E; [|discriminate]. intros H.
  apply (remove1_eval env) in E. specialize (IH b' H). cbn [eval fold_right]. fold (eval env a). lia.
Qed.

Lemma mseq_sound env a b : mseq a b = true -> eval env a = eval env b.
Proof.
  unfold mseq. intros H. apply andb_true_iff in H. destruct H as (H1 & H2).
  apply (sub_sound env) in H1, H2. lia.
Qed.

Lemma tiles_sound env cs : forall cur fin, tiles_ok cur cs fin = true ->
  tiles env (eval env cur) cs = Some (eval env fin).
Proof.
  induction cs as [|[[src off] n] r IH]; intros cur fin; cbn [tiles_ok tiles].
  - intros H. apply (mseq_sound env) in H. rewrite H. reflexivity.
  - intros H. apply andb_true_iff in H. destruct H as (H1 & H2). apply (mseq_sound env) in H1.
    rewrite H1, N.eqb_refl. specialize (IH (off ++ n) fin H2). rewrite eval_app in IH. rewrite <- H1. exact IH.
Qed.

Theorem site_ok_sound env s : site_ok s = true -> site_safe env s.
Proof.
  unfold site_ok, site_safe. intros H. apply andb_true_iff in H. destruct H as (H & H3).
  apply andb_true_iff in H. destruct H as (H1 & H2).
  assert (HC : eval env (s_dst s :: s_reserve s) = env (s_dst s) + eval env (s_reserve s)) by reflexivity.
  split; [|split].
  - rewrite forallb_forall in H1. apply Forall_forall. intros [[src off] n] Hin. specialize (H1 _ Hin). cbn beta iota in H1.
    apply andb_true_iff in H1. destruct H1 as (A & B). apply (sub_sound env) in A, B. rewrite eval_app in A.
    split; [lia|]. cbn [eval fold_right] in B. lia.
  - pose proof (tiles_sound env (s_copies s) [s_dst s] (s_setlen s) H2) as T. cbn [eval fold_right] in T.
    replace (env (s_dst s) + 0) with (env (s_dst s)) in T by lia. exact T.
  - apply (sub_sound env) in H3. lia.
Qed.

Theorem sites_ok_sound l : sites_ok l = true -> forall env, sites_safe env l.
Proof.
  intros H env. unfold sites_ok in H. rewrite forallb_forall in H. apply Forall_forall. intros s Hs.
  apply site_ok_sound. apply H. exact Hs.
Qed.

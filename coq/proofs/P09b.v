(* P09b.v -- C09 end to end on handle_block1 itself: a run of Block1 requests carrying the blocks of a body
   in order (starting at any block k, on top of any buffer that agrees with the body up to that offset --
   in particular from block 0 on top of ANY stale buffer) either makes the handler report an error, or
   answers every block but the last with 2.31 Continue and hands the application exactly the body. *)
From CoapV Require Import proofs.Tac Header Packet UintOpt Utf8 BlockValue Encode Response Accessors BlockHandler
  WireSpec PacketOps proofs.PWire proofs.PEnc proofs.PDec proofs.P01 proofs.P06 proofs.P13 proofs.P11 proofs.P08b.

Fixpoint is_upload (sz szx k : N) (body : bytes) (reqs : list request) : Prop :=
  match reqs with
  | [] => True
  | r :: rest =>
      first_block OPT_BLOCK1 (message r) = Some (mkBlock k (k * sz + sz <? len body) szx) /\
      payload (message r) = take sz (drop (k * sz) body) /\
      is_upload sz szx (k + 1) body rest
  end.

Fixpoint run_block1 (M : N) (st : bstate) (reqs : list request) : list (outcome bool * request) * bstate :=
  match reqs with
  | [] => ([], st)
  | r :: rest => let '(o, r', st') := handle_block1 r M st in
                 let '(l, st'') := run_block1 M st' rest in ((o, r') :: l, st'')
  end.

Definition buf_of (st : bstate) : bytes := match cached_payload st with Some b => b | None => [] end.

Lemma negotiate_some b ms tp M r : negotiate (Some b) ms tp M = Ok r -> exists r1, r = Some r1.
Proof.
  unfold negotiate. destruct (_ <? _); [discriminate|]. destruct (_ =? 0); [discriminate|].
  destruct (block_new _ _ _); try discriminate. intros [= <-]. eauto.
Qed.

Theorem upload_run M szx body : forall reqs k st outs st',
  let sz := 2 ^ (szx + 4) in
  is_upload sz szx k body reqs -> reqs <> [] ->
  len body <= (k + len reqs) * sz ->
  (length reqs = 1%nat \/ (k + len reqs - 1) * sz < len body) ->
  take (k * sz) (buf_of st) = take (k * sz) body -> k * sz <= len (buf_of st) -> k * sz <= len body ->
  run_block1 M st reqs = (outs, st') ->
  Forall (fun x => exists b, fst x = Ok b) outs ->
  exists front lastreq,
    outs = front ++ [(Ok false, lastreq)] /\
    Forall (fun x => fst x = Ok true) front /\
    payload (message lastreq) = body /\
    cached_payload st' = None.
Proof.
  cbv zeta. induction reqs as [|r rest IH]; intros k st outs st' Hu Hne Hhi Hlo Hpre Hlb Hlk Hrun Hok; [congruence|].
  set (sz := 2 ^ (szx + 4)) in *.
  cbn [is_upload] in Hu. destruct Hu as (Hfb & Hpl & Hrest).
  cbn [run_block1] in Hrun.
  destruct (handle_block1 r M st) as [[o r'] st1] eqn:EH.
  destruct (run_block1 M st1 rest) as [l st2] eqn:ER.
  injection Hrun as <- <-.
  inversion Hok as [|x xs [b Hb] Hok']; subst x xs. cbn [fst] in Hb. subst o.
  unfold handle_block1 in EH. rewrite Hfb in EH.
  destruct (message_size_hack (message r)) as [ms|e|s]; try (injection EH as EH _ _; discriminate).
  destruct (negotiate _ ms _ M) as [rsp|e|s] eqn:EN; try (injection EH as EH _ _; discriminate).
  destruct (negotiate_some _ _ _ _ _ EN) as (r1 & ->).
  set (b1 := mkBlock k (k * sz + sz <? len body) szx) in *.
  change (block_size b1) with sz in EH. change (b_num b1) with k in EH. change (b_more b1) with (k * sz + sz <? len body) in EH.
  fold (buf_of st) in EH. rewrite Hpl in EH.
  destruct (extending_splice (buf_of st) (k * sz) (k * sz + sz) (take sz (drop (k * sz) body))) as [buf'|] eqn:ES;
    [|injection EH as EH _ _; discriminate].
  rewrite len_cons in Hhi, Hlo.
  destruct (k * sz + sz <? len body) eqn:EM.
  - (* more blocks follow *)
    destruct (response r) as [rp|]; [|injection EH as EH _ _; discriminate].
    injection EH as <- <- <-.
    assert (Hfull : len (take sz (drop (k * sz) body)) = sz) by (apply len_take_drop; lia).
    destruct (splice_extends_prefix (buf_of st) body (k * sz) sz buf' Hfull Hpre Hlb ltac:(lia) ES) as (P1 & P2).
    destruct rest as [|r2 rest2].
    { exfalso. rewrite len_nil in Hhi. lia. }
    assert (Hk1 : (k + 1) * sz = k * sz + sz) by lia.
    specialize (IH (k + 1) (st_buf st (Some buf')) l st2 Hrest ltac:(discriminate)).
    rewrite !len_cons in *.
    specialize (IH ltac:(replace (k + 1 + (1 + len rest2)) with (k + (1 + (1 + len rest2))) by lia; exact Hhi)).
    specialize (IH ltac:(destruct Hlo as [Hlo|Hlo]; [cbn in Hlo; lia|];
                         destruct rest2; [left; reflexivity|right; rewrite !len_cons in *;
                         match goal with |- ?a * _ < _ => match type of Hlo with ?b * _ < _ => replace a with b by lia end end; exact Hlo])).
    unfold buf_of in IH. cbn [st_buf cached_payload] in IH. rewrite Hk1 in IH.
    specialize (IH P1 P2 ltac:(lia) ER Hok').
    destruct IH as (front & lastreq & -> & IF & IP & IS).
    exists ((Ok true, with_response r (Some (set_code (add_block_opt OPT_BLOCK1 r1 rp) (Response Continue)))) :: front), lastreq.
    repeat split; try assumption. constructor; [reflexivity|assumption].
  - (* the final block *)
    assert (rest = []) as ->.
    { destruct rest as [|r2 rest2]; [reflexivity|]. exfalso. rewrite len_cons in Hlo. destruct Hlo as [Hlo|Hlo]; [discriminate|].
      assert ((k + 1) * sz <= (k + (1 + (1 + len rest2)) - 1) * sz) by (apply N.mul_le_mono_r; lia). lia. }
    cbn [run_block1] in ER. injection ER as <- <-.
    assert (Hbody : take (k * sz + len (take sz (drop (k * sz) body))) buf' = body).
    { apply (final_block_body (buf_of st) body (k * sz) _ buf' Hpre Hlb); [|exact Hlk|right; exists sz; exact ES].
      symmetry. apply take_drop_rest; lia. }
    rewrite Hbody in EH.
    destruct (response r) as [rp|]; [|injection EH as EH _ _; discriminate].
    injection EH as <- <- <-.
    eexists [], _. split; [reflexivity|]. split; [constructor|]. split; reflexivity.
Qed.

(* from block 0, whatever an abandoned upload left in the buffer *)
Corollary upload_run_from_scratch M szx body reqs st outs st' :
  let sz := 2 ^ (szx + 4) in
  is_upload sz szx 0 body reqs -> reqs <> [] -> len body <= len reqs * sz ->
  (length reqs = 1%nat \/ (len reqs - 1) * sz < len body) ->
  run_block1 M st reqs = (outs, st') -> Forall (fun x => exists b, fst x = Ok b) outs ->
  exists front lastreq, outs = front ++ [(Ok false, lastreq)] /\ Forall (fun x => fst x = Ok true) front /\
    payload (message lastreq) = body /\ cached_payload st' = None.
Proof.
  cbv zeta. intros Hu Hne Hhi Hlo Hrun Hok.
  apply (upload_run M szx body reqs 0 st outs st'); auto; try (rewrite N.mul_0_l); try lia; reflexivity.
Qed.

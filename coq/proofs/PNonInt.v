(* PNonInt.v -- generic non-interference for a per-key state machine kept in the expiring LRU map
   (the core of C12 and C20). *)
From CoapV Require Import proofs.Tac.

Section Keyed.
Variables K V Ev O : Type.
Variable keqb : K -> K -> bool.
Hypothesis keqb_spec : forall a b, keqb a b = true <-> a = b.
Variable default : V.
Variable kstep : V -> Ev -> V * O.        (* what the handler does with the state it was handed *)
Variable ttl : N.

Definition cache := list (K * V * N).    (* oldest first *)

Fixpoint remove_expired (now : N) (c : cache) : cache :=
  match c with (k, v, t) :: r => if t + ttl <? now then remove_expired now r else c | [] => [] end.
Fixpoint c_find (k : K) (c : cache) : option (V * N) :=
  match c with [] => None | (k', v, t) :: r => if keqb k k' then Some (v, t) else c_find k r end.
Definition c_remove (k : K) (c : cache) : cache := filter (fun e => negb (keqb k (fst (fst e)))) c.

(* entry(k).or_insert(default), then the handler's in-place update, at time [now] *)
Definition access (k : K) (now : N) (e : Ev) (c : cache) : cache * O :=
  let fresh := match c_find k c with
               | Some (v, t) => if now <=? t + ttl then Some v else None
               | None => None end in
  let v0 := match fresh with Some v => v | None => default end in
  let '(v1, o) := kstep v0 e in
  (c_remove k (remove_expired now c) ++ [(k, v1, now)], o).

Definition event := (K * N * Ev)%type.
Fixpoint run (c : cache) (evs : list event) : list (K * O) :=
  match evs with
  | [] => []
  | (k, now, e) :: r => let '(c', o) := access k now e c in (k, o) :: run c' r
  end.

(* what key k's next access at time now will see *)
Definition view (c : cache) (k : K) (now : N) : option V :=
  match c_find k c with Some (v, t) => if now <=? t + ttl then Some v else None | None => None end.

Lemma keqb_refl k : keqb k k = true. Proof. apply keqb_spec. reflexivity. Qed.
Lemma keqb_neq a b : a <> b -> keqb a b = false.
Proof. intros H. destruct (keqb a b) eqn:E; [apply keqb_spec in E; contradiction | reflexivity]. Qed.

Lemma find_app_other k k' v t c : k <> k' -> c_find k (c ++ [(k', v, t)]) = c_find k c.
Proof.
  intros H. induction c as [|[[k2 v2] t2] c IH]; cbn [app c_find].
  - rewrite keqb_neq by assumption. reflexivity.
  - destruct (keqb k k2); [reflexivity | exact IH].
Qed.

Lemma find_remove_other k k' c : k <> k' -> c_find k (c_remove k' c) = c_find k c.
Proof.
  intros H. induction c as [|[[k2 v2] t2] c IH]; [reflexivity|]. cbn [c_remove filter fst c_find].
  destruct (keqb k' k2) eqn:E1; cbn [negb].
  - apply keqb_spec in E1. subst k2. rewrite keqb_neq by assumption. exact IH.
  - cbn [c_find]. destruct (keqb k k2); [reflexivity | exact IH].
Qed.

Lemma find_remove_same k c : c_find k (c_remove k c) = None.
Proof.
  induction c as [|[[k2 v2] t2] c IH]; [reflexivity|]. cbn [c_remove filter fst].
  destruct (keqb k k2) eqn:E1; cbn [negb]; [exact IH|]. cbn [c_find]. rewrite E1. exact IH.
Qed.

Lemma find_app_same k v t c : c_find k c = None -> c_find k (c ++ [(k, v, t)]) = Some (v, t).
Proof.
  induction c as [|[[k2 v2] t2] c IH]; cbn [app c_find]; [rewrite keqb_refl; reflexivity|].
  destruct (keqb k k2); [discriminate | exact IH].
Qed.

Definition keys (c : cache) : list K := map (fun e => fst (fst e)) c.
Definition Inv (c : cache) : Prop := NoDup (keys c).

Lemma find_none k c : ~ In k (keys c) -> c_find k c = None.
Proof.
  induction c as [|[[k2 v2] t2] c IH]; [reflexivity|]. cbn [keys map fst In c_find]. intros H.
  rewrite keqb_neq by (intro; subst; apply H; left; reflexivity). apply IH. intro; apply H; right; assumption.
Qed.

(* purging at time now0 only removes entries that are expired for every later observer *)
Lemma view_remove_expired c k now0 now : Inv c -> now0 <= now -> view (remove_expired now0 c) k now = view c k now.
Proof.
  intros HI H. unfold view. induction c as [|[[k2 v2] t2] c IH]; [reflexivity|]. cbn [remove_expired].
  inversion HI as [|? ? Hnin HI']; subst.
  destruct (t2 + ttl <? now0) eqn:E; [|reflexivity].
  rewrite IH by assumption. cbn [c_find]. destruct (keqb k k2) eqn:Ek; [|reflexivity].
  apply keqb_spec in Ek. subst k2. rewrite find_none by assumption.
  replace (now <=? t2 + ttl) with false by lia. reflexivity.
Qed.

Lemma keys_remove_expired_incl now c : incl (keys (remove_expired now c)) (keys c).
Proof.
  induction c as [|[[k v] t] c IH]; [apply incl_refl|]. cbn [remove_expired].
  destruct (t + ttl <? now); [apply incl_tl; exact IH | apply incl_refl].
Qed.
Lemma inv_remove_expired now c : Inv c -> Inv (remove_expired now c).
Proof.
  unfold Inv. induction c as [|[[k v] t] c IH]; intros H; [exact H|]. cbn [remove_expired].
  destruct (t + ttl <? now); [|exact H]. apply IH. inversion H; assumption.
Qed.
Lemma keys_remove k c : forall x, In x (keys (c_remove k c)) <-> In x (keys c) /\ x <> k.
Proof.
  intros x. induction c as [|[[k2 v2] t2] c IH]; cbn [c_remove filter keys map fst In]; [tauto|].
  destruct (keqb k k2) eqn:E; cbn [negb].
  - apply keqb_spec in E. subst k2. fold (c_remove k c). fold (keys (c_remove k c)). fold (keys c). rewrite IH.
    split; [tauto|]. intros [[->|H] Hn]; [contradiction|tauto].
  - cbn [keys map fst In]. fold (c_remove k c). fold (keys (c_remove k c)). fold (keys c). rewrite IH.
    assert (k2 <> k) by (intro; subst; rewrite keqb_refl in E; discriminate).
    split; [intros [->|H']; tauto | tauto].
Qed.
Lemma inv_remove k c : Inv c -> Inv (c_remove k c).
Proof. unfold Inv, keys, c_remove. intros H. induction c as [|[[k2 v2] t2] c IH]; [constructor|].
  cbn [filter fst]. inversion H as [|? ? Hn H']; subst. destruct (keqb k k2); cbn [negb]; [apply IH; assumption|].
  cbn [map fst]. constructor; [|apply IH; assumption].
  intro Hin. apply Hn. apply (proj1 (keys_remove k c k2)) in Hin. tauto.
Qed.

Lemma nodup_snoc (l : list K) k : NoDup l -> ~ In k l -> NoDup (l ++ [k]).
Proof.
  induction l as [|x l IH]; intros H Hn; cbn [app]; [constructor; [intros []|constructor]|].
  inversion H as [|? ? Hx Hl]; subst. constructor.
  - intro Hin. apply in_app_or in Hin. destruct Hin as [Hin|[->|[]]]; [contradiction|]. apply Hn. left. reflexivity.
  - apply IH; [assumption|]. intro; apply Hn; right; assumption.
Qed.

Lemma inv_access k now e c : Inv c -> Inv (fst (access k now e c)).
Proof.
  intros H. unfold access. destruct (kstep _ e) as [v1 o]. cbn [fst]. unfold Inv, keys. rewrite map_app. cbn [map fst].
  apply nodup_snoc.
  - apply inv_remove, inv_remove_expired, H.
  - intro Hin. apply keys_remove in Hin. tauto.
Qed.

Lemma view_access_other k k' now0 now e c : k <> k' -> Inv c -> now0 <= now ->
  view (fst (access k' now0 e c)) k now = view c k now.
Proof.
  intros Hk HI H. unfold access. destruct (kstep _ e) as [v1 o]. cbn [fst]. unfold view.
  rewrite find_app_other, find_remove_other by assumption.
  exact (view_remove_expired c k now0 now HI H).
Qed.

Lemma view_access_same k now0 now e c :
  view (fst (access k now0 e c)) k now =
  if now <=? now0 + ttl
  then Some (fst (kstep (match view c k now0 with Some v => v | None => default end) e)) else None.
Proof.
  unfold access, view. destruct (c_find k c) as [[v t]|].
  - destruct (now0 <=? t + ttl); destruct (kstep _ e) as [v1 o]; cbn [fst];
      rewrite find_app_same by apply find_remove_same; reflexivity.
  - destruct (kstep default e) as [v1 o]; cbn [fst]. rewrite find_app_same by apply find_remove_same. reflexivity.
Qed.

Lemma out_access k now0 e c :
  snd (access k now0 e c) = snd (kstep (match view c k now0 with Some v => v | None => default end) e).
Proof.
  unfold access, view. destruct (c_find k c) as [[v t]|]; [destruct (now0 <=? t + ttl)|]; destruct (kstep _ e); reflexivity.
Qed.

Fixpoint times_sorted (now0 : N) (evs : list event) : Prop :=
  match evs with [] => True | (_, now, _) :: r => now0 <= now /\ times_sorted now r end.

Definition for_key (k : K) (ev : event) : bool := keqb k (fst (fst ev)).

(* every interleaving: what key k observes equals what it observes when its events run alone *)
Theorem noninterference k : forall evs c c' now0,
  Inv c -> Inv c' -> (forall now, now0 <= now -> view c k now = view c' k now) ->
  times_sorted now0 evs ->
  filter (fun ko => keqb k (fst ko)) (run c evs) = run c' (filter (for_key k) evs).
Proof.
  induction evs as [|[[k' now1] e] evs IH]; intros c c' now0 HI HI' HV HT; [reflexivity|].
  cbn [times_sorted] in HT. destruct HT as [H01 HT].
  cbn [run filter]. unfold for_key at 1. cbn [fst].
  destruct (access k' now1 e c) as [c1 o1] eqn:A1. cbn [filter fst].
  destruct (keqb k k') eqn:Ek.
  - apply keqb_spec in Ek. subst k'. cbn [run].
    destruct (access k now1 e c') as [c1' o1'] eqn:A1'.
    assert (o1 = o1') as <-.
    { change o1 with (snd (c1, o1)). change o1' with (snd (c1', o1')). rewrite <- A1, <- A1'.
      rewrite !out_access. rewrite HV by assumption. reflexivity. }
    f_equal. apply IH with (now0 := now1).
    + change c1 with (fst (c1, o1)). rewrite <- A1. apply inv_access, HI.
    + change c1' with (fst (c1', o1)). rewrite <- A1'. apply inv_access, HI'.
    + intros now Hn. change c1 with (fst (c1, o1)). change c1' with (fst (c1', o1)). rewrite <- A1, <- A1'.
      rewrite !view_access_same. rewrite HV by assumption. reflexivity.
    + exact HT.
  - assert (k <> k') by (intro; subst; rewrite keqb_refl in Ek; discriminate).
    apply IH with (now0 := now1).
    + change c1 with (fst (c1, o1)). rewrite <- A1. apply inv_access, HI.
    + exact HI'.
    + intros now Hn. change c1 with (fst (c1, o1)). rewrite <- A1.
      rewrite view_access_other by (try assumption; lia). apply HV. lia.
    + exact HT.
Qed.
End Keyed.

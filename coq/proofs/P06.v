(* P06.v -- C06: minimal big-endian uint option values and their round trip. *)
From CoapV Require Import proofs.Tac Header Packet UintOpt Utf8 Numbers TypedOpt Suite06.

Lemma pow2_succ k : 2 ^ N.of_nat (S k) = 2 * 2 ^ N.of_nat k.
Proof. rewrite Nat2N.inj_succ, N.pow_succ_r by lia. reflexivity. Qed.

Lemma pos_size_gt p : N.pos p < 2 ^ N.of_nat (Pos.size_nat p).
Proof.
  induction p as [p IH|p IH|]; cbn [Pos.size_nat]; rewrite ?pow2_succ.
  - change (N.pos p~1) with (2 * N.pos p + 1). lia.
  - change (N.pos p~0) with (2 * N.pos p). lia.
  - cbn. lia.
Qed.

Lemma size_nat_gt v : v < 2 ^ N.of_nat (N.size_nat v).
Proof. destruct v as [|p]; [cbn; lia|apply pos_size_gt]. Qed.

(* little-endian bytes of v: what the drain loop pushes *)
Lemma be_min_fuel_step f v : v <> 0 -> be_min_fuel (S f) v = be_min_fuel f (v / 256) ++ [v mod 256].
Proof. intros H. cbn [be_min_fuel]. replace (v =? 0) with false by lia. reflexivity. Qed.

Lemma be_min_fuel_zero f : be_min_fuel f 0 = [].
Proof. destruct f; reflexivity. Qed.

Lemma div256_lt v k : v < 2 ^ N.of_nat (S k) -> v / 256 < 2 ^ N.of_nat k.
Proof.
  rewrite pow2_succ. intros H.
  assert (v / 256 <= v / 2). { apply N.div_le_compat_l. lia. }
  assert (v / 2 < 2 ^ N.of_nat k) by (apply N.div_lt_upper_bound; lia). lia.
Qed.

(* fuel independence of be_min_fuel *)
Lemma be_min_fuel_enough f1 : forall f2 v, v < 2 ^ N.of_nat f1 -> v < 2 ^ N.of_nat f2 ->
  be_min_fuel f1 v = be_min_fuel f2 v.
Proof.
  induction f1 as [|f1 IH]; intros f2 v H1 H2.
  - cbn in H1. assert (v = 0) by lia. subst. rewrite !be_min_fuel_zero. reflexivity.
  - destruct f2 as [|f2].
    + cbn in H2. assert (v = 0) by lia. subst. reflexivity.
    + cbn [be_min_fuel]. destruct (v =? 0); [reflexivity|]. f_equal. apply IH; apply div256_lt; assumption.
Qed.

Lemma be_min_step v : v <> 0 -> be_min v = be_min (v / 256) ++ [v mod 256].
Proof.
  intros H. unfold be_min. rewrite be_min_fuel_step by exact H. f_equal.
  apply be_min_fuel_enough.
  - apply div256_lt. rewrite pow2_succ. pose proof (size_nat_gt v). lia.
  - pose proof (size_nat_gt (v / 256)). rewrite pow2_succ. lia.
Qed.

Lemma be_min_zero : be_min 0 = [].
Proof. reflexivity. Qed.

(* length of be_min: the number of base-256 digits *)
Lemma be_min_len_bound w : forall v, v < 256 ^ w -> len (be_min v) <= w.
Proof.
  induction w as [|w IH] using N.peano_ind; intros v H.
  - rewrite N.pow_0_r in H. assert (v = 0) by lia. subst. rewrite be_min_zero, len_nil. lia.
  - destruct (N.eq_dec v 0) as [->|Hne]; [rewrite be_min_zero, len_nil; lia|].
    rewrite be_min_step by exact Hne. rewrite len_app.
    rewrite N.pow_succ_r in H by lia.
    assert (v / 256 < 256 ^ w) by (apply N.div_lt_upper_bound; lia).
    specialize (IH _ H0). unfold len at 2. cbn [length]. lia.
Qed.

Lemma drain_S f v size out : drain (S f) v size out =
  if v =? 0 then Ok out else if len out <? size then drain f (v / 256) size (out ++ [v mod 256]) else Panic 2.
Proof. reflexivity. Qed.

Lemma drain_spec fuel : forall v size out, v < 2 ^ N.of_nat fuel ->
  len out + len (be_min v) <= size ->
  drain (S fuel) v size out = Ok (out ++ rev (be_min v)).
Proof.
  induction fuel as [|f IH]; intros v size out Hv Hs.
  - cbn in Hv. assert (v = 0) by lia. subst. rewrite drain_S. change (0 =? 0) with true. cbv iota.
    rewrite be_min_zero. cbn [rev]. rewrite app_nil_r. reflexivity.
  - rewrite drain_S. destruct (v =? 0) eqn:E.
    + assert (v = 0) by lia. subst. rewrite be_min_zero. cbn [rev]. rewrite app_nil_r. reflexivity.
    + assert (Hne : v <> 0) by lia. rewrite be_min_step in * by exact Hne.
      rewrite len_app in Hs. unfold len in Hs at 3. cbn [length] in Hs.
      replace (len out <? size) with true by lia.
      rewrite IH.
      * f_equal. rewrite rev_app_distr. cbn [rev app]. rewrite <- app_assoc. reflexivity.
      * apply div256_lt. exact Hv.
      * rewrite len_app. unfold len at 2. cbn [length]. lia.
Qed.

Theorem option_from_uint_spec v w : v < 256 ^ w -> option_from_uint v w = Ok (be_min v).
Proof.
  intros H. unfold option_from_uint.
  destruct (v =? 0) eqn:E0; [assert (v = 0) by lia; subst; reflexivity|].
  destruct (v <? 256) eqn:E1.
  - f_equal. rewrite be_min_step by lia. replace (v / 256) with 0 by lia. rewrite be_min_zero.
    cbn [app]. f_equal. lia.
  - rewrite drain_spec.
    + cbn [bind app]. rewrite rev_involutive. reflexivity.
    + apply size_nat_gt.
    + rewrite len_nil. pose proof (be_min_len_bound w v H). lia.
Qed.

(* value of a byte string; be_value inverts be_min *)
Lemma be_value_app a b : be_value (a ++ [b]) = be_value a * 256 + b.
Proof. unfold be_value. rewrite fold_left_app. reflexivity. Qed.

Theorem be_value_min v : be_value (be_min v) = v.
Proof.
  induction v as [v IH] using (well_founded_induction N.lt_wf_0).
  destruct (N.eq_dec v 0) as [->|Hne]; [reflexivity|].
  rewrite be_min_step by exact Hne. rewrite be_value_app. rewrite IH by (apply N.div_lt; lia). lia.
Qed.

Theorem be_min_no_leading_zero v : match be_min v with [] => v = 0 | b :: _ => b <> 0 end.
Proof.
  induction v as [v IH] using (well_founded_induction N.lt_wf_0).
  destruct (N.eq_dec v 0) as [->|Hne]; [reflexivity|].
  rewrite be_min_step by exact Hne.
  specialize (IH (v / 256) ltac:(apply N.div_lt; lia)).
  destruct (be_min (v / 256)) as [|b r]; cbn [app]; [|exact IH].
  lia.
Qed.

Lemma be_min_wf v : bytes_wf (be_min v).
Proof.
  induction v as [v IH] using (well_founded_induction N.lt_wf_0).
  destruct (N.eq_dec v 0) as [->|Hne]; [constructor|].
  rewrite be_min_step by exact Hne. apply Forall_app. split; [apply IH; apply N.div_lt; lia|].
  constructor; [lia|constructor].
Qed.

(* decoding: the shift-and-add fold is the big-endian value as long as it fits 64 bits *)
Lemma be_value_bound bs : bytes_wf bs -> be_value bs < 256 ^ len bs.
Proof.
  induction bs as [|b bs IH] using rev_ind; intros Hw; [cbn; lia|].
  apply Forall_app in Hw. destruct Hw as (Hw & Hb). inversion Hb as [|? ? Hb' _]; subst.
  rewrite be_value_app, len_app. unfold len at 2. cbn [length].
  replace (len bs + N.of_nat 1) with (N.succ (len bs)) by lia. rewrite N.pow_succ_r by lia.
  specialize (IH Hw). lia.
Qed.

Lemma be_fold_value bs : bytes_wf bs -> len bs <= 8 -> be_fold bs = be_value bs.
Proof.
  induction bs as [|b bs IH] using rev_ind; intros Hw Hl; [reflexivity|].
  apply Forall_app in Hw. destruct Hw as (Hw & Hb).
  rewrite len_app in Hl. unfold len in Hl at 2. cbn [length] in Hl.
  unfold be_fold, be_value in *. rewrite !fold_left_app. cbn [fold_left].
  rewrite IH by (auto; lia). fold (be_value bs).
  pose proof (be_value_bound bs Hw) as HB.
  assert (256 ^ len bs <= 256 ^ 7) by (apply N.pow_le_mono_r; lia).
  assert (be_value bs * 256 < U64). { unfold U64. change (256 ^ 7) with 72057594037927936 in H. lia. }
  rewrite N.mod_small by assumption. reflexivity.
Qed.

Theorem option_to_uint_spec bs w : bytes_wf bs -> w <= 8 ->
  option_to_uint bs w = if len bs <=? w then Ok (be_value bs) else Err ERR_INCOMPATIBLE.
Proof.
  intros Hw Hle. unfold option_to_uint.
  destruct (len bs <=? w) eqn:E.
  - replace (w <? len bs) with false by lia. rewrite be_fold_value by (auto; lia). reflexivity.
  - replace (w <? len bs) with true by lia. reflexivity.
Qed.

(* the `as $type` cast is exact: the value fits the width *)
Theorem uint_try_from_spec bs w : bytes_wf bs -> w <= 8 ->
  uint_try_from bs w = if len bs <=? w then Ok (be_value bs) else Err ERR_INCOMPATIBLE.
Proof.
  intros Hw Hle. unfold uint_try_from. rewrite option_to_uint_spec by assumption.
  destruct (len bs <=? w) eqn:E; cbn [bind]; [|reflexivity].
  f_equal. apply N.mod_small.
  pose proof (be_value_bound bs Hw). assert (256 ^ len bs <= 256 ^ w) by (apply N.pow_le_mono_r; lia). lia.
Qed.

Theorem uint_roundtrip v w : w <= 8 -> v < 256 ^ w ->
  exists bs, option_from_uint v w = Ok bs /\ uint_try_from bs w = Ok v.
Proof.
  intros Hw Hv. exists (be_min v). split; [apply option_from_uint_spec; exact Hv|].
  rewrite uint_try_from_spec by (auto using be_min_wf).
  pose proof (be_min_len_bound w v Hv). replace (len (be_min v) <=? w) with true by lia.
  rewrite be_value_min. reflexivity.
Qed.

(* typed accessors: what add_option_as stores is what get_options_as returns, in order *)
Lemma opt_get_insert m k x : opt_get (opt_insert m k x) k = Some x.
Proof.
  induction m as [|[k' vs] m IH]; cbn [opt_insert opt_get].
  - rewrite N.eqb_refl. reflexivity.
  - destruct (k =? k') eqn:E1.
    + cbn [opt_get]. rewrite N.eqb_refl. reflexivity.
    + destruct (k <? k') eqn:E2; cbn [opt_get].
      * rewrite N.eqb_refl. reflexivity.
      * replace (k' =? k) with false by lia. rewrite E2. exact IH.
Qed.

Lemma opt_get_insert_other m k k' x : k <> k' -> opt_get (opt_insert m k x) k' = opt_get m k'.
Proof.
  intros Hne. induction m as [|[k2 vs] m IH]; cbn [opt_insert opt_get].
  - replace (k =? k') with false by lia. destruct (k' <? k); reflexivity.
  - destruct (k =? k2) eqn:E1.
    + assert (k = k2) by lia. subst. cbn [opt_get]. replace (k2 =? k') with false by lia. reflexivity.
    + destruct (k <? k2) eqn:E2; cbn [opt_get].
      * replace (k =? k') with false by lia.
        destruct (k' <? k) eqn:E3; [|reflexivity].
        replace (k2 =? k') with false by lia. replace (k' <? k2) with true by lia. reflexivity.
      * rewrite IH. reflexivity.
Qed.

Theorem add_option_as_uint_spec p k w v : 0 < w -> w <= 8 -> v < 256 ^ w ->
  exists p', add_option_as p k w v [] = Ok p' /\
    get_option p' k = Some ((match get_option p k with Some l => l | None => [] end) ++ [be_min v]) /\
    (forall k', k' <> k -> get_option p' k' = get_option p k') /\
    hdr p' = hdr p /\ token p' = token p /\ payload p' = payload p /\
    dec_value w (be_min v) = Ok (v, []).
Proof.
  intros Hw0 Hw Hv. unfold add_option_as, enc_value. replace (w =? 0) with false by lia.
  rewrite option_from_uint_spec by exact Hv. cbn [bind]. eexists. split; [reflexivity|].
  unfold add_option, get_option, set_opts, opt_add. cbn [opts hdr token payload].
  repeat split.
  - destruct (opt_get (opts p) k); rewrite opt_get_insert; reflexivity.
  - intros k' Hne. destruct (opt_get (opts p) k); apply opt_get_insert_other; lia.
  - unfold dec_value. replace (w =? 0) with false by lia.
    rewrite uint_try_from_spec by (auto using be_min_wf).
    pose proof (be_min_len_bound w v Hv). replace (len (be_min v) <=? w) with true by lia.
    cbn [bind]. rewrite be_value_min. reflexivity.
Qed.

Theorem string_spec bs : string_try_from bs = if utf8_valid bs then Ok bs else Err ERR_INCOMPATIBLE.
Proof. reflexivity. Qed.

Theorem set_observe_value_spec p v : v < U32 ->
  exists p', set_observe_value p v = Ok p' /\ get_option p' OPT_OBSERVE = Some [be_min v] /\
             get_observe_value p' = Some (Ok v) /\
             (forall k', k' <> OPT_OBSERVE -> get_option p' k' = get_option p k').
Proof.
  intros Hv. unfold set_observe_value.
  destruct (add_option_as_uint_spec (clear_option p OPT_OBSERVE) OPT_OBSERVE 4 v ltac:(lia) ltac:(lia) Hv)
    as (p' & E & G & O & _ & _ & _ & D).
  exists p'. split; [exact E|].
  assert (GC : get_option (clear_option p OPT_OBSERVE) OPT_OBSERVE = Some [] \/ get_option (clear_option p OPT_OBSERVE) OPT_OBSERVE = None).
  { unfold clear_option, get_option, set_opts, opt_clear. cbn [opts].
    destruct (opt_get (opts p) OPT_OBSERVE) eqn:EG; [left; apply opt_get_insert|right; exact EG]. }
  assert (G' : get_option p' OPT_OBSERVE = Some [be_min v]) by (rewrite G; destruct GC as [-> | ->]; reflexivity).
  repeat split.
  - exact G'.
  - unfold get_observe_value, get_first_option_as, get_first_option. unfold get_option in G'. rewrite G'. rewrite D. reflexivity.
  - intros k' Hne. rewrite O by exact Hne. unfold clear_option, get_option, set_opts, opt_clear. cbn [opts].
    destruct (opt_get (opts p) OPT_OBSERVE); [apply opt_get_insert_other; lia|reflexivity].
Qed.

(* Tac.v -- proof-side prelude: lia with div/mod, small tactics. *)
From CoapV Require Export Base.
Ltac Zify.zify_post_hook ::= Z.div_mod_to_equations.

Ltac inv H := inversion H; subst; clear H.

Lemma len_app {A} (a b : list A) : len (a ++ b) = len a + len b.
Proof. unfold len. rewrite app_length. lia. Qed.
Lemma len_nil {A} : len (@nil A) = 0.
Proof. reflexivity. Qed.
Lemma len_cons {A} (x : A) l : len (x :: l) = 1 + len l.
Proof. unfold len. cbn [length]. lia. Qed.

(* P19.v -- C19: convenience accessors and trait views agree with the raw state. *)
From CoapV Require Import proofs.Tac Header Packet UintOpt Utf8 Numbers TypedOpt Accessors Suite06 Suite19
  proofs.P06 proofs.P05 WireSpec PacketOps proofs.PWire proofs.PEnc proofs.PDec.

Theorem method_roundtrip p m : get_method (set_method p m) = m /\
  token (set_method p m) = token p /\ opts (set_method p m) = opts p /\ payload (set_method p m) = payload p /\
  vtt (hdr (set_method p m)) = vtt (hdr p) /\ mid (hdr (set_method p m)) = mid (hdr p).
Proof. destruct m; repeat split; reflexivity. Qed.

(* get_method reads the code: a named method for codes 0.01-0.07, UnKnown for everything else *)
Theorem method_of_byte p b : b < 256 -> code (hdr p) = class_of_byte b ->
  get_method p = match b with 1 => Get | 2 => Post | 3 => Put | 4 => Delete | 5 => Fetch | 6 => Patch | 7 => IPatch | _ => ReqUnKnown end.
Proof.
  intros Hb Hc. unfold get_method. rewrite Hc.
  assert (HA : forall x, x < 256 ->
     req_index (match class_of_byte x with
      | Request Get => Get | Request Post => Post | Request Put => Put | Request Delete => Delete
      | Request Fetch => Fetch | Request Patch => Patch | Request IPatch => IPatch | _ => ReqUnKnown end) =
     req_index (match x with 1 => Get | 2 => Post | 3 => Put | 4 => Delete | 5 => Fetch | 6 => Patch | 7 => IPatch | _ => ReqUnKnown end)).
  { intros x Hx. apply N.eqb_eq. revert x Hx.
    apply (P05.forall_range (fun x => req_index (match class_of_byte x with
      | Request Get => Get | Request Post => Post | Request Put => Put | Request Delete => Delete
      | Request Fetch => Fetch | Request Patch => Patch | Request IPatch => IPatch | _ => ReqUnKnown end) =?
     req_index (match x with 1 => Get | 2 => Post | 3 => Put | 4 => Delete | 5 => Fetch | 6 => Patch | 7 => IPatch | _ => ReqUnKnown end)) 256).
    vm_compute. reflexivity. }
  specialize (HA b Hb).
  assert (INJ : forall a c, req_index a = req_index c -> a = c) by (intros [] []; cbn; intros; try reflexivity; discriminate).
  apply INJ. exact HA.
Qed.

Theorem status_roundtrip p s : get_status (set_status p s) = s /\
  token (set_status p s) = token p /\ opts (set_status p s) = opts p /\ payload (set_status p s) = payload p /\
  vtt (hdr (set_status p s)) = vtt (hdr p) /\ mid (hdr (set_status p s)) = mid (hdr p).
Proof. repeat split; reflexivity. Qed.

Theorem status_of_byte p b : b < 256 -> code (hdr p) = class_of_byte b ->
  get_status p = match class_of_byte b with Response s => s | _ => RespUnKnown end.
Proof. intros _ Hc. unfold get_status. rewrite Hc. reflexivity. Qed.

(* ---- paths ---- *)
Lemma split_nonempty s cur : split_slash s cur <> [].
Proof. revert cur. induction s as [|c s IH]; intros cur; cbn [split_slash]; [discriminate|]. destruct (c =? 47); [discriminate|apply IH]. Qed.

Lemma split_join_gen s : forall cur, join_slash (split_slash s cur) = rev cur ++ s.
Proof.
  induction s as [|c s IH]; intros cur; cbn [split_slash].
  - cbn. rewrite app_nil_r. reflexivity.
  - destruct (c =? 47) eqn:E.
    + assert (c = 47) by lia. subst.
      specialize (IH []). cbn [rev app] in IH.
      destruct (split_slash s []) as [|x r] eqn:ES.
      * exfalso. eapply split_nonempty. exact ES.
      * change (join_slash (rev cur :: x :: r)) with (rev cur ++ 47 :: join_slash (x :: r)). rewrite IH. reflexivity.
    + rewrite IH. cbn [rev]. rewrite <- app_assoc. reflexivity.
Qed.

Theorem split_join s : join_slash (split_slash s []) = s.
Proof. apply split_join_gen. Qed.

Lemma split_head_empty s r : split_slash s [] = [] :: r -> s = [] /\ r = [] \/ exists s', s = 47 :: s' /\ r = split_slash s' [].
Proof.
  destruct s as [|c s]; cbn [split_slash]; [intros [= <-]; auto|].
  destruct (c =? 47) eqn:E.
  - intros [= <-]. right. exists s. split; [f_equal; lia|reflexivity].
  - intros H. exfalso.
    assert (HG : forall s cur, cur <> [] -> forall r, split_slash s cur <> [] :: r).
    { clear. induction s as [|c s IH]; intros cur Hc r; cbn [split_slash].
      - intros [= H]. apply Hc. destruct cur; [reflexivity|]. cbn in H. destruct (rev cur); discriminate.
      - destruct (c =? 47); [|apply IH; discriminate].
        intros [= H _]. apply Hc. destruct cur; [reflexivity|]. cbn in H. destruct (rev cur); discriminate. }
    eapply (HG s [c]); [discriminate|exact H].
Qed.

Theorem path_join s : join_slash (path_segments s) = strip_slash s.
Proof.
  unfold path_segments. destruct (split_slash s []) as [|x r] eqn:E; [exfalso; eapply split_nonempty; exact E|].
  destruct x as [|b x'].
  - destruct (split_head_empty s r E) as [(-> & ->)|(s' & -> & ->)]; [reflexivity|].
    cbn [strip_slash]. change (47 =? 47) with true. cbv iota. apply split_join.
  - rewrite <- E. rewrite split_join. destruct s as [|c s']; [reflexivity|].
    cbn [strip_slash]. destruct (c =? 47) eqn:E47; [|reflexivity].
    exfalso. cbn [split_slash] in E. rewrite E47 in E. discriminate.
Qed.

Lemma fold_add_get segs : forall p k,
  get_option (fold_left (fun q seg => add_option q k seg) segs p) k =
    match segs with [] => get_option p k | _ => Some ((match get_option p k with Some l => l | None => [] end) ++ segs) end
  /\ (forall k', k' <> k -> get_option (fold_left (fun q seg => add_option q k seg) segs p) k' = get_option p k').
Proof.
  induction segs as [|x segs IH]; intros p k; cbn [fold_left]; [split; auto|].
  destruct (IH (add_option p k x) k) as (I1 & I2).
  assert (G : get_option (add_option p k x) k = Some ((match get_option p k with Some l => l | None => [] end) ++ [x])).
  { unfold add_option, get_option, set_opts, opt_add. cbn [opts].
    destruct (opt_get (opts p) k); rewrite opt_get_insert; reflexivity. }
  assert (G' : forall k', k' <> k -> get_option (add_option p k x) k' = get_option p k').
  { intros k' Hne. unfold add_option, get_option, set_opts, opt_add. cbn [opts].
    destruct (opt_get (opts p) k); apply opt_get_insert_other; lia. }
  split.
  - rewrite I1, G. destruct segs; [reflexivity|]. rewrite <- app_assoc. reflexivity.
  - intros k' Hne. rewrite I2 by exact Hne. apply G'. exact Hne.
Qed.

Lemma clear_get p k : get_option (clear_option p k) k = match get_option p k with Some _ => Some [] | None => None end
  /\ (forall k', k' <> k -> get_option (clear_option p k) k' = get_option p k').
Proof.
  unfold clear_option, get_option, set_opts, opt_clear. cbn [opts]. split.
  - destruct (opt_get (opts p) k) eqn:E; [apply opt_get_insert|exact E].
  - intros k' Hne. destruct (opt_get (opts p) k); [apply opt_get_insert_other; lia|reflexivity].
Qed.

Lemma filter_all {A} (f : A -> bool) l : forallb f l = true -> filter f l = l.
Proof. induction l as [|x l IH]; cbn; [reflexivity|]. intros H. apply andb_true_iff in H. destruct H as (H1 & H2). rewrite H1, IH by exact H2. reflexivity. Qed.

(* what set_path stores is what the getters, the raw accessor (and hence the bytes) show *)
Theorem path_roundtrip p s : forallb utf8_valid (path_segments s) = true ->
  let p' := set_path p s in
  (match path_segments s with [] => True | _ => get_option p' OPT_URI_PATH = Some (path_segments s) end) /\
  get_path p' = strip_slash s /\ get_path_as_vec p' = Ok (path_segments s) /\
  (forall k', k' <> OPT_URI_PATH -> get_option p' k' = get_option p k') /\
  hdr p' = hdr p /\ token p' = token p /\ payload p' = payload p.
Proof.
  intros Hv p'. unfold p', set_path.
  destruct (fold_add_get (path_segments s) (clear_option p OPT_URI_PATH) OPT_URI_PATH) as (F1 & F2).
  destruct (clear_get p OPT_URI_PATH) as (C1 & C2).
  assert (HH : forall segs q, hdr (fold_left (fun q seg => add_option q OPT_URI_PATH seg) segs q) = hdr q /\
                          token (fold_left (fun q seg => add_option q OPT_URI_PATH seg) segs q) = token q /\
                          payload (fold_left (fun q seg => add_option q OPT_URI_PATH seg) segs q) = payload q).
  { induction segs as [|x segs IH]; intros q; cbn [fold_left]; [auto|]. destruct (IH (add_option q OPT_URI_PATH x)) as (A & B & C).
    rewrite A, B, C. auto. }
  destruct (HH (path_segments s) (clear_option p OPT_URI_PATH)) as (H1 & H2 & H3).
  assert (G : match path_segments s with
              | [] => get_option (fold_left (fun q seg => add_option q OPT_URI_PATH seg) (path_segments s) (clear_option p OPT_URI_PATH)) OPT_URI_PATH
                      = match get_option p OPT_URI_PATH with Some _ => Some [] | None => None end
              | _ => get_option (fold_left (fun q seg => add_option q OPT_URI_PATH seg) (path_segments s) (clear_option p OPT_URI_PATH)) OPT_URI_PATH
                      = Some (path_segments s) end).
  { rewrite F1, C1. destruct (path_segments s); [reflexivity|]. destruct (get_option p OPT_URI_PATH); reflexivity. }
  repeat split.
  - destruct (path_segments s); [exact I|exact G].
  - unfold get_path. pose proof (path_join s) as PJ. destruct (path_segments s) as [|x r] eqn:E.
    + rewrite G. rewrite <- PJ. destruct (get_option p OPT_URI_PATH); reflexivity.
    + rewrite G. rewrite filter_all by exact Hv. exact PJ.
  - unfold get_path_as_vec. destruct (path_segments s) as [|x r] eqn:E.
    + rewrite G. destruct (get_option p OPT_URI_PATH); reflexivity.
    + rewrite G, Hv. reflexivity.
  - intros k' Hne. rewrite F2 by exact Hne. apply C2. exact Hne.
  - rewrite H1. reflexivity.
  - rewrite H2. reflexivity.
  - rewrite H3. reflexivity.
Qed.

(* ---- observe flag and content format ---- *)
Theorem observe_flag_roundtrip p f :
  exists p', set_observe_flag p f = Ok p' /\ get_observe_flag p' = Some (Ok f) /\
             get_option p' OPT_OBSERVE = Some [be_min (of_observe f)] /\
             (forall k', k' <> OPT_OBSERVE -> get_option p' k' = get_option p k').
Proof.
  unfold set_observe_flag.
  destruct (set_observe_value_spec p (of_observe f)) as (p' & E & G & V & O).
  { destruct f; cbn; unfold U32; lia. }
  exists p'. repeat split; auto.
  unfold get_observe_flag. rewrite V. destruct f; reflexivity.
Qed.

Theorem observe_flag_raw p :
  get_observe_flag p =
    match raw_of p 6 with
    | [] => None
    | b :: _ => Some (if len b <=? 4 then match observe_of (be_fold b mod 256 ^ 4) with Some o => Ok o | None => Err 12 end else Err 12)
    end.
Proof.
  unfold get_observe_flag, get_observe_value, get_first_option_as, get_first_option, raw_of, OPT_OBSERVE.
  destruct (opt_get (opts p) 6) as [[|b r]|]; try reflexivity.
  unfold dec_value. change (4 =? 0) with false. cbv iota. unfold uint_try_from, option_to_uint.
  destruct (len b <=? 4) eqn:E.
  - replace (4 <? len b) with false by lia. cbn [bind]. reflexivity.
  - replace (4 <? len b) with true by lia. reflexivity.
Qed.

Theorem content_format_roundtrip p c :
  exists p', set_content_format p c = Ok p' /\ get_content_format p' = Some c /\
             get_option p' OPT_CONTENT_FORMAT = Some [be_min (of_content_format c)] /\
             (forall k', k' <> OPT_CONTENT_FORMAT -> get_option p' k' = get_option p k').
Proof.
  assert (Hn : of_content_format c < 65536) by (destruct c; cbn; lia).
  unfold set_content_format. unfold U16. replace (of_content_format c <? 65536) with true by lia.
  destruct (add_option_as_uint_spec (clear_option p OPT_CONTENT_FORMAT) OPT_CONTENT_FORMAT 2 (of_content_format c)
              ltac:(lia) ltac:(lia) ltac:(change (256 ^ 2) with 65536; lia)) as (p' & E & G & O & _ & _ & _ & D).
  destruct (clear_get p OPT_CONTENT_FORMAT) as (C1 & C2).
  exists p'. split; [exact E|].
  assert (G' : get_option p' OPT_CONTENT_FORMAT = Some [be_min (of_content_format c)]).
  { rewrite G, C1. destruct (get_option p OPT_CONTENT_FORMAT); reflexivity. }
  repeat split.
  - unfold get_content_format, get_first_option_as, get_first_option. unfold get_option in G'. rewrite G', D.
    apply P05.cf_names.
  - exact G'.
  - intros k' Hne. rewrite O by exact Hne. apply C2. exact Hne.
Qed.

(* ---- trait views ---- *)
Theorem readable_view p : readable_options p = flatten (opts p) /\ readable_code p = code (hdr p) /\ readable_payload p = payload p.
Proof. repeat split. Qed.

Lemma fold_add_is_push_all l : forall q,
  opts (fold_left (fun q kv => add_option q (fst kv) (snd kv)) l q) = push_all (opts q) l /\
  hdr (fold_left (fun q kv => add_option q (fst kv) (snd kv)) l q) = hdr q /\
  token (fold_left (fun q kv => add_option q (fst kv) (snd kv)) l q) = token q /\
  payload (fold_left (fun q kv => add_option q (fst kv) (snd kv)) l q) = payload q.
Proof.
  induction l as [|[k v] l IH]; intros q; cbn [fold_left fst snd]; [auto|].
  destruct (IH (add_option q k v)) as (A & B & C & D). rewrite A, B, C, D. repeat split; reflexivity.
Qed.

(* a message copied through the generic interface into a fresh packet has the same code byte,
   the same options in ascending number order, and the same payload *)
Theorem copy_into_fresh src : pkt_wf src ->
  let d := set_from_message packet_new src in
  class_to_byte (code (hdr d)) = class_to_byte (code (hdr src)) /\
  flatten (opts d) = flatten (opts src) /\ payload d = payload src /\
  token d = token packet_new /\ vtt (hdr d) = vtt (hdr packet_new) /\ mid (hdr d) = mid (hdr packet_new).
Proof.
  intros (Hv & Ht & Ht8 & Htw & Hc & Hm & Hk & Hpw) d. unfold d, set_from_message, readable_options, readable_code, readable_payload.
  destruct (fold_add_is_push_all (flatten (opts src)) (set_code packet_new (class_of_byte (class_to_byte (code (hdr src)))))) as (A & B & C & D).
  unfold set_payload. cbn [hdr token opts payload].
  rewrite A, B, C. cbn [set_code set_hdr hdr token opts payload packet_new code vtt mid header_new].
  destruct (flatten_ascending (opts src) 0 Hk) as (Hasc & _).
  destruct (push_all_spec (flatten (opts src)) [] 0 I (Forall_nil _) Hasc) as (_ & Hfl).
  repeat split; try reflexivity.
  - apply class_byte_wf. exact Hc.
  - exact Hfl.
Qed.

(* P13.v -- C13: block option values. *)
From CoapV Require Import proofs.Tac UintOpt BlockValue Suite13 proofs.P06.

Lemma find_excess_spec fuel : forall i target, 0 < target -> i <= N.log2 target + 1 ->
  (N.to_nat (N.log2 target + 1 - i) < fuel)%nat ->
  find_excess fuel i target = Some (N.log2 target + 1).
Proof.
  induction fuel as [|f IH]; intros i target Ht Hi Hf; [lia|].
  cbn [find_excess]. destruct (target <? 2 ^ i) eqn:E.
  - f_equal. assert (N.log2 target < i) by (apply N.log2_lt_pow2; lia). lia.
  - assert (~ N.log2 target < i). { intros H. apply N.log2_lt_pow2 in H; lia. }
    apply IH; try lia.
Qed.

Lemma find_excess_none fuel : forall i target, i + N.of_nat fuel <= 64 -> 2 ^ 63 <= target ->
  find_excess fuel i target = None.
Proof.
  induction fuel as [|f IH]; intros i target Hi Ht; [reflexivity|].
  cbn [find_excess]. assert (2 ^ i <= 2 ^ 63) by (apply N.pow_le_mono_r; lia).
  replace (target <? 2 ^ i) with false by lia. apply IH; lia.
Qed.

Lemma largest_pow2_spec target : 0 < target -> target < 2 ^ 63 ->
  largest_power_of_2_not_in_excess target = Some (N.log2 target).
Proof.
  intros H0 H64. unfold largest_power_of_2_not_in_excess. replace (target =? 0) with false by lia.
  assert (N.log2 target < 63) by (apply N.log2_lt_pow2; [lia|exact H64]).
  rewrite (find_excess_spec 64 0 target) by lia. f_equal. lia.
Qed.

Theorem block_new_spec num more size : size < U64 ->
  block_new num more size =
    if (size =? 0) || (4096 <=? size) || (65536 <=? num) then Err ERR_BLOCK
    else Ok (mkBlock num more (N.log2 size - 4)).
Proof.
  intros H64. unfold block_new.
  destruct (size =? 0) eqn:E0.
  - assert (size = 0) by lia. subst. reflexivity.
  - cbn [orb]. destruct (size <? 2 ^ 63) eqn:EB.
    + rewrite largest_pow2_spec by lia.
      destruct (4096 <=? size) eqn:E1; cbn [orb].
      * assert (12 <= N.log2 size) by (change 12 with (N.log2 4096); apply N.log2_le_mono; lia).
        replace (7 <? N.log2 size - 4) with true by lia. reflexivity.
      * assert (N.log2 size < 12) by (apply N.log2_lt_pow2; [lia|change (2 ^ 12) with 4096; lia]).
        replace (7 <? N.log2 size - 4) with false by lia.
        unfold U16. destruct (65536 <=? num) eqn:E2.
        -- replace (num <? 65536) with false by lia. reflexivity.
        -- replace (num <? 65536) with true by lia. reflexivity.
    + unfold largest_power_of_2_not_in_excess. rewrite E0.
      rewrite find_excess_none by (cbn; lia).
      assert (4096 <= size) by (change (2 ^ 63) with 9223372036854775808 in EB; lia).
      replace (4096 <=? size) with true by lia. reflexivity.
Qed.

Theorem block_new_size num more size b : 0 < size -> size < 4096 -> block_new num more size = Ok b ->
  block_size b = N.max 16 (2 ^ N.log2 size) /\ (16 <= size -> block_size b <= size /\ size < 2 * block_size b).
Proof.
  intros H0 H1. rewrite block_new_spec by (unfold U64; lia).
  replace (size =? 0) with false by lia. replace (4096 <=? size) with false by lia. cbn [orb].
  destruct (65536 <=? num); [discriminate|]. intros [= <-]. unfold block_size. cbn [b_szx].
  pose proof (N.log2_spec size H0) as (L1 & L2). rewrite N.pow_succ_r in L2 by lia.
  destruct (N.log2 size <? 4) eqn:E.
  - replace (N.log2 size - 4 + 4) with 4 by lia.
    assert (2 ^ N.log2 size < 2 ^ 4) by (apply N.pow_lt_mono_r; lia).
    change (2 ^ 4) with 16 in *. split; [lia|]. intros. lia.
  - replace (N.log2 size - 4 + 4) with (N.log2 size) by lia.
    assert (2 ^ 4 <= 2 ^ N.log2 size) by (apply N.pow_le_mono_r; lia). change (2 ^ 4) with 16 in *.
    split; [lia|]. intros. lia.
Qed.

Theorem block_roundtrip num more szx : num < 65536 -> szx < 8 ->
  let b := mkBlock num more szx in
  block_encode b = Ok (be_min (num * 16 + b2n more * 8 + szx)) /\
  block_decode (be_min (num * 16 + b2n more * 8 + szx)) = Ok b /\
  block_size b = 2 ^ (szx + 4).
Proof.
  intros Hn Hs b. unfold block_encode, block_decode, b. cbn [b_num b_more b_szx].
  replace (szx mod 8) with szx by lia.
  set (v := num * 16 + b2n more * 8 + szx).
  assert (Hb : b2n more < 2) by (destruct more; cbn; lia).
  assert (Hv : v < 256 ^ 3) by (change (256 ^ 3) with 16777216; unfold v; lia).
  split; [apply option_from_uint_spec; change (256 ^ 4) with 4294967296; change (256 ^ 3) with 16777216 in Hv; lia|].
  split; [|reflexivity].
  pose proof (be_min_len_bound 3 v Hv). replace (3 <? len (be_min v)) with false by lia.
  rewrite uint_try_from_spec by (auto using be_min_wf; lia).
  replace (len (be_min v) <=? 4) with true by lia. cbn [bind]. rewrite be_value_min.
  replace (v / 16) with num by (unfold v; lia).
  replace (65535 <? num) with false by lia.
  replace ((v / 8) mod 2) with (b2n more) by (unfold v; lia).
  replace (v mod 8) with szx by (unfold v; lia).
  f_equal. f_equal. destruct more; reflexivity.
Qed.

Theorem block_decode_spec bs : bytes_wf bs ->
  block_decode bs =
    if (3 <? len bs) || (65535 <? be_value bs / 16) then Err ERR_INCOMPATIBLE
    else Ok (mkBlock (be_value bs / 16) ((be_value bs / 8) mod 2 =? 1) (be_value bs mod 8)).
Proof.
  intros Hw. unfold block_decode. destruct (3 <? len bs) eqn:E; [reflexivity|]. cbn [orb].
  rewrite uint_try_from_spec by (auto; lia). replace (len bs <=? 4) with true by lia. cbn [bind].
  reflexivity.
Qed.

Theorem block_decode_no_panic bs s : bytes_wf bs -> block_decode bs <> Panic s.
Proof. intros Hw. rewrite block_decode_spec by exact Hw. destruct (_ || _); discriminate. Qed.

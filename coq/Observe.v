(* Observe.v -- model of src/observe.rs: the Subject registry and create_notification. *)
From CoapV Require Import Base Header Packet UintOpt Numbers TypedOpt.

Record observer := mkObs { oe : N; otok : bytes; unack : N; pend : option N }.
(* a resource: sequence and observers in arrival order *)
Record resource := mkRes { rseq : N; robs : list observer }.
(* resources in order of creation (BTreeMap order is immaterial: every operation
   addresses a resource by its path or treats all resources alike) *)
Record subject := mkSubj { res : list (bytes * resource); limit : N }.
Definition subject_default : subject := mkSubj [] 10.

Inductive obs_op :=
| Register (e : N) (p : bytes) (tok : bytes)
| Deregister (e : N) (p : bytes) (tok : bytes)
| Changed (p : bytes) (mid : N) (conf : bool)
| Ack (e : N) (mid : N)
| SetLimit (l : N)
| SetSeq (p : bytes) (seq : N).      (* verification hook only *)

Fixpoint lookup_res (p : bytes) (l : list (bytes * resource)) : option resource :=
  match l with [] => None | (q, r) :: t => if bytes_eqb p q then Some r else lookup_res p t end.
Fixpoint update_res (p : bytes) (f : resource -> resource) (l : list (bytes * resource)) : list (bytes * resource) :=
  match l with [] => [] | (q, r) :: t => if bytes_eqb p q then (q, f r) :: t else (q, r) :: update_res p f t end.
(* entry(path).or_insert(Resource { observers: [], sequence: 0 }) *)
Definition ensure_res (p : bytes) (l : list (bytes * resource)) : list (bytes * resource) :=
  match lookup_res p l with Some _ => l | None => l ++ [(p, mkRes 0 [])] end.

(* register: replace the observer with the same endpoint in place, or push *)
Fixpoint reg_obs (o : observer) (l : list observer) : list observer :=
  match l with [] => [o] | x :: t => if oe x =? oe o then o :: t else x :: reg_obs o t end.
(* deregister: remove the first observer matching endpoint and token *)
Fixpoint dereg_obs (e : N) (tok : bytes) (l : list observer) : list observer :=
  match l with
  | [] => []
  | x :: t => if (oe x =? e) && bytes_eqb (otok x) tok then t else x :: dereg_obs e tok t
  end.
(* acknowledge: reset the first observer with that endpoint whose pending id matches *)
Definition ack_match (e mid : N) (x : observer) : bool :=
  match pend x with Some m => (oe x =? e) && (m =? mid) | None => false end.
Fixpoint ack_obs (e mid : N) (l : list observer) : list observer :=
  match l with
  | [] => []
  | x :: t => if ack_match e mid x then mkObs (oe x) (otok x) 0 None :: t else x :: ack_obs e mid t
  end.

(* resource_changed on an existing resource.  sequence: u32 checked add (Panic 40);
   per-observer counter: u16 checked add (Panic 41, shown unreachable) *)
Definition bump (mid : N) (conf : bool) (x : observer) : observer :=
  mkObs (oe x) (otok x) (if conf then unack x + 1 else unack x) (Some mid).

Definition round (lim mid : N) (conf : bool) (r : resource) : outcome resource :=
  if U32 <=? rseq r + 1 then Panic 40
  else if conf && existsb (fun x => U16 <=? unack x + 1) (robs r) then Panic 41
  else Ok (mkRes (rseq r + 1) (filter (fun x => unack x <=? lim) (map (bump mid conf) (robs r)))).

Definition step (s : subject) (o : obs_op) : outcome subject :=
  match o with
  | Register e p tok =>
      Ok (mkSubj (update_res p (fun r => mkRes (rseq r) (reg_obs (mkObs e tok 0 None) (robs r))) (ensure_res p (res s))) (limit s))
  | Deregister e p tok =>
      Ok (mkSubj (update_res p (fun r => mkRes (rseq r) (dereg_obs e tok (robs r))) (res s)) (limit s))
  | Changed p mid conf =>
      match lookup_res p (res s) with
      | None => Ok s
      | Some r => do r' <- round (limit s) mid conf r; Ok (mkSubj (update_res p (fun _ => r') (res s)) (limit s))
      end
  | Ack e mid =>
      Ok (mkSubj (map (fun pr => (fst pr, mkRes (rseq (snd pr)) (ack_obs e mid (robs (snd pr))))) (res s)) (limit s))
  | SetLimit l => Ok (mkSubj (res s) l)
  | SetSeq p q => Ok (mkSubj (update_res p (fun r => mkRes q (robs r)) (res s)) (limit s))
  end.

(* create_notification *)
Definition create_notification (mid : N) (tok : bytes) (seq : N) (pl : bytes) (conf : bool) : outcome packet :=
  let p := packet_new in
  let p := set_hdr p (set_version (hdr p) 1) in
  let p := set_hdr p (set_type (hdr p) (if conf then Confirmable else NonConfirmable)) in
  let p := set_code p (Response Content) in
  let p := set_mid p mid in
  do p <- set_token p tok;
  let p := set_payload p pl in
  set_observe_value p seq.

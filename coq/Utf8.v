(* Utf8.v -- well-formed UTF-8 byte sequences (Unicode Table 3-7): the model of
   core::str::from_utf8's verdict, and the scalar-value decoder. *)
From CoapV Require Import Base.

Definition inr (lo hi b : N) : bool := (lo <=? b) && (b <=? hi).

Fixpoint utf8_valid (s : bytes) : bool :=
  match s with
  | [] => true
  | b0 :: r0 =>
    if b0 <? 128 then utf8_valid r0
    else match r0 with
    | [] => false
    | b1 :: r1 =>
      if inr 194 223 b0 then inr 128 191 b1 && utf8_valid r1
      else match r1 with
      | [] => false
      | b2 :: r2 =>
        if b0 =? 224 then inr 160 191 b1 && inr 128 191 b2 && utf8_valid r2
        else if inr 225 236 b0 || inr 238 239 b0 then inr 128 191 b1 && inr 128 191 b2 && utf8_valid r2
        else if b0 =? 237 then inr 128 159 b1 && inr 128 191 b2 && utf8_valid r2
        else match r2 with
        | [] => false
        | b3 :: r3 =>
          if b0 =? 240 then inr 144 191 b1 && inr 128 191 b2 && inr 128 191 b3 && utf8_valid r3
          else if inr 241 243 b0 then inr 128 191 b1 && inr 128 191 b2 && inr 128 191 b3 && utf8_valid r3
          else if b0 =? 244 then inr 128 143 b1 && inr 128 191 b2 && inr 128 191 b3 && utf8_valid r3
          else false
        end
      end
    end
  end.

(* scalar values of a valid string (chars()); on invalid input the result is unspecified *)
Fixpoint utf8_decode (s : bytes) : list N :=
  match s with
  | [] => []
  | b0 :: r0 =>
    if b0 <? 128 then b0 :: utf8_decode r0
    else match r0 with
    | [] => []
    | b1 :: r1 =>
      if b0 <? 224 then ((b0 - 192) * 64 + (b1 - 128)) :: utf8_decode r1
      else match r1 with
      | [] => []
      | b2 :: r2 =>
        if b0 <? 240 then ((b0 - 224) * 4096 + (b1 - 128) * 64 + (b2 - 128)) :: utf8_decode r2
        else match r2 with
        | [] => []
        | b3 :: r3 => ((b0 - 240) * 262144 + (b1 - 128) * 4096 + (b2 - 128) * 64 + (b3 - 128)) :: utf8_decode r3
        end
      end
    end
  end.

(* char::encode_utf8 *)
Definition utf8_encode1 (c : N) : bytes :=
  if c <? 128 then [c]
  else if c <? 2048 then [192 + c / 64; 128 + c mod 64]
  else if c <? 65536 then [224 + c / 4096; 128 + (c / 64) mod 64; 128 + c mod 64]
  else [240 + c / 262144; 128 + (c / 4096) mod 64; 128 + (c / 64) mod 64; 128 + c mod 64].
Definition utf8_encode (cs : list N) : bytes := flat_map utf8_encode1 cs.

Definition is_scalar (c : N) : bool := (c <? 55296) || ((57343 <? c) && (c <? 1114112)).

(* Numbers.v -- model of the crate's number tables (src/packet.rs:51-348): CoapOption <-> u16,
   ContentFormat <-> usize, ObserveOption <-> usize, arm by arm as in the source.
   (Header tables -- MessageClass <-> u8, MessageType -- are in Header.v.) *)
From CoapV Require Import Base Header.

Inductive coap_option :=
| O_IfMatch
| O_UriHost
| O_ETag
| O_IfNoneMatch
| O_Observe
| O_UriPort
| O_LocationPath
| O_Oscore
| O_UriPath
| O_ContentFormat
| O_MaxAge
| O_UriQuery
| O_Accept
| O_LocationQuery
| O_Block2
| O_Block1
| O_ProxyUri
| O_ProxyScheme
| O_Size1
| O_Size2
| O_NoResponse
| O_Unknown (n : N).

(* impl From<u16> for CoapOption *)
Definition option_of_u16 (n : N) : coap_option :=
  match n with
  | 1 => O_IfMatch
  | 3 => O_UriHost
  | 4 => O_ETag
  | 5 => O_IfNoneMatch
  | 6 => O_Observe
  | 7 => O_UriPort
  | 8 => O_LocationPath
  | 9 => O_Oscore
  | 11 => O_UriPath
  | 12 => O_ContentFormat
  | 14 => O_MaxAge
  | 15 => O_UriQuery
  | 17 => O_Accept
  | 20 => O_LocationQuery
  | 23 => O_Block2
  | 27 => O_Block1
  | 35 => O_ProxyUri
  | 39 => O_ProxyScheme
  | 60 => O_Size1
  | 28 => O_Size2
  | 258 => O_NoResponse
  | _ => O_Unknown n
  end.

(* impl From<CoapOption> for u16 *)
Definition u16_of_option (o : coap_option) : N :=
  match o with
  | O_IfMatch => 1
  | O_UriHost => 3
  | O_ETag => 4
  | O_IfNoneMatch => 5
  | O_Observe => 6
  | O_UriPort => 7
  | O_LocationPath => 8
  | O_Oscore => 9
  | O_UriPath => 11
  | O_ContentFormat => 12
  | O_MaxAge => 14
  | O_UriQuery => 15
  | O_Accept => 17
  | O_LocationQuery => 20
  | O_Block2 => 23
  | O_Block1 => 27
  | O_ProxyUri => 35
  | O_ProxyScheme => 39
  | O_Size1 => 60
  | O_Size2 => 28
  | O_NoResponse => 258
  | O_Unknown n => n
  end.

Definition all_named_options : list coap_option :=
  [O_IfMatch; O_UriHost; O_ETag; O_IfNoneMatch; O_Observe; O_UriPort; O_LocationPath; O_Oscore; O_UriPath; O_ContentFormat; O_MaxAge; O_UriQuery; O_Accept; O_LocationQuery; O_Block2; O_Block1; O_ProxyUri; O_ProxyScheme; O_Size1; O_Size2; O_NoResponse].

(* declaration index of the variant (Unknown = 21): the flat encoding used by the suites *)
Definition option_index (o : coap_option) : N :=
  match o with
  | O_IfMatch => 0
  | O_UriHost => 1
  | O_ETag => 2
  | O_IfNoneMatch => 3
  | O_Observe => 4
  | O_UriPort => 5
  | O_LocationPath => 6
  | O_Oscore => 7
  | O_UriPath => 8
  | O_ContentFormat => 9
  | O_MaxAge => 10
  | O_UriQuery => 11
  | O_Accept => 12
  | O_LocationQuery => 13
  | O_Block2 => 14
  | O_Block1 => 15
  | O_ProxyUri => 16
  | O_ProxyScheme => 17
  | O_Size1 => 18
  | O_Size2 => 19
  | O_NoResponse => 20
  | O_Unknown _ => 21
  end.

Inductive content_format :=
| CF_TextPlain
| CF_ApplicationCoseEncrypt0
| CF_ApplicationCoseMac0
| CF_ApplicationCoseSign1
| CF_ApplicationAceCbor
| CF_ImageGif
| CF_ImageJpeg
| CF_ImagePng
| CF_ApplicationLinkFormat
| CF_ApplicationXML
| CF_ApplicationOctetStream
| CF_ApplicationEXI
| CF_ApplicationJSON
| CF_ApplicationJsonPatchJson
| CF_ApplicationMergePatchJson
| CF_ApplicationCBOR
| CF_ApplicationCWt
| CF_ApplicationMultipartCore
| CF_ApplicationCborSeq
| CF_ApplicationCoseEncrypt
| CF_ApplicationCoseMac
| CF_ApplicationCoseSign
| CF_ApplicationCoseKey
| CF_ApplicationCoseKeySet
| CF_ApplicationSenmlJSON
| CF_ApplicationSensmlJSON
| CF_ApplicationSenmlCBOR
| CF_ApplicationSensmlCBOR
| CF_ApplicationSenmlExi
| CF_ApplicationSensmlExi
| CF_ApplicationYangDataCborSid
| CF_ApplicationCoapGroupJson
| CF_ApplicationDotsCbor
| CF_ApplicationMissingBlocksCborSeq
| CF_ApplicationPkcs7MimeServerGeneratedKey
| CF_ApplicationPkcs7MimeCertsOnly
| CF_ApplicationPkcs8
| CF_ApplicationCsrattrs
| CF_ApplicationPkcs10
| CF_ApplicationPkixCert
| CF_ApplicationAifCbor
| CF_ApplicationAifJson
| CF_ApplicationSenmlXML
| CF_ApplicationSensmlXML
| CF_ApplicationSenmlEtchJson
| CF_ApplicationSenmlEtchCbor
| CF_ApplicationYangDataCbor
| CF_ApplicationYangDataCborName
| CF_ApplicationTdJson
| CF_ApplicationVoucherCoseCbor
| CF_ApplicationVndOcfCbor
| CF_ApplicationOscore
| CF_ApplicationJavascript
| CF_ApplicationJsonDeflate
| CF_ApplicationCborDeflate
| CF_ApplicationVndOmaLwm2mTlv
| CF_ApplicationVndOmaLwm2mJson
| CF_ApplicationVndOmaLwm2mCbor
| CF_TextCss
| CF_ImageSvgXml.

(* impl TryFrom<usize> for ContentFormat *)
Definition content_format_of (n : N) : option content_format :=
  match n with
  | 0 => Some CF_TextPlain
  | 16 => Some CF_ApplicationCoseEncrypt0
  | 17 => Some CF_ApplicationCoseMac0
  | 18 => Some CF_ApplicationCoseSign1
  | 19 => Some CF_ApplicationAceCbor
  | 21 => Some CF_ImageGif
  | 22 => Some CF_ImageJpeg
  | 23 => Some CF_ImagePng
  | 40 => Some CF_ApplicationLinkFormat
  | 41 => Some CF_ApplicationXML
  | 42 => Some CF_ApplicationOctetStream
  | 47 => Some CF_ApplicationEXI
  | 50 => Some CF_ApplicationJSON
  | 51 => Some CF_ApplicationJsonPatchJson
  | 52 => Some CF_ApplicationMergePatchJson
  | 60 => Some CF_ApplicationCBOR
  | 61 => Some CF_ApplicationCWt
  | 62 => Some CF_ApplicationMultipartCore
  | 63 => Some CF_ApplicationCborSeq
  | 96 => Some CF_ApplicationCoseEncrypt
  | 97 => Some CF_ApplicationCoseMac
  | 98 => Some CF_ApplicationCoseSign
  | 101 => Some CF_ApplicationCoseKey
  | 102 => Some CF_ApplicationCoseKeySet
  | 110 => Some CF_ApplicationSenmlJSON
  | 111 => Some CF_ApplicationSensmlJSON
  | 112 => Some CF_ApplicationSenmlCBOR
  | 113 => Some CF_ApplicationSensmlCBOR
  | 114 => Some CF_ApplicationSenmlExi
  | 115 => Some CF_ApplicationSensmlExi
  | 140 => Some CF_ApplicationYangDataCborSid
  | 256 => Some CF_ApplicationCoapGroupJson
  | 271 => Some CF_ApplicationDotsCbor
  | 272 => Some CF_ApplicationMissingBlocksCborSeq
  | 280 => Some CF_ApplicationPkcs7MimeServerGeneratedKey
  | 281 => Some CF_ApplicationPkcs7MimeCertsOnly
  | 284 => Some CF_ApplicationPkcs8
  | 285 => Some CF_ApplicationCsrattrs
  | 286 => Some CF_ApplicationPkcs10
  | 287 => Some CF_ApplicationPkixCert
  | 290 => Some CF_ApplicationAifCbor
  | 291 => Some CF_ApplicationAifJson
  | 310 => Some CF_ApplicationSenmlXML
  | 311 => Some CF_ApplicationSensmlXML
  | 320 => Some CF_ApplicationSenmlEtchJson
  | 322 => Some CF_ApplicationSenmlEtchCbor
  | 340 => Some CF_ApplicationYangDataCbor
  | 341 => Some CF_ApplicationYangDataCborName
  | 432 => Some CF_ApplicationTdJson
  | 836 => Some CF_ApplicationVoucherCoseCbor
  | 10000 => Some CF_ApplicationVndOcfCbor
  | 10001 => Some CF_ApplicationOscore
  | 10002 => Some CF_ApplicationJavascript
  | 11050 => Some CF_ApplicationJsonDeflate
  | 11060 => Some CF_ApplicationCborDeflate
  | 11542 => Some CF_ApplicationVndOmaLwm2mTlv
  | 11543 => Some CF_ApplicationVndOmaLwm2mJson
  | 11544 => Some CF_ApplicationVndOmaLwm2mCbor
  | 20000 => Some CF_TextCss
  | 30000 => Some CF_ImageSvgXml
  | _ => None
  end.

(* impl From<ContentFormat> for usize *)
Definition of_content_format (c : content_format) : N :=
  match c with
  | CF_TextPlain => 0
  | CF_ApplicationCoseEncrypt0 => 16
  | CF_ApplicationCoseMac0 => 17
  | CF_ApplicationCoseSign1 => 18
  | CF_ApplicationAceCbor => 19
  | CF_ImageGif => 21
  | CF_ImageJpeg => 22
  | CF_ImagePng => 23
  | CF_ApplicationLinkFormat => 40
  | CF_ApplicationXML => 41
  | CF_ApplicationOctetStream => 42
  | CF_ApplicationEXI => 47
  | CF_ApplicationJSON => 50
  | CF_ApplicationJsonPatchJson => 51
  | CF_ApplicationMergePatchJson => 52
  | CF_ApplicationCBOR => 60
  | CF_ApplicationCWt => 61
  | CF_ApplicationMultipartCore => 62
  | CF_ApplicationCborSeq => 63
  | CF_ApplicationCoseEncrypt => 96
  | CF_ApplicationCoseMac => 97
  | CF_ApplicationCoseSign => 98
  | CF_ApplicationCoseKey => 101
  | CF_ApplicationCoseKeySet => 102
  | CF_ApplicationSenmlJSON => 110
  | CF_ApplicationSensmlJSON => 111
  | CF_ApplicationSenmlCBOR => 112
  | CF_ApplicationSensmlCBOR => 113
  | CF_ApplicationSenmlExi => 114
  | CF_ApplicationSensmlExi => 115
  | CF_ApplicationYangDataCborSid => 140
  | CF_ApplicationCoapGroupJson => 256
  | CF_ApplicationDotsCbor => 271
  | CF_ApplicationMissingBlocksCborSeq => 272
  | CF_ApplicationPkcs7MimeServerGeneratedKey => 280
  | CF_ApplicationPkcs7MimeCertsOnly => 281
  | CF_ApplicationPkcs8 => 284
  | CF_ApplicationCsrattrs => 285
  | CF_ApplicationPkcs10 => 286
  | CF_ApplicationPkixCert => 287
  | CF_ApplicationAifCbor => 290
  | CF_ApplicationAifJson => 291
  | CF_ApplicationSenmlXML => 310
  | CF_ApplicationSensmlXML => 311
  | CF_ApplicationSenmlEtchJson => 320
  | CF_ApplicationSenmlEtchCbor => 322
  | CF_ApplicationYangDataCbor => 340
  | CF_ApplicationYangDataCborName => 341
  | CF_ApplicationTdJson => 432
  | CF_ApplicationVoucherCoseCbor => 836
  | CF_ApplicationVndOcfCbor => 10000
  | CF_ApplicationOscore => 10001
  | CF_ApplicationJavascript => 10002
  | CF_ApplicationJsonDeflate => 11050
  | CF_ApplicationCborDeflate => 11060
  | CF_ApplicationVndOmaLwm2mTlv => 11542
  | CF_ApplicationVndOmaLwm2mJson => 11543
  | CF_ApplicationVndOmaLwm2mCbor => 11544
  | CF_TextCss => 20000
  | CF_ImageSvgXml => 30000
  end.

Definition all_content_formats : list content_format :=
  [CF_TextPlain; CF_ApplicationCoseEncrypt0; CF_ApplicationCoseMac0; CF_ApplicationCoseSign1; CF_ApplicationAceCbor; CF_ImageGif; CF_ImageJpeg; CF_ImagePng; CF_ApplicationLinkFormat; CF_ApplicationXML; CF_ApplicationOctetStream; CF_ApplicationEXI; CF_ApplicationJSON; CF_ApplicationJsonPatchJson; CF_ApplicationMergePatchJson; CF_ApplicationCBOR; CF_ApplicationCWt; CF_ApplicationMultipartCore; CF_ApplicationCborSeq; CF_ApplicationCoseEncrypt; CF_ApplicationCoseMac; CF_ApplicationCoseSign; CF_ApplicationCoseKey; CF_ApplicationCoseKeySet; CF_ApplicationSenmlJSON; CF_ApplicationSensmlJSON; CF_ApplicationSenmlCBOR; CF_ApplicationSensmlCBOR; CF_ApplicationSenmlExi; CF_ApplicationSensmlExi; CF_ApplicationYangDataCborSid; CF_ApplicationCoapGroupJson; CF_ApplicationDotsCbor; CF_ApplicationMissingBlocksCborSeq; CF_ApplicationPkcs7MimeServerGeneratedKey; CF_ApplicationPkcs7MimeCertsOnly; CF_ApplicationPkcs8; CF_ApplicationCsrattrs; CF_ApplicationPkcs10; CF_ApplicationPkixCert; CF_ApplicationAifCbor; CF_ApplicationAifJson; CF_ApplicationSenmlXML; CF_ApplicationSensmlXML; CF_ApplicationSenmlEtchJson; CF_ApplicationSenmlEtchCbor; CF_ApplicationYangDataCbor; CF_ApplicationYangDataCborName; CF_ApplicationTdJson; CF_ApplicationVoucherCoseCbor; CF_ApplicationVndOcfCbor; CF_ApplicationOscore; CF_ApplicationJavascript; CF_ApplicationJsonDeflate; CF_ApplicationCborDeflate; CF_ApplicationVndOmaLwm2mTlv; CF_ApplicationVndOmaLwm2mJson; CF_ApplicationVndOmaLwm2mCbor; CF_TextCss; CF_ImageSvgXml].

Definition cf_index (c : content_format) : N :=
  match c with
  | CF_TextPlain => 0
  | CF_ApplicationCoseEncrypt0 => 1
  | CF_ApplicationCoseMac0 => 2
  | CF_ApplicationCoseSign1 => 3
  | CF_ApplicationAceCbor => 4
  | CF_ImageGif => 5
  | CF_ImageJpeg => 6
  | CF_ImagePng => 7
  | CF_ApplicationLinkFormat => 8
  | CF_ApplicationXML => 9
  | CF_ApplicationOctetStream => 10
  | CF_ApplicationEXI => 11
  | CF_ApplicationJSON => 12
  | CF_ApplicationJsonPatchJson => 13
  | CF_ApplicationMergePatchJson => 14
  | CF_ApplicationCBOR => 15
  | CF_ApplicationCWt => 16
  | CF_ApplicationMultipartCore => 17
  | CF_ApplicationCborSeq => 18
  | CF_ApplicationCoseEncrypt => 19
  | CF_ApplicationCoseMac => 20
  | CF_ApplicationCoseSign => 21
  | CF_ApplicationCoseKey => 22
  | CF_ApplicationCoseKeySet => 23
  | CF_ApplicationSenmlJSON => 24
  | CF_ApplicationSensmlJSON => 25
  | CF_ApplicationSenmlCBOR => 26
  | CF_ApplicationSensmlCBOR => 27
  | CF_ApplicationSenmlExi => 28
  | CF_ApplicationSensmlExi => 29
  | CF_ApplicationYangDataCborSid => 30
  | CF_ApplicationCoapGroupJson => 31
  | CF_ApplicationDotsCbor => 32
  | CF_ApplicationMissingBlocksCborSeq => 33
  | CF_ApplicationPkcs7MimeServerGeneratedKey => 34
  | CF_ApplicationPkcs7MimeCertsOnly => 35
  | CF_ApplicationPkcs8 => 36
  | CF_ApplicationCsrattrs => 37
  | CF_ApplicationPkcs10 => 38
  | CF_ApplicationPkixCert => 39
  | CF_ApplicationAifCbor => 40
  | CF_ApplicationAifJson => 41
  | CF_ApplicationSenmlXML => 42
  | CF_ApplicationSensmlXML => 43
  | CF_ApplicationSenmlEtchJson => 44
  | CF_ApplicationSenmlEtchCbor => 45
  | CF_ApplicationYangDataCbor => 46
  | CF_ApplicationYangDataCborName => 47
  | CF_ApplicationTdJson => 48
  | CF_ApplicationVoucherCoseCbor => 49
  | CF_ApplicationVndOcfCbor => 50
  | CF_ApplicationOscore => 51
  | CF_ApplicationJavascript => 52
  | CF_ApplicationJsonDeflate => 53
  | CF_ApplicationCborDeflate => 54
  | CF_ApplicationVndOmaLwm2mTlv => 55
  | CF_ApplicationVndOmaLwm2mJson => 56
  | CF_ApplicationVndOmaLwm2mCbor => 57
  | CF_TextCss => 58
  | CF_ImageSvgXml => 59
  end.

Inductive observe_option := ObsRegister | ObsDeregister.
(* impl TryFrom<usize> for ObserveOption / From<ObserveOption> for usize *)
Definition observe_of (n : N) : option observe_option :=
  match n with 0 => Some ObsRegister | 1 => Some ObsDeregister | _ => None end.
Definition of_observe (o : observe_option) : N :=
  match o with ObsRegister => 0 | ObsDeregister => 1 end.

(* Suite06.v -- correspondence suite 60 (C06): uint / string option values and the typed
   accessors of Packet. *)
From CoapV Require Import Base Header Packet UintOpt Utf8 Numbers TypedOpt.

Definition wr_res6 {A} (f : A -> list N) (o : outcome A) : list N :=
  match o with Ok a => 0 :: f a | Err _ => [1] | Panic _ => [2] end.

Definition wr_typed (w : N) (o : outcome (N * bytes)) : list N :=
  wr_res6 (fun x => if w =? 0 then wr_bytes (snd x) else [fst x]) o.

Definition wr_typed_list (w : N) (o : option (list (outcome (N * bytes)))) : list N :=
  match o with None => [0] | Some l => 1 :: wr_list (wr_typed w) l end.
Definition wr_typed_first (w : N) (o : option (outcome (N * bytes))) : list N :=
  match o with None => [0] | Some x => 1 :: wr_typed w x end.
Definition wr_raw (o : option (list bytes)) : list N :=
  match o with None => [0] | Some l => 1 :: wr_list wr_bytes l end.

Definition rd_tval : rd (N * bytes) := fun s =>
  match s with
  | v :: r => match rd_bytes r with Some (b, r') => Some ((v, b), r') | None => None end
  | [] => None
  end.

Definition observe_all (p : packet) (k w : N) : list N :=
  wr_packet p ++ wr_raw (get_option p k) ++ wr_typed_list w (get_options_as p k w)
  ++ wr_typed_first w (get_first_option_as p k w).

Fixpoint add_all (p : packet) (k w : N) (vs : list (N * bytes)) : outcome packet :=
  match vs with
  | [] => Ok p
  | (v, s) :: r => do p' <- add_option_as p k w v s; add_all p' k w r
  end.

Definition wr_obs (o : option (outcome N)) : list N :=
  match o with None => [0] | Some (Ok v) => [1; 0; v] | Some _ => [1; 1] end.
Definition wr_cf (o : option content_format) : list N :=
  match o with None => [0] | Some c => [1; cf_index c] end.

Definition run60 (s : list N) : list N :=
  match s with
  | [0; w; v] => wr_res6 wr_bytes (option_from_uint v w)
  | 1 :: w :: r => match rd_bytes r with
                   | Some (bs, []) => wr_res6 (fun v => [v]) (uint_try_from bs w)
                   | _ => [999] end
  | 2 :: r => match rd_bytes r with
              | Some (bs, []) => wr_res6 wr_bytes (string_try_from bs)
              | _ => [999] end
  | 3 :: r => match rd_packet r with
              | Some (p, k :: w :: r') =>
                match rd_list rd_tval r' with
                | Some (vs, []) => match add_all p k w vs with Ok p' => 0 :: observe_all p' k w | Err _ => [1] | Panic _ => [2] end
                | _ => [999] end
              | _ => [999] end
  | 4 :: r => match rd_packet r with
              | Some (p, k :: w :: r') =>
                match rd_list rd_tval r' with
                | Some (vs, []) => match set_options_as p k w vs with Ok p' => 0 :: observe_all p' k w | Err _ => [1] | Panic _ => [2] end
                | _ => [999] end
              | _ => [999] end
  | 5 :: r => match rd_packet r with
              | Some (p, [v]) => match set_observe_value p v with
                                 | Ok p' => 0 :: wr_packet p' ++ wr_obs (get_observe_value p')
                                 | Err _ => [1] | Panic _ => [2] end
              | _ => [999] end
  | 6 :: r => match rd_packet r with
              | Some (p, []) => wr_obs (get_observe_value p) ++ wr_cf (get_content_format p)
              | _ => [999] end
  | 7 :: r => match rd_packet r with
              | Some (p, [i]) =>
                match nth_error all_content_formats (N.to_nat i) with
                | Some c => match set_content_format p c with
                            | Ok p' => 0 :: wr_packet p' ++ wr_cf (get_content_format p')
                            | Err _ => [1] | Panic _ => [2] end
                | None => [999] end
              | _ => [999] end
  | _ => [999]
  end.

(* ---------------- the property, from be_min / be_value only ---------------- *)
Definition spec_enc (w : N) (x : N * bytes) : bytes := if w =? 0 then snd x else be_min (fst x).
Definition spec_dec (w : N) (bs : bytes) : outcome (N * bytes) :=
  if w =? 0 then (if utf8_valid bs then Ok (0, bs) else Err 0)
  else if len bs <=? w then Ok (be_value bs, []) else Err 0.

Definition tval_ok (w : N) (x : N * bytes) : bool :=
  if w =? 0 then utf8_valid (snd x) && forallb (fun b => b <? 256) (snd x) else fst x <? 256 ^ w.
Definition width_ok (w : N) : bool := (w =? 0) || (w =? 1) || (w =? 2) || (w =? 4) || (w =? 8).

Definition raw_of (p : packet) (k : N) : list bytes :=
  match opt_get (opts p) k with Some l => l | None => [] end.

Definition expect_typed (p' : packet) (k w : N) (typed : list (outcome (N * bytes))) : list N :=
  let raw := raw_of p' k in
  0 :: wr_packet p' ++ wr_raw (Some raw) ++ wr_typed_list w (Some typed)
  ++ wr_typed_first w (match typed with [] => None | x :: _ => Some x end).

Definition bytes_ok (b : bytes) : bool := forallb (fun x => x <? 256) b.
Definition pkt_bytes_ok (p : packet) : bool :=
  forallb (fun kv => (fst kv <? 65536) && forallb bytes_ok (snd kv)) (opts p) && bytes_ok (payload p) && bytes_ok (token p).

Definition in_domain60 (s : list N) : bool :=
  match s with
  | [0; w; v] => width_ok w && negb (w =? 0) && (v <? 256 ^ w)
  | 1 :: w :: r => width_ok w && negb (w =? 0) && match rd_bytes r with Some (bs, []) => bytes_ok bs | _ => false end
  | 2 :: r => match rd_bytes r with Some (bs, []) => bytes_ok bs | _ => false end
  | 3 :: r | 4 :: r =>
    match rd_packet r with
    | Some (p, k :: w :: r') =>
      match rd_list rd_tval r' with
      | Some (vs, []) => width_ok w && (k <? 65536) && forallb (tval_ok w) vs && pkt_bytes_ok p
      | _ => false end
    | _ => false end
  | 5 :: r => match rd_packet r with Some (p, [v]) => (v <? U32) && pkt_bytes_ok p | _ => false end
  | 6 :: r => match rd_packet r with Some (p, []) => pkt_bytes_ok p | _ => false end
  | 7 :: r => match rd_packet r with Some (p, [i]) => (i <? 60) && pkt_bytes_ok p | _ => false end
  | _ => false
  end.

Definition spec60 (s : list N) : option (list N) :=
  match s with
  | [0; w; v] => Some (0 :: wr_bytes (be_min v))
  | 1 :: w :: r => match rd_bytes r with
                   | Some (bs, []) => Some (if len bs <=? w then [0; be_value bs] else [1])
                   | _ => None end
  | 2 :: r => match rd_bytes r with
              | Some (bs, []) => Some (if utf8_valid bs then 0 :: wr_bytes bs else [1])
              | _ => None end
  | 3 :: r => match rd_packet r with
              | Some (p, k :: w :: r') =>
                match rd_list rd_tval r' with
                | Some (vs, []) =>
                  match vs with
                  | [] => Some (0 :: observe_all p k w)   (* nothing added: state as it was *)
                  | _ =>
                    let old := raw_of p k in
                    let p' := set_opts p (opt_insert (opts p) k (old ++ map (spec_enc w) vs)) in
                    Some (expect_typed p' k w (map (spec_dec w) old ++ map (fun x => Ok (if w =? 0 then (0, snd x) else (fst x, []))) vs))
                  end
                | _ => None end
              | _ => None end
  | 4 :: r => match rd_packet r with
              | Some (p, k :: w :: r') =>
                match rd_list rd_tval r' with
                | Some (vs, []) =>
                  let p' := set_opts p (opt_insert (opts p) k (map (spec_enc w) vs)) in
                  Some (expect_typed p' k w (map (fun x => Ok (if w =? 0 then (0, snd x) else (fst x, []))) vs))
                | _ => None end
              | _ => None end
  | 5 :: r => match rd_packet r with
              | Some (p, [v]) =>
                let p' := set_opts p (opt_insert (opts p) 6 [be_min v]) in
                Some (0 :: wr_packet p' ++ [1; 0; v])
              | _ => None end
  | 6 :: r => match rd_packet r with
              | Some (p, []) =>
                Some ((match raw_of p 6 with
                       | [] => [0]
                       | b :: _ => if len b <=? 4 then [1; 0; be_value b] else [1; 1]
                       end)
                      ++ (match raw_of p 12 with
                          | [] => [0]
                          | b :: _ => if len b <=? 2 then wr_cf (content_format_of (be_value b)) else [0]
                          end))
              | _ => None end
  | 7 :: r => match rd_packet r with
              | Some (p, [i]) =>
                match nth_error all_content_formats (N.to_nat i) with
                | Some c =>
                  let p' := set_opts p (opt_insert (opts p) 12 [be_min (of_content_format c)]) in
                  Some (0 :: wr_packet p' ++ [1; i])
                | None => None end
              | _ => None end
  | _ => None
  end.

Definition verdict60 (s out : list N) : bool :=
  if in_domain60 s then
    match spec60 s with Some e => list_eqb N.eqb out e | None => false end
  else true.

Definition classify60 (s : list N) : N :=
  if in_domain60 s then match s with k :: _ => k + 1 | [] => 0 end else 0.

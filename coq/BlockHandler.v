(* BlockHandler.v -- model of src/block_handler/mod.rs (RFC 7959 handler) over the packet,
   request and block-value models, together with the expiring map it keeps its state in
   (lru_time_cache::LruCache with an expiry duration; time is a parameter).
   The Rust mutates the request and the cached state in place and may return Err afterwards, so
   every handler returns its result together with the request and state as they are then. *)
From CoapV Require Import Base Header Packet UintOpt Utf8 BlockValue Encode Response Accessors.

Definition BLOCK_OPTIONS_MAX_LENGTH : N := 12.
Definition MAX_RESERVE : N := 16384.
Definition OPT_BLOCK2 : N := 23.
Definition OPT_BLOCK1 : N := 27.

(* HandlingError as an error value: 0 = not_handled (no code); otherwise the response code byte *)
Definition E_NOT_HANDLED : N := 0.
Definition E_INTERNAL : N := 160.
Definition E_BAD_REQUEST : N := 128.

(* get_first_option_as::<BlockValue>(n).and_then(|x| x.ok()) *)
Definition first_block (n : N) (p : packet) : option blockv :=
  match get_first_option p n with
  | Some v => match block_decode v with Ok b => Some b | _ => None end
  | None => None
  end.

(* compute_message_size_hack: encoded size without the payload, plus the payload length *)
Definition message_size_hack (p : packet) : outcome N :=
  match to_bytes_unlimited (set_payload p []) with
  | Ok bs => Ok (len bs + len (payload p))
  | Err _ => Err E_INTERNAL
  | Panic s => Panic s
  end.

Definition negotiate (rb : option blockv) (message_size total_payload M : N) : outcome (option blockv) :=
  let max_non_payload := message_size + BLOCK_OPTIONS_MAX_LENGTH - total_payload in
  if M <? max_non_payload then Err E_INTERNAL else
  let max_block := M - max_non_payload in
  match rb with
  | Some b =>
      let neg := N.min (block_size b) max_block in
      if neg =? 0 then Err E_INTERNAL else
      let start := b_num b * block_size b in
      match block_new (start / neg) (start + neg <? total_payload) neg with
      | Ok r => Ok (Some r)
      | Err _ => Err E_INTERNAL
      | Panic s => Panic s
      end
  | None =>
      if total_payload <? max_block then Ok None
      else match block_new 0 true max_block with
           | Ok r => Ok (Some r)
           | Err _ => Err E_INTERNAL
           | Panic s => Panic s
           end
  end.

(* extending_splice(dst, start..stop, repl, MAX_RESERVE): None = Err *)
Definition extending_splice (dst : bytes) (start stop : N) (repl : bytes) : option bytes :=
  let ext := stop - len dst in
  if MAX_RESERVE <? ext then None else
  let d := dst ++ repeat 0 (N.to_nat ext) in
  Some (take start d ++ repl ++ drop stop d).

Record bstate := mkBState { last_b2 : option blockv; cached_resp : option packet; cached_payload : option bytes }.
Definition bstate_default : bstate := mkBState None None None.
Definition st_b2 (st : bstate) x := mkBState x (cached_resp st) (cached_payload st).
Definition st_resp (st : bstate) x := mkBState (last_b2 st) x (cached_payload st).
Definition st_buf (st : bstate) x := mkBState (last_b2 st) (cached_resp st) x.

Definition with_response (r : request) (resp : option packet) : request := mkRequest (message r) resp (source r).
Definition with_message (r : request) (m : packet) : request := mkRequest m (response r) (source r).

Definition hres := (outcome bool * request * bstate)%type.

(* response.message.add_option_as(n, block): the encoding cannot fail for a BlockValue *)
Definition add_block_opt (n : N) (b : blockv) (p : packet) : packet :=
  match block_encode b with Ok v => add_option p n v | _ => p end.

Definition handle_block1 (req : request) (M : N) (st : bstate) : hres :=
  let rb1 := first_block OPT_BLOCK1 (message req) in
  match message_size_hack (message req) with
  | Panic s => (Panic s, req, st) | Err e => (Err e, req, st)
  | Ok sz =>
  match negotiate rb1 sz (len (payload (message req))) M with
  | Panic s => (Panic s, req, st) | Err e => (Err e, req, st)
  | Ok rsp =>
  match rb1, rsp with
  | Some b1, Some r1 =>
      let buf := match cached_payload st with Some b => b | None => [] end in
      let off := b_num b1 * block_size b1 in
      match extending_splice buf off (off + block_size b1) (payload (message req)) with
      | None => (Err E_INTERNAL, req, st_buf st (Some buf))
      | Some buf' =>
          if b_more b1 then
            match response req with
            | None => (Err E_NOT_HANDLED, req, st_buf st (Some buf'))
            | Some rp => (Ok true, with_response req (Some (set_code (add_block_opt OPT_BLOCK1 r1 rp) (Response Continue))),
                          st_buf st (Some buf'))
            end
          else
            (* the final block ends the body *)
            let body := take (off + len (payload (message req))) buf' in
            let req' := with_message req (set_payload (message req) body) in
            match response req with
            | None => (Err E_NOT_HANDLED, req', st_buf st None)
            | Some rp => (Ok false, with_response req' (Some (add_block_opt OPT_BLOCK1 r1 rp)), st_buf st None)
            end
      end
  | None, Some r1 =>
      match response req with
      | None => (Err E_NOT_HANDLED, req, st)
      | Some rp => (Ok true, with_response req (Some (set_code (add_block_opt OPT_BLOCK1 r1 rp) (Response RequestEntityTooLarge))), st)
      end
  | _, _ => (Ok false, req, st)
  end end end.

(* packet_clone_limited: version, type, code and every option (whole value lists) of src *)
Definition clone_limited (dst src : packet) : packet :=
  let d := set_hdr dst (set_version (hdr dst) (get_version (hdr src))) in
  let d := set_hdr d (set_type (hdr d) (get_type (hdr src))) in
  let d := set_code d (code (hdr src)) in
  set_opts d (fold_left (fun o kv => opt_insert o (fst kv) (snd kv)) (opts src) (opts d)).

(* maybe_serve_cached_response; returns has_more_chunks and the request as it then is *)
Definition serve_cached (req : request) (b2 : blockv) (cached : packet) : outcome bool * request :=
  match response req with
  | None => (Err E_NOT_HANDLED, req)
  | Some rp =>
      let rp1 := clone_limited rp cached in
      let body := payload cached in
      let sz := block_size b2 in
      let off := b_num b2 * sz in
      if (len body <=? off) && negb ((len body =? 0) && (b_num b2 =? 0))
      then (Err E_BAD_REQUEST, with_response req (Some rp1))
      else
        let chunk := take sz (drop off body) in
        let has_more := off + sz <? len body in
        let rb := mkBlock (b_num b2) has_more (b_szx b2) in
        match block_encode rb with
        | Ok v => (Ok has_more, with_response req (Some (set_option (set_payload rp1 chunk) OPT_BLOCK2 [v])))
        | Err e => (Err e, with_response req (Some rp1))
        | Panic s => (Panic s, with_response req (Some rp1))
        end
  end.

Definition handle_block2 (req : request) (st : bstate) : hres :=
  let mb := first_block OPT_BLOCK2 (message req) in
  let st1 := st_b2 st mb in
  match mb, cached_resp st with
  | Some b2, Some cached =>
      match serve_cached req b2 cached with
      | (Ok has_more, req') => (Ok true, req', if has_more then st1 else st_resp st1 None)
      | (Err e, req') => (Err e, req', st1)
      | (Panic s, req') => (Panic s, req', st1)
      end
  | _, _ => (Ok false, req, st1)
  end.

Definition intercept_request_st (req : request) (M : N) (st : bstate) : hres :=
  match handle_block1 req M st with
  | (Ok false, req1, st1) => handle_block2 req1 st1
  | r => r
  end.

Definition intercept_response_st (req : request) (M : N) (st : bstate) : hres :=
  match response req with
  | None => (Ok false, req, st)
  | Some rp =>
      match get_option rp OPT_BLOCK2 with
      | Some _ => (Ok false, req, st)
      | None =>
          match message_size_hack rp with
          | Panic s => (Panic s, req, st) | Err e => (Err e, req, st)
          | Ok sz =>
          match negotiate (last_b2 st) sz (len (payload rp)) M with
          | Panic s => (Panic s, req, st) | Err e => (Err e, req, st)
          | Ok None => (Ok false, req, st)
          | Ok (Some b2) =>
              match serve_cached req b2 rp with
              | (Ok true, req') => (Ok true, req', st_resp st (Some rp))
              | (Ok false, req') => (Ok false, req', st)
              | (r, req') => (r, req', st)
              end
          end end
      end
  end.

(* ---------- RequestCacheKey: method byte, path segments, requester ---------- *)
Record ckey := mkKey { k_method : N; k_path : list bytes; k_src : option N }.
Definition request_key (r : request) : ckey :=
  mkKey (class_to_byte (Request (get_method (message r))))
        (match get_path_as_vec (message r) with Ok l => l | _ => [] end)
        (source r).

Definition path_eqb (a b : list bytes) : bool := list_eqb bytes_eqb a b.
Definition key_eqb (a b : ckey) : bool :=
  (k_method a =? k_method b) && path_eqb (k_path a) (k_path b)
  && match k_src a, k_src b with Some x, Some y => x =? y | None, None => true | _, _ => false end.

(* ---------- the expiring map: (key, value, last touch), least recently touched first ---------- *)
Definition cache := list (ckey * bstate * N).

(* remove_expired: drop the prefix of entries with t + ttl < now *)
Fixpoint remove_expired (ttl now : N) (c : cache) : cache :=
  match c with
  | (k, v, t) :: r => if t + ttl <? now then remove_expired ttl now r else c
  | [] => []
  end.
Fixpoint c_find (k : ckey) (c : cache) : option (bstate * N) :=
  match c with [] => None | (k', v, t) :: r => if key_eqb k k' then Some (v, t) else c_find k r end.
Definition c_remove (k : ckey) (c : cache) : cache := filter (fun e => negb (key_eqb k (fst (fst e)))) c.

(* entry(k).or_insert(default): the state to work on and the cache with k touched at the back.
   do_peek treats an entry as present iff t + ttl >= now *)
Definition entry_or_insert (ttl now : N) (k : ckey) (c : cache) : bstate * cache :=
  match c_find k c with
  | Some (v, t) =>
      if now <=? t + ttl
      then (v, c_remove k (remove_expired ttl now c) ++ [(k, v, now)])
      else (bstate_default, c_remove k (remove_expired ttl now c) ++ [(k, bstate_default, now)])
  | None => (bstate_default, remove_expired ttl now c ++ [(k, bstate_default, now)])
  end.
Definition c_store (k : ckey) (v : bstate) (c : cache) : cache :=
  map (fun e => if key_eqb k (fst (fst e)) then (fst (fst e), v, snd e) else e) c.

(* peek: the entry if present and not expired *)
Definition c_peek (ttl now : N) (k : ckey) (c : cache) : option bstate :=
  match c_find k c with Some (v, t) => if now <=? t + ttl then Some v else None | None => None end.

Record handler := mkHandler { h_M : N; h_ttl : N; h_cache : cache }.

Definition intercept (f : request -> N -> bstate -> hres) (h : handler) (now : N) (req : request)
  : outcome bool * request * handler :=
  let k := request_key req in
  let '(st, c1) := entry_or_insert (h_ttl h) now k (h_cache h) in
  let '(r, req', st') := f req (h_M h) st in
  (r, req', mkHandler (h_M h) (h_ttl h) (c_store k st' c1)).
Definition intercept_request := intercept intercept_request_st.
Definition intercept_response := intercept intercept_response_st.

(* Suites.v -- dispatcher over the correspondence suites.  Everything here is
   executable; it is extracted to OCaml and also evaluated inside Coq. *)
From CoapV Require Import Base Suite08 Suite01 Suite05 Suite06 Suite07 Suite13 Suite14 Suite16 Suite19.

Definition run (suite : N) (s : list N) : list N :=
  match suite with
  | 10 => run10 s
  | 20 | 30 => run20 s
  | 40 => run40 s
  | 50 => run50 s
  | 60 => run60 s
  | 70 => run07 s
  | 80 | 90 | 100 | 110 | 200 => run_case8 s
  | 120 => run_case12 s
  | 130 => run130 s
  | 140 => run140 s
  | 150 => run150 s
  | 160 => run160 s
  | 170 => run170 s
  | 180 => run180 s
  | 190 => run190 s
  | _ => [998]
  end.

(* does the observed output satisfy the property on this input? *)
Definition verdict (suite : N) (s out : list N) : bool :=
  match suite with
  | 10 => verdict10 s out
  | 20 => verdict20 s out
  | 30 => verdict30 s out
  | 40 => verdict40 s out
  | 50 => verdict50 s out
  | 60 => verdict60 s out
  | 70 => verdict07 s out
  | 80 => verdict80 s out
  | 90 => verdict90 s out
  | 100 => verdict100 s out
  | 110 => verdict110 s out
  | 120 => verdict120 s out
  | 200 => verdict200 s out
  | 130 => verdict130 s out
  | 140 => verdict140 s out
  | 150 => verdict150 s out
  | 160 => verdict160 s out
  | 170 => verdict170 s out
  | 180 => verdict180 s out
  | 190 => verdict190 s out
  | _ => false
  end.

(* evidence bucket of a case; 0 = trivial / outside the property's domain *)
Definition classify (suite : N) (s out : list N) : N :=
  match suite with
  | 10 => classify10 s
  | 20 | 30 => classify20 s
  | 40 => classify40 s
  | 50 => classify50 s
  | 60 => classify60 s
  | 70 => classify07 s
  | 80 => classify80 s
  | 90 => classify90 s
  | 100 => classify100 s
  | 110 => classify110 s
  | 120 => classify120 s
  | 200 => classify200 s
  | 130 => classify130 s
  | 140 => classify140 s
  | 150 => classify150 s
  | 160 => classify160 s
  | 170 => classify170 s
  | 180 => classify180 s
  | 190 => classify190 s
  | _ => 0
  end.

(* id of the known-finding class the input belongs to; 0 = none *)
Definition known (suite : N) (s : list N) : N :=
  match suite with
  | 90 => known90 s
  | 140 => known140 s
  | _ => 0
  end.

(* in-Coq evaluation of a batch: indices of the cases whose model output differs *)
Definition check_batch (suite : N) (cases : list (list N * list N)) : list N :=
  let fix go (i : N) (l : list (list N * list N)) : list N :=
    match l with
    | [] => []
    | (inp, out) :: r =>
      if list_eqb N.eqb (run suite inp) out then go (i + 1) r else i :: go (i + 1) r
    end in
  go 0 cases.

(* Packet.v -- model of the Packet struct and its raw option API (src/packet.rs:350-478). *)
From CoapV Require Import Base Header.

(* BTreeMap<u16, LinkedList<Vec<u8>>> as an association list with strictly
   ascending keys.  A key may be present with an empty list (clear_option). *)
Notation optmap := (list (N * list (list N))) (only parsing).

Record packet := mkPacket {
  hdr : header;
  token : bytes;
  opts : optmap;
  payload : bytes
}.

Definition packet_new : packet := mkPacket header_new [] [] [].

Fixpoint opt_get (m : optmap) (k : N) : option (list bytes) :=
  match m with
  | [] => None
  | (k', vs) :: r => if k' =? k then Some vs else if k <? k' then None else opt_get r k
  end.

(* BTreeMap::insert *)
Fixpoint opt_insert (m : optmap) (k : N) (vs : list bytes) : optmap :=
  match m with
  | [] => [(k, vs)]
  | (k', vs') :: r =>
    if k =? k' then (k, vs) :: r
    else if k <? k' then (k, vs) :: m
    else (k', vs') :: opt_insert r k vs
  end.

(* Packet::add_option: push_back on the existing list or insert a singleton *)
Definition opt_add (m : optmap) (k : N) (v : bytes) : optmap :=
  match opt_get m k with
  | Some vs => opt_insert m k (vs ++ [v])
  | None => opt_insert m k [v]
  end.

(* Packet::clear_option: the key stays, with an empty list *)
Definition opt_clear (m : optmap) (k : N) : optmap :=
  match opt_get m k with
  | Some _ => opt_insert m k []
  | None => m
  end.

(* the option sequence as it goes on the wire / as ReadableMessage::options yields it *)
Definition flatten (m : optmap) : list (N * bytes) :=
  flat_map (fun kv => map (fun v => (fst kv, v)) (snd kv)) m.

Definition set_hdr (p : packet) (h : header) : packet := mkPacket h (token p) (opts p) (payload p).
Definition set_opts (p : packet) (m : optmap) : packet := mkPacket (hdr p) (token p) m (payload p).
Definition set_payload (p : packet) (b : bytes) : packet := mkPacket (hdr p) (token p) (opts p) b.
Definition set_code (p : packet) (c : mclass) : packet :=
  set_hdr p (mkHeader (vtt (hdr p)) c (mid (hdr p))).
Definition set_mid (p : packet) (m : N) : packet :=
  set_hdr p (mkHeader (vtt (hdr p)) (code (hdr p)) m).

(* Packet::set_token: token.len() as u8, then the assert in set_token_length *)
Definition set_token (p : packet) (t : bytes) : outcome packet :=
  do h <- set_token_length (hdr p) (len t mod 256);
  Ok (mkPacket h t (opts p) (payload p)).

Definition add_option (p : packet) (k : N) (v : bytes) : packet := set_opts p (opt_add (opts p) k v).
Definition set_option (p : packet) (k : N) (vs : list bytes) : packet := set_opts p (opt_insert (opts p) k vs).
Definition clear_option (p : packet) (k : N) : packet := set_opts p (opt_clear (opts p) k).
Definition clear_all_options (p : packet) : packet := set_opts p [].
Definition get_option (p : packet) (k : N) : option (list bytes) := opt_get (opts p) k.
Definition get_first_option (p : packet) (k : N) : option bytes :=
  match opt_get (opts p) k with
  | Some (v :: _) => Some v
  | _ => None
  end.

(* ---- flat encoding for the suites ---- *)
Definition wr_optmap (m : optmap) : list N :=
  wr_list (fun kv => fst kv :: wr_list wr_bytes (snd kv)) m.
Definition wr_packet (p : packet) : list N :=
  vtt (hdr p) :: class_enc (code (hdr p)) :: mid (hdr p) :: wr_bytes (token p)
  ++ wr_optmap (opts p) ++ wr_bytes (payload p).

Definition rd_optentry : rd (N * list bytes) := fun s =>
  match rd_n s with
  | Some (k, r) => match rd_list rd_bytes r with
                   | Some (vs, r') => Some ((k, vs), r')
                   | None => None
                   end
  | None => None
  end.

(* A packet description is read as raw state (vtt, class, mid, token, entries in
   the order given -- inserted one key at a time --, payload). *)
Definition rd_packet : rd packet := fun s =>
  match s with
  | v :: c :: m :: r =>
    match rd_bytes r with
    | Some (tok, r1) =>
      match rd_list rd_optentry r1 with
      | Some (es, r2) =>
        match rd_bytes r2 with
        | Some (pl, r3) =>
          Some (mkPacket (mkHeader v (class_dec c) m) tok
                  (fold_left (fun m kv => opt_insert m (fst kv) (snd kv)) es []) pl, r3)
        | None => None
        end
      | None => None
      end
    | None => None
    end
  | _ => None
  end.

(* Extract.v -- extraction of the executable model (ExtrOcamlBasic only; N, positive,
   nat stay Coq datatypes; no Extract Constant). Compiled from the coq/ directory. *)
From CoapV Require Import Base Suites.
Require Import ExtrOcamlBasic.
Extraction Language OCaml.
Extraction "../build/ocaml/model.ml" run verdict classify known.

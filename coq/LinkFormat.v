(* LinkFormat.v -- model of src/link_format.rs: the three parsing iterators (with the offsets
   of every slice they yield), Unquote (to_string / to_cow) and the writer with its sink.
   Strings are lists of Unicode scalar values. *)
From CoapV Require Import Base.

Notation str := (list N) (only parsing).
Definition LT : N := 60. Definition GT : N := 62. Definition SEMI : N := 59. Definition COMMA : N := 44.
Definition QUOTE : N := 34. Definition BSL : N := 92. Definition EQS : N := 61.

(* char::is_ascii_whitespace *)
Definition is_ascii_ws (c : N) : bool := (c =? 32) || (c =? 9) || (c =? 10) || (c =? 12) || (c =? 13).
(* char::is_whitespace = Unicode White_Space (str::trim) *)
Definition is_ws (c : N) : bool :=
  ((9 <=? c) && (c <=? 13)) || (c =? 32) || (c =? 133) || (c =? 160) || (c =? 5760) ||
  ((8192 <=? c) && (c <=? 8202)) || (c =? 8232) || (c =? 8233) || (c =? 8239) || (c =? 8287) || (c =? 12288).
(* char::is_ascii_alphanumeric *)
Definition is_alnum (c : N) : bool := ((48 <=? c) && (c <=? 57)) || ((65 <=? c) && (c <=? 90)) || ((97 <=? c) && (c <=? 122)).

Fixpoint drop_while (f : N -> bool) (s : str) : str :=
  match s with c :: r => if f c then drop_while f r else s | [] => [] end.
Definition trim_start_by (f : N -> bool) (s : str) : str := drop_while f s.
Definition trim_end_by (f : N -> bool) (s : str) : str := rev (drop_while f (rev s)).
(* number of scalars trim_start_by removes *)
Definition lead (f : N -> bool) (s : str) : N := len s - len (drop_while f s).
Definition trim (s : str) : str := trim_end_by is_ws (trim_start_by is_ws s).

(* consume up to and including the first [stop] outside quoted strings (or everything) *)
Fixpoint scan_quoted (stop : N) (s : str) (inq : bool) : str * str :=
  match s with
  | [] => ([], [])
  | c :: r =>
      if inq then
        if c =? QUOTE then let '(a, b) := scan_quoted stop r false in (c :: a, b)
        else if c =? BSL then
          match r with
          | [] => ([c], [])
          | c2 :: r2 => let '(a, b) := scan_quoted stop r2 true in (c :: c2 :: a, b)
          end
        else let '(a, b) := scan_quoted stop r true in (c :: a, b)
      else
        if c =? stop then ([c], r)
        else if c =? QUOTE then let '(a, b) := scan_quoted stop r true in (c :: a, b)
        else let '(a, b) := scan_quoted stop r false in (c :: a, b)
  end.

Fixpoint scan_to (stop : N) (s : str) : str * str :=
  match s with
  | [] => ([], [])
  | c :: r => if c =? stop then ([c], r) else let '(a, b) := scan_to stop r in (c :: a, b)
  end.

(* the "proceed through whitespace until we get a '<'" loop; the count is the number of
   scalars consumed including the '<' *)
Inductive skip_res := SkEnd | SkErr | SkOk (consumed : N) (rest : str).
Fixpoint skip_to_lt (s : str) (n : N) : skip_res :=
  match s with
  | [] => SkEnd
  | c :: r => if is_ascii_ws c then skip_to_lt r (n + 1) else if c =? LT then SkOk (n + 1) r else SkErr
  end.

(* an item of LinkFormatParser: offsets are in scalars from the start of the string given *)
Inductive link_item := LErr | LOk (loff : N) (link : str) (aoff : N) (attrs : str).

Definition link_next (s : str) : option (link_item * str) :=
  match s with
  | [] => None
  | _ =>
    match skip_to_lt s 0 with
    | SkEnd => None
    | SkErr => Some (LErr, [])
    | SkOk off r =>
        let '(p, r2) := scan_to GT r in
        let link := trim_end_by (N.eqb GT) p in
        let '(q, r3) := scan_quoted COMMA r2 false in
        let q1 := trim_end_by (N.eqb COMMA) q in
        let attrs := trim_end_by (N.eqb SEMI) (trim_start_by (N.eqb SEMI) q1) in
        Some (LOk off link (off + len p + lead (N.eqb SEMI) q1) attrs, r3)
    end
  end.

Fixpoint split_eq (s : str) : option (str * str) :=
  match s with
  | [] => None
  | c :: r => if c =? EQS then Some ([], r)
              else match split_eq r with Some (k, v) => Some (c :: k, v) | None => None end
  end.

(* LinkAttributeParser::next: key and raw value with their offsets in the string given, and
   the rest.  When there is no '=' the value is the static "" (no offset: reported as 0). *)
Record attr_item := mkAttr { koff : N; akey : str; voff : N; aval : str }.

Definition attr_next (s : str) : option (attr_item * str) :=
  match s with
  | [] => None
  | _ =>
      let '(q, r) := scan_quoted SEMI s false in
      let a := trim_end_by (N.eqb SEMI) q in
      match split_eq a with
      | Some (k, v) =>
        Some (mkAttr (lead is_ws k) (trim k) (len k + 1 + lead is_ws v) (trim v), r)
      | None => Some (mkAttr (lead is_ws a) (trim a) 0 [], r)
      end
  end.

(* Unquote run to completion = to_string *)
Fixpoint unq_quoted (s : str) : str :=
  match s with
  | [] => []
  | c :: r => if c =? QUOTE then []
              else if c =? BSL then match r with [] => [] | c2 :: r2 => c2 :: unq_quoted r2 end
              else c :: unq_quoted r
  end.
Definition unquote_to_string (v : str) : str :=
  match v with c :: r => if c =? QUOTE then unq_quoted r else v | [] => [] end.

Fixpoint find_idx (x : N) (s : str) (i : N) : option N :=
  match s with [] => None | c :: r => if c =? x then Some i else find_idx x r (i + 1) end.

(* Unquote::to_cow on a fresh iterator: borrow the inside of a properly closed, escape-free
   quoted string, otherwise build the string character by character *)
Definition to_cow (v : str) : outcome str :=
  match v with
  | c :: body =>
      if c =? QUOTE then
        if negb (existsb (N.eqb BSL) body)
           && (match find_idx QUOTE body 0 with Some i => i + 1 =? len body | None => false end)
        then Ok (removelast body)
        else Ok (unquote_to_string v)
      else Ok v
  | [] => Ok []
  end.

(* ------------------------------ writer ------------------------------ *)
(* the sink: number of write calls so far, accepted chunks, and a fault schedule *)
Record sink := mkSink { calls : nat; accepted : list str }.
Definition wst := (bool * sink)%type.       (* sticky error slot (true = Some(err)), sink *)

Section Writer.
Variable fail : nat -> bool.

Definition sink_write (s : sink) (t : str) : sink * bool :=
  if fail (calls s) then (mkSink (S (calls s)) (accepted s), true)
  else (mkSink (S (calls s)) (accepted s ++ [t]), false).

(* "if self.error.is_none() { self.error = write(..).err() }" *)
Definition gwrite (w : wst) (t : str) : wst :=
  let '(e, s) := w in if e then w else let '(s', f) := sink_write s t in (f, s').
Definition gwrites (w : wst) (ts : list str) : wst := fold_left gwrite ts w.

Inductive aval_w := AQuoted (v : str) | APlain (v : str) | AInt (digits : str).
Definition attr_w := (str * aval_w)%type.
Definition link_w := (str * list attr_w)%type.

Definition esc_chunks (v : str) : list str :=
  flat_map (fun c => if (c =? QUOTE) || (c =? BSL) then [[BSL]; [c]] else [[c]]) v.
Definition attr_chunks (a : attr_w) : list str :=
  let '(k, v) := a in
  [[SEMI]; k; [EQS]] ++
  match v with
  | AQuoted v => [[QUOTE]] ++ esc_chunks v ++ [[QUOTE]]
  | APlain v => [v]
  | AInt d => [d]
  end.
Definition link_chunks (first nl : bool) (l : link_w) : list str :=
  (if first then [] else if nl then [[COMMA]; [10; 13]] else [[COMMA]]) ++
  [[LT]; fst l; [GT]] ++ flat_map attr_chunks (snd l).
Fixpoint doc_chunks (first nl : bool) (d : list link_w) : list str :=
  match d with [] => [] | l :: r => link_chunks first nl l ++ doc_chunks false nl r end.

(* LinkFormatWrite::link followed by the attribute calls, statement by statement *)
Definition write_link (first nl : bool) (w : wst) (l : link_w) : wst :=
  let w1 :=
    if first then w
    else if fst w then w
    else let w' := gwrite w [COMMA] in
         if nl then gwrite w' [10; 13] else w' in
  gwrites w1 ([[LT]; fst l; [GT]] ++ flat_map attr_chunks (snd l)).
Fixpoint write_doc (first nl : bool) (w : wst) (d : list link_w) : wst :=
  match d with [] => w | l :: r => write_doc false nl (write_link first nl w l) r end.
End Writer.

Definition sink0 : wst := (false, mkSink 0 []).

(* attr(): quoted unless every character is ASCII alphanumeric *)
Definition attr_auto (k v : str) : attr_w := if forallb is_alnum v then (k, APlain v) else (k, AQuoted v).

(* decimal digits of an integer (attr_u32 / attr_u16) *)
Fixpoint digits_fuel (fuel : nat) (n : N) (acc : str) : str :=
  match fuel with
  | O => acc
  | S f => if n <? 10 then (48 + n) :: acc else digits_fuel f (n / 10) ((48 + n mod 10) :: acc)
  end.
Definition digits (n : N) : str := digits_fuel 40 n [].

(* ---------- a consumer iterating all three levels, by content ---------- *)
Fixpoint attrs_content (fuel : nat) (s : str) : list (str * str) :=
  match fuel with
  | O => []
  | S f => match attr_next s with
           | None => []
           | Some (a, r) => (akey a, unquote_to_string (aval a)) :: attrs_content f r
           end
  end.
(* None: an error item was yielded *)
Fixpoint links_content (fuel : nat) (s : str) : option (list (str * list (str * str))) :=
  match fuel with
  | O => Some []
  | S f => match link_next s with
           | None => Some []
           | Some (LErr, _) => None
           | Some (LOk _ l _ a, r) =>
             match links_content f r with
             | Some rest => Some ((l, attrs_content (S (length a)) a) :: rest)
             | None => None
             end
           end
  end.
Definition parse_content (s : str) := links_content (S (length s)) s.

(* what the writer was given, as a reader should get it back *)
Definition value_text (v : aval_w) : str :=
  match v with AQuoted v => v | APlain v => v | AInt d => d end.
Definition doc_content (d : list link_w) : list (str * list (str * str)) :=
  map (fun l => (fst l, map (fun a => (fst a, value_text (snd a))) (snd l))) d.

(* the documents C16 quantifies over: targets without '>', keys free of separators and of
   leading/trailing white space, plain values all-alphanumeric (what attr() leaves unquoted),
   integers as decimal digits *)
Definition key_wf (k : str) : bool :=
  forallb (fun c => negb ((c =? SEMI) || (c =? COMMA) || (c =? EQS) || (c =? QUOTE))) k
  && match k with [] => true | c :: _ => negb (is_ws c) end
  && match rev k with [] => true | c :: _ => negb (is_ws c) end.
Definition is_digit (c : N) : bool := (48 <=? c) && (c <=? 57).
Definition aval_wf (v : aval_w) : bool :=
  match v with
  | AQuoted _ => true
  | APlain v => forallb is_alnum v
  | AInt d => forallb is_digit d && negb (match d with [] => true | _ => false end)
  end.
Definition link_wf (l : link_w) : bool :=
  forallb (fun c => negb (c =? GT)) (fst l) && forallb (fun a => key_wf (fst a) && aval_wf (snd a)) (snd l).
Definition doc_wf (d : list link_w) : bool := forallb link_wf d.

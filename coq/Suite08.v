(* Suite08.v -- the server loop around the block handler (from_packet -> intercept_request ->
   application -> intercept_response) as an executable model, and the correspondence suites
   of the block-handler properties: 80 (C08), 90 (C09), 100 (C10), 110 (C11), 120 (C12), 200 (C20). *)
From CoapV Require Import Base Header Packet UintOpt Utf8 BlockValue Encode Response Accessors BlockHandler WireSpec PacketOps.

Fixpoint leqb2 {A B} (f : A -> B -> bool) (a : list A) (b : list B) : bool :=
  match a, b with
  | [], [] => true
  | x :: a', y :: b' => f x y && leqb2 f a' b'
  | _, _ => false
  end.

(* ---------- steps ---------- *)
(* what the application does with a request that reaches it: status code, options (set_option per
   number), body *)
Record reply := mkReply { rp_code : N; rp_opts : list (N * list bytes); rp_body : bytes }.
Inductive step :=
| Exchange (tid : N) (req : packet) (src : N) (rp : reply)
| Sleep                                     (* idle for longer than the expiry duration *)
| Nap                                       (* idle for a third of the mode-2 expiry duration *)
(* an exchange split in two: Begin = the request arrives and goes through intercept_request; End = the application
   (slow) answers and the response goes through intercept_response.  Other steps may come in between. *)
| Begin (tid : N) (req : packet) (src : N) (rp : reply)
| End (tid : N).

Definition rd_reply : rd reply := fun s =>
  match s with
  | c :: r => match rd_list rd_optentry r with
              | Some (os, r1) => match rd_bytes r1 with Some (b, r2) => Some (mkReply c os b, r2) | None => None end
              | None => None end
  | [] => None
  end.
Definition rd_step : rd step := fun s =>
  match s with
  | 0 :: tid :: r => match rd_packet r with
                     | Some (p, src :: r1) => match rd_reply r1 with Some (rp, r2) => Some (Exchange tid p src rp, r2) | None => None end
                     | _ => None end
  | 1 :: r => Some (Sleep, r)
  | 3 :: r => Some (Nap, r)
  | 4 :: tid :: r => match rd_packet r with
                     | Some (p, src :: r1) => match rd_reply r1 with Some (rp, r2) => Some (Begin tid p src rp, r2) | None => None end
                     | _ => None end
  | 5 :: tid :: r => Some (End tid, r)
  | _ => None
  end.

(* ---------- one exchange ---------- *)
Definition wr_result (o : outcome bool) : list N :=
  match o with Ok false => [0; 0] | Ok true => [1; 0] | Err e => [2; e] | Panic _ => [9; 0] end.
Definition wr_optpkt8 (o : option packet) : list N := match o with Some p => 1 :: wr_packet p | None => [0] end.
Definition wr_blockopt (o : option blockv) : list N :=
  match o with Some b => [1; b_num b; b2n (b_more b); b_szx b] | None => [0] end.
(* cached bodies are observed through their length and a digest (they can be tens of kilobytes,
   once per exchange) *)
Definition digest (l : list N) : N := fold_left (fun acc x => (acc * 31 + x) mod 1000003) l 7.
Definition wr_state (o : option bstate) : list N :=
  match o with
  | None => [0]
  | Some st => 1 :: wr_blockopt (last_b2 st)
               ++ match cached_resp st with Some p => [1; len (payload p); digest (wr_packet p)] | None => [0] end
               ++ match cached_payload st with Some b => [1; len b; digest b] | None => [0] end
  end.
Definition enc_len (o : option packet) : N :=
  match o with Some p => match to_bytes_unlimited p with Ok bs => len bs | _ => 0 end | None => 0 end.

Definition apply_reply (rq : request) (rp : reply) : request :=
  match response rq with
  | None => rq
  | Some r =>
    let r := set_code r (class_dec (rp_code rp)) in
    let r := fold_left (fun q kv => set_option q (fst kv) (snd kv)) (rp_opts rp) r in
    with_response rq (Some (set_payload r (rp_body rp)))
  end.

(* first half of an exchange: the request goes through intercept_request *)
Definition ex_begin (h : handler) (now : N) (p : packet) (src : N) : option (outcome bool * request * ckey) * handler :=
  match from_packet p src with
  | Ok rq => let '(r1, rq1, h1) := intercept_request h now rq in (Some (r1, rq1, request_key rq), h1)
  | _ => (None, h)
  end.

(* second half; result: fields of the observation, and the handler afterwards.  [always]: the server loop passes EVERY
   outgoing response through intercept_response, also the ones intercept_request produced itself (mode 3) *)
Definition ex_end (always : bool) (h1 : handler) (now : N) (b : option (outcome bool * request * ckey)) (rp : reply) : list N * handler :=
  match b with
  | Some (r1, rq1, k) =>
    match r1 with
    | Ok false =>
      let seen := payload (message rq1) in
      let rq2 := apply_reply rq1 rp in
      let '(r2, rq3, h2) := intercept_response h1 now rq2 in
      (wr_result r1 ++ 1 :: wr_bytes seen ++ wr_result r2 ++ wr_optpkt8 (response rq3) ++ [enc_len (response rq3)]
       ++ wr_state (c_peek (h_ttl h2) now k (h_cache h2)) ++ [len (h_cache h2)], h2)
    | Ok true =>
      if always then
        let '(r2, rq3, h2) := intercept_response h1 now rq1 in
        (wr_result r1 ++ 0 :: wr_bytes [] ++ wr_result r2 ++ wr_optpkt8 (response rq3) ++ [enc_len (response rq3)]
         ++ wr_state (c_peek (h_ttl h2) now k (h_cache h2)) ++ [len (h_cache h2)], h2)
      else
        (wr_result r1 ++ 0 :: wr_bytes [] ++ [0; 0] ++ wr_optpkt8 (response rq1) ++ [enc_len (response rq1)]
         ++ wr_state (c_peek (h_ttl h1) now k (h_cache h1)) ++ [len (h_cache h1)], h1)
    | _ =>
      (wr_result r1 ++ 0 :: wr_bytes [] ++ [0; 0] ++ wr_optpkt8 (response rq1) ++ [enc_len (response rq1)]
       ++ wr_state (c_peek (h_ttl h1) now k (h_cache h1)) ++ [len (h_cache h1)], h1)
    end
  | None => ([9; 0], h1)
  end.

Definition exchange (always : bool) (h : handler) (now : N) (p : packet) (src : N) (rp : reply) : list N * handler :=
  let '(b, h1) := ex_begin h now p src in ex_end always h1 now b rp.

(* ttl mode 0: one hour, never reached; mode 1: short, Sleep steps exceed it; mode 4: one second, with every exchange observed
   (the generator keeps every idle period at least 200 ms away from it).  Model time: a
   millisecond clock that stands still except for Sleep. *)
Definition ttl_of (mode : N) : N := if (mode =? 0) || (mode =? 3) then 3600000 else if mode =? 1 then 40 else if mode =? 4 then 1000 else 300.

(* mode 1: only exchanges immediately after a Sleep are observed (everything else depends on
   the real clock) *)
(* requests that have been through intercept_request and wait for their application: (tid, first half, reply) *)
Definition pending := list (N * option (outcome bool * request * ckey) * reply).
Fixpoint take_pending (t : N) (pd : pending) : option ((N * option (outcome bool * request * ckey) * reply) * pending) :=
  match pd with
  | [] => None
  | ((t', b, rp) as x) :: r => if t' =? t then Some (x, r)
                               else match take_pending t r with Some (y, r') => Some (y, x :: r') | None => None end
  end.

Fixpoint run_steps_p (pd : pending) (h : handler) (now : N) (mode : N) (after_sleep : bool) (l : list step) : list N :=
  match l with
  | [] => []
  | Sleep :: r => run_steps_p pd h (now + 10 * h_ttl h + 1) mode true r
  | Nap :: r => run_steps_p pd h (now + 100) mode after_sleep r
  | Begin t p src rp :: r =>
    let '(b, h1) := ex_begin h now p src in run_steps_p (pd ++ [(t, b, rp)]) h1 now mode after_sleep r
  | End t :: r =>
    match take_pending t pd with
    | Some ((_, b, rp), pd') =>
      let '(o, h') := ex_end (mode =? 3) h now b rp in
      (len o :: o) ++ run_steps_p pd' h' now mode false r
    | None => run_steps_p pd h now mode after_sleep r
    end
  | Exchange _ p src rp :: r =>
    let '(o, h') := exchange (mode =? 3) h now p src rp in
    (if mode =? 2
     then (* mode 2: only the last exchange is observed, without the number of physical entries (which depends on
             how long the naps really took) *)
          (if existsb (fun s => match s with Exchange _ _ _ _ => true | _ => false end) r then []
           else let o' := removelast o ++ [0] in len o' :: o')
     else if mode =? 4
     then (* mode 4: every exchange is observed, without the number of physical entries (which depends on how long the naps
             really took: an entry of another key may be purged one access earlier or later) *)
          (let o' := removelast o ++ [0] in len o' :: o')
     else if (mode =? 0) || (mode =? 3) || after_sleep then len o :: o else []) ++ run_steps_p pd h' now mode false r
  end.
Definition run_steps := run_steps_p [].

(* kind 2: an exchange whose application reply is the same as the previous exchange's *)
Fixpoint rd_steps (k : nat) (prev : reply) (s : list N) : option (list step * list N) :=
  match k with
  | O => Some ([], s)
  | S k' =>
    match s with
    | 2 :: tid :: r =>
      match rd_packet r with
      | Some (p, src :: r1) =>
        match rd_steps k' prev r1 with Some (l, r2) => Some (Exchange tid p src prev :: l, r2) | None => None end
      | _ => None end
    | _ =>
      match rd_step s with
      | Some (st, r1) =>
        let prev' := match st with Exchange _ _ _ rp | Begin _ _ _ rp => rp | _ => prev end in
        match rd_steps k' prev' r1 with Some (l, r2) => Some (st :: l, r2) | None => None end
      | None => None end
    end
  end.

Definition rd_case8 (s : list N) : option (N * N * list step) :=
  match s with
  | m :: mode :: n :: r => match rd_steps (N.to_nat n) (mkReply 0 [] []) r with Some (l, []) => Some (m, mode, l) | _ => None end
  | _ => None
  end.

Definition run_case8 (s : list N) : list N :=
  match rd_case8 s with
  | Some (m, mode, l) => run_steps (mkHandler m (ttl_of mode) []) 0 mode false l
  | None => [999]
  end.

(* suite 120 also runs every transfer alone on a fresh handler *)
Definition tids (l : list step) : list N :=
  fold_left (fun acc s => match s with Exchange t _ _ _ | Begin t _ _ _ => if existsb (N.eqb t) acc then acc else acc ++ [t] | _ => acc end) l [].
Definition only (t : N) (l : list step) : list step :=
  (* time passes in a transfer's solo run as it does in the interleaved one: the pauses stay, the other transfers' exchanges go *)
  filter (fun s => match s with Exchange t' _ _ _ | Begin t' _ _ _ | End t' => t' =? t | Sleep | Nap => true end) l.
Definition run_case12 (s : list N) : list N :=
  match rd_case8 s with
  | Some (m, mode, l) =>
    let inter := run_steps (mkHandler m (ttl_of mode) []) 0 mode false l in
    let solos := flat_map (fun t => let o := run_steps (mkHandler m (ttl_of mode) []) 0 mode false (only t l) in len o :: o) (tids l) in
    len inter :: inter ++ solos
  | None => [999]
  end.

(* ---------- parsing observations back (for the oracles) ---------- *)
Record obs := mkObsn {
  o_r1 : N; o_e1 : N; o_app : bool; o_seen : bytes; o_r2 : N; o_e2 : N;
  o_resp : option packet; o_len : N;
  o_state : option (option blockv * option (N * N) * option (N * N)); o_entries : N }.

Definition rd_optpkt8 : rd (option packet) := fun s =>
  match s with
  | 0 :: r => Some (None, r)
  | 1 :: r => match rd_packet r with Some (p, r') => Some (Some p, r') | None => None end
  | _ => None
  end.
Definition rd_blockopt : rd (option blockv) := fun s =>
  match s with
  | 0 :: r => Some (None, r)
  | 1 :: n :: m :: x :: r => Some (Some (mkBlock n (negb (m =? 0)) x), r)
  | _ => None
  end.
Definition rd_digest : rd (option (N * N)) := fun s =>
  match s with
  | 0 :: r => Some (None, r)
  | 1 :: l :: d :: r => Some (Some (l, d), r)
  | _ => None
  end.
Definition rd_state : rd (option (option blockv * option (N * N) * option (N * N))) := fun s =>
  match s with
  | 0 :: r => Some (None, r)
  | 1 :: r =>
    match rd_blockopt r with
    | Some (b, r1) =>
      match rd_digest r1 with
      | Some (c, r2) => match rd_digest r2 with Some (buf, r3) => Some (Some (b, c, buf), r3) | None => None end
      | None => None end
    | None => None end
  | _ => None
  end.

Definition rd_obs : rd obs := fun s =>
  match s with
  | 9 :: 0 :: r => Some (mkObsn 9 0 false [] 0 0 None 0 None 0, r)
  | r1 :: e1 :: app :: r =>
    match rd_bytes r with
    | Some (seen, r2 :: e2 :: r') =>
      match rd_optpkt8 r' with
      | Some (resp, l :: r'') =>
        match rd_state r'' with
        | Some (st, n :: r3) => Some (mkObsn r1 e1 (negb (app =? 0)) seen r2 e2 resp l st n, r3)
        | _ => None end
      | _ => None end
    | _ => None end
  | _ => None
  end.

(* observations are length-prefixed *)
Fixpoint rd_obs_list (fuel : nat) (s : list N) : option (list obs) :=
  match fuel with
  | O => None
  | S f =>
    match s with
    | [] => Some []
    | n :: r => if n <=? len r then
                  match rd_obs (take n r) with
                  | Some (o, []) => match rd_obs_list f (drop n r) with Some l => Some (o :: l) | None => None end
                  | _ => None end
                else None
    end
  end.

(* the exchanges in the order in which they complete (a split exchange completes at its End) *)
Fixpoint take_begun (t : N) (pd : list (N * packet * N * reply)) : option ((N * packet * N * reply) * list (N * packet * N * reply)) :=
  match pd with
  | [] => None
  | ((t', _, _, _) as x) :: r => if t' =? t then Some (x, r)
                                 else match take_begun t r with Some (y, r') => Some (y, x :: r') | None => None end
  end.
Fixpoint exchanges_p (pd : list (N * packet * N * reply)) (l : list step) : list (N * packet * N * reply) :=
  match l with
  | [] => []
  | Exchange t p src rp :: r => (t, p, src, rp) :: exchanges_p pd r
  | Begin t p src rp :: r => exchanges_p (pd ++ [(t, p, src, rp)]) r
  | End t :: r => match take_begun t pd with Some (x, pd') => x :: exchanges_p pd' r | None => exchanges_p pd r end
  | _ :: r => exchanges_p pd r
  end.
Definition exchanges (l : list step) : list (N * packet * N * reply) := exchanges_p [] l.

(* ---------- common oracle parts ---------- *)
Definition block_of (n : N) (p : packet) : option blockv := first_block n p.
Definition panicked (o : obs) : bool := (o_r1 o =? 9) || (o_r2 o =? 9).
(* the response belongs to the request being answered *)
Definition correlated (req : packet) (o : obs) : bool :=
  match o_resp o with
  | Some r => (mid (hdr r) =? mid (hdr req)) && bytes_eqb (token r) (token req)
              (* ... and the header announces that token's length (on the wire a stale length nibble cuts the token short) *)
              && (vtt (hdr r) mod 16 =? len (token req))
  | None => true
  end.
Definition handled (o : obs) : bool := (o_r1 o =? 1).          (* answered by the handler, application not consulted *)
Definition opts_superset (app_opts : list (N * list bytes)) (r : packet) : bool :=
  forallb (fun kv => if (fst kv =? OPT_BLOCK2) || (fst kv =? OPT_BLOCK1) then true
                     else match opt_get (opts r) (fst kv) with
                          | Some vs => list_eqb bytes_eqb vs (snd kv) | None => false end) app_opts.
Definition is_pow2_block (sz : N) : bool := existsb (N.eqb sz) [16; 32; 64; 128; 256; 512; 1024].

(* ------------------------------ suite 80 (C08) ------------------------------ *)
(* The generator plays an in-order Block2 client against the implementation and records the
   requests it sent.  The reply of the first exchange carries the body; the transfer ends
   with the first response whose Block2 has the more flag clear (or that carries no Block2). *)
Fixpoint check_b2 (body : bytes) (app_opts : list (N * list bytes)) (off : N) (first : bool)
                  (l : list (N * packet * N * reply)) (os : list obs) : bool :=
  match l, os with
  | [], [] => true
  | (_, req, _, _) :: l', o :: os' =>
    negb (panicked o) && correlated req o && negb (o_r1 o =? 2) && negb (o_r2 o =? 2)
    && (if first then o_app o && (o_r1 o =? 0) else negb (o_app o) && handled o)
    && match o_resp o with
       | None => false
       | Some r =>
         opts_superset app_opts r &&
         (match block_of OPT_BLOCK2 req with Some cb => len (payload r) <=? block_size cb | None => true end) &&
         match block_of OPT_BLOCK2 r with
         | None => (* not fragmented: the whole body in one response *)
                   first && bytes_eqb (payload r) body && match l' with [] => true | _ => false end
         | Some b =>
           let sz := block_size b in
           (b_num b * sz =? off)
           && bytes_eqb (payload r) (take sz (drop off body))
           && (if b_more b then (len (payload r) =? sz) && (off + sz <? len body) && check_b2 body app_opts (off + sz) false l' os'
               else (off + len (payload r) =? len body)
                    && match l' with [] => true | _ => false end
                    && match o_state o with Some (_, Some _, _) => false | _ => true end)
         end
       end
  | _, _ => false
  end.

(* a case may hold several transfers (one per tid), in a row or with other keys' exchanges in between: each is judged on
   its own, in the order of its own exchanges *)
Definition span_tid (t : N) (l : list ((N * packet * N * reply) * obs)) : list ((N * packet * N * reply) * obs) * list ((N * packet * N * reply) * obs) :=
  (filter (fun x => let '((t', _, _, _), _) := x in t' =? t) l, filter (fun x => let '((t', _, _, _), _) := x in negb (t' =? t)) l).
Fixpoint check_transfers (fuel : nat) (l : list ((N * packet * N * reply) * obs)) : bool :=
  match fuel with
  | O => false
  | S f =>
    match l with
    | [] => true
    | (((t, _, _, rp), _) as x) :: r =>
      let '(a, b) := span_tid t r in
      check_b2 (rp_body rp) (rp_opts rp) 0 true (map fst (x :: a)) (map snd (x :: a)) && check_transfers f b
    end
  end.

Definition verdict80 (s out : list N) : bool :=
  match rd_case8 s with
  | Some (m, mode, l) =>
    match exchanges l, rd_obs_list (S (length out)) out with
    | (_ :: _) as ex, Some os => (len ex =? len os) && check_transfers (S (length ex)) (combine ex os)
    | _, _ => false
    end
  | None => false
  end.
Definition classify80 (s : list N) : N :=
  match rd_case8 s with
  | Some (m, mode, l) => match exchanges l with
                         | (_, req, _, rp) :: r =>
                           match rp_body rp with [] => 1 | _ => match r with [] => 2 | _ => match block_of OPT_BLOCK2 req with Some _ => 4 | None => 3 end end end
                         | [] => 0 end
  | None => 0
  end.

(* ------------------------------ suite 90 (C09) ------------------------------ *)
(* The generator sends an upload's blocks in order, each possibly repeated, optionally after an
   abandoned prefix of another upload (exchanges with tid 9 come first and are not judged).
   The body is the concatenation of the judged blocks' payloads without the repeats. *)
Fixpoint check_b1 (body : bytes) (l : list (N * packet * N * reply)) (os : list obs) (app_runs : N) : bool :=
  match l, os with
  | [], [] => app_runs =? 1
  | (tid, req, _, _) :: l', o :: os' =>
    if tid =? 9 then negb (panicked o) && check_b1 body l' os' app_runs else
    negb (panicked o) && correlated req o &&
    match block_of OPT_BLOCK1 req with
    | None => false
    | Some b =>
      if b_more b then
        handled o && negb (o_app o)
        && match o_resp o with
           | Some r => mclass_eqb (code (hdr r)) (Response Continue)
                       && match block_of OPT_BLOCK1 r with
                          | Some rb => (b_num rb * block_size rb =? b_num b * block_size b) && (block_size rb <=? block_size b)
                          | None => false end
           | None => false end
        && check_b1 body l' os' app_runs
      else
        o_app o && bytes_eqb (o_seen o) body
        && match o_resp o with Some r => match block_of OPT_BLOCK1 r with Some _ => true | None => false end | None => false end
        && check_b1 body l' os' (app_runs + 1)
    end
  | _, _ => false
  end.

(* the body the client means: payloads of the judged blocks, each block number once *)
Fixpoint body_of (l : list (N * packet * N * reply)) (next : N) : bytes :=
  match l with
  | [] => []
  | (tid, req, _, _) :: l' =>
    if tid =? 9 then body_of l' next else
    match block_of OPT_BLOCK1 req with
    | Some b => if b_num b =? next then payload req ++ body_of l' (next + 1) else body_of l' next
    | None => body_of l' next
    end
  end.

(* known finding D11: the final block delivered again after the upload completed *)
Fixpoint dup_final (l : list (N * packet * N * reply)) (seen_final : bool) : bool :=
  match l with
  | [] => false
  | (tid, req, _, _) :: l' =>
    if tid =? 9 then dup_final l' seen_final else
    match block_of OPT_BLOCK1 req with
    | Some b => if b_more b then dup_final l' seen_final else if seen_final then true else dup_final l' true
    | None => dup_final l' seen_final
    end
  end.

(* "too large without Block1": a single exchange answered 4.13 with a Block1 size hint *)
Definition check_413 (req : packet) (o : obs) : bool :=
  negb (panicked o) && handled o && negb (o_app o) && correlated req o
  && match o_resp o with
     | Some r => mclass_eqb (code (hdr r)) (Response RequestEntityTooLarge)
                 && match block_of OPT_BLOCK1 r with Some rb => (b_num rb =? 0) && is_pow2_block (block_size rb) | None => false end
     | None => false end.

Definition verdict90 (s out : list N) : bool :=
  match rd_case8 s with
  | Some (m, mode, l) =>
    match rd_obs_list (S (length out)) out with
    | Some os =>
      (* a request judged as "too large" has tid 8 and comes last; anything before it (tid 9: an abandoned upload or an
         earlier refusal on the same resource) is not judged beyond "no panic" *)
      match rev (exchanges l), rev os with
      | (8, req, _, _) :: pre, o :: opre =>
        forallb (fun x => let '(t, _, _, _) := x in t =? 9) pre && forallb (fun o' => negb (panicked o')) opre
        && (len pre =? len opre) && check_413 req o
      | _, _ => check_b1 (body_of (exchanges l) 0) (exchanges l) os 0
      end
    | None => false
    end
  | None => false
  end.
Definition known90 (s : list N) : N :=
  match rd_case8 s with Some (_, _, l) => if dup_final (exchanges l) false then 2 else 0 | None => 0 end.
Definition classify90 (s : list N) : N :=
  match rd_case8 s with
  | Some (m, mode, l) => match exchanges l with
                         | [(8, _, _, _)] => 3
                         | ex => if existsb (fun x => let '(t, _, _, _) := x in t =? 9) ex then 2 else 1 end
  | None => 0
  end.

(* ------------------------------ suite 100 (C10) ------------------------------ *)
(* every message the handler produces or passes fits the budget; chosen block sizes are powers of two in
   16..1024 and never exceed the client's *)
Definition overhead (p : packet) : N := match to_bytes_unlimited (set_payload p []) with Ok bs => len bs | _ => 100000 end.
Definition within_budget (m : N) (req : packet) (o : obs) : bool :=
  negb (panicked o) &&
  match o_resp o with
  | None => true
  | Some r =>
    (* errors leave a partially prepared response behind: it is not sent as it is *)
    if (o_r1 o =? 2) || (o_r2 o =? 2) then true else
    (o_len o <=? m)
    && match block_of OPT_BLOCK2 r with
       | Some b => is_pow2_block (block_size b)
                   && match block_of OPT_BLOCK2 req with
                      | Some cb => (block_size b <=? block_size cb)
                                   (* exactly the client's size when it fits with 32 bytes to spare (the response's own
                                      overhead, Block2 option included, is an upper bound of the application's) *)
                                   && (if (b_szx cb <=? 6) && (overhead r + block_size cb + 32 <=? m) then block_size b =? block_size cb else true)
                      | None => true end
       | None => true end
    && match block_of OPT_BLOCK1 r with
       | Some b => is_pow2_block (block_size b)
                   && match block_of OPT_BLOCK1 req with
                      | Some cb => (block_size b <=? block_size cb)
                                   && (if (b_szx cb <=? 6) && (overhead req + block_size cb + 32 <=? m) then block_size b =? block_size cb else true)
                      | None => true end
                   (* the client's next upload block of the acknowledged size fits: size <= M - overhead - 12 *)
                   && (block_size b + overhead req + 12 <=? m)
       | None => true end
  end.

(* the domain of C10: budget between overhead + 28 and 1280; the application's reply has no Block2 of its own *)
Definition in_budget_domain (m : N) (req : packet) (rp : reply) (o : obs) : bool :=
  (m <=? 1280) && (overhead req + 28 <=? m)
  && negb (existsb (fun kv => fst kv =? OPT_BLOCK2) (rp_opts rp))
  && match o_resp o with Some r => (overhead r + 28 <=? m) | None => true end.

Fixpoint check_budget (m : N) (l : list (N * packet * N * reply)) (os : list obs) : bool :=
  match l, os with
  | [], [] => true
  | (_, req, _, rp) :: l', o :: os' =>
    (if in_budget_domain m req rp o then within_budget m req o else negb (panicked o)) && check_budget m l' os'
  | _, _ => false
  end.
Definition verdict100 (s out : list N) : bool :=
  match rd_case8 s with
  | Some (m, mode, l) => match rd_obs_list (S (length out)) out with Some os => check_budget m (exchanges l) os | None => false end
  | None => false
  end.
Definition classify100 (s : list N) : N :=
  match rd_case8 s with
  | Some (m, mode, l) => match exchanges l with (_, req, _, _) :: _ => if (m <=? 1280) && (overhead req + 28 <=? m) then 1 else 2 | [] => 0 end
  | None => 0
  end.

(* ------------------------------ suite 110 (C11) ------------------------------ *)
(* never a panic; an error is renderable (it has a code >= 4.00, or there is no response to render it into);
   a block whose offset needs a jump of more than 16 KiB is rejected and leaves the buffer unchanged;
   no single request grows the buffer by more than 16 KiB beyond its own payload *)
Definition buf_len (st : option (option blockv * option (N * N) * option (N * N))) : N :=
  match st with Some (_, _, Some b) => fst b | _ => 0 end.
Definition buf_dig (st : option (option blockv * option (N * N) * option (N * N))) : option (N * N) :=
  match st with Some (_, _, Some b) => Some b | _ => None end.

(* prev: per key, the buffer (length, digest) as last observed *)
Fixpoint check_hostile (l : list (N * packet * N * reply)) (os : list obs) (prev : list (N * option (N * N))) : bool :=
  match l, os with
  | [], [] => true
  | (tid, req, _, _) :: l', o :: os' =>
    let before_d := match find (fun x => fst x =? tid) prev with Some x => snd x | None => None end in
    let before := match before_d with Some b => fst b | None => 0 end in
    let after := buf_len (o_state o) in
    negb (panicked o)
    && (if o_r1 o =? 2 then (128 <=? o_e1 o) || ((o_e1 o =? 0) && match o_resp o with None => true | Some _ => false end) else true)
    && (if o_r2 o =? 2 then (128 <=? o_e2 o) else true)
    && (after <=? before + MAX_RESERVE + len (payload req))
    && (if o_app o then len (o_seen o) <=? before + MAX_RESERVE + len (payload req) else true)
    (* a request rejected with an internal error leaves the buffered data as it was *)
    && (if (o_r1 o =? 2) && (o_e1 o =? 160)
        then match before_d, buf_dig (o_state o) with
             | Some b, Some a => (fst a =? fst b) && (snd a =? snd b)
             | Some _, None => false
             | None, Some a => fst a =? 0
             | None, None => true
             end
        else true)
    && check_hostile l' os' ((tid, buf_dig (o_state o)) :: filter (fun x => negb (fst x =? tid)) prev)
  | _, _ => false
  end.
(* in suite 110 the tid of an exchange identifies its cache key (the generator guarantees it) *)
Definition verdict110 (s out : list N) : bool :=
  match rd_case8 s with
  | Some (m, mode, l) => match rd_obs_list (S (length out)) out with Some os => check_hostile (exchanges l) os [] | None => false end
  | None => false
  end.
Definition classify110 (s : list N) : N :=
  match rd_case8 s with
  | Some (m, mode, l) => if m <? 64 then 1 else if m <? 1281 then 2 else 3
  | None => 0
  end.

(* ------------------------------ suite 120 (C12) ------------------------------ *)
(* the observation list of the interleaved run, projected on each transfer, equals the transfer's
   solo run; cache entry counts are not compared (they differ by construction) *)
Definition obs_eqb_nocount (a b : obs) : bool :=
  let strip (o : obs) := mkObsn (o_r1 o) (o_e1 o) (o_app o) (o_seen o) (o_r2 o) (o_e2 o) (o_resp o) (o_len o) (o_state o) 0 in
  let w (o : obs) := [o_r1 o; o_e1 o; b2n (o_app o)] ++ wr_bytes (o_seen o) ++ [o_r2 o; o_e2 o] ++ wr_optpkt8 (o_resp o) ++ [o_len o]
                     ++ match o_state o with
                        | None => [0]
                        | Some (b, c, buf) => 1 :: wr_blockopt b ++ match c with Some x => [1; fst x; snd x] | None => [0] end
                                              ++ match buf with Some x => [1; fst x; snd x] | None => [0] end
                        end in
  list_eqb N.eqb (w (strip a)) (w (strip b)).

Fixpoint split_solos (fuel : nat) (s : list N) : option (list (list N)) :=
  match fuel with
  | O => None
  | S f => match s with
           | [] => Some []
           | n :: r => if n <=? len r then match split_solos f (drop n r) with Some l => Some (take n r :: l) | None => None end else None
           end
  end.

Definition verdict120 (s out : list N) : bool :=
  match rd_case8 s, out with
  | Some (m, mode, l), n :: r =>
    if n <=? len r then
      match rd_obs_list (S (length r)) (take n r), split_solos (S (length r)) (drop n r) with
      | Some inter, Some solos =>
        let ex := exchanges l in
        (len inter =? len ex)
        && forallb (fun x => let '(((t, req, _, _), o)) := x in negb (panicked o) && correlated req o) (combine ex inter)
        && (len solos =? len (tids l))
        && forallb (fun ts =>
              let '(t, solo) := ts in
              match rd_obs_list (S (length solo)) solo with
              | Some so =>
                let proj := map snd (filter (fun x => let '((t', _, _, _), _) := x in t' =? t) (combine ex inter)) in
                leqb2 obs_eqb_nocount proj so
              | None => false end) (combine (tids l) solos)
      | _, _ => false end
    else false
  | _, _ => false
  end.

Definition classify120 (s : list N) : N :=
  match rd_case8 s with Some (m, mode, l) => len (tids l) | None => 0 end.

(* ------------------------------ suite 200 (C20) ------------------------------ *)
(* mode 0 (expiry one hour): the judged exchange is the last one; it comes after any number of exchanges for
   other keys and must continue the transfer that the first exchanges started: a Block2 follow-up is served from
   the cache (application not consulted), an upload continues on its buffer (body = all blocks).
   mode 2 (expiry 300 ms, naps of 100 ms with requests on OTHER keys between them): as mode 1 for the last exchange.
   mode 1 (short expiry): the exchange after the Sleep must be treated as fresh: it reaches the application /
   starts from an empty buffer, and the expired entries are gone from the cache (only the new entry remains). *)
Definition last_obs (os : list obs) : option obs := match rev os with o :: _ => Some o | [] => None end.
Definition last_ex (l : list (N * packet * N * reply)) := match rev l with x :: _ => Some x | [] => None end.

Definition verdict200 (s out : list N) : bool :=
  match rd_case8 s with
  | Some (m, mode, l) =>
    match rd_obs_list (S (length out)) out with
    | Some os =>
      match last_ex (exchanges l), last_obs os with
      | Some (t, req, _, rp), Some o =>
        negb (panicked o) && correlated req o &&
        if mode =? 0 then
          (* retained *)
          match block_of OPT_BLOCK2 req, block_of OPT_BLOCK1 req with
          | Some b, _ => handled o && negb (o_app o)
                         && match o_resp o, exchanges l with
                            | Some r, (_, _, _, rp0) :: _ => bytes_eqb (payload r) (take (block_size b) (drop (b_num b * block_size b) (rp_body rp0)))
                            | _, _ => false end
          | None, Some b => o_app o && bytes_eqb (o_seen o) (body_of (filter (fun x => let '(t', _, _, _) := x in t' =? t) (exchanges l)) 0)
          | None, None => true
          end
        else
          (* expired: fresh, and reclaimed (mode 2, short naps with other keys' traffic in between: the judged key's
             state must have expired although other keys were used in the meantime; the entry count is not observed) *)
          ((mode =? 2) || (o_entries o =? 1))
          && match block_of OPT_BLOCK2 req, block_of OPT_BLOCK1 req with
             | Some b, _ => o_app o
             | None, Some b => if b_more b then true
                               else o_app o && (len (o_seen o) =? b_num b * block_size b + len (payload req))
                                    && bytes_eqb (drop (b_num b * block_size b) (o_seen o)) (payload req)
                                    && forallb (N.eqb 0) (take (b_num b * block_size b) (o_seen o))
             | None, None => o_app o
             end
      | _, _ => false
      end
    | None => false
    end
  | None => false
  end.
Definition classify200 (s : list N) : N :=
  match rd_case8 s with Some (m, mode, l) => 1 + mode | None => 0 end.

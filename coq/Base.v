(* Base.v -- shared conventions for every model file.
   Bytes, lengths, numbers are N.  Rust panics are values (Panic).
   No proofs live in model files. *)
From Coq Require Export List NArith ZArith Lia ZifyN ZifyBool ZifyNat Bool.
Export ListNotations.
Open Scope N_scope.

Global Arguments N.add : simpl never.
Global Arguments N.sub : simpl never.
Global Arguments N.mul : simpl never.
Global Arguments N.div : simpl never.
Global Arguments N.modulo : simpl never.
Global Arguments N.leb : simpl never.
Global Arguments N.ltb : simpl never.
Global Arguments N.eqb : simpl never.
Global Arguments N.pow : simpl never.
Global Arguments N.min : simpl never.
Global Arguments N.max : simpl never.

Notation bytes := (list N) (only parsing).
Definition bytes_wf (bs : bytes) : Prop := Forall (fun b => b < 256) bs.
Definition len {A} (l : list A) : N := N.of_nat (length l).

(* Result of a piece of Rust code: normal value, error value (small code), or
   a language-level panic at a numbered site. *)
Inductive outcome (A : Type) : Type :=
| Ok (a : A)
| Err (e : N)
| Panic (site : N).
Arguments Ok {A} a.
Arguments Err {A} e.
Arguments Panic {A} site.

Definition bind {A B} (x : outcome A) (f : A -> outcome B) : outcome B :=
  match x with
  | Ok a => f a
  | Err e => Err e
  | Panic s => Panic s
  end.
Notation "'do' x <- e ; f" := (bind e (fun x => f))
  (at level 200, x pattern, e at level 100, f at level 200, right associativity).

(* Checked arithmetic of a fixed-width unsigned type: Panic when leaving the range
   (overflow-checks on).  With checks off Rust wraps; the theorems show the Panic
   sites are unreachable so both builds coincide. *)
Definition chk_add (w site a b : N) : outcome N :=
  if a + b <? w then Ok (a + b) else Panic site.
Definition U8 : N := 256.
Definition U16 : N := 65536.
Definition U32 : N := 4294967296.
Definition U64 : N := 18446744073709551616.

Fixpoint list_eqb {A} (eqb : A -> A -> bool) (a b : list A) : bool :=
  match a, b with
  | [], [] => true
  | x :: a', y :: b' => eqb x y && list_eqb eqb a' b'
  | _, _ => false
  end.
Definition bytes_eqb : bytes -> bytes -> bool := list_eqb N.eqb.

Definition b2n (b : bool) : N := if b then 1 else 0.

Definition take (n : N) {A} (l : list A) : list A := firstn (N.to_nat n) l.
Definition drop (n : N) {A} (l : list A) : list A := skipn (N.to_nat n) l.

(* ------------------------------------------------------------------ *)
(* Flat number-list codec used by the correspondence suites: every suite's
   input and output is a list N; structure is length-prefixed.            *)

Definition rd (A : Type) := list N -> option (A * list N).

Definition rd_n : rd N := fun s => match s with x :: r => Some (x, r) | [] => None end.

Definition rd_bytes : rd bytes := fun s =>
  match s with
  | n :: r => if n <=? len r then Some (take n r, drop n r) else None
  | [] => None
  end.

Fixpoint rd_list_fuel {A} (f : rd A) (k : nat) : rd (list A) := fun s =>
  match k with
  | O => Some ([], s)
  | S k' =>
    match f s with
    | Some (a, r) =>
      match rd_list_fuel f k' r with
      | Some (l, r') => Some (a :: l, r')
      | None => None
      end
    | None => None
    end
  end.

Definition rd_list {A} (f : rd A) : rd (list A) := fun s =>
  match s with
  | n :: r => rd_list_fuel f (N.to_nat n) r
  | [] => None
  end.

Definition wr_bytes (b : bytes) : list N := len b :: b.
Definition wr_list {A} (f : A -> list N) (l : list A) : list N :=
  len l :: flat_map f l.

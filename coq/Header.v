(* Header.v -- model of src/header.rs: the raw first byte, the MessageClass enum
   with its two conversion tables, message types, bit-field setters/getters. *)
From CoapV Require Import Base.

Inductive reqtype := Get | Post | Put | Delete | Fetch | Patch | IPatch | ReqUnKnown.

Inductive resptype :=
| Created | Deleted | Valid | Changed | Content | Continue
| BadRequest | Unauthorized | BadOption | Forbidden | NotFound | MethodNotAllowed
| NotAcceptable | Conflict | PreconditionFailed | RequestEntityTooLarge
| UnsupportedContentFormat | RequestEntityIncomplete | UnprocessableEntity | TooManyRequests
| InternalServerError | NotImplemented | BadGateway | ServiceUnavailable | GatewayTimeout
| ProxyingNotSupported | HopLimitReached
| RespUnKnown.

Inductive mclass := Empty | Request (r : reqtype) | Response (s : resptype) | Reserved (n : N).

Inductive mtype := Confirmable | NonConfirmable | Acknowledgement | Reset.

(* impl From<u8> for MessageClass *)
Definition class_of_byte (b : N) : mclass :=
  match b with
  | 0 => Empty
  | 1 => Request Get | 2 => Request Post | 3 => Request Put | 4 => Request Delete
  | 5 => Request Fetch | 6 => Request Patch | 7 => Request IPatch
  | 65 => Response Created | 66 => Response Deleted | 67 => Response Valid
  | 68 => Response Changed | 69 => Response Content | 95 => Response Continue
  | 128 => Response BadRequest | 129 => Response Unauthorized | 130 => Response BadOption
  | 131 => Response Forbidden | 132 => Response NotFound | 133 => Response MethodNotAllowed
  | 134 => Response NotAcceptable | 137 => Response Conflict | 140 => Response PreconditionFailed
  | 141 => Response RequestEntityTooLarge | 143 => Response UnsupportedContentFormat
  | 136 => Response RequestEntityIncomplete | 150 => Response UnprocessableEntity
  | 157 => Response TooManyRequests
  | 160 => Response InternalServerError | 161 => Response NotImplemented | 162 => Response BadGateway
  | 163 => Response ServiceUnavailable | 164 => Response GatewayTimeout
  | 165 => Response ProxyingNotSupported | 168 => Response HopLimitReached
  | n => Reserved n
  end.

Definition req_to_byte (r : reqtype) : N :=
  match r with
  | Get => 1 | Post => 2 | Put => 3 | Delete => 4 | Fetch => 5 | Patch => 6 | IPatch => 7
  | ReqUnKnown => 255
  end.

Definition resp_to_byte (s : resptype) : N :=
  match s with
  | Created => 65 | Deleted => 66 | Valid => 67 | Changed => 68 | Content => 69 | Continue => 95
  | BadRequest => 128 | Unauthorized => 129 | BadOption => 130 | Forbidden => 131 | NotFound => 132
  | MethodNotAllowed => 133 | NotAcceptable => 134 | Conflict => 137 | PreconditionFailed => 140
  | RequestEntityTooLarge => 141 | UnsupportedContentFormat => 143 | RequestEntityIncomplete => 136
  | UnprocessableEntity => 150 | TooManyRequests => 157
  | InternalServerError => 160 | NotImplemented => 161 | BadGateway => 162 | ServiceUnavailable => 163
  | GatewayTimeout => 164 | ProxyingNotSupported => 165 | HopLimitReached => 168
  | RespUnKnown => 255
  end.

(* impl From<MessageClass> for u8 *)
Definition class_to_byte (c : mclass) : N :=
  match c with
  | Empty => 0
  | Request r => req_to_byte r
  | Response s => resp_to_byte s
  | Reserved n => n
  end.

(* Declaration order of ResponseType: what the derived PartialOrd compares. *)
Definition resp_index (s : resptype) : N :=
  match s with
  | Created => 0 | Deleted => 1 | Valid => 2 | Changed => 3 | Content => 4 | Continue => 5
  | BadRequest => 6 | Unauthorized => 7 | BadOption => 8 | Forbidden => 9 | NotFound => 10
  | MethodNotAllowed => 11 | NotAcceptable => 12 | Conflict => 13 | PreconditionFailed => 14
  | RequestEntityTooLarge => 15 | UnsupportedContentFormat => 16 | RequestEntityIncomplete => 17
  | UnprocessableEntity => 18 | TooManyRequests => 19
  | InternalServerError => 20 | NotImplemented => 21 | BadGateway => 22 | ServiceUnavailable => 23
  | GatewayTimeout => 24 | ProxyingNotSupported => 25 | HopLimitReached => 26
  | RespUnKnown => 27
  end.

Definition all_resptypes : list resptype :=
  [Created; Deleted; Valid; Changed; Content; Continue;
   BadRequest; Unauthorized; BadOption; Forbidden; NotFound; MethodNotAllowed;
   NotAcceptable; Conflict; PreconditionFailed; RequestEntityTooLarge;
   UnsupportedContentFormat; RequestEntityIncomplete; UnprocessableEntity; TooManyRequests;
   InternalServerError; NotImplemented; BadGateway; ServiceUnavailable; GatewayTimeout;
   ProxyingNotSupported; HopLimitReached; RespUnKnown].

Definition all_reqtypes : list reqtype :=
  [Get; Post; Put; Delete; Fetch; Patch; IPatch; ReqUnKnown].

(* ResponseType::is_error : Response(self) >= Response(BadRequest), derived PartialOrd *)
Definition is_error (s : resptype) : bool := 6 <=? resp_index s.

Definition reqtype_eqb (a b : reqtype) : bool := req_to_byte a =? req_to_byte b.
Definition resptype_eqb (a b : resptype) : bool := resp_index a =? resp_index b.
Definition mclass_eqb (a b : mclass) : bool :=
  match a, b with
  | Empty, Empty => true
  | Request x, Request y => reqtype_eqb x y
  | Response x, Response y => resptype_eqb x y
  | Reserved x, Reserved y => x =? y
  | _, _ => false
  end.

Definition type_bits (t : mtype) : N :=
  match t with Confirmable => 0 | NonConfirmable => 1 | Acknowledgement => 2 | Reset => 3 end.

Definition type_of_bits (n : N) : mtype :=
  match n with 0 => Confirmable | 1 => NonConfirmable | 2 => Acknowledgement | _ => Reset end.

Record header := mkHeader { vtt : N; code : mclass; mid : N }.

(* HeaderRaw::default -> Header::from_raw *)
Definition header_new : header := mkHeader 64 (Request Get) 0.

(* v << 6 | (0x3F & vtt): u8 shift discards high bits (in debug builds a shift
   amount of 6 never overflows; bits shifted out are lost silently). *)
Definition set_version (h : header) (v : N) : header :=
  mkHeader ((v * 64) mod 256 + (vtt h) mod 64) (code h) (mid h).
Definition get_version (h : header) : N := vtt h / 64.

(* tn << 4 | (0xCF & vtt) *)
Definition set_type (h : header) (t : mtype) : header :=
  mkHeader (type_bits t * 16 + (vtt h / 64) * 64 + (vtt h) mod 16) (code h) (mid h).
Definition get_type (h : header) : mtype := type_of_bits ((vtt h / 16) mod 4).

(* assert_eq!(0xF0 & tkl, 0); tkl | (0xF0 & vtt) *)
Definition set_token_length (h : header) (tkl : N) : outcome header :=
  if tkl <? 16 then Ok (mkHeader (tkl + (vtt h / 16) * 16) (code h) (mid h))
  else Panic 1.
Definition get_token_length (h : header) : N := (vtt h) mod 16.

(* Display for MessageClass: c.dd *)
Definition code_class (b : N) : N := b / 32.
Definition code_detail (b : N) : N := b mod 32.

(* Flat encoding of a class for the correspondence suites:
   0..255 = class_of_byte b (canonical); 256 = Request UnKnown; 257 = Response UnKnown;
   512+b = Reserved b (even when b has a name). *)
Definition class_enc (c : mclass) : N :=
  match c with
  | Request ReqUnKnown => 256
  | Response RespUnKnown => 257
  | Reserved n => if mclass_eqb (class_of_byte n) (Reserved n) then n else 512 + n
  | c => class_to_byte c
  end.
Definition class_dec (n : N) : mclass :=
  if n <? 256 then class_of_byte n
  else if n =? 256 then Request ReqUnKnown
  else if n =? 257 then Response RespUnKnown
  else Reserved (n - 512).

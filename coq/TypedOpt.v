(* TypedOpt.v -- model of the typed option accessors of Packet (src/packet.rs:399-509):
   set_options_as / get_options_as / get_first_option_as / add_option_as for the uint and
   string value types, set_content_format / get_content_format, set/get_observe_value. *)
From CoapV Require Import Base Header Packet UintOpt Utf8 Numbers.

(* value types: width in bytes for OptionValueU8/16/32/64; 0 = OptionValueString *)
Definition enc_value (w : N) (v : N) (s : bytes) : outcome bytes :=
  if w =? 0 then Ok s else option_from_uint v w.

(* a typed value is (number, text): numbers use the first, strings the second component *)
Definition dec_value (w : N) (bs : bytes) : outcome (N * bytes) :=
  if w =? 0 then do s <- string_try_from bs; Ok (0, s)
  else do v <- uint_try_from bs w; Ok (v, []).

Definition add_option_as (p : packet) (k w v : N) (s : bytes) : outcome packet :=
  do b <- enc_value w v s; Ok (add_option p k b).

Fixpoint enc_all (w : N) (vs : list (N * bytes)) : outcome (list bytes) :=
  match vs with
  | [] => Ok []
  | (v, s) :: r => do b <- enc_value w v s; do bs <- enc_all w r; Ok (b :: bs)
  end.

Definition set_options_as (p : packet) (k w : N) (vs : list (N * bytes)) : outcome packet :=
  do bs <- enc_all w vs; Ok (set_option p k bs).

Definition get_options_as (p : packet) (k w : N) : option (list (outcome (N * bytes))) :=
  match get_option p k with Some vs => Some (map (dec_value w) vs) | None => None end.

Definition get_first_option_as (p : packet) (k w : N) : option (outcome (N * bytes)) :=
  match get_first_option p k with Some b => Some (dec_value w b) | None => None end.

Definition OPT_OBSERVE : N := 6.
Definition OPT_CONTENT_FORMAT : N := 12.

(* Packet::set_content_format: the previous value is replaced *)
Definition set_content_format (p : packet) (c : content_format) : outcome packet :=
  let n := of_content_format c in
  if n <? U16 then add_option_as (clear_option p OPT_CONTENT_FORMAT) OPT_CONTENT_FORMAT 2 n []
  else Panic 3.

Definition get_content_format (p : packet) : option content_format :=
  match get_first_option_as p OPT_CONTENT_FORMAT 2 with
  | Some (Ok (v, _)) => content_format_of v
  | _ => None
  end.

Definition set_observe_value (p : packet) (v : N) : outcome packet :=
  add_option_as (clear_option p OPT_OBSERVE) OPT_OBSERVE 4 v [].

Definition get_observe_value (p : packet) : option (outcome N) :=
  match get_first_option_as p OPT_OBSERVE 4 with
  | Some (Ok (v, _)) => Some (Ok v)
  | Some (Err e) => Some (Err e)
  | Some (Panic s) => Some (Panic s)
  | None => None
  end.

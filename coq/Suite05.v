(* Suite05.v -- correspondence suite 50 (C05): the number tables through their public
   conversions.  Input [kind; x; ...]; see run50 for the kinds. *)
From CoapV Require Import Base Header Packet UintOpt Utf8 Numbers Registry Accessors.

(* ---- Display for MessageClass ("c.dd") and Header::set_code, on ASCII codes ---- *)
Definition digit (d : N) : N := 48 + d.
Fixpoint dec_digits_fuel (fuel : nat) (n : N) (acc : list N) : list N :=
  match fuel with
  | O => acc
  | S f => if n <? 10 then digit n :: acc else dec_digits_fuel f (n / 10) (digit (n mod 10) :: acc)
  end.
Definition dec_digits (n : N) : list N := dec_digits_fuel 25 n [].

(* write!(f, "{}.{:02}", class_code, detail_code) *)
Definition fmt_code (b : N) : list N :=
  dec_digits (b / 32) ++ [46] ++ (if b mod 32 <? 10 then [digit 0; digit (b mod 32)] else dec_digits (b mod 32)).

(* str::parse::<u8>() on a digit string (optional leading '+'); None = Err *)
Definition parse_u8 (s : list N) : option N :=
  let s := match s with 43 :: r => r | _ => s end in
  match s with
  | [] => None
  | _ =>
    fold_left (fun acc c => match acc with
                            | None => None
                            | Some v => if (48 <=? c) && (c <=? 57) && (v * 10 + (c - 48) <? 256)
                                        then Some (v * 10 + (c - 48)) else None
                            end) s (Some 0)
  end.

Fixpoint split_dot (s : list N) (cur : list N) : list (list N) :=
  match s with
  | [] => [rev cur]
  | c :: r => if c =? 46 then rev cur :: split_dot r [] else split_dot r (c :: cur)
  end.

(* Header::set_code: Panic on a malformed string *)
Definition parse_code (s : list N) : outcome N :=
  match split_dot s [] with
  | [a; b] =>
    match parse_u8 a, parse_u8 b with
    | Some c, Some d => if (c <? 8) && (d <? 32) then Ok (c * 32 + d) else Panic 30
    | _, _ => Panic 31
    end
  | _ => Panic 32
  end.

Definition nth_opt {A} (i : N) (l : list A) : option A := nth_error l (N.to_nat i).

Definition err_flag (c : mclass) : N :=
  match c with Response s => b2n (is_error s) | _ => 2 end.

Definition run50 (s : list N) : list N :=
  match s with
  | [0; x] => let o := option_of_u16 x in [option_index o; u16_of_option o]
  | [1; i] => match nth_opt i all_named_options with
              | Some o => [u16_of_option o; option_index (option_of_u16 (u16_of_option o))]
              | None => [999] end
  | [2; x] => match content_format_of x with Some c => [0; cf_index c; of_content_format c] | None => [1] end
  | [3; i] => match nth_opt i all_content_formats with
              | Some c => [of_content_format c;
                           match content_format_of (of_content_format c) with Some c' => cf_index c' | None => 9999 end]
              | None => [999] end
  | [4; b] => let c := class_of_byte b in
              let txt := fmt_code (class_to_byte c) in
              [class_enc c; class_to_byte c] ++ wr_bytes txt
              ++ (match parse_code txt with Ok b' => [class_enc (class_of_byte b')] | _ => [998] end)
              ++ [err_flag c]
  | [5; x] => let c := class_dec x in class_to_byte c :: wr_bytes (fmt_code (class_to_byte c)) ++ [err_flag c]
  | [6; v; t] => let h := mkHeader v Empty 0 in
                 [get_version h; type_bits (get_type h); get_token_length h;
                  vtt (set_type h (type_of_bits t)); type_bits (get_type (set_type h (type_of_bits t)))]
  | [7; i] => match nth_opt i all_resptypes with
              | Some r => [b2n (is_error r); resp_to_byte r] | None => [999] end
  | [8; x] => match observe_of x with Some o => [0; of_observe o] | None => [1] end
  | [9; v; x] => [vtt (set_version (mkHeader v Empty 0) x)]
  | [10; i] => match nth_opt i all_reqtypes with Some r => [req_to_byte r] | None => [999] end
  | [11; x] => (* what the convenience readers CoapResponse::get_status / CoapRequest::get_method report for a code *)
               let p := mkPacket (mkHeader 64 (class_dec x) 0) [] [] [] in
               [resp_index (get_status p); req_to_byte (get_method p)]
  | [12; x] => (* the observe action CoapRequest::get_observe_flag reads off an Observe option that holds x in its shortest form *)
               match get_observe_flag (set_opts packet_new [(6, [be_min x])]) with
               | None => [0] | Some (Ok f) => [1; 0; of_observe f] | Some _ => [1; 1] end
  | _ => [999]
  end.

(* ---- the property, from the registries only ---- *)
Fixpoint rlookup {A} (idx : A -> N) (i : N) (t : list (N * A)) : option N :=
  match t with
  | [] => None
  | (k, a) :: r => if idx a =? i then Some k else rlookup idx i r
  end.

Definition mclass_key (c : mclass) : N := class_enc c.

Definition spec_fmt (b : N) : list N :=
  [digit (b / 32); 46; digit ((b mod 32) / 10); digit ((b mod 32) mod 10)].

Definition spec50 (s : list N) : option (list N) :=
  match s with
  | [0; x] => Some [option_index (registry_option x); x]
  | [1; i] => match rlookup option_index i option_registry with Some n => Some [n; i] | None => None end
  | [2; x] => Some (match registry_content_format x with Some c => [0; cf_index c; x] | None => [1] end)
  | [3; i] => match rlookup cf_index i content_format_registry with Some n => Some [n; i] | None => None end
  | [4; b] => let c := registry_code b in
              Some ([class_enc c; b] ++ wr_bytes (spec_fmt b) ++ [class_enc c]
                    ++ [match c with Response _ => b2n (128 <=? b) | _ => 2 end])
  | [5; x] => (* the documented unknown / reserved forms: UnKnown -> 0xFF, Reserved(b) -> b *)
              let b := if x <? 512 then 255 else x - 512 in
              Some (b :: wr_bytes (spec_fmt b) ++ [if x =? 257 then 1 else 2])
  | [6; v; t] => let t := if t <? 3 then t else 3 in
                 let v' := (v / 64) * 64 + t * 16 + v mod 16 in
                 Some [v / 64; (v / 16) mod 4; v mod 16; v'; t]
  | [7; i] => match nth_opt i all_resptypes with
              | Some r =>
                let b := match rlookup mclass_key (class_enc (Response r)) code_registry with Some b => b | None => 255 end in
                Some [b2n (128 <=? b); b]
              | None => None end
  | [8; x] => Some (match registry_observe x with Some o => [0; x] | None => [1] end)
  | [9; v; x] => Some [(x mod 4) * 64 + v mod 64]
  | [10; i] => match nth_opt i all_reqtypes with
              | Some r => Some [match rlookup mclass_key (class_enc (Request r)) code_registry with Some b => b | None => 255 end]
              | None => None end
  | [11; x] => (* a named status / method exactly for the registered response / request codes; every other byte, the
                  UnKnown forms and every Reserved(b) form read as unknown (index 27 / byte 255), never as a named value *)
               let c := if x <? 256 then registry_code x else Reserved 0 in
               Some [match c with Response r => resp_index r | _ => 27 end;
                     match c with Request r => req_to_byte r | _ => 255 end]
  | [12; x] => (* a named action exactly for the registered numbers; every other 32-bit number is an error, never an alias *)
               Some (match registry_observe x with Some _ => [1; 0; x] | None => [1; 1] end)
  | _ => None
  end.

Definition in_domain50 (s : list N) : bool :=
  match s with
  | [0; x] => x <? 65536
  | [1; i] => i <? 21
  | [2; x] => x <? U64
  | [3; i] => i <? 60
  | [4; b] => b <? 256
  | [5; x] => (x =? 256) || (x =? 257) || ((512 <=? x) && (x <? 768))
  | [6; v; t] => (v <? 256) && (t <? 4)
  | [7; i] => i <? 28
  | [8; x] => x <? U64
  | [9; v; x] => (v <? 256) && (x <? 256)
  | [10; i] => i <? 8
  | [11; x] => (x <? 258) || ((512 <=? x) && (x <? 768))
  | [12; x] => x <? U32
  | _ => false
  end.

Definition verdict50 (s out : list N) : bool :=
  if in_domain50 s then
    match spec50 s with Some e => list_eqb N.eqb out e | None => false end
  else true.

(* classes: kind + 1 *)
Definition classify50 (s : list N) : N :=
  if in_domain50 s then match s with k :: _ => k + 1 | [] => 0 end else 0.

(* BlockValue.v -- model of src/block_handler/block_value.rs (RFC 7959 section 2.2). *)
From CoapV Require Import Base UintOpt.

Record blockv := mkBlock { b_num : N; b_more : bool; b_szx : N }.

Definition ERR_BLOCK : N := 11.

(* (0..usize::BITS).find(|i| (1 << i) > target) *)
Fixpoint find_excess (fuel : nat) (i target : N) : option N :=
  match fuel with
  | O => None
  | S f => if target <? 2 ^ i then Some i else find_excess f (i + 1) target
  end.

Definition largest_power_of_2_not_in_excess (target : N) : option N :=
  if target =? 0 then None
  else match find_excess 64 0 target with
       | Some s => Some (s - 1)
       | None => Some 64
       end.

(* BlockValue::new(num: usize, more, size: usize) *)
Definition block_new (num : N) (more : bool) (size : N) : outcome blockv :=
  match largest_power_of_2_not_in_excess size with
  | None => Err ERR_BLOCK
  | Some e =>
    let szx := e - 4 in                       (* saturating_sub(4); u8::try_from cannot fail (<= 64) *)
    if 7 <? szx then Err ERR_BLOCK
    else if num <? U16 then Ok (mkBlock num more szx)
    else Err ERR_BLOCK
  end.

(* size(): 1 << (size_exponent + 4) *)
Definition block_size (b : blockv) : N := 2 ^ (b_szx b + 4).

(* From<BlockValue> for Vec<u8>: NUM << 4 | M << 3 | SZX as a minimal uint (32-bit scalar) *)
Definition block_encode (b : blockv) : outcome bytes :=
  option_from_uint (b_num b * 16 + b2n (b_more b) * 8 + (b_szx b) mod 8) 4.

(* TryFrom<Vec<u8>> for BlockValue: at most 3 bytes, NUM must fit the u16 field *)
Definition block_decode (bs : bytes) : outcome blockv :=
  if 3 <? len bs then Err ERR_INCOMPATIBLE
  else do v <- uint_try_from bs 4;
       if 65535 <? v / 16 then Err ERR_INCOMPATIBLE
       else Ok (mkBlock (v / 16) ((v / 8) mod 2 =? 1) (v mod 8)).

(* Response.v -- model of src/response.rs (CoapResponse::new) and the parts of
   src/request.rs that C07 is about (from_packet, apply_from_error). *)
From CoapV Require Import Base Header Packet UintOpt.

Definition OPT_CONTENT_FORMAT : N := 12.

(* Packet::add_option_as(tp, OptionValueU16(v)) etc.: the conversion can hit the
   assert of the drain loop only when v does not fit the width. *)
Definition add_option_uint (p : packet) (k v size : N) : outcome packet :=
  do b <- option_from_uint v size; Ok (add_option p k b).

(* Packet::set_content_format(cf) given the format's number n = usize::from(cf);
   u16::try_from(n).unwrap() *)
Definition set_content_format_num (p : packet) (n : N) : outcome packet :=
  if n <? U16 then add_option_uint (clear_option p OPT_CONTENT_FORMAT) OPT_CONTENT_FORMAT n 2
  else Panic 3.

(* CoapResponse::new *)
Definition response_new (req : packet) : outcome (option packet) :=
  let p := packet_new in
  let p := set_hdr p (set_version (hdr p) 1) in
  match get_type (hdr req) with
  | Confirmable | NonConfirmable =>
    let t := match get_type (hdr req) with Confirmable => Acknowledgement | _ => NonConfirmable end in
    let p := set_hdr p (set_type (hdr p) t) in
    let p := set_code p (Response Content) in
    let p := set_mid p (mid (hdr req)) in
    do p <- set_token p (token req);
    Ok (Some p)
  | _ => Ok None
  end.

Record request := mkRequest {
  message : packet;
  response : option packet;
  source : option N
}.

(* CoapRequest::from_packet *)
Definition from_packet (p : packet) (src : N) : outcome request :=
  do r <- response_new p; Ok (mkRequest p r (Some src)).

(* HandlingError { code: Option<ResponseType>, message: String } *)
Record handling_error := mkHErr { he_code : option resptype; he_message : bytes }.

(* CoapRequest::apply_from_error *)
Definition apply_from_error (r : request) (e : handling_error) : outcome (request * bool) :=
  match response r, he_code e with
  | Some reply, Some c =>
    let m := set_code reply (Response c) in
    do m <- set_content_format_num m 0;
    let m := set_payload m (he_message e) in
    Ok (mkRequest (message r) (Some m) (source r), true)
  | _, _ => Ok (r, false)
  end.

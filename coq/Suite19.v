(* Suite19.v -- correspondence suite 190 (C19): convenience accessors and trait views. *)
From CoapV Require Import Base Header Packet UintOpt Utf8 Numbers TypedOpt Accessors Suite06.

Definition req_index (r : reqtype) : N :=
  match r with Get => 0 | Post => 1 | Put => 2 | Delete => 3 | Fetch => 4 | Patch => 5 | IPatch => 6 | ReqUnKnown => 7 end.

Definition wr_flag (o : option (outcome observe_option)) : list N :=
  match o with None => [0] | Some (Ok f) => [1; 0; of_observe f] | Some _ => [1; 1] end.
Definition wr_vec (o : outcome (list bytes)) : list N :=
  match o with Ok l => 0 :: wr_list wr_bytes l | _ => [1] end.
Definition wr_view (p : packet) : list N :=
  class_to_byte (readable_code p) :: wr_list (fun kv => fst kv :: wr_bytes (snd kv)) (readable_options p)
  ++ wr_bytes (readable_payload p).

Definition run190 (s : list N) : list N :=
  match s with
  | 0 :: r => match rd_packet r with
              | Some (p, [m]) => match nth_error all_reqtypes (N.to_nat m) with
                                 | Some rt => let p' := set_method p rt in wr_packet p' ++ [req_index (get_method p')]
                                 | None => [999] end
              | _ => [999] end
  | 1 :: r => match rd_packet r with Some (p, []) => [req_index (get_method p)] | _ => [999] end
  | 2 :: r => match rd_packet r with
              | Some (p, [m]) => match nth_error all_resptypes (N.to_nat m) with
                                 | Some st => let p' := set_status p st in wr_packet p' ++ [resp_index (get_status p')]
                                 | None => [999] end
              | _ => [999] end
  | 3 :: r => match rd_packet r with Some (p, []) => [resp_index (get_status p)] | _ => [999] end
  | 4 :: r => match rd_packet r with
              | Some (p, r') => match rd_bytes r' with
                                | Some (path, []) => let p' := set_path p path in
                                                     wr_packet p' ++ wr_bytes (get_path p') ++ wr_vec (get_path_as_vec p')
                                | _ => [999] end
              | _ => [999] end
  | 5 :: r => match rd_packet r with
              | Some (p, []) => wr_bytes (get_path p) ++ wr_vec (get_path_as_vec p)
              | _ => [999] end
  | 6 :: r => match rd_packet r with
              | Some (p, [f]) => match observe_of f with
                                 | Some fl => match set_observe_flag p fl with
                                              | Ok p' => 0 :: wr_packet p' ++ wr_flag (get_observe_flag p')
                                              | _ => [2] end
                                 | None => [999] end
              | _ => [999] end
  | 7 :: r => match rd_packet r with Some (p, []) => wr_flag (get_observe_flag p) | _ => [999] end
  | 8 :: r => run60 (7 :: r)
  | 12 :: r => run60 (6 :: r)
  | 9 :: r | 10 :: r =>
    match rd_packet r with
    | Some (src, r') => match rd_packet r' with
                        | Some (dst, []) => let d := set_from_message dst src in wr_packet d ++ wr_view d
                        | _ => [999] end
    | _ => [999] end
  | 11 :: r => match rd_packet r with Some (p, []) => wr_view p ++ wr_view p | _ => [999] end
  | _ => [999]
  end.

(* ---------------- the property, stated on the raw state ---------------- *)
Definition with_code (p : packet) (c : mclass) : packet := mkPacket (mkHeader (vtt (hdr p)) c (mid (hdr p))) (token p) (opts p) (payload p).
Definition with_opt (p : packet) (k : N) (vs : list bytes) : packet := set_opts p (opt_insert (opts p) k vs).

Definition named_req_of_code (c : mclass) : N :=
  match c with Request r => req_index r | _ => 7 end.
Definition named_resp_of_code (c : mclass) : N :=
  match c with Response s => resp_index s | _ => 27 end.

Definition strip_slash (s : bytes) : bytes := match s with c :: r => if c =? 47 then r else s | [] => [] end.
Fixpoint segs (s cur : bytes) : list bytes :=
  match s with
  | [] => [rev cur]
  | c :: r => if c =? 47 then rev cur :: segs r [] else segs r (c :: cur)
  end.
Definition spec_segments (s : bytes) : list bytes :=
  match s with [] => [] | _ => segs (strip_slash s) [] end.

Definition in_domain190 (s : list N) : bool :=
  match s with
  | 0 :: r => match rd_packet r with Some (p, [m]) => (m <? 8) && pkt_bytes_ok p | _ => false end
  | 2 :: r => match rd_packet r with Some (p, [m]) => (m <? 28) && pkt_bytes_ok p | _ => false end
  | 1 :: r | 3 :: r | 5 :: r | 7 :: r | 11 :: r => match rd_packet r with Some (p, []) => pkt_bytes_ok p | _ => false end
  | 4 :: r => match rd_packet r with
              | Some (p, r') => match rd_bytes r' with Some (path, []) => utf8_valid path && bytes_ok path && pkt_bytes_ok p | _ => false end
              | _ => false end
  | 6 :: r => match rd_packet r with Some (p, [f]) => (f <? 2) && pkt_bytes_ok p | _ => false end
  | 8 :: r => in_domain60 (7 :: r)
  | 12 :: r => in_domain60 (6 :: r)
  | 9 :: r | 10 :: r => match rd_packet r with
                        | Some (src, r') => match rd_packet r' with Some (dst, []) => pkt_bytes_ok src && pkt_bytes_ok dst | _ => false end
                        | _ => false end
  | _ => false
  end.

Definition spec190 (s : list N) : option (list N) :=
  match s with
  | 0 :: r => match rd_packet r with
              | Some (p, [m]) => match nth_error all_reqtypes (N.to_nat m) with
                                 | Some rt => Some (wr_packet (with_code p (Request rt)) ++ [m]) | None => None end
              | _ => None end
  | 1 :: r => match rd_packet r with Some (p, []) => Some [named_req_of_code (code (hdr p))] | _ => None end
  | 2 :: r => match rd_packet r with
              | Some (p, [m]) => match nth_error all_resptypes (N.to_nat m) with
                                 | Some st => Some (wr_packet (with_code p (Response st)) ++ [m]) | None => None end
              | _ => None end
  | 3 :: r => match rd_packet r with Some (p, []) => Some [named_resp_of_code (code (hdr p))] | _ => None end
  | 4 :: r => match rd_packet r with
              | Some (p, r') =>
                match rd_bytes r' with
                | Some (path, []) =>
                  let sg := spec_segments path in
                  let p' := match sg, opt_get (opts p) 11 with
                            | [], None => p
                            | _, _ => with_opt p 11 sg
                            end in
                  Some (wr_packet p' ++ wr_bytes (strip_slash path) ++ 0 :: wr_list wr_bytes sg)
                | _ => None end
              | _ => None end
  | 5 :: r => match rd_packet r with
              | Some (p, []) =>
                let vs := raw_of p 11 in
                Some (wr_bytes (join_slash (filter utf8_valid vs))
                      ++ (if forallb utf8_valid vs then 0 :: wr_list wr_bytes vs else [1]))
              | _ => None end
  | 6 :: r => match rd_packet r with
              | Some (p, [f]) => Some (0 :: wr_packet (with_opt p 6 [be_min f]) ++ [1; 0; f])
              | _ => None end
  | 7 :: r => match rd_packet r with
              | Some (p, []) =>
                Some (match raw_of p 6 with
                      | [] => [0]
                      | b :: _ => if (len b <=? 4) && (be_value b <? 2) then [1; 0; be_value b] else [1; 1]
                      end)
              | _ => None end
  | 8 :: r => spec60 (7 :: r)
  | 12 :: r => spec60 (6 :: r)
  | 9 :: r | 10 :: r =>
    match rd_packet r with
    | Some (src, r') =>
      match rd_packet r' with
      | Some (dst, []) =>
        (* per number: the destination's values followed by the source's, ascending numbers *)
        let merged := fold_left (fun m kv => opt_insert m (fst kv) (raw_of (mkPacket (hdr dst) [] m []) (fst kv) ++ [snd kv]))
                                (flatten (opts src)) (opts dst) in
        let d := mkPacket (mkHeader (vtt (hdr dst)) (class_of_byte (class_to_byte (code (hdr src)))) (mid (hdr dst))) (token dst) merged (payload src) in
        Some (wr_packet d ++ class_to_byte (code (hdr src)) :: wr_list (fun kv => fst kv :: wr_bytes (snd kv)) (flatten merged)
              ++ wr_bytes (payload src))
      | _ => None end
    | _ => None end
  | 11 :: r => match rd_packet r with
               | Some (p, []) =>
                 let v := class_to_byte (code (hdr p)) :: wr_list (fun kv => fst kv :: wr_bytes (snd kv)) (flatten (opts p))
                          ++ wr_bytes (payload p) in
                 Some (v ++ v)
               | _ => None end
  | _ => None
  end.

Definition verdict190 (s out : list N) : bool :=
  if in_domain190 s then match spec190 s with Some e => list_eqb N.eqb out e | None => false end else true.
Definition classify190 (s : list N) : N :=
  if in_domain190 s then match s with k :: _ => k + 1 | [] => 0 end else 0.

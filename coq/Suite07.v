(* Suite07.v -- correspondence suite "response" (C07): flat decoding of a case, the
   model's observable output, and the property's verdict on an observed output. *)
From CoapV Require Import Base Header Packet UintOpt Response.

Definition wr_outcome {A} (f : A -> list N) (o : outcome A) : list N :=
  match o with
  | Ok a => 0 :: f a
  | Err e => [1; e]
  | Panic _ => [2]
  end.

Definition wr_optpkt (o : option packet) : list N :=
  match o with Some p => 1 :: wr_packet p | None => [0] end.

Definition resp_of_index (n : N) : option resptype :=
  if n =? 0 then None else Some (nth (N.to_nat (n - 1)) all_resptypes RespUnKnown).

Record case07 := mkCase07 { c_req : packet; c_src : N; c_err : handling_error }.

Definition rd_case07 (s : list N) : option case07 :=
  match rd_packet s with
  | Some (p, src :: ec :: r) =>
    match rd_bytes r with
    | Some (msg, []) => Some (mkCase07 p src (mkHErr (resp_of_index ec) msg))
    | _ => None
    end
  | _ => None
  end.

(* what a handler may do to the prepared reply before it fails (every fourth case, chosen by the source number): make it a
   separate response -- Confirmable, with an id of the server's own -- and set options (an ETag; every eighth case also Observe and Max-Age).  apply_from_error must leave
   all of that alone. *)
Definition tamper (src : N) (rq : request) : request :=
  if src mod 4 =? 3 then
    match response rq with
    | Some r =>
      let r1 := set_option (set_mid (set_hdr r (set_type (hdr r) Confirmable)) ((src * 7) mod 65536)) 4 [[src mod 256]] in
      (* ... and, every eighth case, a notification: Observe and Max-Age set as well *)
      let r2 := if src mod 8 =? 7 then set_option (set_option r1 6 [[src mod 256]]) 14 [[60]] else r1 in
      mkRequest (message rq) (Some r2) (source rq)
    | None => rq
    end
  else rq.

Definition out07 (c : case07) : outcome (option packet * request * bool) :=
  do r0 <- response_new (c_req c);
  do rq <- from_packet (c_req c) (c_src c);
  do rb <- apply_from_error (tamper (c_src c) rq) (c_err c);
  Ok (r0, fst rb, snd rb).

Definition wr_request (r : request) : list N :=
  wr_packet (message r) ++ wr_optpkt (response r)
  ++ match source r with Some s => [1; s] | None => [0] end.

Definition run07 (s : list N) : list N :=
  match rd_case07 s with
  | None => [999]
  | Some c =>
    wr_outcome (fun x => let '(r0, rq, b) := x in wr_optpkt r0 ++ wr_request rq ++ [b2n b]) (out07 c)
  end.

(* ---------- the property, stated on observations ---------- *)

Definition pkt_eqb (a b : packet) : bool := list_eqb N.eqb (wr_packet a) (wr_packet b).

(* the response C07 demands for a request, or None *)
Definition spec_response (req : packet) : option packet :=
  let t := (vtt (hdr req) / 16) mod 4 in
  if t <? 2 then
    Some (mkPacket (mkHeader (64 + (if t =? 0 then 2 else 1) * 16 + len (token req))
                             (Response Content) (mid (hdr req)))
                   (token req) [] [])
  else None.

(* what apply_from_error must do to a request *)
Definition spec_apply (rq : request) (e : handling_error) : request * bool :=
  match response rq, he_code e with
  | Some r, Some c =>
    (mkRequest (message rq)
       (Some (mkPacket (mkHeader (vtt (hdr r)) (Response c) (mid (hdr r))) (token r)
                       (opt_insert (opts r) 12 [[]]) (he_message e)))
       (source rq), true)
  | _, _ => (rq, false)
  end.

Definition spec07 (c : case07) : list N :=
  let r0 := spec_response (c_req c) in
  let rq := tamper (c_src c) (mkRequest (c_req c) r0 (Some (c_src c))) in
  let '(rq', b) := spec_apply rq (c_err c) in
  0 :: wr_optpkt r0 ++ wr_request rq' ++ [b2n b].

(* requests the public API can build: token shorter than 16 bytes *)
Definition case07_ok (c : case07) : bool := len (token (c_req c)) <? 16.

Definition verdict07 (s out : list N) : bool :=
  match rd_case07 s with
  | None => false
  | Some c => if case07_ok c then list_eqb N.eqb out (spec07 c) else true
  end.

(* classes for the evidence: 0 = outside the property's domain;
   1 = no response prepared; 2 = response, error not applied; 3 = response and error applied *)
Definition classify07 (s : list N) : N :=
  match rd_case07 s with
  | None => 0
  | Some c =>
    if negb (case07_ok c) then 0
    else match spec_response (c_req c), he_code (c_err c) with
         | None, _ => 1
         | Some _, None => 2
         | Some _, Some _ => 3
         end
  end.

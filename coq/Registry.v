(* Registry.v -- SPECIFICATION side of C05: the IANA CoRE Parameters registries as
   transcribed from the RFCs (7252, 7641, 7959, 7967, 8132, 8516, 8613, 8768, 8949, 9052,
   8428, 8392, 9177, ...), keyed by number.  Written independently of the crate's tables;
   the constructors of Numbers.v / Header.v only serve as names. *)
From CoapV Require Import Base Header Numbers.

(* "CoAP Option Numbers" (those the crate gives a name) *)
Definition option_registry : list (N * coap_option) :=
  [ (1, O_IfMatch)        (* If-Match        RFC 7252 *)
  ; (3, O_UriHost)        (* Uri-Host        RFC 7252 *)
  ; (4, O_ETag)           (* ETag            RFC 7252 *)
  ; (5, O_IfNoneMatch)    (* If-None-Match   RFC 7252 *)
  ; (6, O_Observe)        (* Observe         RFC 7641 *)
  ; (7, O_UriPort)        (* Uri-Port        RFC 7252 *)
  ; (8, O_LocationPath)   (* Location-Path   RFC 7252 *)
  ; (9, O_Oscore)         (* OSCORE          RFC 8613 *)
  ; (11, O_UriPath)       (* Uri-Path        RFC 7252 *)
  ; (12, O_ContentFormat) (* Content-Format  RFC 7252 *)
  ; (14, O_MaxAge)        (* Max-Age         RFC 7252 *)
  ; (15, O_UriQuery)      (* Uri-Query       RFC 7252 *)
  ; (17, O_Accept)        (* Accept          RFC 7252 *)
  ; (20, O_LocationQuery) (* Location-Query  RFC 7252 *)
  ; (23, O_Block2)        (* Block2          RFC 7959 *)
  ; (27, O_Block1)        (* Block1          RFC 7959 *)
  ; (28, O_Size2)         (* Size2           RFC 7959 *)
  ; (35, O_ProxyUri)      (* Proxy-Uri       RFC 7252 *)
  ; (39, O_ProxyScheme)   (* Proxy-Scheme    RFC 7252 *)
  ; (60, O_Size1)         (* Size1           RFC 7252 *)
  ; (258, O_NoResponse)   (* No-Response     RFC 7967 *)
  ].

(* "CoAP Content-Formats" *)
Definition content_format_registry : list (N * content_format) :=
  [ (0, CF_TextPlain)                       (* text/plain; charset=utf-8 *)
  ; (16, CF_ApplicationCoseEncrypt0)        (* application/cose; cose-type=cose-encrypt0 *)
  ; (17, CF_ApplicationCoseMac0)            (* application/cose; cose-type=cose-mac0 *)
  ; (18, CF_ApplicationCoseSign1)           (* application/cose; cose-type=cose-sign1 *)
  ; (19, CF_ApplicationAceCbor)             (* application/ace+cbor *)
  ; (21, CF_ImageGif)                       (* image/gif *)
  ; (22, CF_ImageJpeg)                      (* image/jpeg *)
  ; (23, CF_ImagePng)                       (* image/png *)
  ; (40, CF_ApplicationLinkFormat)          (* application/link-format *)
  ; (41, CF_ApplicationXML)                 (* application/xml *)
  ; (42, CF_ApplicationOctetStream)         (* application/octet-stream *)
  ; (47, CF_ApplicationEXI)                 (* application/exi *)
  ; (50, CF_ApplicationJSON)                (* application/json *)
  ; (51, CF_ApplicationJsonPatchJson)       (* application/json-patch+json *)
  ; (52, CF_ApplicationMergePatchJson)      (* application/merge-patch+json *)
  ; (60, CF_ApplicationCBOR)                (* application/cbor *)
  ; (61, CF_ApplicationCWt)                 (* application/cwt *)
  ; (62, CF_ApplicationMultipartCore)       (* application/multipart-core *)
  ; (63, CF_ApplicationCborSeq)             (* application/cbor-seq *)
  ; (96, CF_ApplicationCoseEncrypt)         (* application/cose; cose-type=cose-encrypt *)
  ; (97, CF_ApplicationCoseMac)             (* application/cose; cose-type=cose-mac *)
  ; (98, CF_ApplicationCoseSign)            (* application/cose; cose-type=cose-sign *)
  ; (101, CF_ApplicationCoseKey)            (* application/cose-key *)
  ; (102, CF_ApplicationCoseKeySet)         (* application/cose-key-set *)
  ; (110, CF_ApplicationSenmlJSON)          (* application/senml+json *)
  ; (111, CF_ApplicationSensmlJSON)         (* application/sensml+json *)
  ; (112, CF_ApplicationSenmlCBOR)          (* application/senml+cbor *)
  ; (113, CF_ApplicationSensmlCBOR)         (* application/sensml+cbor *)
  ; (114, CF_ApplicationSenmlExi)           (* application/senml-exi *)
  ; (115, CF_ApplicationSensmlExi)          (* application/sensml-exi *)
  ; (140, CF_ApplicationYangDataCborSid)    (* application/yang-data+cbor; id=sid *)
  ; (256, CF_ApplicationCoapGroupJson)      (* application/coap-group+json *)
  ; (271, CF_ApplicationDotsCbor)           (* application/dots+cbor *)
  ; (272, CF_ApplicationMissingBlocksCborSeq) (* application/missing-blocks+cbor-seq *)
  ; (280, CF_ApplicationPkcs7MimeServerGeneratedKey) (* application/pkcs7-mime; smime-type=server-generated-key *)
  ; (281, CF_ApplicationPkcs7MimeCertsOnly) (* application/pkcs7-mime; smime-type=certs-only *)
  ; (284, CF_ApplicationPkcs8)              (* application/pkcs8 *)
  ; (285, CF_ApplicationCsrattrs)           (* application/csrattrs *)
  ; (286, CF_ApplicationPkcs10)             (* application/pkcs10 *)
  ; (287, CF_ApplicationPkixCert)           (* application/pkix-cert *)
  ; (290, CF_ApplicationAifCbor)            (* application/aif+cbor *)
  ; (291, CF_ApplicationAifJson)            (* application/aif+json *)
  ; (310, CF_ApplicationSenmlXML)           (* application/senml+xml *)
  ; (311, CF_ApplicationSensmlXML)          (* application/sensml+xml *)
  ; (320, CF_ApplicationSenmlEtchJson)      (* application/senml-etch+json *)
  ; (322, CF_ApplicationSenmlEtchCbor)      (* application/senml-etch+cbor *)
  ; (340, CF_ApplicationYangDataCbor)       (* application/yang-data+cbor *)
  ; (341, CF_ApplicationYangDataCborName)   (* application/yang-data+cbor; id=name *)
  ; (432, CF_ApplicationTdJson)             (* application/td+json *)
  ; (836, CF_ApplicationVoucherCoseCbor)    (* application/voucher-cose+cbor *)
  ; (10000, CF_ApplicationVndOcfCbor)       (* application/vnd.ocf+cbor *)
  ; (10001, CF_ApplicationOscore)           (* application/oscore *)
  ; (10002, CF_ApplicationJavascript)       (* application/javascript *)
  ; (11050, CF_ApplicationJsonDeflate)      (* application/json in deflate coding *)
  ; (11060, CF_ApplicationCborDeflate)      (* application/cbor in deflate coding *)
  ; (11542, CF_ApplicationVndOmaLwm2mTlv)   (* application/vnd.oma.lwm2m+tlv *)
  ; (11543, CF_ApplicationVndOmaLwm2mJson)  (* application/vnd.oma.lwm2m+json *)
  ; (11544, CF_ApplicationVndOmaLwm2mCbor)  (* application/vnd.oma.lwm2m+cbor *)
  ; (20000, CF_TextCss)                     (* text/css *)
  ; (30000, CF_ImageSvgXml)                 (* image/svg+xml *)
  ].

(* "CoAP Codes": c.dd = c * 32 + dd *)
Definition cdd (c d : N) : N := c * 32 + d.
Definition code_registry : list (N * mclass) :=
  [ (cdd 0 0, Empty)
  ; (cdd 0 1, Request Get); (cdd 0 2, Request Post); (cdd 0 3, Request Put); (cdd 0 4, Request Delete)
  ; (cdd 0 5, Request Fetch); (cdd 0 6, Request Patch); (cdd 0 7, Request IPatch)        (* RFC 8132 *)
  ; (cdd 2 1, Response Created); (cdd 2 2, Response Deleted); (cdd 2 3, Response Valid)
  ; (cdd 2 4, Response Changed); (cdd 2 5, Response Content); (cdd 2 31, Response Continue) (* RFC 7959 *)
  ; (cdd 4 0, Response BadRequest); (cdd 4 1, Response Unauthorized); (cdd 4 2, Response BadOption)
  ; (cdd 4 3, Response Forbidden); (cdd 4 4, Response NotFound); (cdd 4 5, Response MethodNotAllowed)
  ; (cdd 4 6, Response NotAcceptable); (cdd 4 8, Response RequestEntityIncomplete)         (* RFC 7959 *)
  ; (cdd 4 9, Response Conflict)                                                          (* RFC 8132 *)
  ; (cdd 4 12, Response PreconditionFailed); (cdd 4 13, Response RequestEntityTooLarge)
  ; (cdd 4 15, Response UnsupportedContentFormat); (cdd 4 22, Response UnprocessableEntity) (* RFC 8132 *)
  ; (cdd 4 29, Response TooManyRequests)                                                  (* RFC 8516 *)
  ; (cdd 5 0, Response InternalServerError); (cdd 5 1, Response NotImplemented); (cdd 5 2, Response BadGateway)
  ; (cdd 5 3, Response ServiceUnavailable); (cdd 5 4, Response GatewayTimeout)
  ; (cdd 5 5, Response ProxyingNotSupported); (cdd 5 8, Response HopLimitReached)         (* RFC 8768 *)
  ].

(* RFC 7252 section 3: T field *)
Definition type_registry : list (N * mtype) :=
  [(0, Confirmable); (1, NonConfirmable); (2, Acknowledgement); (3, Reset)].

(* RFC 7641 section 2: Observe in a request *)
Definition observe_registry : list (N * observe_option) := [(0, ObsRegister); (1, ObsDeregister)].

Fixpoint lookup {A} (n : N) (t : list (N * A)) : option A :=
  match t with
  | [] => None
  | (k, a) :: r => if k =? n then Some a else lookup n r
  end.

Definition registry_option (n : N) : coap_option :=
  match lookup n option_registry with Some o => o | None => O_Unknown n end.
Definition registry_content_format (n : N) : option content_format := lookup n content_format_registry.
Definition registry_code (b : N) : mclass :=
  match lookup b code_registry with Some c => c | None => Reserved b end.
Definition registry_type (n : N) : option mtype := lookup n type_registry.
Definition registry_observe (n : N) : option observe_option := lookup n observe_registry.

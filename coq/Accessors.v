(* Accessors.v -- model of the convenience accessors (src/request.rs:58-145,
   src/response.rs:32-86) and of the coap-message trait views
   (src/impl_coap_message.rs, src/impl_coap_message_0_3.rs). *)
From CoapV Require Import Base Header Packet UintOpt Utf8 Numbers TypedOpt.

(* CoapRequest::set_method / get_method *)
Definition set_method (p : packet) (m : reqtype) : packet := set_code p (Request m).
Definition get_method (p : packet) : reqtype :=
  match code (hdr p) with
  | Request Get => Get | Request Post => Post | Request Put => Put | Request Delete => Delete
  | Request Fetch => Fetch | Request Patch => Patch | Request IPatch => IPatch
  | _ => ReqUnKnown
  end.

(* CoapResponse::set_status / get_status *)
Definition set_status (p : packet) (s : resptype) : packet := set_code p (Response s).
Definition get_status (p : packet) : resptype :=
  match code (hdr p) with
  | Response s => s
  | _ => RespUnKnown
  end.

(* str::split('/') on the UTF-8 bytes (47 is never part of a multi-byte sequence) *)
Fixpoint split_slash (s : bytes) (cur : bytes) : list bytes :=
  match s with
  | [] => [rev cur]
  | c :: r => if c =? 47 then rev cur :: split_slash r [] else split_slash r (c :: cur)
  end.

Fixpoint join_slash (l : list bytes) : bytes :=
  match l with
  | [] => []
  | [x] => x
  | x :: r => x ++ 47 :: join_slash r
  end.

Definition OPT_URI_PATH : N := 11.

Definition path_segments (s : bytes) : list bytes :=
  match split_slash s [] with
  | [] :: r => r           (* i == 0 && s.is_empty(): skipped *)
  | l => l
  end.

(* CoapRequest::set_path *)
Definition set_path (p : packet) (s : bytes) : packet :=
  fold_left (fun q seg => add_option q OPT_URI_PATH seg) (path_segments s) (clear_option p OPT_URI_PATH).

(* CoapRequest::get_path: segments that are not valid UTF-8 are skipped *)
Definition get_path (p : packet) : bytes :=
  match get_option p OPT_URI_PATH with
  | Some vs => join_slash (filter utf8_valid vs)
  | None => []
  end.

(* CoapRequest::get_path_as_vec *)
Definition get_path_as_vec (p : packet) : outcome (list bytes) :=
  match get_option p OPT_URI_PATH with
  | Some vs => if forallb utf8_valid vs then Ok vs else Err ERR_INCOMPATIBLE
  | None => Ok []
  end.

(* CoapRequest::get_observe_flag / set_observe_flag *)
Definition get_observe_flag (p : packet) : option (outcome observe_option) :=
  match get_observe_value p with
  | None => None
  | Some (Ok v) => Some (match observe_of v with Some o => Ok o | None => Err 12 end)
  | Some _ => Some (Err 12)
  end.
Definition set_observe_flag (p : packet) (f : observe_option) : outcome packet :=
  set_observe_value p (of_observe f).

(* ReadableMessage: options() walks the map and each value list in order *)
Definition readable_options (p : packet) : list (N * bytes) := flatten (opts p).
Definition readable_code (p : packet) : mclass := code (hdr p).
Definition readable_payload (p : packet) : bytes := payload p.

(* MinimalWritableMessage::set_from_message (provided method of coap-message 0.2 and 0.3):
   set_code, add_option for every option in order, set_payload *)
Definition set_from_message (dst src : packet) : packet :=
  (* the code travels as its byte: msg.code().into() then Code::new / try_into *)
  let d := set_code dst (class_of_byte (class_to_byte (readable_code src))) in
  let d := fold_left (fun q kv => add_option q (fst kv) (snd kv)) (readable_options src) d in
  set_payload d (readable_payload src).

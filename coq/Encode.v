(* Encode.v -- model of Packet::to_bytes_internal (src/packet.rs), statement by statement. *)
From CoapV Require Import Base Header Packet.

Definition ERR_INVALID_HEADER : N := 1.
Definition ERR_PACKET_LENGTH : N := 2.
Definition ERR_TOKEN_LENGTH : N := 3.
Definition ERR_OPTION_DELTA : N := 4.
Definition ERR_OPTION_LENGTH : N := 5.

(* header bytes of one option: first byte, extended delta, extended length.
   delta is a u16 (number - options_delta_length); vlen = value.len() (usize). *)
Definition enc_opt_header (delta vlen : N) : outcome bytes :=
  let b_hi := if delta <=? 12 then (delta * 16) mod 256
              else if delta <? 269 then 208 else 224 in
  let b_lo := if vlen <=? 12 then vlen mod 256
              else if vlen <? 269 then 13 else 14 in
  let dx := if (12 <? delta) && (delta <? 269) then [(delta - 13) mod 256]
            else if 269 <=? delta then [((delta - 269) / 256) mod 256; (delta - 269) mod 256]
            else [] in
  if (269 <=? vlen) && (65535 <? vlen - 269) then Err ERR_OPTION_LENGTH else
  let lx := if (12 <? vlen) && (vlen <? 269) then [(vlen - 13) mod 256]
            else if 269 <=? vlen then [((vlen - 269) / 256) mod 256; (vlen - 269) mod 256]
            else [] in
  Ok ((b_hi + b_lo) :: dx ++ lx).

(* the double loop over the BTreeMap and each value list = one loop over flatten *)
Fixpoint enc_opts (prev : N) (l : list (N * bytes)) (acc : bytes) : outcome bytes :=
  match l with
  | [] => Ok acc
  | (n, v) :: r =>
    if n <? prev then Panic 10 (* u16 subtraction underflow; unreachable: keys ascend *) else
    do h <- enc_opt_header (n - prev) (len v);
    enc_opts n r (acc ++ h ++ v)
  end.

Definition sends_payload (p : packet) : bool :=
  negb (mclass_eqb (code (hdr p)) Empty) && negb (match payload p with [] => true | _ => false end).

Definition to_bytes_internal (p : packet) (limit : option N) : outcome bytes :=
  do ob <- enc_opts 0 (flatten (opts p)) [];
  let buf_length := 4 + len (token p)
                    + (if sends_payload p then 1 + len (payload p) else 0) + len ob in
  if match limit with Some l => l <? buf_length | None => false end then Err ERR_PACKET_LENGTH
  else if buf_length <? 4 then Err ERR_INVALID_HEADER (* serialize_into: capacity < 4 *)
  else
    Ok ([vtt (hdr p); class_to_byte (code (hdr p)); mid (hdr p) / 256; mid (hdr p) mod 256]
        ++ token p ++ ob ++ (if sends_payload p then 255 :: payload p else [])).

Definition to_bytes_unlimited (p : packet) : outcome bytes := to_bytes_internal p None.
Definition to_bytes_with_limit (p : packet) (l : N) : outcome bytes := to_bytes_internal p (Some l).
(* Packet::to_bytes: Some(MAX_SIZE); MAX_SIZE = 1280, or 64000 with feature udp *)
Definition to_bytes (max_size : N) (p : packet) : outcome bytes := to_bytes_internal p (Some max_size).

(* Suite13.v -- correspondence suite 130 (C13): block option values. *)
From CoapV Require Import Base UintOpt BlockValue.

Definition wr_block (b : blockv) : list N := [b_num b; b2n (b_more b); b_szx b].
Definition wr_res13 {A} (f : A -> list N) (o : outcome A) : list N :=
  match o with Ok a => 0 :: f a | Err _ => [1] | Panic _ => [2] end.

Definition run130 (s : list N) : list N :=
  match s with
  | [0; num; m; szx] =>
    let b := mkBlock num (negb (m =? 0)) szx in
    match block_encode b with
    | Ok bs => 0 :: wr_bytes bs ++ wr_res13 wr_block (block_decode bs) ++ [block_size b]
    | Err _ => [1] | Panic _ => [2]
    end
  | 1 :: r => match rd_bytes r with
              | Some (bs, []) => wr_res13 (fun b => wr_block b ++ [block_size b]) (block_decode bs)
              | _ => [999] end
  | [2; num; m; size] => wr_res13 (fun b => wr_block b ++ [block_size b]) (block_new num (negb (m =? 0)) size)
  | _ => [999]
  end.

(* ---- the property (RFC 7959 2.2), independent of the model ---- *)
Definition in_domain130 (s : list N) : bool :=
  match s with
  | [0; num; m; szx] => (num <? 65536) && (m <? 2) && (szx <? 8)
  | 1 :: r => match rd_bytes r with Some (bs, []) => forallb (fun b => b <? 256) bs | _ => false end
  | [2; num; m; size] => (num <? U64) && (m <? 2) && (size <? U64)
  | _ => false
  end.

Definition spec130 (s : list N) : option (list N) :=
  match s with
  | [0; num; m; szx] =>
    let bs := be_min (num * 16 + m * 8 + szx) in
    Some (0 :: wr_bytes bs ++ [0; num; m; szx] ++ [2 ^ (szx + 4)])
  | 1 :: r =>
    match rd_bytes r with
    | Some (bs, []) =>
      let v := be_value bs in
      Some (if (3 <? len bs) || (65535 <? v / 16) then [1]
            else [0; v / 16; (v / 8) mod 2; v mod 8; 2 ^ (v mod 8 + 4)])
    | _ => None end
  | [2; num; m; size] =>
    Some (if (size =? 0) || (4096 <=? size) || (65536 <=? num) then [1]
          else let szx := N.log2 size - 4 in [0; num; m; szx; 2 ^ (szx + 4)])
  | _ => None
  end.

Definition verdict130 (s out : list N) : bool :=
  if in_domain130 s then match spec130 s with Some e => list_eqb N.eqb out e | None => false end else true.
Definition classify130 (s : list N) : N :=
  if in_domain130 s then match s with k :: _ => k + 1 | [] => 0 end else 0.

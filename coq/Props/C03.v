(* C03 -- Parser is total: well-formed datagrams accepted, malformed rejected, no crash. *)
From CoapV Require Import Base Header Packet WireSpec Encode Decode PacketOps Suite01
  proofs.PWire proofs.PEnc proofs.PDec proofs.P01.

(* The index-based decoder model (every buf[i], every slice, every typed addition is a
   potential Panic) agrees with the independent reference parser of WireSpec.v, for every
   byte string and every decoder policy: must-accept -> Ok with the grammar's fields,
   must-reject -> Err, either -> Ok with those fields or (only for a strict policy) Err. *)
Theorem C03_matches_reference : forall pol bs, bytes_wf bs ->
  match ref_parse bs with
  | MustAccept m => exists p, from_bytes pol bs = Ok p /\ view p = m /\ pkt_wf p
  | Either m => (exists p, from_bytes pol bs = Ok p /\ view p = m /\ pkt_wf p)
                \/ (strict pol = true /\ exists e, from_bytes pol bs = Err e)
  | MustReject => exists e, from_bytes pol bs = Err e
  end.
Proof. exact from_bytes_ref. Qed.
Print Assumptions C03_matches_reference.

Theorem C03_total : forall pol bs, bytes_wf bs -> forall s, from_bytes pol bs <> Panic s.
Proof. exact from_bytes_total. Qed.
Print Assumptions C03_total.

(* the reference parser itself is tied to the RFC image: it accepts every wire image *)
Theorem C03_reference_accepts_wire_image : forall m, amsg_wf m ->
  ref_parse (wire_image m) =
    if negb (a_ver m =? 1) || ((a_code m =? 0) && negb (len (wire_image m) =? 4)) then Either m else MustAccept m.
Proof. exact ref_parse_wire. Qed.
Print Assumptions C03_reference_accepts_wire_image.

Theorem C03_accepts : forall pol m, amsg_wf m -> a_ver m = 1 ->
  (a_code m = 0 -> a_token m = [] /\ a_opts m = [] /\ a_payload m = []) ->
  exists p, from_bytes pol (wire_image m) = Ok p /\ view p = m /\ pkt_wf p.
Proof. exact accepts_conformant. Qed.
Print Assumptions C03_accepts.

(* ... and everything it accepts is a wire image followed by nothing or marker + payload *)
Theorem C03_reference_accepts_only_wire_images : forall bs m, bytes_wf bs ->
  (ref_parse bs = MustAccept m \/ ref_parse bs = Either m) ->
  exists tail, bs = wire_header m ++ a_token m ++ wire_opts 0 (a_opts m) ++ tail /\
               (tail = [] /\ a_payload m = [] \/ tail = 255 :: a_payload m) /\ a_code m < 256.
Proof. exact ref_parse_shape. Qed.
Print Assumptions C03_reference_accepts_only_wire_images.

Example C03_example :
  ref_parse [64; 1; 0; 1; 224; 255; 255] = MustReject /\ ref_parse [73; 1; 0; 1] = MustReject /\
  ref_parse [64; 1; 0; 1; 209; 245; 7] = MustAccept (mkAmsg 1 0 [] 1 1 [(258, [7])] []).
Proof. vm_compute. repeat split; reflexivity. Qed.

(* C03 -- Parser is total: well-formed datagrams accepted, malformed rejected, no crash. *)
From CoapV Require Import Base Header Packet WireSpec Encode Decode PacketOps Suite01
  proofs.PWire proofs.PEnc proofs.PDec proofs.P01 proofs.P03b proofs.P01c.

(* The index-based decoder model (every buf[i], every slice, every typed addition is a
   potential Panic) agrees with the independent reference parser of WireSpec.v, for every
   byte string and every decoder policy: must-accept -> Ok with the grammar's fields,
   must-reject -> Err, either -> Ok with those fields or (only for a strict policy) Err. *)
Theorem C03_matches_reference : forall pol bs, bytes_wf bs ->
  match ref_parse bs with
  | MustAccept m => exists p, from_bytes pol bs = Ok p /\ view p = m /\ pkt_wf p
  | Either m => (exists p, from_bytes pol bs = Ok p /\ view p = m /\ pkt_wf p)
                \/ (strict pol = true /\ exists e, from_bytes pol bs = Err e)
  | MustReject => exists e, from_bytes pol bs = Err e
  end.
Proof. exact from_bytes_ref. Qed.
Print Assumptions C03_matches_reference.

Theorem C03_total : forall pol bs, bytes_wf bs -> forall s, from_bytes pol bs <> Panic s.
Proof. exact from_bytes_total. Qed.
Print Assumptions C03_total.

(* the reference parser itself is tied to the RFC image: it accepts every wire image *)
Theorem C03_reference_accepts_wire_image : forall m, amsg_wf m ->
  ref_parse (wire_image m) =
    if negb (a_ver m =? 1) || ((a_code m =? 0) && negb (len (wire_image m) =? 4)) then Either m else MustAccept m.
Proof. exact ref_parse_wire. Qed.
Print Assumptions C03_reference_accepts_wire_image.

Theorem C03_accepts : forall pol m, amsg_wf m -> a_ver m = 1 ->
  (a_code m = 0 -> a_token m = [] /\ a_opts m = [] /\ a_payload m = []) ->
  exists p, from_bytes pol (wire_image m) = Ok p /\ view p = m /\ pkt_wf p.
Proof. exact accepts_conformant. Qed.
Print Assumptions C03_accepts.

(* ... and everything it accepts is a wire image followed by nothing or marker + payload *)
Theorem C03_reference_accepts_only_wire_images : forall bs m, bytes_wf bs ->
  (ref_parse bs = MustAccept m \/ ref_parse bs = Either m) ->
  exists tail, bs = wire_header m ++ a_token m ++ wire_opts 0 (a_opts m) ++ tail /\
               (tail = [] /\ a_payload m = [] \/ tail = 255 :: a_payload m) /\ a_code m < 256.
Proof. exact ref_parse_shape. Qed.
Print Assumptions C03_reference_accepts_only_wire_images.

(* the model passes the suite-30 oracle (no panic; accepted exactly with the reference's fields; rejected where the
   reference must reject) on every byte string and policy *)
Theorem C03_model_passes_oracle : forall s pol bs, rd_case20 s = Some (pol, bs) -> bytes_wf bs -> verdict30 s (run20 s) = true.
Proof. exact model_passes_oracle30. Qed.
Print Assumptions C03_model_passes_oracle.

(* ---- the reject classes the property names, one theorem each (every decoder policy) ---- *)
Theorem C03_rejects_short : forall pol bs, bytes_wf bs -> len bs < 4 -> exists e, from_bytes pol bs = Err e.
Proof. exact rejects_short. Qed.
Print Assumptions C03_rejects_short.
Theorem C03_rejects_token_length : forall pol b0 c m1 m2 r, bytes_wf (b0 :: c :: m1 :: m2 :: r) -> 8 < b0 mod 16 ->
  exists e, from_bytes pol (b0 :: c :: m1 :: m2 :: r) = Err e.
Proof. exact rejects_token_length. Qed.
Print Assumptions C03_rejects_token_length.
Theorem C03_rejects_truncated_token : forall pol b0 c m1 m2 r, bytes_wf (b0 :: c :: m1 :: m2 :: r) -> len r < b0 mod 16 ->
  exists e, from_bytes pol (b0 :: c :: m1 :: m2 :: r) = Err e.
Proof. exact rejects_truncated_token. Qed.
Print Assumptions C03_rejects_truncated_token.
(* after ANY valid option prefix l: a header byte b (not the marker) from which no option can be read *)
Theorem C03_rejects_bad_option : forall pol b0 c m1 m2 tok l b rest,
  bytes_wf (b0 :: c :: m1 :: m2 :: tok ++ wire_opts 0 l ++ b :: rest) ->
  b0 mod 16 = len tok -> len tok <= 8 -> ascending 0 l -> b <> 255 ->
  ref_one (last_num 0 l) b rest = None ->
  exists e, from_bytes pol (b0 :: c :: m1 :: m2 :: tok ++ wire_opts 0 l ++ b :: rest) = Err e.
Proof. exact rejects_bad_option. Qed.
Print Assumptions C03_rejects_bad_option.
(* ... where "no option can be read" is exactly: nibble 15 in the delta or in the length, a truncated extended delta,
   a truncated extended length, an option number above 65535, or a truncated value *)
Theorem C03_bad_option_classes : forall num b rest, b < 256 -> ref_one num b rest = None ->
  b / 16 = 15 \/ b mod 16 = 15 \/
  ((b / 16 = 13 /\ rest = []) \/ (b / 16 = 14 /\ len rest < 2)) \/
  (exists d r1, ref_ext (b / 16) rest = Some (d, r1) /\
     (((b mod 16 = 13 /\ r1 = []) \/ (b mod 16 = 14 /\ len r1 < 2)) \/ 65535 < num + d \/
      exists L r2, ref_ext (b mod 16) r1 = Some (L, r2) /\ len r2 < L)).
Proof. exact ref_one_none_classes. Qed.
Print Assumptions C03_bad_option_classes.
Theorem C03_class_delta_nibble_15 : forall num b rest, b / 16 = 15 -> ref_one num b rest = None.
Proof. exact class_delta_nibble_15. Qed.
Print Assumptions C03_class_delta_nibble_15.
Theorem C03_class_length_nibble_15 : forall num b rest, b mod 16 = 15 -> ref_one num b rest = None.
Proof. exact class_length_nibble_15. Qed.
Print Assumptions C03_class_length_nibble_15.
Theorem C03_class_truncated_delta : forall num b rest, (b / 16 = 13 /\ rest = []) \/ (b / 16 = 14 /\ len rest < 2) -> ref_one num b rest = None.
Proof. exact class_truncated_delta. Qed.
Print Assumptions C03_class_truncated_delta.
Theorem C03_class_truncated_length : forall num b rest d r1, ref_ext (b / 16) rest = Some (d, r1) ->
  (b mod 16 = 13 /\ r1 = []) \/ (b mod 16 = 14 /\ len r1 < 2) -> ref_one num b rest = None.
Proof. exact class_truncated_length. Qed.
Print Assumptions C03_class_truncated_length.
Theorem C03_class_number_overflow : forall num b rest d r1, ref_ext (b / 16) rest = Some (d, r1) -> 65535 < num + d -> ref_one num b rest = None.
Proof. exact class_number_overflow. Qed.
Print Assumptions C03_class_number_overflow.
Theorem C03_class_truncated_value : forall num b rest d r1 L r2, ref_ext (b / 16) rest = Some (d, r1) -> ref_ext (b mod 16) r1 = Some (L, r2) ->
  len r2 < L -> ref_one num b rest = None.
Proof. exact class_truncated_value. Qed.
Print Assumptions C03_class_truncated_value.

(* non-vacuity: after Uri-Path "a" (option 11) a header byte 0xE0 with one byte following is a truncated extended delta *)
Example C03_reject_example :
  let l := [(11, [97])] in
  ascending 0 l /\ ref_one (last_num 0 l) 224 [1] = None /\
  (exists e, from_bytes lenient ([64; 1; 0; 1] ++ wire_opts 0 l ++ [224; 1]) = Err e).
Proof. cbv zeta. split; [cbn [ascending]; repeat split; try (vm_compute; congruence); repeat (constructor; [vm_compute; reflexivity|]); constructor|]. split; [reflexivity|]. vm_compute. eexists. reflexivity. Qed.

Example C03_example :
  ref_parse [64; 1; 0; 1; 224; 255; 255] = MustReject /\ ref_parse [73; 1; 0; 1] = MustReject /\
  ref_parse [64; 1; 0; 1; 209; 245; 7] = MustAccept (mkAmsg 1 0 [] 1 1 [(258, [7])] []).
Proof. vm_compute. repeat split; reflexivity. Qed.

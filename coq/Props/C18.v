(* C18 -- Link-format writer reports every sink failure and writes nothing after it. *)
From CoapV Require Import Base LinkFormat Suite16 proofs.P18 Suite16 proofs.P18b.

(* [fail] is an arbitrary function of the call index: failing once, persistently or intermittently.
   If call k is the first to fail: the result is an error, exactly k+1 calls were made, and the sink holds
   exactly the first k chunks of the fault-free output; if none fails: success and the complete output. *)
Theorem C18_fault : forall fail d nl,
  write_doc fail true nl sink0 d =
  match first_fail fail 0 (doc_chunks true nl d) with
  | None => (false, mkSink (length (doc_chunks true nl d)) (doc_chunks true nl d))
  | Some k => (true, mkSink (S k) (firstn k (doc_chunks true nl d)))
  end.
Proof. exact fault_theorem. Qed.
Print Assumptions C18_fault.

Theorem C18_first_fail_is_first : forall fail ts n k, (n <= k < n + length ts)%nat -> fail k = true ->
  (forall i, (n <= i < k)%nat -> fail i = false) -> first_fail fail n ts = Some k.
Proof. exact first_fail_some. Qed.
Print Assumptions C18_first_fail_is_first.

Theorem C18_no_fault : forall d nl,
  write_doc (fun _ => false) true nl sink0 d = (false, mkSink (length (doc_chunks true nl d)) (doc_chunks true nl d)).
Proof. exact no_fault. Qed.
Print Assumptions C18_no_fault.

(* the writer model passes the suite-180 oracle on EVERY input: every document the suite's reader produces, newline option
   on or off, every fault position k, failing once (mode 0) or from k on (mode 1) *)
Theorem C18_model_passes_oracle : forall s, match s with k :: mode :: r => rd_case160 r <> None | _ => False end ->
  verdict180 s (run180 s) = true.
Proof. exact model_passes_oracle180. Qed.
Print Assumptions C18_model_passes_oracle.

Example C18_example :
  let d := [([47; 97], [([107], APlain [118])]); ([47; 98], [])] in
  fst (write_doc (fun n => Nat.eqb n 7) true true sink0 d) = true /\
  calls (snd (write_doc (fun n => Nat.eqb n 7) true true sink0 d)) = 8%nat.
Proof. vm_compute. split; reflexivity. Qed.

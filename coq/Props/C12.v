(* C12 -- Concurrent block transfers are isolated; replies belong to the current request. *)
From CoapV Require Import Base Header Packet UintOpt Utf8 BlockValue Encode Response Accessors BlockHandler
  proofs.PNonInt proofs.P11 proofs.P12.

(* the cache key separates exactly method, path segment list and requester *)
Theorem C12_key_injective : forall r1 r2,
  request_key r1 = request_key r2 <->
  get_method (message r1) = get_method (message r2) /\
  (match get_path_as_vec (message r1) with Ok l => l | _ => [] end) = (match get_path_as_vec (message r2) with Ok l => l | _ => [] end) /\
  source r1 = source r2.
Proof. exact request_key_injective. Qed.
Print Assumptions C12_key_injective.
Theorem C12_key_path : forall r, forallb utf8_valid (match get_option (message r) OPT_URI_PATH with Some l => l | None => [] end) = true ->
  k_path (request_key r) = match get_option (message r) OPT_URI_PATH with Some l => l | None => [] end.
Proof. exact path_component. Qed.
Print Assumptions C12_key_path.

(* the public entry points are accesses of a keyed machine over the expiring map ... *)
Theorem C12_intercept_request_is_access : forall h now req,
  intercept_request h now req =
  (fst (snd (gaccess (h_M h) (h_ttl h) (request_key req) now (EvReq req) (h_cache h))),
   snd (snd (gaccess (h_M h) (h_ttl h) (request_key req) now (EvReq req) (h_cache h))),
   mkHandler (h_M h) (h_ttl h) (fst (gaccess (h_M h) (h_ttl h) (request_key req) now (EvReq req) (h_cache h)))).
Proof. exact intercept_request_is_access. Qed.
Print Assumptions C12_intercept_request_is_access.
Theorem C12_intercept_response_is_access : forall h now req,
  intercept_response h now req =
  (fst (snd (gaccess (h_M h) (h_ttl h) (request_key req) now (EvResp req) (h_cache h))),
   snd (snd (gaccess (h_M h) (h_ttl h) (request_key req) now (EvResp req) (h_cache h))),
   mkHandler (h_M h) (h_ttl h) (fst (gaccess (h_M h) (h_ttl h) (request_key req) now (EvResp req) (h_cache h)))).
Proof. exact intercept_response_is_access. Qed.
Print Assumptions C12_intercept_response_is_access.

(* ... so for EVERY interleaving of any number of transfers of any length (event times non-decreasing): what the
   transfers of key k observe equals what they observe when their events run alone *)
Theorem C12_noninterference : forall M ttl k evs now0, times_sorted ckey hev now0 evs ->
  filter (fun ko => key_eqb k (fst ko)) (grun M ttl [] evs) =
  grun M ttl [] (filter (for_key ckey hev key_eqb k) evs).
Proof. exact handler_noninterference. Qed.
Print Assumptions C12_noninterference.

(* every reply the handler builds from its cache keeps the message id and token of the response prepared for the
   request being answered (never those of the request that populated the cache) *)
Theorem C12_correlation : forall req b2 cached rp hm req', response req = Some rp ->
  serve_cached req b2 cached = (Ok hm, req') ->
  exists r', response req' = Some r' /\ mid (hdr r') = mid (hdr rp) /\ token r' = token rp /\ message req' = message req.
Proof. exact served_block_correlated. Qed.
Print Assumptions C12_correlation.

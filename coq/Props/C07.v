(* C07 -- Prepared responses are correlated with their request.
   Only statements; every proof is an [exact] of a lemma from proofs/P07.v. *)
From CoapV Require Import Base Header Packet UintOpt Response Suite07 proofs.P07.

(* A response is prepared iff the request is CON or NON, and it is exactly the
   packet spec_response describes (for every request the API can build). *)
Theorem C07_new : forall req, len (token req) < 16 ->
  response_new req = Ok (spec_response req).
Proof. exact response_new_spec. Qed.
Print Assumptions C07_new.

Theorem C07_new_fields : forall req r, len (token req) < 16 -> spec_response req = Some r ->
  get_version (hdr r) = 1 /\
  get_type (hdr r) = (match get_type (hdr req) with Confirmable => Acknowledgement | _ => NonConfirmable end) /\
  get_token_length (hdr r) = len (token req) /\
  code (hdr r) = Response Content /\ mid (hdr r) = mid (hdr req) /\
  token r = token req /\ opts r = [] /\ payload r = [].
Proof. exact spec_response_fields. Qed.
Print Assumptions C07_new_fields.

Theorem C07_new_none : forall req,
  spec_response req = None <-> (get_type (hdr req) = Acknowledgement \/ get_type (hdr req) = Reset).
Proof. exact spec_response_none. Qed.
Print Assumptions C07_new_none.

Theorem C07_from_packet : forall p src, len (token p) < 16 ->
  from_packet p src = Ok (mkRequest p (spec_response p) (Some src)).
Proof. exact from_packet_spec. Qed.
Print Assumptions C07_from_packet.

(* apply_from_error changes only code, payload and option 12 of the response, and
   reports false (changing nothing) without a response or without a code *)
Theorem C07_apply_error : forall r e, apply_from_error r e = Ok (spec_apply r e).
Proof. exact apply_from_error_spec. Qed.
Print Assumptions C07_apply_error.

(* the run-time oracle of the correspondence suite accepts the model on every case *)
Theorem C07_model_passes_oracle : forall s c, rd_case07 s = Some c -> verdict07 s (run07 s) = true.
Proof. exact run07_verdict. Qed.
Print Assumptions C07_model_passes_oracle.

(* non-vacuity: a concrete confirmable request with an 8-byte token, options and payload *)
Example C07_example :
  let req := mkPacket (mkHeader (64 + 8) (Request Post) 4660) [1;2;3;4;5;6;7;8] [(11, [[97]])] [1;2;3] in
  len (token req) < 16 /\
  response_new req = Ok (Some (mkPacket (mkHeader (64 + 32 + 8) (Response Content) 4660) [1;2;3;4;5;6;7;8] [] [])).
Proof. split; [vm_compute; reflexivity | vm_compute; reflexivity]. Qed.

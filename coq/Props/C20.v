(* C20 -- Cached block-transfer state lives exactly as long as configured. *)
From CoapV Require Import Base Header Packet UintOpt Utf8 BlockValue Encode Response Accessors BlockHandler
  proofs.PNonInt proofs.P12.

(* what the next use of key k at time now is handed: the stored state while it has not expired, the default state
   (a fresh request: the application is consulted / an upload starts from an empty buffer) afterwards *)
Theorem C20_state_handed : forall ttl M k now e c,
  snd (gaccess M ttl k now e c) = snd (kstep M (match gview ttl c k now with Some v => v | None => bstate_default end) e).
Proof. exact state_handed. Qed.
Print Assumptions C20_state_handed.

(* retained: any number of intervening requests for other keys never changes what k will see *)
Theorem C20_retained_across_other_keys : forall ttl M k k' now0 now e c, k <> k' -> PNonInt.Inv ckey bstate c -> now0 <= now ->
  gview ttl (fst (gaccess M ttl k' now0 e c)) k now = gview ttl c k now.
Proof. exact retained_across_other_keys. Qed.
Print Assumptions C20_retained_across_other_keys.

(* the exact boundary: after a use at now0 the state is seen up to and including now0 + ttl, and never after *)
Theorem C20_retained_until_expiry : forall ttl M k now0 now e c,
  gview ttl (fst (gaccess M ttl k now0 e c)) k now =
  if now <=? now0 + ttl
  then Some (fst (kstep M (match gview ttl c k now0 with Some v => v | None => bstate_default end) e)) else None.
Proof. exact retained_until_expiry. Qed.
Print Assumptions C20_retained_until_expiry.

(* reclaimed: after any use of the handler at time now every entry physically in the map has t + ttl >= now
   (with a clock that does not go backwards, which keeps the entries in time order) *)
Theorem C20_reclaimed : forall ttl M k now e c lo, times_asc c lo ->
  Forall (fun en => now <= snd en + ttl) (fst (gaccess M ttl k now e c)).
Proof. exact reclaimed. Qed.
Print Assumptions C20_reclaimed.
Theorem C20_time_order_invariant : forall ttl M k now e c lo, times_asc c lo -> Forall (fun en => snd en <= now) c -> lo <= now ->
  times_asc (fst (gaccess M ttl k now e c)) lo /\ Forall (fun en => snd en <= now) (fst (gaccess M ttl k now e c)).
Proof. exact times_asc_access. Qed.
Print Assumptions C20_time_order_invariant.
Theorem C20_keys_unique : forall ttl M k now e c, PNonInt.Inv ckey bstate c -> PNonInt.Inv ckey bstate (fst (gaccess M ttl k now e c)).
Proof. exact cache_keys_unique. Qed.
Print Assumptions C20_keys_unique.

(* C13 -- Block option values encode and decode per RFC 7959 section 2.2. *)
From CoapV Require Import Base UintOpt BlockValue Suite13 proofs.P06 proofs.P13 proofs.P13b.

Theorem C13_roundtrip : forall num more szx, num < 65536 -> szx < 8 ->
  let b := mkBlock num more szx in
  block_encode b = Ok (be_min (num * 16 + b2n more * 8 + szx)) /\
  block_decode (be_min (num * 16 + b2n more * 8 + szx)) = Ok b /\
  block_size b = 2 ^ (szx + 4).
Proof. exact block_roundtrip. Qed.
Print Assumptions C13_roundtrip.

Theorem C13_decode_total : forall bs, bytes_wf bs ->
  block_decode bs =
    if (3 <? len bs) || (65535 <? be_value bs / 16) then Err ERR_INCOMPATIBLE
    else Ok (mkBlock (be_value bs / 16) ((be_value bs / 8) mod 2 =? 1) (be_value bs mod 8)).
Proof. exact block_decode_spec. Qed.
Print Assumptions C13_decode_total.

(* usize arguments: every size below 2^64 *)
Theorem C13_new : forall num more size, size < U64 ->
  block_new num more size =
    if (size =? 0) || (4096 <=? size) || (65536 <=? num) then Err ERR_BLOCK
    else Ok (mkBlock num more (N.log2 size - 4)).
Proof. exact block_new_spec. Qed.
Print Assumptions C13_new.

Theorem C13_new_size : forall num more size b, 0 < size -> size < 4096 -> block_new num more size = Ok b ->
  block_size b = N.max 16 (2 ^ N.log2 size) /\ (16 <= size -> block_size b <= size /\ size < 2 * block_size b).
Proof. exact block_new_size. Qed.
Print Assumptions C13_new_size.

(* the model passes the suite-130 oracle -- the RFC 7959 2.2 specification spec130, written independently of the
   model: minimal uint NUM<<4|M<<3|SZX, decode by division, BlockValue::new by log2 -- on EVERY input *)
Theorem C13_model_passes_oracle : forall s, verdict130 s (run130 s) = true.
Proof. exact model_passes_oracle130. Qed.
Print Assumptions C13_model_passes_oracle.

Example C13_example :
  block_encode (mkBlock 4096 true 2) = Ok [1; 0; 10] /\ block_decode [1; 0; 10] = Ok (mkBlock 4096 true 2) /\
  block_decode [16; 0; 0] = Err ERR_INCOMPATIBLE /\ block_new 3 false 1000 = Ok (mkBlock 3 false 5) /\
  block_new 0 false 4096 = Err ERR_BLOCK.
Proof. vm_compute. repeat split; reflexivity. Qed.

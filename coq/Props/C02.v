(* C02 -- Every accepted datagram re-encodes to identical bytes (decoding is lossless). *)
From CoapV Require Import Base Header Packet WireSpec Encode Decode PacketOps Suite01
  proofs.PWire proofs.PEnc proofs.PDec proofs.P01 proofs.P01c.

(* canonb bs bs' : bs = bs', or bs = bs' ++ [0xFF], or a 0.00 message whose content after
   the options (marker + payload) was dropped -- exactly the differences C02 permits.
   Holds for every decoder policy (lenient or any RFC-permitted stricter variant). *)
Theorem C02_decode_then_encode : forall pol bs p, bytes_wf bs -> from_bytes pol bs = Ok p ->
  exists bs', to_bytes_unlimited p = Ok bs' /\ canonb bs bs' = true.
Proof. exact decode_then_encode. Qed.
Print Assumptions C02_decode_then_encode.

Theorem C02_injective : forall pol b1 b2 p, bytes_wf b1 -> bytes_wf b2 ->
  from_bytes pol b1 = Ok p -> from_bytes pol b2 = Ok p ->
  exists c, canonb b1 c = true /\ canonb b2 c = true.
Proof. exact decode_injective. Qed.
Print Assumptions C02_injective.

(* the model passes the suite-20 oracle on every byte string and policy *)
Theorem C02_model_passes_oracle : forall s pol bs, rd_case20 s = Some (pol, bs) -> bytes_wf bs -> verdict20 s (run20 s) = true.
Proof. exact model_passes_oracle20. Qed.
Print Assumptions C02_model_passes_oracle.

Example C02_example :
  let bs := [72; 2; 18; 52; 1;2;3;4;5;6;7;8; 209; 245; 7; 255; 1; 2] in
  match from_bytes lenient bs with
  | Ok p => to_bytes_unlimited p = Ok bs /\ flatten (opts p) = [(258, [7])]
  | _ => False end.
Proof. vm_compute. split; reflexivity. Qed.

(* C01 -- Encoded messages are the exact RFC 7252 wire image and decode back unchanged.
   Only statements; every proof is an [exact] of a lemma from proofs/. *)
From CoapV Require Import Base Header Packet WireSpec Encode Decode PacketOps Suite01
  proofs.PWire proofs.PEnc proofs.PDec proofs.P01 proofs.P01b proofs.P01c.

(* every packet state the API can hold (pkt_wf: header byte consistent with the token,
   token <= 8 bytes, ascending option map, values <= 65804 bytes) serialises to exactly
   the RFC 7252 section 3 image of the message it denotes *)
Theorem C01_encode_is_wire_image : forall p, pkt_wf p ->
  to_bytes_unlimited p = Ok (wire_image (abs p)).
Proof. intros p H. unfold to_bytes_unlimited. rewrite (to_bytes_internal_spec p None H). reflexivity. Qed.
Print Assumptions C01_encode_is_wire_image.

(* the decoder inverts the wire image of every well-formed abstract message:
   versions 0-3, all types, token 0-8, any code, id, ascending options, payload *)
Theorem C01_decode_inverts_wire_image : forall m, amsg_wf m ->
  exists p', from_bytes lenient (wire_image m) = Ok p' /\ view p' = m /\ pkt_wf p'.
Proof. exact decode_inverts_wire_image. Qed.
Print Assumptions C01_decode_inverts_wire_image.

Theorem C01_roundtrip : forall p, pkt_wf p ->
  exists bs p', to_bytes_unlimited p = Ok bs /\ bs = wire_image (abs p) /\
                from_bytes lenient bs = Ok p' /\ view p' = abs p.
Proof. exact roundtrip. Qed.
Print Assumptions C01_roundtrip.

(* every sequence of public API calls (any order, repeated, cleared and re-added options)
   yields a well-formed state, so the round trip holds for everything the API builds *)
Theorem C01_api_states_wf : forall ops p, ops_wf ops = true -> run_ops packet_new ops = Ok p -> pkt_wf p.
Proof. intros ops p H E. exact (run_ops_wf ops packet_new p packet_new_wf H E). Qed.
Print Assumptions C01_api_states_wf.

Theorem C01_api_roundtrip : forall ops, ops_wf ops = true ->
  exists p bs p', run_ops packet_new ops = Ok p /\ pkt_wf p /\
    to_bytes_unlimited p = Ok bs /\ bs = wire_image (abs p) /\
    from_bytes lenient bs = Ok p' /\ view p' = abs p.
Proof. exact api_roundtrip. Qed.
Print Assumptions C01_api_roundtrip.

(* ... and that state denotes exactly the message a last-writer-wins reading of the calls describes: header fields
   by their last setter, options as the insertion-ordered multiset (set_option replaces, clear_option removes)
   stably sorted by number -- so the order of setter calls is immaterial and cleared-and-re-added options behave
   as specified *)
Theorem C01_api_denotes_spec : forall ops p, ops_wf ops = true -> run_ops packet_new ops = Ok p ->
  abs p = amsg_of_smsg (spec_run ops).
Proof. exact api_denotes_spec. Qed.
Print Assumptions C01_api_denotes_spec.

(* the model passes the suite-10 oracle on EVERY input of the suite (every call sequence the reader can produce,
   lenient decoder): state = specified message, bytes = its wire image, decoded fields = that message *)
Theorem C01_model_passes_oracle : forall s ops, rd_case10 s = Some (lenient, ops) -> verdict10 s (run10 s) = true.
Proof. exact model_passes_oracle10. Qed.
Print Assumptions C01_model_passes_oracle.

(* non-vacuity: No-Response (258) as first option, a 300-byte value, version 2 *)
Example C01_example :
  let ops := [OSetVersion 2; OAddOption 258 [1]; OAddOption 11 (repeat 7 300); OSetToken [9;9]; OSetPayload [5]] in
  ops_wf ops = true /\
  match run_ops packet_new ops with
  | Ok p => match to_bytes_unlimited p with
            | Ok bs => take 8 bs = [130; 1; 0; 0; 9; 9; 190; 0] /\ len bs = 4 + 2 + 303 + 3 + 2
            | _ => False end
  | _ => False end.
Proof. vm_compute. repeat split; reflexivity. Qed.

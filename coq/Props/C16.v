(* C16 -- Link-format documents produced by the writer parse back to the same content. *)
From CoapV Require Import Base LinkFormat Suite16 proofs.P16 proofs.P16b proofs.P16c.

(* for every document (any number of links and attributes, values of any length; targets
   without '>', keys free of separators, quoted values arbitrary, plain values alphanumeric,
   integers as digits), with or without the newline option: parsing the concatenation of what the
   writer sent to a fault-free sink yields the same links in order, the same keys in order, and for
   each value an unquoted text equal to the original *)
Theorem C16_roundtrip : forall d nl, doc_wf d = true ->
  parse_content (concat (accepted (snd (write_doc (fun _ => false) true nl sink0 d)))) = Some (doc_content d).
Proof. exact roundtrip. Qed.
Print Assumptions C16_roundtrip.

(* attr() chooses the plain form only for all-alphanumeric values, so it always meets aval_wf *)
Theorem C16_attr_auto_wf : forall k v, aval_wf (snd (attr_auto k v)) = true.
Proof. intros k v. unfold attr_auto. destruct (forallb is_alnum v) eqn:E; [exact E|reflexivity]. Qed.
Print Assumptions C16_attr_auto_wf.

(* integer values: the text attr_u32 / attr_u16 write is a non-empty digit string without a leading zero (except for 0)
   that denotes the integer -- for every integer below 10^40, so every u16, u32 and u64 -- and is therefore inside the
   domain of C16_roundtrip: it parses back as exactly that text *)
Theorem C16_integer_text : forall n, n < 10 ^ 40 ->
  forallb is_digit (digits n) = true /\ digits n <> [] /\ dec_value (digits n) = n /\
  (n <> 0 -> hd 0 (digits n) <> 48) /\ (n = 0 -> digits n = [48]).
Proof. exact digits_spec. Qed.
Print Assumptions C16_integer_text.
Theorem C16_integer_in_domain : forall n, n < 10 ^ 40 -> aval_wf (AInt (digits n)) = true.
Proof. exact int_attr_wf. Qed.
Print Assumptions C16_integer_in_domain.

(* the documents the correspondence suite judges (doc_in_ok: what its reader accepts and its oracle does not skip)
   all lie inside the domain of C16_roundtrip, whichever of attr(), attr_quoted(), attr_u32(), attr_u16() wrote each value *)
Theorem C16_oracle_domain_inside : forall d, doc_in_ok d = true -> doc_wf (doc_of_in d) = true.
Proof. exact doc_in_wf. Qed.
Print Assumptions C16_oracle_domain_inside.

(* the model passes the suite-160 run-time oracle on every case: what a consumer strips from the three iterators
   (targets, keys, the two unquoted forms of every value) equals what the case named, for every document in the domain *)
Theorem C16_model_passes_oracle : forall s, rd_case160 s <> None -> verdict160 s (run160 s) = true.
Proof. exact model_passes_oracle160. Qed.
Print Assumptions C16_model_passes_oracle.

Example C16_example :
  let d := [([47; 97], [attr_auto [116] [34; 44; 59; 92; 10]; ([110], AInt (digits 40))]); ([], [])] in
  doc_wf d = true /\
  concat (accepted (snd (write_doc (fun _ => false) true true sink0 d))) =
    [60; 47; 97; 62; 59; 116; 61; 34; 92; 34; 44; 59; 92; 92; 10; 34; 59; 110; 61; 52; 48; 44; 10; 13; 60; 62].
Proof. vm_compute. split; reflexivity. Qed.

(* C05 -- Protocol numbers match the IANA/RFC registries and map one-to-one.
   Finite domains, decided completely: each statement carries its bound. *)
From CoapV Require Import Base Header Numbers Registry Suite05 proofs.P05 proofs.P05b.

Theorem C05_option_roundtrip : forall n, n < 65536 -> u16_of_option (option_of_u16 n) = n.
Proof. exact option_roundtrip. Qed.
Print Assumptions C05_option_roundtrip.

Theorem C05_option_registry : forall n, n < 65536 -> option_of_u16 n = registry_option n.
Proof. exact option_registry_agrees. Qed.
Print Assumptions C05_option_registry.

Theorem C05_option_names : forall o, In o all_named_options -> option_of_u16 (u16_of_option o) = o.
Proof. exact option_names. Qed.
Print Assumptions C05_option_names.

Theorem C05_option_unassigned_is_unknown : forall n, n < 65536 ->
  lookup n option_registry = None -> option_of_u16 n = O_Unknown n.
Proof. exact option_unknown_not_aliased. Qed.
Print Assumptions C05_option_unassigned_is_unknown.

Theorem C05_content_format_registry : forall n, n < 65536 -> content_format_of n = registry_content_format n.
Proof. exact cf_registry_agrees. Qed.
Print Assumptions C05_content_format_registry.

Theorem C05_content_format_roundtrip : forall n c, n < 65536 -> content_format_of n = Some c -> of_content_format c = n.
Proof. exact cf_roundtrip. Qed.
Print Assumptions C05_content_format_roundtrip.

Theorem C05_content_format_names : forall c, content_format_of (of_content_format c) = Some c.
Proof. exact cf_names. Qed.
Print Assumptions C05_content_format_names.

Theorem C05_code_registry : forall b, b < 256 -> class_of_byte b = registry_code b.
Proof. exact code_registry_agrees. Qed.
Print Assumptions C05_code_registry.

Theorem C05_code_roundtrip : forall b, b < 256 -> class_to_byte (class_of_byte b) = b.
Proof. exact code_roundtrip. Qed.
Print Assumptions C05_code_roundtrip.

Theorem C05_code_names : forall c,
  (match c with Reserved _ | Request ReqUnKnown | Response RespUnKnown => False | _ => True end) ->
  class_of_byte (class_to_byte c) = c.
Proof. exact code_names. Qed.
Print Assumptions C05_code_names.

(* the dotted form prints as c.dd and set_code parses it back to the same byte *)
Theorem C05_code_text : forall b, b < 256 -> parse_code (fmt_code b) = Ok b /\ fmt_code b = spec_fmt b.
Proof. exact code_text. Qed.
Print Assumptions C05_code_text.

Theorem C05_is_error : forall s, is_error s = (128 <=? resp_to_byte s).
Proof. exact is_error_spec. Qed.
Print Assumptions C05_is_error.

Theorem C05_types : forall t, t < 4 -> registry_type t = Some (type_of_bits t) /\ type_bits (type_of_bits t) = t.
Proof. exact type_registry_agrees. Qed.
Print Assumptions C05_types.

Theorem C05_observe : forall n, observe_of n = registry_observe n /\
  (forall o, observe_of n = Some o -> of_observe o = n).
Proof. exact observe_registry_agrees. Qed.
Print Assumptions C05_observe.

Theorem C05_header_fields : forall v t x, v < 256 -> t < 4 ->
  let h := mkHeader v Empty 0 in
  get_version h = v / 64 /\ type_bits (get_type h) = (v / 16) mod 4 /\ get_token_length h = v mod 16 /\
  vtt (set_type h (type_of_bits t)) = (v / 64) * 64 + t * 16 + v mod 16 /\
  vtt (set_version h x) = (x mod 4) * 64 + v mod 64.
Proof. exact header_fields. Qed.
Print Assumptions C05_header_fields.

(* the model's observable output meets the registry-only oracle of the correspondence suite
   on the complete finite domain (what the implementation is compared against) *)
Theorem C05_model_passes_oracle :
  (forall x, x < 65536 -> verdict50 [0; x] (run50 [0; x]) = true) /\
  (forall i, i < 21 -> verdict50 [1; i] (run50 [1; i]) = true) /\
  (forall x, x < 65536 -> verdict50 [2; x] (run50 [2; x]) = true) /\
  (forall i, i < 60 -> verdict50 [3; i] (run50 [3; i]) = true) /\
  (forall b, b < 256 -> verdict50 [4; b] (run50 [4; b]) = true) /\
  (forall x, x < 768 -> verdict50 [5; x] (run50 [5; x]) = true) /\
  (forall v t, v < 256 -> t < 4 -> verdict50 [6; v; t] (run50 [6; v; t]) = true) /\
  (forall i, i < 28 -> verdict50 [7; i] (run50 [7; i]) = true) /\
  (forall v x, v < 256 -> x < 256 -> verdict50 [9; v; x] (run50 [9; v; x]) = true) /\
  (forall i, i < 8 -> verdict50 [10; i] (run50 [10; i]) = true).
Proof. exact oracle_all. Qed.
Print Assumptions C05_model_passes_oracle.

(* the convenience readers of a code (CoapResponse::get_status, CoapRequest::get_method): a named value exactly for the
   registered response / request codes; every other byte and every Reserved(b) / UnKnown form reads as unknown *)
Theorem C05_code_readers : forall x, x < 768 -> verdict50 [11; x] (run50 [11; x]) = true.
Proof. exact oracle_code_readers. Qed.
Print Assumptions C05_code_readers.

(* the observe action as a request reports it (CoapRequest::get_observe_flag over an Observe option holding x in its
   shortest form): a named action exactly for 0 and 1; every other number -- all of them, there is no bound here beyond the
   option's 32 bits -- is an error and never an alias of a named action *)
Theorem C05_observe_flag : forall x, verdict50 [12; x] (run50 [12; x]) = true.
Proof. exact oracle_observe_flag. Qed.
Print Assumptions C05_observe_flag.

Example C05_example :
  option_of_u16 258 = O_NoResponse /\ content_format_of 11542 = Some CF_ApplicationVndOmaLwm2mTlv /\
  class_of_byte 136 = Response RequestEntityIncomplete /\ fmt_code 136 = [52; 46; 48; 56].
Proof. repeat split; reflexivity. Qed.

(* C10 -- Block-wise messages respect the size budget and the client's block size. *)
From CoapV Require Import Base Header Packet UintOpt BlockValue Encode Response Accessors BlockHandler proofs.P11.

(* for every budget M with overhead + 28 <= M <= 1280 (overhead = encoded size without payload), whenever the handler
   picks a block size it is 2^(k+4) with k <= 6 (16..1024), at most M - overhead - 12 (so block + block options fit),
   never larger than the client's, and exactly the client's when that fits with 32 bytes to spare *)
Theorem C10_chosen_size : forall cb overhead tp M b, overhead + 28 <= M -> M <= 1280 ->
  negotiate cb (overhead + tp) tp M = Ok (Some b) ->
  (exists k, k <= 6 /\ block_size b = 2 ^ (k + 4)) /\
  block_size b <= M - overhead - BLOCK_OPTIONS_MAX_LENGTH /\
  (forall c, cb = Some c -> block_size b <= block_size c) /\
  (forall c, cb = Some c -> b_szx c <= 7 -> overhead + block_size c + 32 <= M -> block_size b = block_size c).
Proof. exact negotiate_size. Qed.
Print Assumptions C10_chosen_size.

Example C10_example :
  negotiate (Some (mkBlock 0 false 6)) (60 + 5000) 5000 1152 = Ok (Some (mkBlock 0 true 6)) /\
  negotiate None (60 + 5000) 5000 200 = Ok (Some (mkBlock 0 true 3)).
Proof. vm_compute. split; reflexivity. Qed.

(* C10 -- Block-wise messages respect the size budget and the client's block size. *)
From CoapV Require Import Base Header Packet UintOpt BlockValue Encode Response Accessors BlockHandler WireSpec PacketOps proofs.PEnc proofs.P01 proofs.P11 proofs.P10 proofs.P10b.

(* for every budget M with overhead + 28 <= M <= 1280 (overhead = encoded size without payload), whenever the handler
   picks a block size it is 2^(k+4) with k <= 6 (16..1024), at most M - overhead - 12 (so block + block options fit),
   never larger than the client's, and exactly the client's when that fits with 32 bytes to spare *)
Theorem C10_chosen_size : forall cb overhead tp M b, overhead + 28 <= M -> M <= 1280 ->
  negotiate cb (overhead + tp) tp M = Ok (Some b) ->
  (exists k, k <= 6 /\ block_size b = 2 ^ (k + 4)) /\
  block_size b <= M - overhead - BLOCK_OPTIONS_MAX_LENGTH /\
  (forall c, cb = Some c -> block_size b <= block_size c) /\
  (forall c, cb = Some c -> b_szx c <= 7 -> overhead + block_size c + 32 <= M -> block_size b = block_size c).
Proof. exact negotiate_size. Qed.
Print Assumptions C10_chosen_size.

(* the fragment the handler builds from the application's response fits the budget: for every well-formed response
   without a Block2 option of its own and every budget with overhead + 28 <= M <= 1280, the first block the handler
   puts into the response (application options + Block2 + marker + chunk) has wire length <= M, and its payload is at
   most the chosen block size.  Uses the insertion lemma on the RFC wire image: one option with number <= 268 and
   a value of <= 12 bytes adds at most 2 + its length, because the successor's delta can only get shorter *)
Theorem C10_fragment_fits : forall req rp lb M b2 hm req', pkt_wf rp -> response req = Some rp -> get_option rp OPT_BLOCK2 = None ->
  overhead_of rp + 28 <= M -> M <= 1280 ->
  negotiate lb (overhead_of rp + len (payload rp)) (len (payload rp)) M = Ok (Some b2) ->
  serve_cached req b2 rp = (Ok hm, req') ->
  exists r', response req' = Some r' /\ wire_len (abs r') <= M /\ len (payload r') <= block_size b2.
Proof. exact fragment_fits. Qed.
Print Assumptions C10_fragment_fits.

(* the size the handler measures is the RFC wire length without the payload *)
Theorem C10_overhead_measured : forall p, pkt_wf p -> message_size_hack p = Ok (overhead_of p + len (payload p)).
Proof. exact message_size_spec. Qed.
Print Assumptions C10_overhead_measured.

Theorem C10_insertion : forall l prev n0 v0, prev <= n0 -> n0 <= 268 -> len v0 <= 12 -> nums_asc prev l ->
  opts_len prev (insert n0 v0 l) <= opts_len prev l + 2 + len v0.
Proof. exact insert_growth. Qed.
Print Assumptions C10_insertion.

(* whatever else a request does -- also when it is the final block of an upload -- once it is let through to the
   application the state remembers exactly the request's own Block2 option, so the response is negotiated against the
   size this request names (C10_chosen_size then bounds the chosen size by it) *)
Theorem C10_request_block2_remembered : forall req M st req' st', intercept_request_st req M st = (Ok false, req', st') ->
  last_b2 st' = first_block OPT_BLOCK2 (message req).
Proof. exact request_block2_remembered. Qed.
Print Assumptions C10_request_block2_remembered.

Example C10_example :
  negotiate (Some (mkBlock 0 false 6)) (60 + 5000) 5000 1152 = Ok (Some (mkBlock 0 true 6)) /\
  negotiate None (60 + 5000) 5000 200 = Ok (Some (mkBlock 0 true 3)).
Proof. vm_compute. split; reflexivity. Qed.

(* C15 -- Observe accounting: sequence strictly increases; eviction exactly past limit. *)
From CoapV Require Import Base Header Packet UintOpt Observe Suite14 proofs.P14 proofs.P14b proofs.P15b proofs.P15c.

(* a round on an observed resource: sequence + 1; every observer gets the message id and, when
   confirmable, one more unacknowledged notification; exactly those whose count exceeds the limit are dropped.
   Guard: the 32-bit sequence is not at its last value (KF_seq_wrap below) *)
Theorem C15_round : forall s p mid conf r, lookup_res p (res s) = Some r -> rseq r + 1 < U32 ->
  (forall x, In x (robs r) -> unack x + 1 < U16) ->
  exists s', step s (Changed p mid conf) = Ok s' /\
    lookup_res p (res s') = Some (mkRes (rseq r + 1) (filter (fun x => unack x <=? limit s) (map (bump mid conf) (robs r)))) /\
    (forall q, q <> p -> lookup_res q (res s') = lookup_res q (res s)) /\ limit s' = limit s.
Proof. exact changed_spec. Qed.
Print Assumptions C15_round.

(* acknowledgement: per resource only the observer with that endpoint, and only when its pending id matches *)
Theorem C15_ack : forall s e mid,
  exists s', step s (Ack e mid) = Ok s' /\ limit s' = limit s /\
    forall p, lookup_res p (res s') = option_map (fun r => mkRes (rseq r) (ack_obs e mid (robs r))) (lookup_res p (res s)).
Proof. exact ack_spec. Qed.
Print Assumptions C15_ack.
Theorem C15_ack_exact : forall e mid l, NoDup (map oe l) ->
  ack_obs e mid l = map (fun x => if ack_match e mid x then mkObs (oe x) (otok x) 0 None else x) l.
Proof. exact ack_obs_spec. Qed.
Print Assumptions C15_ack_exact.

(* projected on one (endpoint, path) pair the registry IS the four-field automaton pair_step: absent, or present with
   (token, confirmable notifications since the last acknowledgement or registration, pending id).  In particular the
   observer is dropped exactly when that count exceeds the limit in force at the round, non-confirmable rounds never
   count, an acknowledgement from the same endpoint for the pending id resets the count, and nothing else touches it *)
Theorem C15_projection : forall s o s' e p, Inv s -> step s o = Ok s' ->
  proj s' e p = pair_step (proj s e p) o (limit s) e p.
Proof. exact projection. Qed.
Print Assumptions C15_projection.
Theorem C15_projection_run : forall ops s s' e p, Inv s -> run_ops s ops = Ok s' ->
  proj s' e p = pair_run (proj s e p) (limit s) ops e p.
Proof. exact projection_run. Qed.
Print Assumptions C15_projection_run.

(* counting never overflows, whatever the limit (0..255) and however long the history:
   the per-observer counter stays <= 255 after every operation ... *)
Theorem C15_count_bounded : forall ops s s', forallb op_ok ops = true -> CountInv s -> run_ops s ops = Ok s' -> CountInv s'.
Proof.
  induction ops as [|o ops IH]; intros s s' Hok HC; cbn [run_ops]; [intros [= <-]; exact HC|].
  cbn [forallb] in Hok. apply andb_true_iff in Hok. destruct Hok as (Ho & Hok).
  destruct (step s o) as [s1|e|st] eqn:E; cbn [bind]; try discriminate.
  apply IH; [exact Hok|exact (count_step s o s1 Ho HC E)].
Qed.
Print Assumptions C15_count_bounded.

(* ... so the only panic any history can reach is the end of the 32-bit sequence (site 40) *)
Theorem C15_no_counter_overflow : forall ops, forallb op_ok ops = true ->
  forall st, run_ops subject_default ops = Panic st -> st = 40.
Proof. intros ops H. exact (run_no_counter_panic ops subject_default H count_default). Qed.
Print Assumptions C15_no_counter_overflow.

(* known finding KF_seq_wrap: the sequence is a u32; at 2^32 - 1 the next round cannot increase it *)
Theorem C15_KF_seq_wrap_refuted :
  exists s p, lookup_res p (res s) = Some (mkRes 4294967295 []) /\ step s (Changed p 0 false) = Panic 40.
Proof. exists (mkSubj [([114], mkRes 4294967295 [])] 10), [114]. split; vm_compute; reflexivity. Qed.
Print Assumptions C15_KF_seq_wrap_refuted.

(* notifications: version 1, CON/NON, 2.05, the id, token and payload given, Observe = minimal uint of the sequence *)
Theorem C15_notification : forall m tok seq pl conf, len tok <= 8 -> seq < U32 ->
  create_notification m tok seq pl conf =
    Ok (mkPacket (mkHeader (64 + (if conf then 0 else 16) + len tok) (Response Content) m) tok [(6, [be_min seq])] pl).
Proof. exact notification_spec. Qed.
Print Assumptions C15_notification.

(* the model passes both oracles on every input: suite 150 (create_notification against the literal expected packet),
   and suite 140 (histories against the relational reference, in which a row's count is by construction the number of
   confirmable rounds since its registration or last matching acknowledgement) outside the known-finding class *)
Theorem C15_model_passes_oracle150 : forall s, verdict150 s (run150 s) = true.
Proof. exact model_passes_oracle150. Qed.
Print Assumptions C15_model_passes_oracle150.
Theorem C15_model_passes_oracle140 : forall s, known140 s = 0 -> verdict140 s (run140 s) = true.
Proof. exact model_passes_oracle140. Qed.
Print Assumptions C15_model_passes_oracle140.

Example C15_example :
  match run_ops subject_default [SetLimit 1; Register 1 [97] [1]; Changed [97] 5 true; Changed [97] 6 true; Ack 1 5; Changed [97] 7 true] with
  | Ok s => lookup_res [97] (res s) = Some (mkRes 3 []) | _ => False end /\
  match run_ops subject_default [SetLimit 1; Register 1 [97] [1]; Changed [97] 5 true; Ack 1 5; Changed [97] 6 true; Changed [97] 7 false] with
  | Ok s => lookup_res [97] (res s) = Some (mkRes 3 [mkObs 1 [1] 1 (Some 7)]) | _ => False end.
Proof. vm_compute. split; reflexivity. Qed.

(* C17 -- Link-format parser is total and its two unquoting paths agree. *)
From CoapV Require Import Base LinkFormat Suite16 proofs.P17 proofs.P17b.

(* termination: each iterator strictly shortens its remaining input with every item it yields
   (the model functions are total Gallina functions: there is no panic site in the scanners) *)
Theorem C17_link_progress : forall s item r, link_next s = Some (item, r) -> (length r < length s)%nat.
Proof. exact link_next_progress. Qed.
Print Assumptions C17_link_progress.
Theorem C17_attr_progress : forall s item r, attr_next s = Some (item, r) -> (length r < length s)%nat.
Proof. exact attr_next_progress. Qed.
Print Assumptions C17_attr_progress.

(* every item is made of substrings of the input, in left-to-right order, without overlap,
   at exactly the offsets reported, and the rest is a suffix *)
Theorem C17_link_substrings : forall s loff l aoff a r, link_next s = Some (LOk loff l aoff a, r) ->
  exists x y z, s = x ++ l ++ y ++ a ++ z ++ r /\ loff = len x /\ aoff = len x + len l + len y.
Proof. exact link_next_substrings. Qed.
Print Assumptions C17_link_substrings.
Theorem C17_attr_substrings : forall s it r, attr_next s = Some (it, r) ->
  exists x y z, s = x ++ akey it ++ y ++ aval it ++ z ++ r /\ koff it = len x /\
                (aval it <> [] -> voff it = len x + len (akey it) + len y).
Proof. exact attr_next_substrings. Qed.
Print Assumptions C17_attr_substrings.

(* nothing is yielded after an error: the error item leaves the empty string *)
Theorem C17_error_is_last : forall s r, link_next s = Some (LErr, r) -> r = [] /\ link_next r = None.
Proof.
  intros s r. unfold link_next. destruct s as [|c0 s0]; [discriminate|].
  destruct (skip_to_lt (c0 :: s0) 0) as [| |off r1]; [discriminate|intros [= <-]; split; reflexivity|].
  destruct (scan_to GT r1) as [p r2]. destruct (scan_quoted COMMA r2 false) as [q r3]. discriminate.
Qed.
Print Assumptions C17_error_is_last.

(* the copy-on-write form equals the character-by-character form, for every value
   (unterminated quoted strings and text after the closing quote included), and never panics *)
Theorem C17_cow_eq : forall v, to_cow v = Ok (unquote_to_string v).
Proof. exact to_cow_eq. Qed.
Print Assumptions C17_cow_eq.

(* the whole document, not just one item: driving the three iterators to completion over ANY string yields slices
   that are the input's content at the reported offsets, left to right without overlap from the first link to the
   last attribute, with an error only as the very last item and equal unquoted forms -- the suite-170 run-time
   oracle accepts the model's output for every input *)
Theorem C17_whole_document : forall w fuel, (length (parse_doc w) < fuel)%nat -> check_links fuel w 0 (parse_doc w) = true.
Proof. intros w fuel H. apply (check_links_parse _ w [] w 0 0); [reflexivity|reflexivity|apply N.le_refl|exact H]. Qed.
Print Assumptions C17_whole_document.
Theorem C17_model_passes_oracle : forall s w, rd_bytes s = Some (w, []) -> verdict170 s (run170 s) = true.
Proof. exact model_passes_oracle170. Qed.
Print Assumptions C17_model_passes_oracle.

Example C17_example :
  to_cow [34] = Ok [] /\ to_cow [34; 97; 98; 99] = Ok [97; 98; 99] /\ to_cow [34; 97; 98; 34; 99; 100] = Ok [97; 98] /\
  link_next [60; 97; 62; 59; 107; 61; 34; 44; 34; 44; 60] = Some (LOk 1 [97] 4 [107; 61; 34; 44; 34], [60]).
Proof. vm_compute. repeat split; reflexivity. Qed.

(* C09 -- Block1: uploaded blocks are reassembled into exactly the body sent. *)
From CoapV Require Import Base Header Packet UintOpt BlockValue Encode Response Accessors BlockHandler proofs.P11 proofs.P08b proofs.P09b proofs.P09c proofs.P09d.

(* whatever an abandoned upload left in the buffer: once the buffer agrees with the body up to a block's offset,
   splicing that (full) block in makes it agree up to the next offset -- so blocks delivered in order, each
   possibly more than once, keep the agreement *)
Theorem C09_splice_extends_prefix : forall buf body off sz out, len (take sz (drop off body)) = sz ->
  take off buf = take off body -> off <= len buf -> off + sz <= len body ->
  extending_splice buf off (off + sz) (take sz (drop off body)) = Some out ->
  take (off + sz) out = take (off + sz) body /\ off + sz <= len out.
Proof. exact splice_extends_prefix. Qed.
Print Assumptions C09_splice_extends_prefix.

(* the final block: the body handed to the application is exactly the body sent *)
Theorem C09_final_block_body : forall buf body off pl out, take off buf = take off body -> off <= len buf ->
  body = take off body ++ pl -> off <= len body ->
  extending_splice buf off (off + 16) pl = Some out \/ (exists sz, extending_splice buf off (off + sz) pl = Some out) ->
  take (off + len pl) out = body.
Proof. exact final_block_body. Qed.
Print Assumptions C09_final_block_body.

(* what the handler answers: 2.31 Continue with the negotiated Block1 for a non-final block, without reaching
   the application; the final block is passed on (Ok false) with the reassembled body, its response carrying Block1 *)
Theorem C09_block_answer : forall req M st sz b1 r1 buf' rp, message_size_hack (message req) = Ok sz ->
  first_block OPT_BLOCK1 (message req) = Some b1 ->
  negotiate (Some b1) sz (len (payload (message req))) M = Ok (Some r1) ->
  extending_splice (match cached_payload st with Some b => b | None => [] end) (b_num b1 * block_size b1)
                   (b_num b1 * block_size b1 + block_size b1) (payload (message req)) = Some buf' ->
  response req = Some rp ->
  handle_block1 req M st =
    if b_more b1
    then (Ok true, with_response req (Some (set_code (add_block_opt OPT_BLOCK1 r1 rp) (Response Continue))), st_buf st (Some buf'))
    else (Ok false,
          with_response (with_message req (set_payload (message req) (take (b_num b1 * block_size b1 + len (payload (message req))) buf')))
                        (Some (add_block_opt OPT_BLOCK1 r1 rp)),
          st_buf st None).
Proof. exact upload_block_answer. Qed.
Print Assumptions C09_block_answer.

Theorem C09_too_large : forall req M st sz r1 rp, message_size_hack (message req) = Ok sz ->
  first_block OPT_BLOCK1 (message req) = None ->
  negotiate None sz (len (payload (message req))) M = Ok (Some r1) -> response req = Some rp ->
  handle_block1 req M st =
    (Ok true, with_response req (Some (set_code (add_block_opt OPT_BLOCK1 r1 rp) (Response RequestEntityTooLarge))), st)
  /\ b_num r1 = 0 /\ b_more r1 = true.
Proof. exact too_large_answer. Qed.
Print Assumptions C09_too_large.

(* a whole in-order upload at any block size, on top of ANY stale buffer an abandoned upload left behind: the
   buffer handling of maybe_handle_request_block1 (splice every block at its offset; the final block ends the body)
   hands over exactly the body; no block is ever rejected for its jump (each extends the buffer by at most one block) *)
Theorem C09_upload_delivers_body : forall stale sz body, 0 < sz -> sz <= MAX_RESERVE ->
  upload (S (length body)) stale sz 0 body = Some body.
Proof. exact upload_from_scratch. Qed.
Print Assumptions C09_upload_delivers_body.

(* the same on handle_block1 itself (maybe_handle_request_block1 with its size negotiation, option handling and
   response building): a run of requests carrying the blocks of a body in order from block 0, whatever the state
   held before, either reports an error at some block (the documented ones, C09_errors) or answers every block
   but the last with Ok true (2.31 Continue) and lets the last through (Ok false) with the request payload
   replaced by exactly the body, the buffer released *)
Theorem C09_upload_run : forall M szx body reqs st outs st',
  let sz := 2 ^ (szx + 4) in
  is_upload sz szx 0 body reqs -> reqs <> [] -> len body <= len reqs * sz ->
  (length reqs = 1%nat \/ (len reqs - 1) * sz < len body) ->
  run_block1 M st reqs = (outs, st') -> Forall (fun x => exists b, fst x = Ok b) outs ->
  exists front lastreq, outs = front ++ [(Ok false, lastreq)] /\ Forall (fun x => fst x = Ok true) front /\
    payload (message lastreq) = body /\ cached_payload st' = None.
Proof. exact upload_run_from_scratch. Qed.
Print Assumptions C09_upload_run.

(* ... and with every non-final block delivered any number of times in a row (the property's duplicate deliveries) *)
Theorem C09_upload_with_repeats : forall M szx body reqs st outs st', let sz := 2 ^ (szx + 4) in
  deliveries sz szx body 0 reqs -> run_block1 M st reqs = (outs, st') -> Forall (fun x => exists b, fst x = Ok b) outs ->
  exists front lastreq, outs = front ++ [(Ok false, lastreq)] /\ Forall (fun x => fst x = Ok true) front /\
    payload (message lastreq) = body /\ cached_payload st' = None.
Proof. exact upload_with_repeats_from_scratch. Qed.
Print Assumptions C09_upload_with_repeats.

(* inside the property's domain -- the budget admits the client's block size -- the acknowledgement's Block1 option
   echoes the client's own number and size (outside it the handler proposes a smaller size and computes the number
   from the unrounded size; the property does not speak of that case) *)
Theorem C09_ack_echoes : forall cb overhead tp M r, b_szx cb <= 6 -> b_num cb < 65536 ->
  overhead + block_size cb + BLOCK_OPTIONS_MAX_LENGTH <= M ->
  negotiate (Some cb) (overhead + tp) tp M = Ok (Some r) ->
  b_num r = b_num cb /\ b_szx r = b_szx cb /\ b_more r = (b_num cb * block_size cb + block_size cb <? tp).
Proof. exact ack_echoes. Qed.
Print Assumptions C09_ack_echoes.

(* known finding KF_dup_final (D11): after the final block has been handed over the buffer is gone, so a second
   delivery of the final block makes up a zero-filled body and reaches the application again *)
Theorem C09_KF_dup_final_refuted :
  exists buf pl off, extending_splice [] off (off + 16) pl = Some buf /\ off = 16 /\ take 16 buf = repeat 0 16.
Proof. exists (repeat 0 16 ++ [1; 2; 3]), [1; 2; 3], 16. vm_compute. repeat split; reflexivity. Qed.
Print Assumptions C09_KF_dup_final_refuted.

(* non-vacuity of C09_upload_with_repeats: 40 bytes in 16-byte blocks, block 0 delivered twice, onto a stale buffer *)
Definition ex_block1_req (k : N) (more : bool) (chunk : bytes) : request :=
  mkRequest (add_option (set_payload packet_new chunk) OPT_BLOCK1
               (match block_encode (mkBlock k more 0) with Ok v => v | _ => [] end))
            (Some packet_new) (Some 1).
Example C09_repeats_example :
  let body := map N.of_nat (seq 1 40) in
  let reqs := [ex_block1_req 0 true (take 16 body); ex_block1_req 0 true (take 16 body);
               ex_block1_req 1 true (take 16 (drop 16 body)); ex_block1_req 2 false (drop 32 body)] in
  let stale := mkBState None None (Some (repeat 9 100)) in
  deliveries 16 0 body 0 reqs /\
  (let '(outs, st') := run_block1 1152 stale reqs in
   map fst outs = [Ok true; Ok true; Ok true; Ok false] /\
   map (fun x => payload (message (snd x))) (skipn 3 outs) = [body] /\ cached_payload st' = None).
Proof.
  cbv zeta. split.
  - apply del_again; [split; vm_compute; reflexivity|vm_compute; reflexivity|].
    apply del_next; [split; vm_compute; reflexivity|vm_compute; reflexivity|].
    apply del_next; [split; vm_compute; reflexivity|vm_compute; reflexivity|].
    apply del_final; [split; vm_compute; reflexivity|vm_compute; discriminate].
  - vm_compute. repeat split; reflexivity.
Qed.

(* C11 -- Block handler survives hostile traffic: no panic, bounded buffers, clean errors. *)
From CoapV Require Import Base Header Packet UintOpt BlockValue Encode Response Accessors BlockHandler
  proofs.P01 proofs.P11 proofs.P11b.

(* for every request whose option maps are in ascending order (every BTreeMap state), every budget (0 upward), every
   cached state and every application reply: the entry points return Ok or Err, never Panic *)
Theorem C11_request_no_panic : forall req M st s, req_wf req -> fst (fst (intercept_request_st req M st)) <> Panic s.
Proof. exact intercept_request_no_panic. Qed.
Print Assumptions C11_request_no_panic.
Theorem C11_response_no_panic : forall req M st s, req_wf req -> st_wf st -> fst (fst (intercept_response_st req M st)) <> Panic s.
Proof. exact intercept_response_no_panic. Qed.
Print Assumptions C11_response_no_panic.

(* errors can be rendered: they carry a 4.xx/5.xx code, or they are "not handled" and there is no response to render into *)
Theorem C11_block1_errors : forall req M st e, fst (fst (handle_block1 req M st)) = Err e ->
  e = E_INTERNAL \/ (e = E_NOT_HANDLED /\ response req = None).
Proof. exact handle_block1_errors. Qed.
Print Assumptions C11_block1_errors.
Theorem C11_serve_errors : forall req b2 cached e, b_num b2 < 65536 -> fst (serve_cached req b2 cached) = Err e ->
  e = E_BAD_REQUEST \/ (e = E_NOT_HANDLED /\ response req = None).
Proof. exact serve_cached_errors. Qed.
Print Assumptions C11_serve_errors.

(* no single request makes the buffered upload grow by more than 16 KiB beyond its own payload (nor the body handed on) *)
Theorem C11_growth : forall req M st,
  let before := match cached_payload st with Some b => b | None => [] end in
  let bound := len before + MAX_RESERVE + len (payload (message req)) in
  (forall b', cached_payload (snd (handle_block1 req M st)) = Some b' -> len b' <= bound) /\
  len (payload (message (snd (fst (handle_block1 req M st))))) <= bound.
Proof. exact handle_block1_buffer. Qed.
Print Assumptions C11_growth.

(* a block whose offset would need a larger jump is rejected with an error and leaves the buffered data unchanged *)
Theorem C11_rejects_jump : forall req M st sz r1 b1,
  message_size_hack (message req) = Ok sz ->
  negotiate (first_block OPT_BLOCK1 (message req)) sz (len (payload (message req))) M = Ok (Some r1) ->
  first_block OPT_BLOCK1 (message req) = Some b1 ->
  let before := match cached_payload st with Some b => b | None => [] end in
  MAX_RESERVE < b_num b1 * block_size b1 + block_size b1 - len before ->
  handle_block1 req M st = (Err E_INTERNAL, req, st_buf st (Some before)).
Proof. exact handle_block1_rejects_jump. Qed.
Print Assumptions C11_rejects_jump.

(* the offsets computed from any decoded block option stay at or below 2^27: the unbounded arithmetic of the model is
   faithful on every target whose usize has at least 32 bits (no wrap-around can occur in num * size + size) *)
Theorem C11_offsets_bounded : forall n p b, first_block n p = Some b ->
  block_size b <= 2048 /\ b_num b * block_size b + block_size b <= 134217728.
Proof. exact decoded_offsets_bounded. Qed.
Print Assumptions C11_offsets_bounded.

Example C11_example :
  extending_splice [1; 2] 16400 16416 [9] = None /\ negotiate (Some (mkBlock 0 true 2)) (30 + 30) 30 42 = Err E_INTERNAL.
Proof. vm_compute. split; reflexivity. Qed.

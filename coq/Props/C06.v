(* C06 -- Typed option values use the minimal big-endian uint form and round-trip. *)
From CoapV Require Import Base Header Packet UintOpt Utf8 Numbers TypedOpt Suite06 proofs.P06 proofs.P06b proofs.P19c.

(* the drain loop (with its assert) produces the minimal big-endian form for every value of the width *)
Theorem C06_encode_minimal : forall v w, v < 256 ^ w -> option_from_uint v w = Ok (be_min v).
Proof. exact option_from_uint_spec. Qed.
Print Assumptions C06_encode_minimal.

(* be_min is the shortest big-endian representation: it denotes v and has no leading zero (zero is empty) *)
Theorem C06_min_value : forall v, be_value (be_min v) = v.
Proof. exact be_value_min. Qed.
Print Assumptions C06_min_value.
Theorem C06_min_no_leading_zero : forall v, match be_min v with [] => v = 0 | b :: _ => b <> 0 end.
Proof. exact be_min_no_leading_zero. Qed.
Print Assumptions C06_min_no_leading_zero.
Theorem C06_min_length : forall w v, v < 256 ^ w -> len (be_min v) <= w.
Proof. exact be_min_len_bound. Qed.
Print Assumptions C06_min_length.

(* decoding accepts any string up to the width (leading zeros included) as its big-endian value, rejects longer ones;
   the u64 shift-and-add never loses bits and the final cast is exact *)
Theorem C06_decode : forall bs w, bytes_wf bs -> w <= 8 ->
  uint_try_from bs w = if len bs <=? w then Ok (be_value bs) else Err ERR_INCOMPATIBLE.
Proof. exact uint_try_from_spec. Qed.
Print Assumptions C06_decode.

Theorem C06_roundtrip : forall v w, w <= 8 -> v < 256 ^ w ->
  exists bs, option_from_uint v w = Ok bs /\ uint_try_from bs w = Ok v.
Proof. exact uint_roundtrip. Qed.
Print Assumptions C06_roundtrip.

Theorem C06_string : forall bs, string_try_from bs = if utf8_valid bs then Ok bs else Err ERR_INCOMPATIBLE.
Proof. exact string_spec. Qed.
Print Assumptions C06_string.

(* typed accessors: add_option_as appends exactly the minimal encoding, leaves everything else alone,
   and the typed getter reads the value back *)
Theorem C06_add_option_as : forall p k w v, 0 < w -> w <= 8 -> v < 256 ^ w ->
  exists p', add_option_as p k w v [] = Ok p' /\
    get_option p' k = Some ((match get_option p k with Some l => l | None => [] end) ++ [be_min v]) /\
    (forall k', k' <> k -> get_option p' k' = get_option p k') /\
    hdr p' = hdr p /\ token p' = token p /\ payload p' = payload p /\
    dec_value w (be_min v) = Ok (v, []).
Proof. exact add_option_as_uint_spec. Qed.
Print Assumptions C06_add_option_as.

Theorem C06_observe_value : forall p v, v < U32 ->
  exists p', set_observe_value p v = Ok p' /\ get_option p' OPT_OBSERVE = Some [be_min v] /\
             get_observe_value p' = Some (Ok v) /\
             (forall k', k' <> OPT_OBSERVE -> get_option p' k' = get_option p k').
Proof. exact set_observe_value_spec. Qed.
Print Assumptions C06_observe_value.

(* the model passes the suite-60 oracle (spec60: written from be_min / be_value / the UTF-8 table and the raw option
   map only) on EVERY input: encode, decode, strings, add_option_as / set_options_as for lists of typed values on any
   raw packet state, set_observe_value, set_content_format and the typed getters *)
Theorem C06_model_passes_oracle : forall s, verdict60 s (run60 s) = true.
Proof. exact model_passes_oracle60. Qed.
Print Assumptions C06_model_passes_oracle.

Example C06_example :
  option_from_uint 65536 4 = Ok [1; 0; 0] /\ uint_try_from [0; 0; 1; 0] 4 = Ok 256 /\
  uint_try_from [1; 2; 3] 2 = Err ERR_INCOMPATIBLE /\ be_min 0 = [] /\ utf8_valid [237; 160; 128] = false.
Proof. vm_compute. repeat split; reflexivity. Qed.

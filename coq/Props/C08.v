(* C08 -- Block2: a client fetching blocks in order reassembles exactly the body. *)
From CoapV Require Import Base Header Packet UintOpt BlockValue Encode Response Accessors BlockHandler proofs.P11 proofs.P08b.

(* what one served block is, for every body (the empty one included), block number and size:
   payload = bytes [num*size, num*size+size) of the body, Block2 = (num, more iff bytes remain after it, szx),
   built on a copy of the cached response's version/type/code/options *)
Theorem C08_block_served : forall req b2 cached rp, response req = Some rp -> b_num b2 < 65536 ->
  let body := payload cached in
  let sz := block_size b2 in
  let off := b_num b2 * sz in
  (off < len body \/ (body = [] /\ b_num b2 = 0)) ->
  exists v, block_encode (mkBlock (b_num b2) (off + sz <? len body) (b_szx b2)) = Ok v /\
    serve_cached req b2 cached =
      (Ok (off + sz <? len body),
       with_response req (Some (set_option (set_payload (clone_limited rp cached) (take sz (drop off body))) OPT_BLOCK2 [v]))).
Proof. exact serve_cached_spec. Qed.
Print Assumptions C08_block_served.

(* the blocks, taken in order at any block size, concatenate to exactly the body (any length) *)
Theorem C08_chunks_reassemble : forall sz body, 0 < sz -> concat (chunks_from (S (length body)) sz 0 body) = body.
Proof. exact chunks_reassemble_all. Qed.
Print Assumptions C08_chunks_reassemble.
Theorem C08_chunks_reassemble_from : forall g sz off body, 0 < sz -> (length body - N.to_nat off < g)%nat ->
  concat (chunks_from g sz off body) = drop off body.
Proof. exact chunks_reassemble. Qed.
Print Assumptions C08_chunks_reassemble_from.

(* follow-up blocks come from the cache, the application is not consulted (Ok true), and the entry is released
   exactly when the block served is the last one *)
Theorem C08_followup_from_cache : forall req st b2 c rp, first_block OPT_BLOCK2 (message req) = Some b2 -> cached_resp st = Some c ->
  response req = Some rp -> (b_num b2 * block_size b2 < len (payload c) \/ (payload c = [] /\ b_num b2 = 0)) ->
  exists req', handle_block2 req st = (Ok true, req', mkBState (Some b2) (if b_num b2 * block_size b2 + block_size b2 <? len (payload c) then Some c else None) (cached_payload st)).
Proof. exact followup_from_cache. Qed.
Print Assumptions C08_followup_from_cache.

(* a whole run of follow-ups: requests for blocks k, k+1, ..., the last of which covers the end of the body, are all
   answered from the cache, their payloads are exactly the chunks of the body from offset k*size on (so, with block 0
   and C08_chunks_reassemble, the client reassembles the body), and afterwards the cache entry is released *)
Theorem C08_followups_served : forall szx c reqs k st, cached_resp st = Some c -> k < 65536 ->
  let sz := 2 ^ (szx + 4) in
  nums_from k szx reqs -> reqs <> [] ->
  (k + len reqs - 1) * sz < len (payload c) -> len (payload c) <= (k + len reqs) * sz ->
  let '(outs, st') := serve_all st reqs in
  Forall (fun x => fst x = Ok true) outs /\
  map payload_of outs = chunks_from (length reqs) sz (k * sz) (payload c) /\
  cached_resp st' = None.
Proof. exact followups_served. Qed.
Print Assumptions C08_followups_served.

Example C08_example :
  let body := repeat 7 40 in
  chunks_from 41 16 0 body = [repeat 7 16; repeat 7 16; repeat 7 8].
Proof. vm_compute. reflexivity. Qed.

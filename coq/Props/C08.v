(* C08 -- Block2: a client fetching blocks in order reassembles exactly the body. *)
From CoapV Require Import Base Header Packet UintOpt BlockValue Encode Response Accessors BlockHandler proofs.P11 proofs.P08b proofs.P08c.

(* what one served block is, for every body (the empty one included), block number and size:
   payload = bytes [num*size, num*size+size) of the body, Block2 = (num, more iff bytes remain after it, szx),
   built on a copy of the cached response's version/type/code/options *)
Theorem C08_block_served : forall req b2 cached rp, response req = Some rp -> b_num b2 < 65536 ->
  let body := payload cached in
  let sz := block_size b2 in
  let off := b_num b2 * sz in
  (off < len body \/ (body = [] /\ b_num b2 = 0)) ->
  exists v, block_encode (mkBlock (b_num b2) (off + sz <? len body) (b_szx b2)) = Ok v /\
    serve_cached req b2 cached =
      (Ok (off + sz <? len body),
       with_response req (Some (set_option (set_payload (clone_limited rp cached) (take sz (drop off body))) OPT_BLOCK2 [v]))).
Proof. exact serve_cached_spec. Qed.
Print Assumptions C08_block_served.

(* the blocks, taken in order at any block size, concatenate to exactly the body (any length) *)
Theorem C08_chunks_reassemble : forall sz body, 0 < sz -> concat (chunks_from (S (length body)) sz 0 body) = body.
Proof. exact chunks_reassemble_all. Qed.
Print Assumptions C08_chunks_reassemble.
Theorem C08_chunks_reassemble_from : forall g sz off body, 0 < sz -> (length body - N.to_nat off < g)%nat ->
  concat (chunks_from g sz off body) = drop off body.
Proof. exact chunks_reassemble. Qed.
Print Assumptions C08_chunks_reassemble_from.

(* follow-up blocks come from the cache, the application is not consulted (Ok true), and the entry is released
   exactly when the block served is the last one *)
Theorem C08_followup_from_cache : forall req st b2 c rp, first_block OPT_BLOCK2 (message req) = Some b2 -> cached_resp st = Some c ->
  response req = Some rp -> (b_num b2 * block_size b2 < len (payload c) \/ (payload c = [] /\ b_num b2 = 0)) ->
  exists req', handle_block2 req st = (Ok true, req', mkBState (Some b2) (if b_num b2 * block_size b2 + block_size b2 <? len (payload c) then Some c else None) (cached_payload st)).
Proof. exact followup_from_cache. Qed.
Print Assumptions C08_followup_from_cache.

(* a whole run of follow-ups: requests for blocks k, k+1, ..., the last of which covers the end of the body, are all
   answered from the cache, their payloads are exactly the chunks of the body from offset k*size on (so, with block 0
   and C08_chunks_reassemble, the client reassembles the body), and afterwards the cache entry is released *)
Theorem C08_followups_served : forall szx c reqs k st, cached_resp st = Some c -> k < 65536 ->
  let sz := 2 ^ (szx + 4) in
  nums_from k szx reqs -> reqs <> [] ->
  (k + len reqs - 1) * sz < len (payload c) -> len (payload c) <= (k + len reqs) * sz ->
  let '(outs, st') := serve_all st reqs in
  Forall (fun x => fst x = Ok true) outs /\
  map payload_of outs = chunks_from (length reqs) sz (k * sz) (payload c) /\
  cached_resp st' = None.
Proof. exact followups_served. Qed.
Print Assumptions C08_followups_served.

(* the same when the client changes the block size mid-transfer: any run of follow-ups whose numbers agree with the
   running byte offset at whatever size each names is served from the cache, the payloads concatenate to the rest of
   the body, the entry is released with the last *)
Theorem C08_renegotiated_followups_served : forall c reqs off st, cached_resp st = Some c ->
  continues (len (payload c)) off reqs ->
  let '(outs, st') := serve_all st reqs in
  Forall (fun x => fst x = Ok true) outs /\
  concat (map payload_of outs) = drop off (payload c) /\
  cached_resp st' = None.
Proof. exact renegotiated_followups_served. Qed.
Print Assumptions C08_renegotiated_followups_served.

(* the first exchange of a fragmented response: block 0 = the first block-size bytes, more flag set iff bytes remain,
   the application's response cached *)
Theorem C08_first_fragment : forall req M st rp ms b2, response req = Some rp -> get_option rp OPT_BLOCK2 = None ->
  message_size_hack rp = Ok ms -> negotiate (last_b2 st) ms (len (payload rp)) M = Ok (Some b2) -> b_num b2 = 0 ->
  let hm := block_size b2 <? len (payload rp) in
  exists req', intercept_response_st req M st = (Ok hm, req', if hm then st_resp st (Some rp) else st) /\
    payload_of (Ok hm, req') = take (block_size b2) (payload rp) /\
    more_of (Ok hm, req') = Some hm.
Proof. exact first_fragment. Qed.
Print Assumptions C08_first_fragment.

(* a whole transfer, end to end on the handler's state functions: intercept_response fragments the application's
   response, the follow-ups (at any sizes, consistent offsets) are served by intercept_request's Block2 step from
   the cache; the client's concatenation is byte for byte the body; the entry is released at the end *)
Theorem C08_whole_transfer : forall req M st rp ms b2 reqs, response req = Some rp -> get_option rp OPT_BLOCK2 = None ->
  message_size_hack rp = Ok ms -> negotiate (last_b2 st) ms (len (payload rp)) M = Ok (Some b2) -> b_num b2 = 0 ->
  block_size b2 < len (payload rp) ->
  continues (len (payload rp)) (block_size b2) reqs ->
  exists req' st1, intercept_response_st req M st = (Ok true, req', st1) /\
    let '(outs, st') := serve_all st1 reqs in
    Forall (fun x => fst x = Ok true) outs /\
    payload_of (Ok true, req') ++ concat (map payload_of outs) = payload rp /\
    cached_resp st' = None.
Proof. exact whole_transfer. Qed.
Print Assumptions C08_whole_transfer.

Example C08_example :
  let body := repeat 7 40 in
  chunks_from 41 16 0 body = [repeat 7 16; repeat 7 16; repeat 7 8].
Proof. vm_compute. reflexivity. Qed.

(* a served block never carries more payload than the size the request names (first fragments and follow-ups alike) *)
Theorem C08_served_within_size : forall req b2 cached hm req', serve_cached req b2 cached = (Ok hm, req') ->
  exists r', response req' = Some r' /\ len (payload r') <= block_size b2.
Proof. exact served_within_size. Qed.
Print Assumptions C08_served_within_size.

(* non-vacuity of C08_whole_transfer: a 100-byte body at budget 100 (the server picks 64-byte blocks); the client then
   continues at 32-byte blocks (block 2 at 32 = offset 64) and finishes with a 16-byte block request (block 6 = offset 96) *)
Definition ex_block2_req (k szx : N) : request :=
  mkRequest (add_option packet_new OPT_BLOCK2 (match block_encode (mkBlock k false szx) with Ok v => v | _ => [] end))
            (Some packet_new) (Some 1).
Example C08_whole_transfer_example :
  let body := map N.of_nat (seq 1 100) in
  let rp := set_payload packet_new body in
  let req := mkRequest packet_new (Some rp) (Some 1) in
  let reqs := [ex_block2_req 2 1; ex_block2_req 6 0] in
  exists ms b2, message_size_hack rp = Ok ms /\ negotiate None ms 100 100 = Ok (Some b2) /\ b_num b2 = 0 /\ block_size b2 = 64 /\
    continues 100 64 reqs /\
    (let '(_, _, st1) := intercept_response_st req 100 bstate_default in
     let '(outs, st') := serve_all st1 reqs in
     map payload_of outs = [take 32 (drop 64 body); drop 96 body] /\ cached_resp st' = None).
Proof.
  cbv zeta. eexists _, _. split; [vm_compute; reflexivity|]. split; [vm_compute; reflexivity|].
  split; [reflexivity|]. split; [reflexivity|]. split.
  - cbn [continues]. exists 2, false, 1. repeat split; try (vm_compute; congruence).
    exists 6, false, 0. repeat split; try (vm_compute; congruence).
  - vm_compute. split; reflexivity.
Qed.

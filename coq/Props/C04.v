(* C04 -- Serialiser enforces the size limit exactly and stays inside its buffers. *)
From CoapV Require Import Base Header Packet WireSpec Encode Decode PacketOps Suite01
  proofs.PWire proofs.PEnc proofs.PDec proofs.P01 UnsafeModel gen.UnsafeSites proofs.PUnsafe proofs.P01c.

Theorem C04_limit_exact : forall p lim, pkt_wf p ->
  to_bytes_internal p lim =
    if match lim with Some l => wire_len (abs p) <=? l | None => true end
    then Ok (wire_image (abs p)) else Err ERR_PACKET_LENGTH.
Proof. exact to_bytes_internal_spec. Qed.
Print Assumptions C04_limit_exact.

(* 4 + token + encoded options + (marker + payload when a payload is sent) *)
Theorem C04_length : forall m, len (wire_image m) = wire_len m.
Proof. exact wire_image_len. Qed.
Print Assumptions C04_length.

Theorem C04_oversize_value_refused : forall p lim, nums_asc 0 (flatten (opts p)) ->
  value_too_long p = true -> exists e, to_bytes_internal p lim = Err e.
Proof. exact oversize_refused. Qed.
Print Assumptions C04_oversize_value_refused.

Theorem C04_no_panic : forall p lim s, nums_asc 0 (flatten (opts p)) -> to_bytes_internal p lim <> Panic s.
Proof. exact to_bytes_no_panic. Qed.
Print Assumptions C04_no_panic.

(* memory clause, on the unsafe blocks as they stand in the source NOW (gen/UnsafeSites.v is regenerated from
   /repo/src/packet.rs on every run): for ALL lengths of token, options, values and payload, every raw-pointer
   copy stays inside the capacity guaranteed by the preceding reserve and inside its source, the copies
   initialise exactly the bytes between the old length and the new one, and set_len does not exceed the capacity *)
Theorem C04_unsafe_sites_in_bounds : forall env, sites_safe env UnsafeSites.blocks.
Proof. apply sites_ok_sound. vm_compute. reflexivity. Qed.
Print Assumptions C04_unsafe_sites_in_bounds.

(* the model passes the suite-40 oracle on every packet state with an ordered option map (values of ANY length: the
   over-long ones must be refused), every entry point and limit *)
Theorem C04_model_passes_oracle : forall s mx lim p, rd_case40 s = Some (mx, lim, p) -> state_ok p -> verdict40 s (run40 s) = true.
Proof. exact model_passes_oracle40. Qed.
Print Assumptions C04_model_passes_oracle.

Example C04_example :
  let p := mkPacket (mkHeader 64 (Request Get) 7) [] [(11, [repeat 1 20])] (repeat 2 1253) in
  wire_len (abs p) = 1280 /\
  (exists bs, to_bytes 1280 p = Ok bs /\ len bs = 1280) /\ to_bytes_with_limit p 1279 = Err ERR_PACKET_LENGTH.
Proof. vm_compute. repeat split; try reflexivity. eexists. split; reflexivity. Qed.

(* C14 -- Observe registry: one observer per endpoint per resource, removed only on match. *)
From CoapV Require Import Base Header Packet Observe Suite14 proofs.P14 proofs.P14b.

(* every reachable state: at most one observer per endpoint on every resource *)
Theorem C14_invariant : forall ops s, run_ops subject_default ops = Ok s ->
  forall p r, In (p, r) (res s) -> NoDup (map oe (robs r)).
Proof. intros ops s H. exact (invariant_reachable ops subject_default s inv_default H). Qed.
Print Assumptions C14_invariant.

(* registration: the addressed resource gets reg_obs, every other resource is untouched *)
Theorem C14_register : forall s e p tok,
  exists s', step s (Register e p tok) = Ok s' /\
    lookup_res p (res s') = Some (match lookup_res p (res s) with
                                  | Some r => mkRes (rseq r) (reg_obs (mkObs e tok 0 None) (robs r))
                                  | None => mkRes 0 [mkObs e tok 0 None] end) /\
    (forall q, q <> p -> lookup_res q (res s') = lookup_res q (res s)) /\ limit s' = limit s.
Proof. exact register_spec. Qed.
Print Assumptions C14_register.

(* ... where reg_obs replaces in place (same position, new token, counters cleared) ... *)
Theorem C14_register_known_endpoint : forall o l, In (oe o) (map oe l) -> NoDup (map oe l) ->
  reg_obs o l = map (fun x => if oe x =? oe o then o else x) l.
Proof. exact reg_obs_known. Qed.
Print Assumptions C14_register_known_endpoint.

(* ... and appends a new endpoint after the existing ones *)
Theorem C14_register_new_endpoint : forall o l, ~ In (oe o) (map oe l) -> reg_obs o l = l ++ [o].
Proof. exact reg_obs_new. Qed.
Print Assumptions C14_register_new_endpoint.

Theorem C14_deregister : forall s e p tok,
  exists s', step s (Deregister e p tok) = Ok s' /\
    lookup_res p (res s') = option_map (fun r => mkRes (rseq r) (dereg_obs e tok (robs r))) (lookup_res p (res s)) /\
    (forall q, q <> p -> lookup_res q (res s') = lookup_res q (res s)) /\ limit s' = limit s.
Proof. exact deregister_spec. Qed.
Print Assumptions C14_deregister.

(* exactly the observer whose endpoint and token both match, and nothing else *)
Theorem C14_deregister_exact : forall e tok l, NoDup (map oe l) ->
  dereg_obs e tok l = filter (fun x => negb ((oe x =? e) && bytes_eqb (otok x) tok)) l.
Proof. exact dereg_obs_filter. Qed.
Print Assumptions C14_deregister_exact.

(* a notification round for an unobserved path creates nothing *)
Theorem C14_changed_unobserved : forall s p mid conf, lookup_res p (res s) = None -> step s (Changed p mid conf) = Ok s.
Proof. exact changed_unobserved. Qed.
Print Assumptions C14_changed_unobserved.

(* the model refines the relational reference of the run-time oracle (Suite14.rstep: one row per (path, endpoint) with
   token, count, pending id and arrival stamp; a per-path sequence table): on every history inside the domain the
   states the model prints after each operation are exactly the reference's.  The refinement relation R (P14b.v)
   keeps: same limit, same sequence table, distinct paths, rows in strictly increasing stamp order, and for every
   resource its observer list = the rows on that path in stamp order *)
Theorem C14_model_refines_reference : forall ops e, forallb op_ok ops = true ->
  rrun rinit ops = (e, false) -> run_hist subject_default ops = e.
Proof. intros ops e. exact (model_refines_reference ops subject_default rinit e R_init). Qed.
Print Assumptions C14_model_refines_reference.

(* hence the model passes the suite-140 oracle on EVERY input outside the known-finding class (sequence exhausted):
   whatever the implementation is compared with has itself been proved to satisfy the oracle *)
Theorem C14_model_passes_oracle : forall s, known140 s = 0 -> verdict140 s (run140 s) = true.
Proof. exact model_passes_oracle140. Qed.
Print Assumptions C14_model_passes_oracle.

Example C14_example :
  match run_ops subject_default [Register 1 [97] [1]; Register 2 [97] [2]; Register 1 [97] [3]; Deregister 2 [97] [9]] with
  | Ok s => lookup_res [97] (res s) = Some (mkRes 0 [mkObs 1 [3] 0 None; mkObs 2 [2] 0 None])
  | _ => False end.
Proof. vm_compute. reflexivity. Qed.

(* C19 -- Convenience accessors and coap-message views agree with raw message state. *)
From CoapV Require Import Base Header Packet UintOpt Utf8 Numbers TypedOpt Accessors Suite06 Suite19
  PacketOps proofs.PEnc proofs.P19 proofs.P19b proofs.P19c.

Theorem C19_method : forall p m, get_method (set_method p m) = m /\
  token (set_method p m) = token p /\ opts (set_method p m) = opts p /\ payload (set_method p m) = payload p /\
  vtt (hdr (set_method p m)) = vtt (hdr p) /\ mid (hdr (set_method p m)) = mid (hdr p).
Proof. exact method_roundtrip. Qed.
Print Assumptions C19_method.

Theorem C19_method_of_code : forall p b, b < 256 -> code (hdr p) = class_of_byte b ->
  get_method p = match b with 1 => Get | 2 => Post | 3 => Put | 4 => Delete | 5 => Fetch | 6 => Patch | 7 => IPatch | _ => ReqUnKnown end.
Proof. exact method_of_byte. Qed.
Print Assumptions C19_method_of_code.

Theorem C19_status : forall p s, get_status (set_status p s) = s /\
  token (set_status p s) = token p /\ opts (set_status p s) = opts p /\ payload (set_status p s) = payload p /\
  vtt (hdr (set_status p s)) = vtt (hdr p) /\ mid (hdr (set_status p s)) = mid (hdr p).
Proof. exact status_roundtrip. Qed.
Print Assumptions C19_status.

Theorem C19_status_of_code : forall p b, b < 256 -> code (hdr p) = class_of_byte b ->
  get_status p = match class_of_byte b with Response s => s | _ => RespUnKnown end.
Proof. exact status_of_byte. Qed.
Print Assumptions C19_status_of_code.

(* every path string whose segments are valid UTF-8 (equivalently: every valid string; that
   equivalence is tested, not proved) *)
Theorem C19_path : forall p s, forallb utf8_valid (path_segments s) = true ->
  let p' := set_path p s in
  (match path_segments s with [] => True | _ => get_option p' OPT_URI_PATH = Some (path_segments s) end) /\
  get_path p' = strip_slash s /\ get_path_as_vec p' = Ok (path_segments s) /\
  (forall k', k' <> OPT_URI_PATH -> get_option p' k' = get_option p k') /\
  hdr p' = hdr p /\ token p' = token p /\ payload p' = payload p.
Proof. exact path_roundtrip. Qed.
Print Assumptions C19_path.

(* every valid path string has valid segments (byte 47 never occurs inside a multi-byte sequence), so the round
   trip above holds for EVERY valid string *)
Theorem C19_valid_string_segments : forall s, utf8_valid s = true -> forallb utf8_valid (path_segments s) = true.
Proof. exact segments_valid. Qed.
Print Assumptions C19_valid_string_segments.
Theorem C19_path_valid_string : forall p s, utf8_valid s = true ->
  let p' := set_path p s in
  get_path p' = strip_slash s /\ get_path_as_vec p' = Ok (path_segments s) /\
  (forall k', k' <> OPT_URI_PATH -> get_option p' k' = get_option p k') /\
  hdr p' = hdr p /\ token p' = token p /\ payload p' = payload p.
Proof. intros p s H. destruct (C19_path p s (segments_valid s H)) as (_ & R). exact R. Qed.
Print Assumptions C19_path_valid_string.

Theorem C19_path_join : forall s, join_slash (path_segments s) = strip_slash s.
Proof. exact path_join. Qed.
Print Assumptions C19_path_join.

Theorem C19_observe_flag : forall p f,
  exists p', set_observe_flag p f = Ok p' /\ get_observe_flag p' = Some (Ok f) /\
             get_option p' OPT_OBSERVE = Some [be_min (of_observe f)] /\
             (forall k', k' <> OPT_OBSERVE -> get_option p' k' = get_option p k').
Proof. exact observe_flag_roundtrip. Qed.
Print Assumptions C19_observe_flag.

Theorem C19_observe_flag_raw : forall p,
  get_observe_flag p =
    match raw_of p 6 with
    | [] => None
    | b :: _ => Some (if len b <=? 4 then match observe_of (be_fold b mod 256 ^ 4) with Some o => Ok o | None => Err 12 end else Err 12)
    end.
Proof. exact observe_flag_raw. Qed.
Print Assumptions C19_observe_flag_raw.

(* whatever was there before *)
Theorem C19_content_format : forall p c,
  exists p', set_content_format p c = Ok p' /\ get_content_format p' = Some c /\
             get_option p' OPT_CONTENT_FORMAT = Some [be_min (of_content_format c)] /\
             (forall k', k' <> OPT_CONTENT_FORMAT -> get_option p' k' = get_option p k').
Proof. exact content_format_roundtrip. Qed.
Print Assumptions C19_content_format.

Theorem C19_copy : forall src, pkt_wf src ->
  let d := set_from_message packet_new src in
  class_to_byte (code (hdr d)) = class_to_byte (code (hdr src)) /\
  flatten (opts d) = flatten (opts src) /\ payload d = payload src /\
  token d = token packet_new /\ vtt (hdr d) = vtt (hdr packet_new) /\ mid (hdr d) = mid (hdr packet_new).
Proof. exact copy_into_fresh. Qed.
Print Assumptions C19_copy.

(* method / status accessors, path getters and the coap-message view pass the suite-190 oracle (spec190, stated on the
   raw state) on EVERY input of kinds 0-3, 5 and 11 *)
Theorem C19_model_passes_oracle_part : forall s,
  (exists r, s = 0 :: r \/ s = 1 :: r \/ s = 2 :: r \/ s = 3 :: r \/ s = 5 :: r \/ s = 11 :: r) -> verdict190 s (run190 s) = true.
Proof. exact model_passes_oracle190_part. Qed.
Print Assumptions C19_model_passes_oracle_part.
Theorem C19_model_passes_oracle_flag : forall r, verdict190 (7 :: r) (run190 (7 :: r)) = true.
Proof. exact model_passes_oracle190_flag. Qed.
Print Assumptions C19_model_passes_oracle_flag.
Theorem C19_model_passes_oracle_set_flag : forall r, verdict190 (6 :: r) (run190 (6 :: r)) = true.
Proof. exact model_passes_oracle190_set_flag. Qed.
Print Assumptions C19_model_passes_oracle_set_flag.
Theorem C19_model_passes_oracle_content_format : forall r, verdict190 (8 :: r) (run190 (8 :: r)) = true.
Proof. exact model_passes_oracle190_cf. Qed.
Print Assumptions C19_model_passes_oracle_content_format.
(* the Observe and Content-Format getters over ANY raw state (kind 12): values of any length, padded, repeated *)
Theorem C19_model_passes_oracle_getters : forall r, verdict190 (12 :: r) (run190 (12 :: r)) = true.
Proof. exact model_passes_oracle190_getters. Qed.
Print Assumptions C19_model_passes_oracle_getters.
Theorem C19_model_passes_oracle_set_path : forall r, verdict190 (4 :: r) (run190 (4 :: r)) = true.
Proof. exact model_passes_oracle190_set_path. Qed.
Print Assumptions C19_model_passes_oracle_set_path.
(* set_from_message of coap-message 0.2 (kind 9) and 0.3 (kind 10) into ANY destination state: per number the
   destination's values followed by the source's; for source codes that are a byte *)
Theorem C19_model_passes_oracle_copy : forall k r, k = 9 \/ k = 10 ->
  (forall src r', rd_packet r = Some (src, r') -> class_to_byte (code (hdr src)) < 256) ->
  verdict190 (k :: r) (run190 (k :: r)) = true.
Proof. exact model_passes_oracle190_copy. Qed.
Print Assumptions C19_model_passes_oracle_copy.

Example C19_example :
  let p := set_path packet_new [47; 97; 47; 98] in
  get_option p 11 = Some [[97]; [98]] /\ get_path p = [97; 47; 98] /\
  get_status (set_status packet_new Conflict) = Conflict.
Proof. vm_compute. repeat split; reflexivity. Qed.

(* Decode.v -- model of Packet::from_bytes (src/packet.rs): index based, every buf[i] and
   every slice is a potential Panic, typed arithmetic as in the (repaired) source.
   The decoder takes a policy: three behaviours the RFC lets an implementation choose;
   the pinned code implements (false, false, false). *)
From CoapV Require Import Base Header Packet Encode.

Record policy := mkPolicy {
  rej_version : bool;        (* reject version <> 1 *)
  rej_empty_payload : bool;  (* reject a payload marker followed by nothing *)
  rej_empty_content : bool   (* reject a 0.00 message longer than its header *)
}.
Definition lenient : policy := mkPolicy false false false.

Definition get (buf : bytes) (i : N) : outcome N :=
  match nth_error buf (N.to_nat i) with Some b => Ok b | None => Panic 20 end.
Definition slice (buf : bytes) (a b : N) : outcome bytes :=
  if (a <=? b) && (b <=? len buf) then Ok (take (b - a) (drop a buf)) else Panic 21.

(* the match on the 4-bit field: 13 -> one byte + 13, 14 -> two bytes + 269, 15 -> error *)
Definition ext_at (buf : bytes) (nib idx err15 : N) : outcome (N * N) :=
  if nib <? 13 then Ok (nib, idx)
  else if nib =? 13 then
    if len buf <=? idx then Err ERR_OPTION_LENGTH
    else do b <- get buf idx; Ok (b + 13, idx + 1)
  else if nib =? 14 then
    if len buf <=? idx + 1 then Err ERR_OPTION_LENGTH
    else do b1 <- get buf idx; do b2 <- get buf (idx + 1); Ok (b1 * 256 + b2 + 269, idx + 2)
  else Err err15.

(* BTreeMap entry(number).or_default().push_back(value) *)
Definition opt_push (m : optmap) (k : N) (v : bytes) : optmap := opt_add m k v.

Fixpoint dec_loop (fuel : nat) (buf : bytes) (idx num : N) (m : optmap) : outcome (optmap * N) :=
  match fuel with
  | O => Panic 98
  | S f =>
    if idx <? len buf then
      do b <- get buf idx;
      if b =? 255 then Ok (m, idx) else
      do d <- ext_at buf (b / 16) (idx + 1) ERR_OPTION_DELTA;
      let '(delta, i1) := d in
      do l <- ext_at buf (b mod 16) i1 ERR_OPTION_LENGTH;
      let '(length, i2) := l in
      if 65535 <? num + delta then Err ERR_OPTION_DELTA else
      if len buf <? i2 + length then Err ERR_OPTION_LENGTH else
      do v <- slice buf i2 (i2 + length);
      dec_loop f buf (i2 + length) (num + delta) (opt_push m (num + delta) v)
    else Ok (m, idx)
  end.

Definition from_bytes (pol : policy) (buf : bytes) : outcome packet :=
  if len buf <? 4 then Err ERR_INVALID_HEADER else
  do b0 <- get buf 0; do c <- get buf 1; do m1 <- get buf 2; do m2 <- get buf 3;
  let h := mkHeader b0 (class_of_byte c) (m1 * 256 + m2) in
  let tkl := get_token_length h in
  let options_start := 4 + tkl in
  if rej_version pol && negb (get_version h =? 1) then Err ERR_INVALID_HEADER else
  if 8 <? tkl then Err ERR_TOKEN_LENGTH else
  if len buf <? options_start then Err ERR_TOKEN_LENGTH else
  if rej_empty_content pol && (c =? 0) && negb (len buf =? 4) then Err ERR_INVALID_HEADER else
  do tok <- slice buf 4 options_start;
  do r <- dec_loop (S (length buf)) buf options_start 0 [];
  let '(m, idx) := r in
  do pl <- (if idx <? len buf then slice buf (idx + 1) (len buf) else Ok []);
  if rej_empty_payload pol && (idx <? len buf) && (match pl with [] => true | _ => false end)
  then Err ERR_INVALID_HEADER
  else Ok (mkPacket h tok m pl).

(* PacketOps.v -- the public mutation API of Packet as an operation alphabet (model),
   the abstraction to the wire spec's message, and an independent specification of what a
   sequence of API calls means (last writer wins per field; options as an insertion-ordered
   multiset, stably sorted by number when read). *)
From CoapV Require Import Base Header Packet WireSpec UintOpt.

Inductive pop :=
| OSetVersion (v : N)
| OSetType (t : N)
| OSetCode (c : mclass)
| OSetMid (m : N)
| OSetToken (t : bytes)
| OSetPayload (b : bytes)
| OAddOption (k : N) (v : bytes)
| OSetOption (k : N) (vs : list bytes)
| OClearOption (k : N)
| OClearAll
(* the public `header` field replaced by a new Header (version 1, Confirmable, token length 0, code 0.01, id 0) and the
   token then set again, which brings the header's token-length field back in line *)
| OResetHeader (t : bytes).

(* ---- model: what the Rust does ---- *)
Definition apply_op (p : packet) (o : pop) : outcome packet :=
  match o with
  | OSetVersion v => Ok (set_hdr p (set_version (hdr p) v))
  | OSetType t => Ok (set_hdr p (set_type (hdr p) (type_of_bits t)))
  | OSetCode c => Ok (set_code p c)
  | OSetMid m => Ok (set_mid p m)
  | OSetToken t => set_token p t
  | OSetPayload b => Ok (set_payload p b)
  | OAddOption k v => Ok (add_option p k v)
  | OSetOption k vs => Ok (set_option p k vs)
  | OClearOption k => Ok (clear_option p k)
  | OClearAll => Ok (clear_all_options p)
  | OResetHeader t => set_token (set_hdr p header_new) t
  end.

Fixpoint run_ops (p : packet) (ops : list pop) : outcome packet :=
  match ops with
  | [] => Ok p
  | o :: r => do p' <- apply_op p o; run_ops p' r
  end.

(* abstraction of a packet state to the message it denotes on the wire; the payload of a
   0.00 message is not part of it (the crate never sends it) *)
Definition abs (p : packet) : amsg :=
  mkAmsg (vtt (hdr p) / 64) ((vtt (hdr p) / 16) mod 4) (token p)
         (class_to_byte (code (hdr p))) (mid (hdr p)) (flatten (opts p))
         (if mclass_eqb (code (hdr p)) Empty then [] else payload p).

(* ---- specification: meaning of an API call sequence, independent of the map ---- *)
Record smsg := mkSmsg {
  s_ver : N; s_type : N; s_token : bytes; s_code : mclass; s_mid : N;
  s_opts : list (N * bytes);   (* insertion order *)
  s_payload : bytes
}.
Definition smsg_new : smsg := mkSmsg 1 0 [] (Request Get) 0 [] [].

Definition remove_key (k : N) (l : list (N * bytes)) : list (N * bytes) :=
  filter (fun kv => negb (fst kv =? k)) l.

Definition spec_op (s : smsg) (o : pop) : smsg :=
  match o with
  | OSetVersion v => mkSmsg (v mod 4) (s_type s) (s_token s) (s_code s) (s_mid s) (s_opts s) (s_payload s)
  | OSetType t => mkSmsg (s_ver s) (if t <? 3 then t else 3) (s_token s) (s_code s) (s_mid s) (s_opts s) (s_payload s)
  | OSetCode c => mkSmsg (s_ver s) (s_type s) (s_token s) c (s_mid s) (s_opts s) (s_payload s)
  | OSetMid m => mkSmsg (s_ver s) (s_type s) (s_token s) (s_code s) m (s_opts s) (s_payload s)
  | OSetToken t => mkSmsg (s_ver s) (s_type s) t (s_code s) (s_mid s) (s_opts s) (s_payload s)
  | OSetPayload b => mkSmsg (s_ver s) (s_type s) (s_token s) (s_code s) (s_mid s) (s_opts s) b
  | OAddOption k v => mkSmsg (s_ver s) (s_type s) (s_token s) (s_code s) (s_mid s) (s_opts s ++ [(k, v)]) (s_payload s)
  | OSetOption k vs => mkSmsg (s_ver s) (s_type s) (s_token s) (s_code s) (s_mid s)
                              (remove_key k (s_opts s) ++ map (fun v => (k, v)) vs) (s_payload s)
  | OClearOption k => mkSmsg (s_ver s) (s_type s) (s_token s) (s_code s) (s_mid s) (remove_key k (s_opts s)) (s_payload s)
  | OClearAll => mkSmsg (s_ver s) (s_type s) (s_token s) (s_code s) (s_mid s) [] (s_payload s)
  | OResetHeader t => mkSmsg 1 0 t (Request Get) 0 (s_opts s) (s_payload s)
  end.

Definition spec_run (ops : list pop) : smsg := fold_left spec_op ops smsg_new.

(* stable insertion sort by option number *)
Fixpoint ins_sorted (kv : N * bytes) (l : list (N * bytes)) : list (N * bytes) :=
  match l with
  | [] => [kv]
  | x :: r => if fst x <=? fst kv then x :: ins_sorted kv r else kv :: l
  end.
Definition sort_opts (l : list (N * bytes)) : list (N * bytes) :=
  fold_left (fun acc kv => ins_sorted kv acc) l [].

Definition amsg_of_smsg (s : smsg) : amsg :=
  mkAmsg (s_ver s) (s_type s) (s_token s) (class_to_byte (s_code s)) (s_mid s)
         (sort_opts (s_opts s))
         (if mclass_eqb (s_code s) Empty then [] else s_payload s).

(* well-formed call sequences: what C01 quantifies over *)
Definition op_wf (o : pop) : bool :=
  match o with
  | OSetVersion v => v <? 256
  | OSetType t => t <? 4
  | OSetCode c => class_to_byte c <? 256
  | OSetMid m => m <? 65536
  | OSetToken t => (len t <=? 8) && forallb (fun b => b <? 256) t
  | OSetPayload b => forallb (fun b => b <? 256) b
  | OAddOption k v => (k <? 65536) && (len v <=? MAX_EXT) && forallb (fun b => b <? 256) v
  | OSetOption k vs => (k <? 65536) && forallb (fun v => (len v <=? MAX_EXT) && forallb (fun b => b <? 256) v) vs
  | OClearOption k => k <? 65536
  | OClearAll => true
  | OResetHeader t => (len t <=? 8) && forallb (fun b => b <? 256) t
  end.
Definition ops_wf (ops : list pop) : bool := forallb op_wf ops.

(* ---- flat encoding of ops for the suites ---- *)
Definition rd_op : rd pop := fun s =>
  match s with
  | 0 :: v :: r => Some (OSetVersion v, r)
  | 1 :: t :: r => Some (OSetType t, r)
  | 2 :: c :: r => Some (OSetCode (class_dec c), r)
  | 3 :: m :: r => Some (OSetMid m, r)
  | 4 :: r => match rd_bytes r with Some (t, r') => Some (OSetToken t, r') | None => None end
  | 5 :: r => match rd_bytes r with Some (t, r') => Some (OSetPayload t, r') | None => None end
  | 6 :: k :: r => match rd_bytes r with Some (v, r') => Some (OAddOption k v, r') | None => None end
  | 7 :: k :: r => match rd_list rd_bytes r with Some (vs, r') => Some (OSetOption k vs, r') | None => None end
  | 8 :: k :: r => Some (OClearOption k, r)
  | 9 :: r => Some (OClearAll, r)
  (* the typed convenience setters: set_content_format(n) and set_observe_value(n) replace the option's values by the
     number's shortest form *)
  | 10 :: n :: r => Some (OSetOption 12 [be_min n], r)
  | 11 :: n :: r => Some (OSetOption 6 [be_min n], r)
  | 12 :: r => match rd_bytes r with Some (t, r') => Some (OResetHeader t, r') | None => None end
  | _ => None
  end.

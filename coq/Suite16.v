(* Suite16.v -- correspondence suites of the link-format properties:
   160 (C16 writer -> parser round trip), 170 (C17 parser totality, offsets, unquoting paths),
   180 (C18 fault injection into the writer's sink). *)
From CoapV Require Import Base LinkFormat.

(* ---------- reading documents ---------- *)
Inductive attr_in := AIn (key : str) (kind : N) (sval : str) (nval : N).
Definition rd_attr_in : rd attr_in := fun s =>
  match rd_bytes s with
  | Some (k, kind :: r) =>
    if kind <? 2 then match rd_bytes r with Some (v, r') => Some (AIn k kind v 0, r') | None => None end
    else match r with n :: r' => Some (AIn k kind [] n, r') | [] => None end
  | _ => None
  end.
Definition rd_link_in : rd (str * list attr_in) := fun s =>
  match rd_bytes s with
  | Some (t, r) => match rd_list rd_attr_in r with Some (a, r') => Some ((t, a), r') | None => None end
  | None => None
  end.

Definition attr_of_in (a : attr_in) : attr_w :=
  match a with
  | AIn k 0 v _ => attr_auto k v
  | AIn k 1 v _ => (k, AQuoted v)
  | AIn k _ _ n => (k, AInt (digits n))
  end.
Definition doc_of_in (d : list (str * list attr_in)) : list link_w :=
  map (fun l => (fst l, map attr_of_in (snd l))) d.

(* ---------- driving the parser completely ---------- *)
Definition wr_cow (o : outcome str) : list N :=
  match o with Ok s => 0 :: wr_bytes s | _ => [2] end.

(* the position of an empty slice carries no information: reported as 0 *)
Definition eoff (content : str) (off : N) : N := match content with [] => 0 | _ => off end.

Fixpoint attrs_all (fuel : nat) (base : N) (s : str) : list (list N) :=
  match fuel with
  | O => []
  | S f =>
    match attr_next s with
    | None => []
    | Some (a, r) =>
      (eoff (akey a) (base + koff a) :: wr_bytes (akey a) ++ eoff (aval a) (base + voff a) :: wr_bytes (aval a)
       ++ wr_bytes (unquote_to_string (aval a)) ++ wr_cow (to_cow (aval a)))
      :: attrs_all f (base + (len s - len r)) r
    end
  end.

Fixpoint parse_all (fuel : nat) (base : N) (s : str) : list N :=
  match fuel with
  | O => []
  | S f =>
    match link_next s with
    | None => []
    | Some (LErr, r) => 1 :: parse_all f (base + (len s - len r)) r
    | Some (LOk loff l aoff a, r) =>
      let items := attrs_all (S (length a)) (base + aoff) a in
      (0 :: eoff l (base + loff) :: wr_bytes l ++ eoff a (base + aoff) :: wr_bytes a ++ len items :: concat items)
      ++ parse_all f (base + (len s - len r)) r
    end
  end.
Definition parse_doc (s : str) : list N := parse_all (S (length s)) 0 s.

(* ------------------------------ suite 160 ------------------------------ *)
Definition rd_case160 (s : list N) : option (bool * list (str * list attr_in)) :=
  match s with
  | nl :: r => match rd_list rd_link_in r with Some (d, []) => Some (negb (nl =? 0), d) | _ => None end
  | [] => None
  end.

Definition no_fail (_ : nat) : bool := false.

Definition written (nl : bool) (d : list link_w) : str :=
  concat (accepted (snd (write_doc no_fail true nl sink0 d))).

Definition run160 (s : list N) : list N :=
  match rd_case160 s with
  | None => [999]
  | Some (nl, d) => let w := written nl (doc_of_in d) in wr_bytes w ++ parse_doc w
  end.

(* what the property promises a reader gets back: targets, keys, unquoted values, in order
   (offsets and raw forms are left out) *)
Fixpoint strip_attrs (n : nat) (s : list N) : option (list (str * str * str) * list N) :=
  match n with
  | O => Some ([], s)
  | S n' =>
    match s with
    | _ :: r0 =>
      match rd_bytes r0 with
      | Some (k, _ :: r1) =>
        match rd_bytes r1 with
        | Some (_, r2) =>
          match rd_bytes r2 with
          | Some (us, c :: r3) =>
            match (if c =? 0 then rd_bytes r3 else None) with
            | Some (cw, r4) =>
              match strip_attrs n' r4 with Some (l, r5) => Some ((k, us, cw) :: l, r5) | None => None end
            | None => None end
          | _ => None end
        | None => None end
      | _ => None end
    | [] => None end
  end.

Fixpoint strip_links (fuel : nat) (s : list N) : option (list (str * list (str * str * str))) :=
  match fuel with
  | O => None
  | S f =>
    match s with
    | [] => Some []
    | 0 :: _ :: r0 =>
      match rd_bytes r0 with
      | Some (l, _ :: r1) =>
        match rd_bytes r1 with
        | Some (_, n :: r2) =>
          match strip_attrs (N.to_nat n) r2 with
          | Some (a, r3) => match strip_links f r3 with Some rest => Some ((l, a) :: rest) | None => None end
          | None => None end
        | _ => None end
      | _ => None end
    | _ => None
    end
  end.

Definition str_eqb : str -> str -> bool := list_eqb N.eqb.
Fixpoint list_eqb2 {A B} (f : A -> B -> bool) (a : list A) (b : list B) : bool :=
  match a, b with
  | [], [] => true
  | x :: a', y :: b' => f x y && list_eqb2 f a' b'
  | _, _ => false
  end.

Definition expected_attr (a : attr_in) : str * str :=
  match a with
  | AIn k 0 v _ | AIn k 1 v _ => (k, v)
  | AIn k _ _ n => (k, digits n)
  end.

(* the documents C16 quantifies over *)
Definition key_ok (k : str) : bool :=
  forallb (fun c => negb ((c =? SEMI) || (c =? COMMA) || (c =? EQS) || (c =? QUOTE) || is_ascii_ws c)) k
  && match k with [] => true | c :: _ => negb (is_ws c) end
  && match rev k with [] => true | c :: _ => negb (is_ws c) end.
Definition scalar_ok (c : N) : bool := (c <? 55296) || ((57343 <? c) && (c <? 1114112)).
Definition attr_in_ok (a : attr_in) : bool :=
  match a with
  | AIn k kind v n => key_ok k && forallb scalar_ok k && forallb scalar_ok v
                      && (if kind =? 2 then n <? U32 else if kind =? 3 then n <? U16 else kind <? 2)
  end.
Definition doc_in_ok (d : list (str * list attr_in)) : bool :=
  forallb (fun l => forallb (fun c => negb (c =? GT) && scalar_ok c) (fst l) && forallb attr_in_ok (snd l)) d.

Definition verdict160 (s out : list N) : bool :=
  match rd_case160 s with
  | None => false
  | Some (nl, d) =>
    if negb (doc_in_ok d) then true else
    match rd_bytes out with
    | Some (_, r) =>
      match strip_links (S (length r)) r with
      | Some got =>
        list_eqb2 (fun g e =>
            str_eqb (fst g) (fst e)
            && list_eqb2 (fun ga ea => let '(k, us, cw) := ga in
                                      str_eqb k (fst (expected_attr ea)) && str_eqb us (snd (expected_attr ea))
                                      && str_eqb cw (snd (expected_attr ea)))
                        (snd g) (snd e))
          got d
      | None => false end
    | None => false end
  end.

Definition classify160 (s : list N) : N :=
  match rd_case160 s with
  | None => 0
  | Some (nl, d) => if negb (doc_in_ok d) then 0
                    else match d with [] => 1 | [_] => 2 | _ => if nl then 4 else 3 end
  end.

(* ------------------------------ suite 170 ------------------------------ *)
Definition run170 (s : list N) : list N :=
  match rd_bytes s with Some (w, []) => parse_doc w | _ => [999] end.

(* checks made on the observed items alone: every slice is the input's content at its
   offset, slices come left to right without overlap, nothing follows an error, and the
   copy-on-write form equals the character-by-character form *)
Definition slice_at (inp : str) (off : N) (content : str) : bool :=
  str_eqb (take (len content) (drop off inp)) content && (off + len content <=? len inp).

Fixpoint check_attrs (n : nat) (inp : str) (lo : N) (s : list N) : option (N * list N) :=
  match n with
  | O => Some (lo, s)
  | S n' =>
    match s with
    | ko :: r0 =>
      match rd_bytes r0 with
      | Some (k, vo :: r1) =>
        match rd_bytes r1 with
        | Some (v, r2) =>
          match rd_bytes r2 with
          | Some (us, c :: r3) =>
            match (if c =? 0 then rd_bytes r3 else None) with
            | Some (cw, r4) =>
              let kend := match k with [] => lo | _ => ko + len k end in
              let vend := match v with [] => kend | _ => vo + len v end in
              if slice_at inp ko k && (match k with [] => true | _ => lo <=? ko end)
                 && (match v with [] => true | _ => slice_at inp vo v && (kend <=? vo) end)
                 && str_eqb us cw
              then check_attrs n' inp vend r4 else None
            | None => None end
          | _ => None end
        | None => None end
      | _ => None end
    | [] => None end
  end.

Fixpoint check_links (fuel : nat) (inp : str) (lo : N) (s : list N) : bool :=
  match fuel with
  | O => false
  | S f =>
    match s with
    | [] => true
    | [1] => true                       (* an error is the last item *)
    | 0 :: lo' :: r0 =>
      match rd_bytes r0 with
      | Some (l, ao :: r1) =>
        match rd_bytes r1 with
        | Some (a, n :: r2) =>
          let lend := match l with [] => lo | _ => lo' + len l end in
          let aend := match a with [] => lend | _ => ao + len a end in
          if slice_at inp lo' l && (match l with [] => true | _ => lo <=? lo' end)
             && slice_at inp ao a && (match a with [] => true | _ => lend <=? ao end) then
            match check_attrs (N.to_nat n) inp (match a with [] => lend | _ => ao end) r2 with
            | Some (hi, r3) => (hi <=? aend) && check_links f inp aend r3
            | None => false end
          else false
        | _ => false end
      | _ => false end
    | _ => false
    end
  end.

Definition verdict170 (s out : list N) : bool :=
  match rd_bytes s with
  | Some (w, []) => if forallb scalar_ok w then check_links (S (length out)) w 0 out else true
  | _ => false
  end.

Definition classify170 (s : list N) : N :=
  match rd_bytes s with
  | Some (w, []) => if forallb scalar_ok w then (if existsb (N.eqb QUOTE) w then 2 else 1) else 0
  | _ => 0
  end.

(* ------------------------------ suite 180 ------------------------------ *)
(* input: k, mode, then a 160 case.  mode mod 2: 0 = only call k fails, 1 = call k and all later fail.  mode / 2 is
   the caller's style (0: every link closed with finish(); 1: the per-link writers are dropped; 2: set_add_newlines
   called again before every link and before the final finish()), which must not matter *)
Definition fail_of (k mode : N) (i : nat) : bool :=
  if mode mod 2 =? 0 then N.of_nat i =? k else k <=? N.of_nat i.

Definition run180 (s : list N) : list N :=
  match s with
  | k :: mode :: r =>
    match rd_case160 r with
    | None => [999]
    | Some (nl, d) =>
      let '(e, sk) := write_doc (fail_of k mode) true nl sink0 (doc_of_in d) in
      b2n e :: N.of_nat (calls sk) :: wr_list wr_bytes (accepted sk)
    end
  | _ => [999]
  end.

Definition verdict180 (s out : list N) : bool :=
  match s with
  | k :: mode :: r =>
    match rd_case160 r with
    | None => false
    | Some (nl, d) =>
      let cs := doc_chunks true nl (doc_of_in d) in
      if k <? len cs
      then list_eqb N.eqb out (1 :: (k + 1) :: wr_list wr_bytes (take k cs))
      else list_eqb N.eqb out (0 :: len cs :: wr_list wr_bytes cs)
    end
  | _ => false
  end.

Definition classify180 (s : list N) : N :=
  match s with
  | k :: mode :: r =>
    match rd_case160 r with
    | None => 0
    | Some (nl, d) => if k <? len (doc_chunks true nl (doc_of_in d)) then 1 + mode mod 2 else 3
    end
  | _ => 0
  end.

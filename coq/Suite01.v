(* Suite01.v -- correspondence suites of the codec properties:
   10 (C01 codec_enc), 20 (C02) and 30 (C03) over codec_dec, 40 (C04 codec_limit). *)
From CoapV Require Import Base Header Packet WireSpec Encode Decode PacketOps.

(* outcome printing with errors canonicalised to one value *)
Definition wr_res {A} (f : A -> list N) (o : outcome A) : list N :=
  match o with Ok a => 0 :: f a | Err _ => [1] | Panic _ => [2] end.

Definition rd_policy : rd policy := fun s =>
  match s with
  | a :: b :: c :: r => Some (mkPolicy (negb (a =? 0)) (negb (b =? 0)) (negb (c =? 0)), r)
  | _ => None
  end.

(* result reader: 0 :: x | [1] | [2] *)
Inductive res3 (A : Type) := ROk (a : A) | RErr | RPanic.
Arguments ROk {A}. Arguments RErr {A}. Arguments RPanic {A}.
Definition rd_res {A} (f : rd A) : rd (res3 A) := fun s =>
  match s with
  | 0 :: r => match f r with Some (a, r') => Some (ROk a, r') | None => None end
  | 1 :: r => Some (RErr, r)
  | 2 :: r => Some (RPanic, r)
  | _ => None
  end.

(* fields of a packet state as the grammar names them (payload kept even for 0.00) *)
Definition view (p : packet) : amsg :=
  mkAmsg (vtt (hdr p) / 64) ((vtt (hdr p) / 16) mod 4) (token p)
         (class_to_byte (code (hdr p))) (mid (hdr p)) (flatten (opts p)) (payload p).

Definition opts_eqb (a b : list (N * bytes)) : bool :=
  list_eqb (fun x y => (fst x =? fst y) && bytes_eqb (snd x) (snd y)) a b.
Definition amsg_eqb (a b : amsg) : bool :=
  (a_ver a =? a_ver b) && (a_type a =? a_type b) && bytes_eqb (a_token a) (a_token b)
  && (a_code a =? a_code b) && (a_mid a =? a_mid b) && opts_eqb (a_opts a) (a_opts b)
  && bytes_eqb (a_payload a) (a_payload b).

(* ------------------------------ suite 10 ------------------------------ *)
Definition rd_case10 (s : list N) : option (policy * list pop) :=
  match rd_policy s with
  | Some (pol, r) => match rd_list rd_op r with Some (ops, []) => Some (pol, ops) | _ => None end
  | None => None
  end.

Definition run10 (s : list N) : list N :=
  match rd_case10 s with
  | None => [999]
  | Some (pol, ops) =>
    match run_ops packet_new ops with
    | Ok p =>
      0 :: wr_packet p ++
      match to_bytes_unlimited p with
      | Ok bs => 0 :: wr_bytes bs ++ wr_res wr_packet (from_bytes pol bs)
      | Err _ => [1]
      | Panic _ => [2]
      end
    | Err _ => [1]
    | Panic _ => [2]
    end
  end.

Definition tokens_ok (ops : list pop) : bool :=
  forallb (fun o => match o with OSetToken t | OResetHeader t => len t <=? 8 | _ => true end) ops.

(* C01 on an observation: the state denotes the specified message, the bytes are its wire
   image, and decoding them gives back a packet with exactly that message's fields *)
Definition verdict10 (s out : list N) : bool :=
  match rd_case10 s with
  | None => false
  | Some (_, ops) =>
    if negb (ops_wf ops) then true else
    let m := amsg_of_smsg (spec_run ops) in
    match out with
    | 0 :: r =>
      match rd_packet r with
      | Some (p, 0 :: r1) =>
        match rd_bytes r1 with
        | Some (bs, 0 :: r2) =>
          match rd_packet r2 with
          | Some (p', []) => amsg_eqb (abs p) m && bytes_eqb bs (wire_image m) && amsg_eqb (view p') m
          | _ => false
          end
        | _ => false
        end
      | _ => false
      end
    | _ => false
    end
  end.

(* evidence classes: 1 = no options; 2 = options, all fields short (< 13);
   3 = some delta or length uses the 1-byte extension; 4 = some uses the 2-byte extension *)
Definition classify10 (s : list N) : N :=
  match rd_case10 s with
  | None => 0
  | Some (_, ops) =>
    if negb (ops_wf ops) then 0 else
    let os := a_opts (amsg_of_smsg (spec_run ops)) in
    let fix go (prev : N) (l : list (N * bytes)) : N :=
      match l with
      | [] => 0
      | (n, v) :: r => N.max (N.max (ext_len (n - prev)) (ext_len (len v))) (go n r)
      end in
    match os with [] => 1 | _ => 2 + go 0 os end
  end.

(* ------------------------------ suites 20 / 30 ------------------------------ *)
Definition rd_case20 (s : list N) : option (policy * bytes) :=
  match rd_policy s with
  | Some (pol, r) => match rd_bytes r with Some (bs, []) => Some (pol, bs) | _ => None end
  | None => None
  end.

Definition run20 (s : list N) : list N :=
  match rd_case20 s with
  | None => [999]
  | Some (pol, bs) =>
    match from_bytes pol bs with
    | Ok p => 0 :: wr_packet p ++ wr_res wr_bytes (to_bytes_unlimited p)
    | Err _ => [1]
    | Panic _ => [2]
    end
  end.

Definition rd_out20 (out : list N) : option (res3 (packet * res3 bytes)) :=
  match out with
  | 0 :: r =>
    match rd_packet r with
    | Some (p, r1) => match rd_res rd_bytes r1 with Some (e, []) => Some (ROk (p, e)) | _ => None end
    | None => None
    end
  | [1] => Some RErr
  | [2] => Some RPanic
  | _ => None
  end.

(* C02: every accepted datagram re-encodes to the same bytes up to the permitted differences *)
Definition verdict20 (s out : list N) : bool :=
  match rd_case20 s, rd_out20 out with
  | Some (_, bs), Some (ROk (_, ROk bs')) => canonb bs bs'
  | Some _, Some (ROk (_, _)) => false
  | Some _, Some _ => true
  | _, _ => false
  end.

(* C03: total, accepts the well formed with the grammar's fields, rejects the malformed *)
Definition verdict30 (s out : list N) : bool :=
  match rd_case20 s, rd_out20 out with
  | Some (_, bs), Some r =>
    match r, ref_parse bs with
    | RPanic, _ => false
    | ROk (p, _), MustAccept m => amsg_eqb (view p) m
    | ROk (p, _), Either m => amsg_eqb (view p) m
    | ROk _, MustReject => false
    | RErr, MustAccept _ => false
    | RErr, _ => true
    end
  | _, _ => false
  end.

(* classes: 1 must-accept, 2 either, 3 must-reject *)
Definition classify20 (s : list N) : N :=
  match rd_case20 s with
  | Some (_, bs) => match ref_parse bs with MustAccept _ => 1 | Either _ => 2 | MustReject => 3 end
  | None => 0
  end.

(* ------------------------------ suite 40 ------------------------------ *)
(* input: MAX_SIZE of the build; mode 0 = to_bytes, 1 l = to_bytes_with_limit l, 2 = unlimited; packet *)
Definition rd_case40 (s : list N) : option (N * option N * packet) :=
  match s with
  | mx :: 0 :: r => match rd_packet r with Some (p, []) => Some (mx, Some mx, p) | _ => None end
  | mx :: 1 :: l :: r => match rd_packet r with Some (p, []) => Some (mx, Some l, p) | _ => None end
  | mx :: 2 :: r => match rd_packet r with Some (p, []) => Some (mx, None, p) | _ => None end
  | _ => None
  end.

Definition run40 (s : list N) : list N :=
  match rd_case40 s with
  | None => [999]
  | Some (_, lim, p) => wr_res wr_bytes (to_bytes_internal p lim)
  end.

Definition value_too_long (p : packet) : bool :=
  existsb (fun kv => MAX_EXT <? len (snd kv)) (flatten (opts p)).

(* the packet states C04 quantifies over: what the API builds *)
Definition pkt_tkl_ok (p : packet) : bool :=
  (vtt (hdr p) mod 16 =? len (token p)) && (vtt (hdr p) <? 256) && (mid (hdr p) <? 65536).

Definition verdict40 (s out : list N) : bool :=
  match rd_case40 s with
  | None => false
  | Some (_, lim, p) =>
    if negb (pkt_tkl_ok p) then true else
    match rd_res rd_bytes out with
    | Some (RPanic, _) => false
    | Some (r, []) =>
      if value_too_long p then match r with RErr => true | _ => false end
      else
        let m := abs p in
        let fits := match lim with Some l => wire_len m <=? l | None => true end in
        match r with
        | ROk bs => fits && bytes_eqb bs (wire_image m) && (len bs =? wire_len m)
        | RErr => negb fits
        | RPanic => false
        end
    | _ => false
    end
  end.

(* classes: 1 fits with room, 2 exactly at the limit, 3 one over, 4 further over,
   5 unlimited, 6 refused for an over-long option value *)
Definition classify40 (s : list N) : N :=
  match rd_case40 s with
  | None => 0
  | Some (_, lim, p) =>
    if negb (pkt_tkl_ok p) then 0
    else if value_too_long p then 6
    else match lim with
         | None => 5
         | Some l => let w := wire_len (abs p) in
                     if w <? l then 1 else if w =? l then 2 else if w =? l + 1 then 3 else 4
         end
  end.

(* driver.ml -- generic correspondence driver.
   Reads case lines  "<input numbers> ; <implementation output numbers>",
   evaluates the extracted Coq model ([Model.run]) and the property verdict
   ([Model.verdict]) on each, and prints disagreements plus a JSON summary.
   No suite-specific code lives here: all decoding is done in Coq (Suites.v). *)

open Model

let rec pos_of_int (i : int) : positive =
  if i = 1 then XH
  else if i land 1 = 0 then XO (pos_of_int (i lsr 1))
  else XI (pos_of_int (i lsr 1))

let n_of_int_raw (i : int) : n = if i = 0 then N0 else Npos (pos_of_int i)
let small_tab : n array = Array.init 70000 n_of_int_raw
let n_of_int (i : int) : n = if i >= 0 && i < 70000 then Array.unsafe_get small_tab i else n_of_int_raw i

(* decimal string -> N; fast path through native ints, slow path for >= 2^62 *)
let n_of_string (s : string) : n =
  if String.length s <= 18 then n_of_int (int_of_string s)
  else begin
    (* schoolbook: split into high part and low 9 digits using Coq's N arithmetic *)
    let ten9 = n_of_int 1_000_000_000 in
    let rec go (s : string) : n =
      let l = String.length s in
      if l <= 18 then n_of_int (int_of_string s)
      else
        let hi = String.sub s 0 (l - 9) and lo = String.sub s (l - 9) 9 in
        N.add (N.mul (go hi) ten9) (n_of_int (int_of_string lo))
    in
    go s
  end

let rec int_of_pos (p : positive) : int =
  match p with XH -> 1 | XO q -> 2 * int_of_pos q | XI q -> 2 * int_of_pos q + 1

let rec pos_bits (p : positive) : int =
  match p with XH -> 1 | XO q | XI q -> 1 + pos_bits q

let string_of_n (x : n) : string =
  match x with
  | N0 -> "0"
  | Npos p ->
    if pos_bits p <= 62 then string_of_int (int_of_pos p)
    else begin
      (* big: repeated division by 10^9 in Coq's N *)
      let ten9 = n_of_int 1_000_000_000 in
      let rec go (x : n) (acc : string list) : string list =
        match x with
        | N0 -> acc
        | Npos q when pos_bits q <= 62 -> string_of_int (int_of_pos q) :: acc
        | _ ->
          let (d, m) = N.div_eucl x ten9 in
          let ms = match m with N0 -> 0 | Npos q -> int_of_pos q in
          go d (Printf.sprintf "%09d" ms :: acc)
      in
      String.concat "" (go x [])
    end

(* hand-rolled scanner: digits separated by blanks *)
let parse_list (s : string) : n list =
  let l = String.length s in
  let rec go (i : int) (acc : n list) : n list =
    if i < 0 then acc
    else if s.[i] = ' ' then go (i - 1) acc
    else begin
      let j = ref i in
      while !j >= 0 && s.[!j] <> ' ' do decr j done;
      let tl = i - !j in
      if tl <= 18 then begin
        let v = ref 0 in
        for k = !j + 1 to i do v := !v * 10 + (Char.code s.[k] - 48) done;
        go !j (n_of_int !v :: acc)
      end else go !j (n_of_string (String.sub s (!j + 1) tl) :: acc)
    end
  in
  go (l - 1) []

let show_list (l : n list) : string = String.concat " " (List.map string_of_n l)

let () =
  let suite = n_of_int (int_of_string Sys.argv.(1)) in
  let file = Sys.argv.(2) in
  let max_report = if Array.length Sys.argv > 3 then int_of_string Sys.argv.(3) else 20 in
  let prefix_file = if Array.length Sys.argv > 4 then Sys.argv.(4) else "" in
  let prefix_n = if Array.length Sys.argv > 5 then int_of_string Sys.argv.(5) else 0 in
  let pc = if prefix_file <> "" then Some (open_out prefix_file) else None in
  let prefix_done = ref 0 in
  let ic = if file = "-" then stdin else open_in file in
  let n_cases = ref 0 and n_agree = ref 0 and n_mismatch = ref 0 in
  let n_fail = ref 0 and n_known = ref 0 and n_model_fail = ref 0 in
  let reported = ref 0 in
  let reported_fail = ref 0 in
  let classes : (int, int) Hashtbl.t = Hashtbl.create 16 in
  let knowns : (int, int) Hashtbl.t = Hashtbl.create 16 in
  let distinct : (string, unit) Hashtbl.t = Hashtbl.create 100000 in
  let bump h k = Hashtbl.replace h k (1 + (try Hashtbl.find h k with Not_found -> 0)) in
  (try
     while true do
       let line = input_line ic in
       if String.length line > 0 && line.[0] <> '#' then begin
         match String.index_opt line ';' with
         | None -> ()
         | Some k ->
           incr n_cases;
           let si = String.trim (String.sub line 0 k) in
           let so = String.trim (String.sub line (k + 1) (String.length line - k - 1)) in
           let inp = parse_list si and out = parse_list so in
           let model = run suite inp in
           let agree = (model = out) in
           let v_impl = verdict suite inp out in
           let v_model = if agree then v_impl else verdict suite inp model in
           let cls = (match classify suite inp out with N0 -> 0 | Npos p -> int_of_pos p) in
           let kn = (match known suite inp with N0 -> 0 | Npos p -> int_of_pos p) in
           bump classes cls;
           if cls > 0 then Hashtbl.replace distinct si ();
           if agree then incr n_agree else incr n_mismatch;
           if not v_model then incr n_model_fail;
           if not v_impl then begin
             if kn > 0 then (incr n_known; bump knowns kn) else incr n_fail
           end;
           (match pc with
            | Some oc when (!prefix_done < prefix_n && String.length line < 6000
                            && (!n_cases <= prefix_n / 2 || !n_cases mod 97 = 0)) ->
              incr prefix_done;
              Printf.fprintf oc "%d | %s ; %s ; %s\n" cls si so (show_list model)
            | _ -> ());
           (* inputs in a known-finding class are outside the property's domain: neither a disagreement nor a failed verdict there is reported *)
           let bad = kn = 0 && ((not agree) || (not v_impl) || (not v_model)) in
           (* failing property verdicts and mere disagreements have separate report budgets, so that a
              stream of harmless disagreements cannot hide a failing input further down *)
           let slot = if not v_impl then reported_fail else reported in
           if bad && !slot < max_report then begin
             incr slot;
             Printf.printf "CASE line=%d agree=%b verdict_impl=%b verdict_model=%b known=%d class=%d\n  input: %s\n  impl:  %s\n  model: %s\n"
               !n_cases agree v_impl v_model kn cls si so (show_list model)
           end
           else if (not v_impl) && kn > 0 && (Hashtbl.find knowns kn) = 1 then
             Printf.printf "KNOWN id=%d line=%d\n  input: %s\n  impl:  %s\n  model: %s\n"
               kn !n_cases si so (show_list model)
       end
     done
   with End_of_file -> ());
  (match pc with Some oc -> close_out oc | None -> ());
  let hist h =
    String.concat ", "
      (List.map (fun (k, v) -> Printf.sprintf "\"%d\": %d" k v)
         (List.sort compare (Hashtbl.fold (fun k v acc -> (k, v) :: acc) h []))) in
  Printf.printf
    "SUMMARY {\"cases\": %d, \"agree\": %d, \"mismatch\": %d, \"verdict_fail\": %d, \"known_fail\": %d, \"model_verdict_fail\": %d, \"distinct_nontrivial\": %d, \"classes\": {%s}, \"known\": {%s}}\n"
    !n_cases !n_agree !n_mismatch !n_fail !n_known !n_model_fail (Hashtbl.length distinct)
    (hist classes) (hist knowns)

//! Block-handler suites: a generic runner for sequences of exchanges through the server loop
//! (from_packet -> intercept_request -> application -> intercept_response) with full-state
//! observation (cfg(coap_lite_verif) hook), and the generators of suites 80 (C08), 90 (C09),
//! 100 (C10), 110 (C11), 120 (C12), 200 (C20).
#![cfg(feature = "std")]
use crate::common::*;
use coap_lite::block_handler::BlockValue;
use coap_lite::{BlockHandler, BlockHandlerConfig, CoapOption, CoapRequest, MessageClass, Packet};
use std::collections::LinkedList;
use std::panic::{catch_unwind, AssertUnwindSafe};
use std::sync::atomic::{AtomicI64, Ordering};
use std::sync::Arc;
use std::time::Duration;

/// endpoint that counts its live clones: each physical cache entry holds two (map key, LRU list key)
pub struct Ep { id: u64, live: Arc<AtomicI64> }
impl Clone for Ep { fn clone(&self) -> Self { self.live.fetch_add(1, Ordering::SeqCst); Ep { id: self.id, live: self.live.clone() } } }
impl Drop for Ep { fn drop(&mut self) { self.live.fetch_sub(1, Ordering::SeqCst); } }
impl PartialEq for Ep { fn eq(&self, o: &Self) -> bool { self.id == o.id } }
impl Eq for Ep {}
impl PartialOrd for Ep { fn partial_cmp(&self, o: &Self) -> Option<std::cmp::Ordering> { Some(self.cmp(o)) } }
impl Ord for Ep { fn cmp(&self, o: &Self) -> std::cmp::Ordering { self.id.cmp(&o.id) } }

#[derive(Clone, Debug, Default)]
pub struct Reply { pub code: u64, pub opts: Vec<(u16, Vec<Vec<u8>>)>, pub body: Vec<u8> }
#[derive(Clone, Debug)]
pub enum Step { Ex(u64, PktDesc, u64, Reply), Sleep, Nap, Begin(u64, PktDesc, u64, Reply), End(u64) }

pub fn write_case(m: u64, mode: u64, steps: &[Step]) -> Vec<u64> {
    let mut v = vec![m, mode, steps.len() as u64];
    let mut prev: Option<&Reply> = None;
    for s in steps {
        match s {
            Step::Sleep => v.push(1),
            Step::Nap => v.push(3),
            Step::End(tid) => { v.push(5); v.push(*tid); }
            Step::Begin(tid, p, src, rp) => {
                prev = Some(rp);
                v.push(4); v.push(*tid); p.write(&mut v); v.push(*src);
                v.push(rp.code); v.push(rp.opts.len() as u64);
                for (k, vs) in &rp.opts { v.push(*k as u64); v.push(vs.len() as u64); for x in vs { wr_bytes(&mut v, x); } }
                wr_bytes(&mut v, &rp.body);
            }
            Step::Ex(tid, p, src, rp) => {
                if let Some(q) = prev { if q.code == rp.code && q.opts == rp.opts && q.body == rp.body {
                    v.push(2); v.push(*tid); p.write(&mut v); v.push(*src); continue;
                } }
                prev = Some(rp);
                v.push(0); v.push(*tid); p.write(&mut v); v.push(*src);
                v.push(rp.code); v.push(rp.opts.len() as u64);
                for (k, vs) in &rp.opts { v.push(*k as u64); v.push(vs.len() as u64); for x in vs { wr_bytes(&mut v, x); } }
                wr_bytes(&mut v, &rp.body);
            }
        }
    }
    v
}
fn rd_reply(c: &mut Cur) -> Reply {
    let code = c.n(); let n = c.n();
    let opts = (0..n).map(|_| { let k = c.n() as u16; let nv = c.n(); (k, (0..nv).map(|_| c.bytes()).collect()) }).collect();
    Reply { code, opts, body: c.bytes() }
}
pub enum RStep { Ex(u64, Packet, u64, Reply), Sleep, Nap, Begin(u64, Packet, u64, Reply), End(u64) }
fn rd_steps(c: &mut Cur) -> Vec<RStep> {
    let n = c.n();
    let mut prev = Reply::default();
    (0..n).map(|_| match c.n() {
        0 => { let tid = c.n(); let p = rd_packet(c); let src = c.n(); prev = rd_reply(c); RStep::Ex(tid, p, src, prev.clone()) }
        2 => { let tid = c.n(); let p = rd_packet(c); let src = c.n(); RStep::Ex(tid, p, src, prev.clone()) }
        3 => RStep::Nap,
        4 => { let tid = c.n(); let p = rd_packet(c); let src = c.n(); prev = rd_reply(c); RStep::Begin(tid, p, src, prev.clone()) }
        5 => RStep::End(c.n()),
        _ => RStep::Sleep }).collect()
}

fn wr_result(out: &mut Vec<u64>, r: &Result<bool, coap_lite::error::HandlingError>) {
    match r {
        Ok(false) => { out.push(0); out.push(0); }
        Ok(true) => { out.push(1); out.push(0); }
        Err(e) => { out.push(2); out.push(match e.code { None => 0, Some(c) => u8::from(MessageClass::Response(c)) as u64 }); }
    }
}
fn wr_block(out: &mut Vec<u64>, b: &Option<BlockValue>) {
    match b { Some(b) => { out.push(1); out.push(b.num as u64); out.push(b.more as u64); out.push(b.size_exponent as u64); } None => out.push(0) }
}

fn digest(l: impl Iterator<Item = u64>) -> u64 { l.fold(7u64, |acc, x| (acc * 31 + x) % 1000003) }

pub struct Server { pub h: BlockHandler<Ep>, pub live: Arc<AtomicI64>, pub always: bool, pub npending: i64 }
/// a request that has been through intercept_request and waits for its (slow) application
pub struct Pending { rq: CoapRequest<Ep>, r1: Result<bool, coap_lite::error::HandlingError> }
impl Server {
    pub fn new(m: u64, ttl: Duration) -> Server {
        Server { h: BlockHandler::new(BlockHandlerConfig { max_total_message_size: m as usize, cache_expiry_duration: ttl }), live: Arc::new(AtomicI64::new(0)), always: false, npending: 0 }
    }
    /// one exchange; returns the observation fields and the final response
    pub fn exchange(&mut self, p: &Packet, src: u64, rp: &Reply) -> (Vec<u64>, Option<Packet>) {
        let pd = self.begin(p, src);
        self.end(pd, rp)
    }
    /// first half: the request arrives and goes through intercept_request
    pub fn begin(&mut self, p: &Packet, src: u64) -> Pending {
        let ep = Ep { id: src, live: self.live.clone() };
        self.live.fetch_add(1, Ordering::SeqCst);
        let mut rq: CoapRequest<Ep> = CoapRequest::from_packet(p.clone(), ep);
        // endpoint number 77777777 stands for a request assembled by hand with NO source (CoapRequest::new() leaves it None):
        // one more peer as far as the handler is concerned.  (Its cache entry holds no endpoint clone, so such cases
        // run in mode 2, where the entry count is not observed.)
        if src == 77_777_777 { rq.source = None; }
        let r1 = self.h.intercept_request(&mut rq);
        self.npending += 1;
        Pending { rq, r1 }
    }
    /// second half: the application answers, the response goes through intercept_response
    pub fn end(&mut self, pd: Pending, rp: &Reply) -> (Vec<u64>, Option<Packet>) {
        let Pending { mut rq, r1 } = pd;
        self.npending -= 1;
        let mut out = Vec::new();
        wr_result(&mut out, &r1);
        if let Ok(false) = r1 {
            out.push(1);
            wr_bytes(&mut out, &rq.message.payload);
            if let Some(resp) = rq.response.as_mut() {
                resp.message.header.code = class_dec(rp.code);
                for (k, vs) in rp.opts.iter() { resp.message.set_option(CoapOption::from(*k), vs.iter().cloned().collect::<LinkedList<_>>()); }
                resp.message.payload = rp.body.clone();
            }
            let r2 = self.h.intercept_response(&mut rq);
            wr_result(&mut out, &r2);
        } else if self.always && matches!(r1, Ok(true)) {
            // a server loop that passes EVERY outgoing response through intercept_response (mode 3)
            out.push(0); out.push(0);
            let r2 = self.h.intercept_response(&mut rq);
            wr_result(&mut out, &r2);
        } else {
            out.extend([0, 0, 0, 0]);
        }
        let resp = rq.response.as_ref().map(|r| r.message.clone());
        wr_optpkt(&mut out, resp.as_ref());
        out.push(resp.as_ref().and_then(|r| r.to_bytes_unlimited().ok()).map(|b| b.len() as u64).unwrap_or(0));
        match self.h.verif_peek_state(&rq) {
            None => out.push(0),
            Some((b2, cached, buf)) => {
                out.push(1); wr_block(&mut out, &b2);
                match cached { Some(p) => { let mut w = Vec::new(); wr_packet(&mut w, &p); out.push(1); out.push(p.payload.len() as u64); out.push(digest(w.into_iter())); } None => out.push(0) }
                match buf { Some(b) => { out.push(1); out.push(b.len() as u64); out.push(digest(b.iter().map(|&x| x as u64))); } None => out.push(0) }
            }
        }
        drop(rq);
        // every physical entry holds two clones of its endpoint; every request still pending holds one
        out.push(((self.live.load(Ordering::SeqCst) - self.npending) / 2) as u64);
        (out, resp)
    }
}

fn run_steps(m: u64, mode: u64, steps: &[RStep], only: Option<u64>) -> Vec<u64> {
    // mode 0 / 3: one hour; mode 1: 40 ms with 200 ms sleeps; mode 2: 300 ms with 100 ms naps (only the last exchange is observed);
    // mode 4: one second with 100 ms naps, every exchange observed (idle periods are kept 200 ms or more away from the second)
    let ttl = match mode { 0 | 3 => Duration::from_secs(3600), 1 => Duration::from_millis(40), 4 => Duration::from_millis(1000), _ => Duration::from_millis(300) };
    let last_ex = steps.iter().rposition(|s| matches!(s, RStep::Ex(..)));
    let mut srv = Server::new(m, ttl);
    srv.always = mode == 3;
    let mut out = Vec::new();
    let mut after_sleep = false;
    let mut pending: Vec<(u64, Pending, Reply)> = Vec::new();
    let wanted = |tid: u64| only.map_or(true, |t| t == tid);
    for (idx, st) in steps.iter().enumerate() {
        match st {
            // (time passes in a transfer's solo run as it does in the interleaved one)
            RStep::Sleep => { std::thread::sleep(Duration::from_millis(200)); after_sleep = true; }
            RStep::Nap => { std::thread::sleep(Duration::from_millis(100)); }
            RStep::Begin(tid, p, src, rp) => {
                if !wanted(*tid) { continue; }
                match catch_unwind(AssertUnwindSafe(|| srv.begin(p, *src))) {
                    Ok(pd) => pending.push((*tid, pd, rp.clone())),
                    Err(_) => { out.push(2); out.push(9); out.push(0); return out; }
                }
            }
            RStep::End(tid) => {
                if !wanted(*tid) { continue; }
                if let Some(i) = pending.iter().position(|x| x.0 == *tid) {
                    let (_, pd, rp) = pending.remove(i);
                    match catch_unwind(AssertUnwindSafe(|| srv.end(pd, &rp))) {
                        Ok((o, _)) => { out.push(o.len() as u64); out.extend(o); }
                        Err(_) => { out.push(2); out.push(9); out.push(0); return out; }
                    }
                    after_sleep = false;
                }
            }
            RStep::Ex(tid, p, src, rp) => {
                if !wanted(*tid) { continue; }
                let r = catch_unwind(AssertUnwindSafe(|| srv.exchange(p, *src, rp)));
                match r {
                    Ok((mut o, _)) => {
                        if mode == 2 { if Some(idx) == last_ex { if let Some(x) = o.last_mut() { *x = 0; } out.push(o.len() as u64); out.extend(o); } }
                        else if mode == 4 { if let Some(x) = o.last_mut() { *x = 0; } out.push(o.len() as u64); out.extend(o); }
                        else if mode == 0 || mode == 3 || after_sleep { out.push(o.len() as u64); out.extend(o); }
                    }
                    Err(_) => { out.push(2); out.push(9); out.push(0); return out; }
                }
                after_sleep = false;
            }
        }
    }
    out
}

pub fn exec(suite: u32, input: &[u64]) -> Vec<u64> {
    let mut c = Cur::new(input);
    let m = c.n(); let mode = c.n();
    let steps = rd_steps(&mut c);
    assert!(c.done());
    if suite != 120 { return run_steps(m, mode, &steps, None); }
    let inter = run_steps(m, mode, &steps, None);
    let mut out = vec![inter.len() as u64];
    out.extend(inter);
    let mut tids: Vec<u64> = Vec::new();
    for st in steps.iter() { if let RStep::Ex(t, ..) | RStep::Begin(t, ..) = st { if !tids.contains(t) { tids.push(*t); } } }
    for t in tids { let o = run_steps(m, mode, &steps, Some(t)); out.push(o.len() as u64); out.extend(o); }
    out
}

// ------------------------------------------------------------------ building requests
fn bv(num: u64, more: bool, szx: u8) -> Vec<u8> { Vec::from(BlockValue { num: num as u16, more, size_exponent: szx }) }

#[derive(Clone)]
pub struct ReqSpec { pub code: u64, pub ty: u8, pub mid: u16, pub token: Vec<u8>, pub path: Vec<Vec<u8>>, pub extra: Vec<(u16, Vec<Vec<u8>>)>, pub b1: Option<Vec<u8>>, pub b2: Option<Vec<u8>>, pub payload: Vec<u8> }
impl ReqSpec {
    pub fn get(path: &[&str]) -> ReqSpec { ReqSpec { code: 1, ty: 0, mid: 1, token: vec![0x55], path: path.iter().map(|s| s.as_bytes().to_vec()).collect(), extra: vec![], b1: None, b2: None, payload: vec![] } }
    pub fn desc(&self) -> PktDesc {
        let mut entries: Vec<(u16, Vec<Vec<u8>>)> = Vec::new();
        if !self.path.is_empty() { entries.push((11, self.path.clone())); }
        entries.extend(self.extra.iter().cloned());
        if let Some(b) = &self.b2 { entries.push((23, vec![b.clone()])); }
        if let Some(b) = &self.b1 { entries.push((27, vec![b.clone()])); }
        PktDesc { vtt: 0x40 | (self.ty << 4) | self.token.len() as u8, class: self.code, mid: self.mid, token: self.token.clone(), entries, payload: self.payload.clone() }
    }
}
fn packet_of(d: &PktDesc) -> Packet { let mut v = Vec::new(); d.write(&mut v); let mut c = Cur::new(&v); rd_packet(&mut c) }
fn resp_block(r: &Packet, opt: CoapOption) -> Option<BlockValue> { r.get_first_option_as::<BlockValue>(opt).and_then(|x| x.ok()) }

/// plays an in-order Block2 client against the implementation and returns the requests it sent
fn play_block2(m: u64, first: &ReqSpec, src: u64, rp: &Reply, reduce_at: Option<(u64, u8)>, tid: u64) -> Vec<Step> {
    play_block2_on(m, first, src, rp, reduce_at, tid, &[])
}
/// the same after the given earlier steps have been run on the server
fn play_block2_on(m: u64, first: &ReqSpec, src: u64, rp: &Reply, reduce_at: Option<(u64, u8)>, tid: u64, earlier: &[Step]) -> Vec<Step> {
    let mut srv = Server::new(m, Duration::from_secs(3600));
    for s in earlier { if let Step::Ex(_, d, sr, r0) = s { let _ = catch_unwind(AssertUnwindSafe(|| srv.exchange(&packet_of(d), *sr, r0))); } }
    let mut steps = Vec::new();
    let mut req = first.clone();
    for i in 0..3000u64 {
        let d = req.desc();
        steps.push(Step::Ex(tid, d.clone(), src, rp.clone()));
        let r = catch_unwind(AssertUnwindSafe(|| srv.exchange(&packet_of(&d), src, rp)));
        let resp = match r { Ok((_, Some(p))) => p, _ => break };
        let b = match resp_block(&resp, CoapOption::Block2) { Some(b) => b, None => break };
        if !b.more { break; }
        let mut szx = b.size_exponent;
        let mut num = b.num as u64 + 1;
        if let Some((at, nszx)) = reduce_at { if i == at && nszx < szx { num = (b.num as u64 + 1) << (szx - nszx); szx = nszx; } }
        if num > 65535 { break; }
        req.b2 = Some(bv(num, false, szx));
        req.mid = req.mid.wrapping_add(1);
        // fresh token per request (same length): a reply must carry the token of the request it answers
        for b in req.token.iter_mut() { *b = b.wrapping_mul(31).wrapping_add(17 + i as u8); }
        // ... and, for transfers tagged by an odd message id, of another length (a counter token growing a byte)
        if first.mid % 2 == 1 { if i % 2 == 0 && req.token.len() < 8 { req.token.push(i as u8); } else if req.token.len() > 0 { req.token.pop(); } }
        // only the first request of a transfer uploads anything
        req.b1 = None; if first.code != 5 { req.payload = vec![]; }
    }
    steps
}

fn upload_steps(tid: u64, base: &ReqSpec, src: u64, body: &[u8], szx: u8, dups: &dyn Fn(usize) -> u64, upto: Option<usize>, rp: &Reply) -> Vec<Step> {
    let sz = 16usize << szx;
    let chunks: Vec<&[u8]> = if body.is_empty() { vec![&body[..]] } else { body.chunks(sz).collect() };
    let mut steps = Vec::new();
    for (k, ch) in chunks.iter().enumerate() {
        if let Some(u) = upto { if k >= u { break; } }
        let more = k + 1 < chunks.len() || upto.is_some();
        for _ in 0..dups(k) {
            let mut r = base.clone();
            r.b1 = Some(bv(k as u64, more, szx)); r.payload = ch.to_vec(); r.mid = base.mid.wrapping_add(steps.len() as u16);
            steps.push(Step::Ex(tid, r.desc(), src, rp.clone()));
        }
    }
    steps
}

fn rand_reply_opts(r: &mut Rng) -> Vec<(u16, Vec<Vec<u8>>)> {
    match r.below(7) {
        0 => vec![], 1 => vec![(12, vec![vec![40]])], 2 => vec![(4, vec![r.bytes(4)]), (14, vec![vec![60]])],
        3 => vec![(12, vec![vec![50]]), (8, vec![b"loc".to_vec(), b"x".to_vec()])],
        // repeatable options with byte-identical values, an empty value, numbers on both sides of Block2
        4 => vec![(8, vec![b"store".to_vec(), b"store".to_vec(), b"7".to_vec()]), (20, vec![b"a=1".to_vec(), b"a=1".to_vec()])],
        5 => vec![(65000, vec![vec![1], vec![2], vec![1]]), (2049, vec![vec![], vec![]])],
        _ => vec![(4, vec![vec![9], vec![9]]), (28, vec![vec![1, 0]]), (300, vec![vec![7; 14], vec![7; 14]])],
    }
}

/// non-payload size of a reply carrying these options and a token of `tkl` bytes, plus the 28 bytes the
/// properties' budget domain asks for (a 16-byte block and the 12-byte block-option allowance)
fn min_budget(opts: &[(u16, Vec<Vec<u8>>)], tkl: usize) -> u64 {
    let d = PktDesc { vtt: 0x60 | tkl as u8, class: 0x45, mid: 0, token: vec![0; tkl], entries: opts.to_vec(), payload: vec![] };
    packet_of(&d).to_bytes_unlimited().map(|b| b.len() as u64).unwrap_or(200) + 28
}

// ------------------------------------------------------------------ suite 80
pub fn gen80(tier: &str, r: &mut Rng, emit: &mut dyn FnMut(Vec<u64>)) {
    let thorough = tier == "thorough";
    let mut one = |r: &mut Rng, blen: usize, m: u64, pref: Option<u8>, reduce: Option<(u64, u8)>, tkl: usize, emit: &mut dyn FnMut(Vec<u64>)| {
        let rp = Reply { code: 0x45, opts: rand_reply_opts(r), body: r.bytes(blen) };
        let m = m.max(min_budget(&rp.opts, tkl));
        let mut first = ReqSpec::get(&["res", "b"]);
        first.token = r.bytes(tkl); first.mid = r.next() as u16;
        first.b2 = pref.map(|s| bv(0, false, s));
        let steps = play_block2(m, &first, 7, &rp, reduce, 1);
        if steps.len() * (blen + 50) < 150_000 { emit(write_case(m, if blen % 5 == 4 { 3 } else { 0 }, &steps)); }
    };
    // every body length 0..3*sz+1 for the block sizes the default budget and small budgets choose
    for szx in 0..7u8 {
        let sz = 16usize << szx;
        let m = (sz as u64 + 60).min(1280);
        let lens: Vec<usize> = if (thorough && szx < 4) || szx < 3 { (0..=3 * sz + 1).collect() } else { vec![0, 1, sz - 1, sz, sz + 1, 2 * sz - 1, 2 * sz, 2 * sz + 1, 3 * sz, 3 * sz + 1] };
        for blen in lens { one(r, blen, m, None, None, 1, emit); if blen % 5 == 0 || blen <= 1 { one(r, blen, 1152, Some(szx), None, 1, emit); } }
    }
    for blen in [5000usize, 20000] { for pref in [None, Some(6u8)] { one(r, blen, 1152, pref, None, 8, emit); } }
    one(r, 5000, 1152, Some(3), None, 8, emit);
    // 300 / 1100 requests from other endpoints between two block requests of one transfer: the follow-ups are still
    // served from the cache (nothing bounds the number of keys the handler keeps for an hour)
    for &n in (if thorough { &[40u64, 255, 256, 257, 300, 1100][..] } else { &[300u64, 1100][..] }) { for at in [1usize, 2] {
        let rp = Reply { code: 0x45, opts: vec![], body: r.bytes(300) };
        let mut first = ReqSpec::get(&["res", "b"]); first.token = vec![3]; first.mid = 500; first.b2 = Some(bv(0, false, 2));
        let t = play_block2(1152, &first, 7, &rp, None, 1);
        if t.len() <= at { continue; }
        let mut steps: Vec<Step> = t[..at].to_vec();
        for i in 0..n { let mut o = ReqSpec::get(&["other"]); o.mid = i as u16; o.token = vec![(i % 251) as u8];
            steps.push(Step::Ex(50 + i, o.desc(), 100 + i, Reply { code: 0x45, opts: vec![], body: vec![1, 2, 3] })); }
        steps.extend(t[at..].iter().cloned());
        emit(write_case(1152, 0, &steps));
    } }
    // a slow client (mode 4: the handler forgets after one second; 200 ms between requests): a transfer that lasts longer
    // than the expiry in all is still served from the cache, because every request renews its entry
    for szx in [0u8, 1] {
        let rp = Reply { code: 0x45, opts: vec![(12, vec![vec![42]])], body: r.bytes((16usize << szx) * 7 + 5) };
        let mut first = ReqSpec::get(&["res", "slow"]); first.token = vec![4, szx]; first.mid = 700; first.b2 = Some(bv(0, false, szx));
        let t = play_block2(1152, &first, 7, &rp, None, 1);
        let mut steps: Vec<Step> = Vec::new();
        for (i, st) in t.iter().enumerate() { if i > 0 { steps.push(Step::Nap); steps.push(Step::Nap); } steps.push(st.clone()); }
        emit(write_case(1152, 4, &steps));
    }
    // two transfers in a row on the same resource and endpoint (the second without / with early negotiation):
    // nothing of the first may leak into the second
    for _ in 0..(if thorough { 1000 } else { 200 }) {
        let m = r.pick(&[76u64, 140, 300, 1152]);
        let (o1, o2) = (rand_reply_opts(r), rand_reply_opts(r));
        let m = m.max(min_budget(&o1, 8)).max(min_budget(&o2, 8));
        let mut steps = Vec::new();
        for t in 1..=2u64 {
            let blen = r.pick(&[0usize, 10, 33, 64, 65, 200, 700]);
            let rp = Reply { code: 0x45, opts: if t == 1 { o1.clone() } else { o2.clone() }, body: r.bytes(blen) };
            let mut first = ReqSpec::get(&["res", "b"]);
            first.token = r.bytes_below(9); first.mid = (1000 * t) as u16;
            first.b2 = if r.chance(1, 2) { None } else { Some(bv(0, false, r.below(7) as u8)) };
            let reduce = if r.chance(1, 4) { Some((r.below(2), r.below(3) as u8)) } else { None };
            steps.extend(play_block2_on(m, &first, 7, &rp, reduce, t, &steps));
        }
        emit(write_case(m, 0, &steps));
    }
    // a transfer abandoned before its final block, the resource changes, and a new transfer starts WITHOUT Block2:
    // it must deliver the new body (the stale cache entry may not be used)
    for _ in 0..(if thorough { 600 } else { 200 }) {
        let m = r.pick(&[76u64, 140, 300, 1152]);
        let (o1, o2) = (rand_reply_opts(r), rand_reply_opts(r));
        let m = m.max(min_budget(&o1, 8)).max(min_budget(&o2, 8));
        let rp1 = Reply { code: 0x45, opts: o1, body: r.bytes_pick(&[88usize, 200, 700, 3000]) };
        let mut first = ReqSpec::get(&["res", "b"]);
        first.token = r.bytes_below(9); first.mid = 1000;
        first.b2 = if r.chance(1, 2) { None } else { Some(bv(0, false, r.below(3) as u8)) };
        let t1 = play_block2(m, &first, 7, &rp1, None, 1);
        if t1.len() < 2 { continue; }
        let keep = 1 + r.below(t1.len() as u64 - 1) as usize;
        let mut steps: Vec<Step> = t1[..keep].to_vec();
        let rp2 = Reply { code: 0x45, opts: o2, body: r.bytes_pick(&[10usize, 88, 200, 700]) };
        let mut second = ReqSpec::get(&["res", "b"]);
        second.token = r.bytes_below(9); second.mid = 2000; second.b2 = None;
        steps.extend(play_block2_on(m, &second, 7, &rp2, None, 2, &steps));
        emit(write_case(m, 0, &steps));
    }
    // the first request ends an upload (single final Block1 block) AND negotiates Block2 early; and FETCH transfers whose
    // follow-up requests repeat the request body
    for _ in 0..(if thorough { 500 } else { 150 }) {
        let opts = rand_reply_opts(r);
        let m = r.pick(&[100u64, 200, 600, 1152]).max(min_budget(&opts, 8) + 30);
        let rp = Reply { code: r.pick(&[0x45u64, 0x44]), opts, body: r.bytes_pick(&[20usize, 100, 700, 2500]) };
        let mut first = ReqSpec::get(&["res", "c"]);
        first.token = r.bytes_below(9); first.mid = r.next() as u16;
        if r.chance(1, 2) {
            first.code = r.pick(&[2u64, 3]); first.b1 = Some(bv(0, false, r.below(3) as u8)); first.payload = r.bytes_pick(&[1usize, 9, 16]);
            first.b2 = Some(bv(0, false, r.below(4) as u8));
        } else {
            first.code = 5; first.payload = r.bytes_pick(&[3usize, 12]);
            first.b2 = if r.chance(1, 2) { Some(bv(0, false, r.below(4) as u8)) } else { None };
        }
        let steps = play_block2(m, &first, 7, &rp, None, 1);
        emit(write_case(m, 0, &steps));
    }
    // early negotiation x budgets x mid-transfer reduction
    for _ in 0..(if thorough { 2_000 } else { 500 }) {
        let blen = r.pick(&[0usize, 1, 15, 16, 17, 100, 500, 1023, 1024, 1025, 3000]);
        let blen = if r.chance(1, 2) { blen } else { r.below(2500) as usize };
        let m = if r.chance(1, 2) { r.pick(&[64u64, 80, 128, 256, 512, 1024, 1152, 1280]) } else { 60 + r.below(1221) };
        let pref = if r.chance(1, 3) { None } else { Some(r.below(7) as u8) };
        let reduce = if r.chance(1, 4) { Some((r.below(3), r.below(4) as u8)) } else { None };
        let tkl = r.below(9) as usize;
        one(r, blen, m, pref, reduce, tkl, emit);
    }
}

// ------------------------------------------------------------------ suite 90
pub fn gen90(tier: &str, r: &mut Rng, emit: &mut dyn FnMut(Vec<u64>)) {
    let thorough = tier == "thorough";
    let rp = Reply { code: 0x44, opts: vec![], body: vec![] };
    let mut base = ReqSpec::get(&["up"]); base.code = 3;
    for szx in 0..7u8 {
        // POST, PUT, FETCH, PATCH, iPATCH: block-wise uploads are not tied to a method
        base.code = [2u64, 3, 5, 6, 7][szx as usize % 5];
        let sz = 16usize << szx;
        let mut lens: Vec<usize> = vec![0, 1, sz - 1, sz, sz + 1, 2 * sz - 1, 2 * sz, 2 * sz + 1, 3 * sz + 5];
        if thorough || szx == 0 { lens.extend(0..=(3 * sz + 1)); }
        for blen in lens { if blen > 5000 { continue; }
            for variant in 0..4u64 {
                let body = r.bytes(blen);
                let nblocks = if blen == 0 { 1 } else { (blen + sz - 1) / sz };
                // duplicates only of non-final blocks here (the duplicated final block is the known finding, below)
                let dupk = r.below(nblocks as u64) as usize;
                let dupn = 1 + r.below(3);
                let dups = move |k: usize| if variant >= 1 && k == dupk && k + 1 < nblocks { dupn } else { 1 };
                let mut steps = Vec::new();
                if variant >= 2 {
                    // an abandoned earlier upload to the same resource: other body, possibly other block size
                    let oszx = if variant == 3 { r.below(7) as u8 } else { szx };
                    let onb = 1 + r.below(6) as usize;
                    let obody = r.bytes((16usize << oszx) * onb + 3);
                    let upto = 1 + r.below(6) as usize;
                    steps.extend(upload_steps(9, &base, 7, &obody, oszx, &|_| 1, Some(upto), &rp));
                }
                steps.extend(upload_steps(1, &base, 7, &body, szx, &dups, None, &rp));
                emit(write_case(1152, if (blen + variant as usize) % 4 == 3 { 3 } else { 0 }, &steps));
            }
        }
    }
    // an abandoned upload with one Content-Format (or none), then a complete upload with another
    for _ in 0..(if thorough { 600 } else { 60 }) {
        let szx = r.below(3) as u8; let sz = 16usize << szx;
        let mut b = base.clone(); b.code = r.pick(&[2u64, 3, 5, 6, 7]);
        let cfs: [Option<u8>; 4] = [None, Some(0), Some(50), Some(60)];
        let (c1, c2) = (r.pick(&cfs), r.pick(&cfs));
        let mut a = b.clone(); if let Some(c) = c1 { a.extra.push((12, vec![if c == 0 { vec![] } else { vec![c] }])); }
        let mut n = b.clone(); if let Some(c) = c2 { n.extra.push((12, vec![if c == 0 { vec![] } else { vec![c] }])); }
        let old = r.bytes(sz * 3 + 1);
        let upto = 1 + r.below(3) as usize;
        let mut steps = upload_steps(9, &a, 7, &old, szx, &|_| 1, Some(upto), &rp);
        let nb = 1 + r.below(3) as usize;
        let body = r.bytes(sz * nb + 5);
        steps.extend(upload_steps(1, &n, 7, &body, szx, &|_| 1, None, &rp));
        emit(write_case(1152, 0, &steps));
    }
    // uploads whose answer is too large for one message (it leaves block-wise), whose requests also name a Block2 size,
    // and uploads that start while a response of an earlier exchange on the same resource is still cached
    for _ in 0..(if thorough { 3000 } else { 400 }) {
        let szx = r.below(3) as u8; let sz = 16usize << szx;
        let mut b = base.clone(); b.code = r.pick(&[2u64, 3, 5, 6, 7]); b.token = r.bytes_below(9);
        let big = Reply { code: r.pick(&[0x44u64, 0x41, 0x45]), opts: rand_reply_opts(r), body: r.bytes_pick(&[0usize, 40, 1300, 3000]) };
        let mut steps = Vec::new();
        let stale = r.chance(1, 2);
        if stale {
            // an earlier exchange on the same key whose large answer was never fetched to the end
            let mut s0 = b.clone(); s0.mid = 77; s0.payload = r.bytes_pick(&[0usize, 3]);
            if r.chance(1, 2) { s0.b2 = Some(bv(0, false, r.below(3) as u8)); }
            steps.push(Step::Ex(9, s0.desc(), 7, Reply { code: 0x45, opts: vec![], body: r.bytes(3000) }));
        }
        let nb = 1 + r.below(3) as usize;
        let tail = 1 + r.below(sz as u64) as usize;
        let body = r.bytes(sz * (nb - 1) + tail);
        let mut up = upload_steps(1, &b, 7, &body, szx, &|_| 1, None, &big);
        // 0: none, 1: on the final request, 2: on every request, 3: on the non-final ones.  (A request that carries a
        // Block2 option while an unfinished response is cached for its key CONTINUES that transfer -- the limitation C08's
        // domain states; a final upload block is such a request, so after the stale exchange it carries none.)
        let hint = if stale { r.pick(&[0u64, 3]) } else { r.below(4) };
        let n = up.len();
        for (i, st) in up.iter_mut().enumerate() {
            let fin = i + 1 == n;
            if hint == 2 || (hint == 1 && fin) || (hint == 3 && !fin) {
                if let Step::Ex(_, d, _, _) = st { d.entries.push((23, vec![bv(0, false, r.below(5) as u8)])); d.entries.sort_by_key(|e| e.0); }
            }
        }
        steps.extend(up);
        emit(write_case(1152, if r.chance(1, 4) { 3 } else { 0 }, &steps));
    }
    // the final block delivered twice (known finding D11)
    for blen in [21usize, 40, 16] { let body = r.bytes(blen); let n = (blen + 15) / 16;
        let steps = upload_steps(1, &base, 7, &body, 0, &move |k| if k + 1 == n { 2 } else { 1 }, None, &rp);
        emit(write_case(1152, 0, &steps)); }
    // too large for the budget and no Block1: 4.13 with a size hint
    for _ in 0..(if thorough { 3000 } else { 300 }) {
        let m = 64 + r.below(1100);
        let mut q = base.clone(); let extra = r.below(400); q.payload = r.bytes((m + extra) as usize); q.token = r.bytes_below(9);
        emit(write_case(m, 0, &[Step::Ex(8, q.desc(), 7, rp.clone())]));
    }
    // the same after an abandoned upload or an earlier refusal on the same resource whose requests had SHORTER options
    // (Uri-Query is not part of the key): the refusal depends on the request at hand only
    for _ in 0..(if thorough { 2000 } else { 200 }) {
        let mut b = base.clone(); b.code = r.pick(&[2u64, 3, 5, 6, 7]); b.token = r.bytes_below(9);
        let mut q = b.clone(); q.mid = 9;
        let ql = 20 + r.below(40) as usize;
        q.extra.push((15, vec![r.bytes(ql)]));
        let oh = packet_of(&q.desc()).to_bytes_unlimited().unwrap().len() as u64;
        // a budget that still admits a 16-byte block for the request with the long options
        let m = (64 + r.below(400)).max(oh + 28);
        let mut steps = Vec::new();
        if r.chance(1, 2) {
            let body = r.bytes(16 * 3 + 5);
            let upto = 1 + r.below(2) as usize;
            steps.extend(upload_steps(9, &b, 7, &body, 0, &|_| 1, Some(upto), &rp));
        } else {
            let mut q0 = b.clone(); q0.payload = r.bytes((m + 10) as usize); q0.mid = 3;
            steps.push(Step::Ex(9, q0.desc(), 7, rp.clone()));
        }
        // just over the budget with the long options, under it with the short ones
        let over = 1 + r.below(12);
        q.payload = r.bytes((m + over - oh) as usize);
        steps.push(Step::Ex(8, q.desc(), 7, rp.clone()));
        emit(write_case(m, 0, &steps));
    }
}

// ------------------------------------------------------------------ suite 100
pub fn gen100(tier: &str, r: &mut Rng, emit: &mut dyn FnMut(Vec<u64>)) {
    let thorough = tier == "thorough";
    for _ in 0..(if thorough { 15_000 } else { 2_500 }) {
        let mut first = ReqSpec::get(&["r"]);
        first.token = r.bytes_below(9);
        let pl = r.pick(&[0usize, 1, 3, 20, 100]);
        first.path = vec![r.bytes(pl).iter().map(|b| b'a' + b % 26).collect()];
        if r.chance(1, 3) { first.extra.push((15, vec![b"q=1".to_vec(), r.bytes_below(30)])); }
        let overhead = packet_of(&first.desc()).to_bytes_unlimited().unwrap().len() as u64;
        let ropts = rand_reply_opts(r);
        // response overhead is what counts for Block2; aim the budget at a band around overhead + 12 + 2^k
        let k = 4 + r.below(7);
        let m = match r.below(4) { 0 => (overhead + 12 + (1 << k)).saturating_sub(3) + r.below(7), 1 => overhead + 28 + r.below(8), 2 => 1277 + r.below(4), _ => overhead + 28 + r.below(1280 - overhead - 28 + 1) };
        let m = m.min(1283);
        let rp = Reply { code: r.pick(&[0x45u64, 0x45, 0x44, 0x80, 0x84, 0xA0, 0x5F]), opts: ropts, body: r.bytes_pick(&[0usize, 10, 100, 600, 1300, 3000]) };
        if r.chance(2, 3) {
            first.b2 = if r.chance(1, 2) { Some(bv(0, false, r.below(8) as u8)) } else { None };
            let steps = play_block2(m, &first, 7, &rp, None, 1);
            let n = steps.len().min(6);
            emit(write_case(m, 0, &steps[..n]));
        } else {
            // upload blocks: the acknowledged size must let the next block fit
            first.code = 3;
            let szx = r.below(8) as u8;
            let body = r.bytes_pick(&[40usize, 300, 2100]);
            let steps = upload_steps(1, &first, 7, &body, szx.min(6), &|_| 1, None, &Reply { code: 0x44, opts: vec![], body: vec![] });
            let n = steps.len().min(4);
            emit(write_case(m, 0, &steps[..n]));
        }
    }
    // replies whose unfragmented message lands exactly on / around the budget (the client names no block size, or one
    // that is larger than the body): the decision to fragment is made on the complete message, marker included
    for _ in 0..(if thorough { 4_000 } else { 600 }) {
        let mut first = ReqSpec::get(&["edge"]);
        first.token = r.bytes_below(9);
        let ropts = rand_reply_opts(r);
        let resp_oh = min_budget(&ropts, first.token.len()) - 28;
        let m = (resp_oh + 28 + r.below(300)).min(1280);
        let d = r.pick(&[-14i64, -13, -12, -11, -2, -1, 0, 1, 2]);
        let blen = (m as i64 - resp_oh as i64 - 1 + d).max(0) as usize;
        let rp = Reply { code: r.pick(&[0x45u64, 0x45, 0x44]), opts: ropts, body: r.bytes(blen) };
        first.b2 = if r.chance(2, 3) { None } else { Some(bv(0, false, 6)) };
        let steps = play_block2(m, &first, 7, &rp, None, 1);
        let n = steps.len().min(3);
        emit(write_case(m, 0, &steps[..n]));
    }
    // only (final) block uploads at the client's largest sizes, incl. the reserved exponent 7, at small and large budgets
    for _ in 0..(if thorough { 6_000 } else { 400 }) {
        let mut base = ReqSpec::get(&["f"]);
        base.code = r.pick(&[2u64, 3, 7]); base.token = r.bytes_below(9);
        let overhead = packet_of(&base.desc()).to_bytes_unlimited().unwrap().len() as u64 + 4;
        let body = r.bytes_pick(&[1usize, 10, 40]);
        let m = (overhead + 28 + body.len() as u64 + r.below(200)).min(1280);
        let szx = 2 + r.below(6) as u8;
        let steps = upload_steps(1, &base, 7, &body, szx, &|_| 1, None, &Reply { code: 0x44, opts: vec![], body: vec![] });
        emit(write_case(m, 0, &steps));
    }
    // a slow resource: the request names a block size, then 1..1100 exchanges on OTHER keys complete before its own
    // application answers; the reply must still be cut to the size this request named
    for &n in (if thorough { &[1u64, 2, 50, 1023, 1024, 1100, 2000][..] } else { &[1u64, 60, 1100][..] }) { for szx in [0u8, 2] {
        let mut q = ReqSpec::get(&["slow"]); q.b2 = Some(bv(0, false, szx)); q.token = vec![7, szx];
        let rp = Reply { code: 0x45, opts: vec![], body: r.bytes(1500) };
        let mut steps = vec![Step::Begin(1, q.desc(), 7, rp)];
        for i in 0..n { let mut o = ReqSpec::get(&["quick"]); o.mid = i as u16; o.token = vec![(i % 251) as u8];
            steps.push(Step::Ex(50 + i, o.desc(), 100 + i, Reply { code: 0x45, opts: vec![], body: vec![1, 2, 3] })); }
        steps.push(Step::End(1));
        emit(write_case(128, 0, &steps));
    } }
    // requests assembled by hand, without a source endpoint: the client's Block2 size binds all the same
    for m in [64u64, 128, 300, 1152] { for szx in 0..5u8 { for tkl in [0usize, 4] {
        let mut q = ReqSpec::get(&["nosrc"]); q.b2 = Some(bv(0, false, szx)); q.token = r.bytes(tkl);
        let rp = Reply { code: 0x45, opts: vec![], body: r.bytes(3000) };
        emit(write_case(m, 2, &[Step::Ex(1, q.desc(), 77_777_777, rp)]));
    } } }
    // a body of more than 65 536 blocks at the size the client named (1 MiB + 1 at 16 bytes): the handler still uses
    // that size, even though the last blocks' numbers do not fit the option
    for blen in [1048576usize, 1048577] {
        let mut q = ReqSpec::get(&["huge"]); q.b2 = Some(bv(0, false, 0)); q.token = vec![1, 2, 3, 4];
        // (a fixed pattern, so that the shared random stream of the later cases is what it was)
        let rp = Reply { code: 0x45, opts: vec![], body: (0..blen).map(|i| (i * 31 + 7) as u8).collect() };
        emit(write_case(64, 0, &[Step::Ex(1, q.desc(), 7, rp)]));
    }
    // a request that ends an upload AND names a Block2 size for the (large) reply: the reply's block must not exceed it
    for _ in 0..(if thorough { 6_000 } else { 400 }) {
        let mut base = ReqSpec::get(&["u"]);
        base.code = r.pick(&[2u64, 3, 5]);
        base.token = r.bytes_below(9);
        let overhead = packet_of(&base.desc()).to_bytes_unlimited().unwrap().len() as u64;
        let m = (overhead + 40 + r.below(1280 - overhead - 40 + 1)).min(1280);
        let szx1 = r.below(3) as u8;
        let nblocks = 1 + r.below(3) as usize;
        let blen = (16usize << szx1) * (nblocks - 1) + 1 + r.below(16 << szx1) as usize;
        let body = r.bytes(blen);
        let rp = Reply { code: 0x44, opts: rand_reply_opts(r), body: r.bytes_pick(&[100usize, 600, 1300, 3000]) };
        let mut steps = upload_steps(1, &base, 7, &body, szx1, &|_| 1, None, &rp);
        let hint = r.below(7) as u8;
        if let Some(Step::Ex(_, d, _, _)) = steps.last_mut() { d.entries.push((23, vec![bv(0, false, hint)])); d.entries.sort_by_key(|e| e.0); }
        emit(write_case(m, 0, &steps));
    }
}

// ------------------------------------------------------------------ suite 110
pub fn gen110(tier: &str, r: &mut Rng, emit: &mut dyn FnMut(Vec<u64>)) {
    let thorough = tier == "thorough";
    let keys: [(u64, u64, &[&str]); 4] = [(7, 3, &["a"]), (7, 1, &["a"]), (8, 3, &["a"]), (7, 2, &["a", "b"])];
    for _ in 0..(if thorough { 12_000 } else { 2_500 }) {
        let m = match r.below(5) { 0 => r.below(65), 1 => 1152, 2 => r.below(5001), 3 => r.pick(&[0u64, 12, 16, 17, 28, 29, 1280, 1281]), _ => 20 + r.below(60) };
        // "unlimited" budgets: the largest value the configuration admits and its neighbourhood, and other huge ones
        let m = if r.chance(1, 16) { r.pick(&[u64::MAX, u64::MAX - 1, u64::MAX - 12, u64::MAX - 1300, 1u64 << 63, (1u64 << 63) - 1, 1u64 << 32, u32::MAX as u64, (1u64 << 31) - 1]) } else { m };
        let n = 1 + r.below(6);
        let mut steps = Vec::new();
        for i in 0..n {
            let (tid, &(src, code, path)) = { let i = r.below(4) as usize; (i as u64, &keys[i]) };
            let mut q = ReqSpec::get(path); q.code = code; q.mid = i as u16; q.ty = r.pick(&[0u8, 0, 0, 1, 2, 3]);
            q.token = r.bytes_below(9);
            // a code that is no method (0.00 with a payload, a response code, a reserved one): all of them read as the unknown
            // method, i.e. ONE further cache key per (endpoint, path)
            let tid = if r.chance(1, 8) { q.code = r.pick(&[0u64, 0, 0x45, 0x1F, 0xFF]); 100 + if tid == 1 { 0 } else { tid } } else { tid };
            if r.chance(1, 4) { let bloat = r.pick(&[10usize, 200, 1100, 1270, 1300, 1400]); q.extra.push((r.pick(&[15u16, 35, 2000]), vec![r.bytes(bloat)])); }
            // size announcements (Size1 / Size2) of every shape: empty, zero, padded zero, small, huge, too long
            if r.chance(1, 4) { let v = r.pick(&[&[][..], &[0][..], &[0, 0][..], &[0, 0, 0, 0][..], &[1][..], &[0x40, 0][..], &[0xFF, 0xFF, 0xFF, 0xFF][..], &[1, 2, 3, 4, 5][..]]).to_vec();
                                q.extra.push((r.pick(&[60u16, 60, 28]), vec![v])); q.extra.sort_by_key(|e| e.0); }
            let num = r.pick(&[0u64, 1, 2, 100, 4095, 4096, 65535]);
            let blk = |r: &mut Rng| -> Vec<u8> { match r.below(6) { 0 => r.bytes_below(5), _ => bv(r.pick(&[0u64, 1, 2, 100, 4095, 4096, 65535]), r.chance(1, 2), r.below(8) as u8) } };
            let _ = num;
            if r.chance(1, 2) { q.b1 = Some(blk(r)); }
            if r.chance(1, 3) { q.b2 = Some(blk(r)); }
            q.payload = r.bytes_pick(&[0usize, 1, 16, 17, 64, 500, 1024, 1200]);
            let mut rp = Reply { code: r.pick(&[0x45u64, 0x44, 0x84, 0]), opts: rand_reply_opts(r), body: r.bytes_pick(&[0usize, 10, 1000, 1300, 10000]) };
            if r.chance(1, 8) { rp.opts.push((r.pick(&[35u16, 20]), vec![r.bytes_pick(&[300usize, 1300])])); }
            if r.chance(1, 10) { rp.opts.push((23, vec![bv(r.below(4), r.chance(1, 2), r.below(8) as u8)])); }
            steps.push(Step::Ex(tid, q.desc(), src, rp));
        }
        emit(write_case(m, 0, &steps));
    }
    // directed: the 16 KiB jump boundary, with a completing block afterwards
    for jump in [16383u64, 16384, 16385, 16400, 32768] { for szx in [0u8, 6] {
        let sz = 16u64 << szx;
        let mut q = ReqSpec::get(&["a"]); q.code = 3;
        let mut steps = Vec::new();
        let mut a = q.clone(); a.b1 = Some(bv(0, true, szx)); a.payload = vec![1; sz as usize]; steps.push(Step::Ex(0, a.desc(), 7, Reply::default()));
        let num = (sz + jump) / sz;
        let mut b = q.clone(); b.b1 = Some(bv(num, true, szx)); b.payload = vec![2; sz as usize]; b.mid = 2; steps.push(Step::Ex(0, b.desc(), 7, Reply::default()));
        let mut c = q.clone(); c.b1 = Some(bv(1, false, szx)); c.payload = vec![3; 5]; c.mid = 3; steps.push(Step::Ex(0, c.desc(), 7, Reply { code: 0x44, ..Default::default() }));
        emit(write_case(1152, 0, &steps));
    } }
    // directed: payloads longer than the declared block size, jump lengths around 16 KiB (+ the payload length)
    for (n1, s1, pl) in [(100u64, 2u8, 1100usize), (3, 0, 700), (0, 6, 1200)] {
        let buflen1 = n1 * (16u64 << s1) + pl as u64;
        for d in -40i64..1300 {
            let off2 = buflen1 as i64 + 16384 + d - 16;
            if off2 % 16 != 0 || off2 / 16 > 65535 { continue; }
            let mut q = ReqSpec::get(&["a"]); q.code = 3;
            let mut a = q.clone(); a.b1 = Some(bv(n1, true, s1)); a.payload = vec![1; pl];
            let mut b = q.clone(); b.b1 = Some(bv((off2 / 16) as u64, true, 0)); b.payload = vec![2; pl]; b.mid = 2;
            let mut c = q.clone(); c.b1 = Some(bv(0, false, 0)); c.payload = vec![3; 5]; c.mid = 3;
            emit(write_case(1152, 0, &[Step::Ex(0, a.desc(), 7, Reply::default()), Step::Ex(0, b.desc(), 7, Reply::default()), Step::Ex(0, c.desc(), 7, Reply { code: 0x44, ..Default::default() })]));
        }
    }
    // directed: budgets around the request's overhead (division by the negotiated size)
    for d in 0..40u64 { for with_b1 in [false, true] {
        let mut q = ReqSpec::get(&["a"]); q.code = 3; q.payload = vec![9; 30];
        if with_b1 { q.b1 = Some(bv(0, true, 2)); }
        let overhead = packet_of(&q.desc()).to_bytes_unlimited().unwrap().len() as u64 - 30;
        emit(write_case(overhead + d, 0, &[Step::Ex(0, q.desc(), 7, Reply { code: 0x44, ..Default::default() })]));
    } }
}

// ------------------------------------------------------------------ suite 120
fn interleavings(lens: &[usize], cur: &mut Vec<usize>, pos: &mut Vec<usize>, out: &mut Vec<Vec<usize>>, cap: usize) {
    if out.len() >= cap { return; }
    if pos.iter().zip(lens).all(|(p, l)| p == l) { out.push(cur.clone()); return; }
    for t in 0..lens.len() { if pos[t] < lens[t] { pos[t] += 1; cur.push(t); interleavings(lens, cur, pos, out, cap); cur.pop(); pos[t] -= 1; } }
}

pub fn gen120(tier: &str, r: &mut Rng, emit: &mut dyn FnMut(Vec<u64>)) {
    let thorough = tier == "thorough";
    // pairs/triples of keys differing in exactly one of endpoint / method / path
    let variants: Vec<Vec<(u64, u64, Vec<&str>)>> = vec![
        vec![(7, 1, vec!["a", "b"]), (8, 1, vec!["a", "b"])],
        vec![(7, 1, vec!["a", "b"]), (7, 5, vec!["a", "b"])],
        vec![(7, 1, vec!["a", "b"]), (7, 1, vec!["a/b"])],
        vec![(7, 1, vec!["a"]), (7, 1, vec!["a", "b"])],
        vec![(7, 3, vec![]), (7, 3, vec!["a"])],
        vec![(7, 3, vec!["a", "b"]), (7, 3, vec!["a/b"]), (8, 3, vec!["a", "b"])],
        vec![(7, 1, vec!["x"]), (7, 2, vec!["x"]), (7, 1, vec!["x", ""])],
        vec![(7, 1, vec!["costarring"]), (7, 1, vec!["liquid"])],
        vec![(7, 3, vec!["declinate", "v2"]), (7, 3, vec!["macallums", "v2"])],
        vec![(7, 1, vec!["altarage"]), (7, 1, vec!["zinke"]), (7, 1, vec!["playwright"])],
    ];
    for (vi, keyset) in variants.iter().enumerate() {
        for round in 0..(if thorough { 4 } else { 2 }) {
            let mut transfers: Vec<Vec<Step>> = Vec::new();
            for (t, (src, code, path)) in keyset.iter().enumerate() {
                let mut q = ReqSpec::get(&path[..]); q.code = *code; q.token = vec![t as u8 + 1, round as u8]; q.mid = (100 * (t + 1)) as u16 + (round % 2) as u16;   // odd ids: the client's token changes length between requests
                let upload = *code == 3 || (*code == 2 && round % 2 == 0);
                let steps = if upload {
                    let body = r.bytes(16 * 3 + 5 + t);
                    upload_steps(t as u64, &q, *src, &body, 0, &|_| 1, None, &Reply { code: 0x44, opts: vec![], body: vec![t as u8; 3] })
                } else {
                    let rp = Reply { code: 0x45, opts: vec![(12, vec![vec![t as u8]])], body: r.bytes(16 * (3 + (t + round) % 2) + 3) };
                    q.b2 = if round % 2 == 1 { Some(bv(0, false, 0)) } else { None };
                    play_block2(16 + 60, &q, *src, &rp, None, t as u64)
                };
                let n = steps.len().min(if keyset.len() == 3 { 3 } else { 5 });
                transfers.push(steps[..n].to_vec());
            }
            let lens: Vec<usize> = transfers.iter().map(|t| t.len()).collect();
            let mut all = Vec::new();
            interleavings(&lens, &mut Vec::new(), &mut vec![0; lens.len()], &mut all, if thorough { 1500 } else { 300 });
            let stride = if thorough { 1 } else { (all.len() / 60).max(1) };
            for (i, order) in all.iter().enumerate() {
                if i % stride != 0 && i + 1 != all.len() { continue; }
                let mut pos = vec![0usize; lens.len()];
                let steps: Vec<Step> = order.iter().map(|&t| { let s = transfers[t][pos[t]].clone(); pos[t] += 1; s }).collect();
                emit(write_case(16 + 60, 0, &steps));
            }
            // every exchange split in two (request seen / application answers), the halves of different transfers nested:
            // A.begin B.begin A.end B.end ... -- another transfer's exchange falls between a request and its own response
            if transfers.len() >= 2 {
                let n = transfers.iter().map(|t| t.len()).min().unwrap();
                for nest in 0..2 {
                    let mut steps: Vec<Step> = Vec::new();
                    for i in 0..n {
                        let row: Vec<&Step> = transfers.iter().map(|t| &t[i]).collect();
                        for st in row.iter() { if let Step::Ex(t, d, sr, rp) = st { steps.push(Step::Begin(*t, d.clone(), *sr, rp.clone())); } }
                        let order: Vec<usize> = if nest == 0 { (0..row.len()).collect() } else { (0..row.len()).rev().collect() };
                        for k in order { if let Step::Ex(t, ..) = row[k] { steps.push(Step::End(*t)); } }
                    }
                    emit(write_case(16 + 60, 0, &steps));
                }
            }
            let _ = vi;
        }
    }
    // path segments longer than 255 bytes (the codec carries them): keys that only differ where a one-byte length
    // would be clamped or wrap
    {
        let head: &'static str = Box::leak("x".repeat(255).into_boxed_str());
        let tail: &'static str = Box::leak("y".repeat(44).into_boxed_str());
        let joined: &'static str = Box::leak(format!("{},{}", head, tail).into_boxed_str());
        let long300: &'static str = Box::leak("z".repeat(300).into_boxed_str());
        let long300b: &'static str = Box::leak(format!("{}w", "z".repeat(299)).into_boxed_str());
        let sets: Vec<Vec<(u64, u64, Vec<&str>)>> = vec![
            vec![(7, 1, vec!["fw", joined]), (7, 1, vec!["fw", head, tail])],
            vec![(7, 1, vec![long300]), (7, 1, vec![long300b])],
            vec![(7, 1, vec![head, "a"]), (7, 1, vec![head]), (7, 1, vec![joined])],
        ];
        for keyset in sets.iter() {
            let mut transfers: Vec<Vec<Step>> = Vec::new();
            for (t, (src, code, path)) in keyset.iter().enumerate() {
                let mut q = ReqSpec::get(&path[..]); q.code = *code; q.token = vec![t as u8 + 1]; q.mid = (100 * (t + 1)) as u16;
                let rp = Reply { code: 0x45, opts: vec![(12, vec![vec![t as u8]])], body: r.bytes(16 * (3 + t % 2) + 3) };
                q.b2 = Some(bv(0, false, 0));
                let steps = play_block2(16 + 60, &q, *src, &rp, None, t as u64);
                let n = steps.len().min(3);
                transfers.push(steps[..n].to_vec());
            }
            let lens: Vec<usize> = transfers.iter().map(|t| t.len()).collect();
            let mut all = Vec::new();
            interleavings(&lens, &mut Vec::new(), &mut vec![0; lens.len()], &mut all, 200);
            let stride = (all.len() / 12).max(1);
            for (i, order) in all.iter().enumerate() {
                if i % stride != 0 && i + 1 != all.len() { continue; }
                let mut pos = vec![0usize; lens.len()];
                let steps: Vec<Step> = order.iter().map(|&t| { let s = transfers[t][pos[t]].clone(); pos[t] += 1; s }).collect();
                emit(write_case(16 + 60, 0, &steps));
            }
        }
    }
    // time (mode 4: the handler forgets after one second; naps of 100 ms): a transfer that pauses for longer than that
    // loses its state whether or not ANOTHER transfer (other endpoint / method / path) uses the handler during the pause,
    // and one that pauses for less keeps it either way
    for (vi, (bsrc, bcode, bpath)) in [(8u64, 3u64, vec!["up"]), (7, 2, vec!["up"]), (7, 3, vec!["other"])].iter().enumerate() {
        for long_pause in [true, false] { for download in [false, true] {
            if !thorough && !long_pause && vi > 0 { continue; }
            let mut a = ReqSpec::get(&["up"]); a.code = if download { 1 } else { 3 }; a.token = vec![1];
            let ta: Vec<Step> = if download {
                a.b2 = Some(bv(0, false, 0));
                play_block2(16 + 60, &a, 7, &Reply { code: 0x45, opts: vec![], body: r.bytes(16 * 3 + 3) }, None, 0)
            } else {
                let body = r.bytes(16 * 2 + 5);
                upload_steps(0, &a, 7, &body, 0, &|_| 1, None, &Reply { code: 0x44, opts: vec![], body: vec![1] })
            };
            if ta.len() < 3 { continue; }
            let mut b = ReqSpec::get(&bpath[..]); b.code = *bcode; b.token = vec![2]; b.mid = 900;
            let tb = upload_steps(1, &b, *bsrc, &r.bytes(16 * 2 + 1), 0, &|_| 1, None, &Reply { code: 0x44, opts: vec![], body: vec![2] });
            // 1200 ms or 400 ms in all: a sleep never returns early, so the long pause is always longer than the second;
            // the short one would have to overshoot by 600 ms to reach it.  The bystander's own exchanges are adjacent.
            let half = if long_pause { 6 } else { 2 };
            let mut steps: Vec<Step> = ta[..2].to_vec();
            for _ in 0..half { steps.push(Step::Nap); }
            steps.push(tb[0].clone());
            steps.push(tb[1].clone());
            for _ in 0..half { steps.push(Step::Nap); }
            steps.push(ta[2].clone());
            emit(write_case(16 + 60, 4, &steps));
        } }
    }
}

// ------------------------------------------------------------------ suite 200
pub fn gen200(tier: &str, r: &mut Rng, emit: &mut dyn FnMut(Vec<u64>)) {
    let thorough = tier == "thorough";
    let other = |i: u64| -> Step { let mut q = ReqSpec::get(&["other"]); q.mid = i as u16; q.token = vec![(i % 251) as u8];
        Step::Ex(50 + i, q.desc(), 100 + i, Reply { code: 0x45, opts: vec![], body: vec![1, 2, 3] }) };
    // retention: expiry of one hour, 1..2000 intervening requests on other keys
    for &n in (if thorough { &[1u64, 2, 10, 100, 500, 1023, 1024, 2000][..] } else { &[1u64, 7, 150, 1100, 2000][..] }) { for kind in 0..2 {
        let mut steps = Vec::new();
        let mut q = ReqSpec::get(&["ke", "ep"]);
        if kind == 0 {
            let rp = Reply { code: 0x45, opts: vec![], body: r.bytes(100) };
            q.b2 = Some(bv(0, false, 0));
            steps.push(Step::Ex(1, q.desc(), 7, rp.clone()));
            for i in 0..n { steps.push(other(i)); }
            for (j, (code, rc)) in [(3u64, 0x44u64), (2, 0x41), (4, 0x42), (5, 0x45)].iter().enumerate() {
                let mut o = q.clone(); o.code = *code; o.b2 = None; o.mid = 60 + j as u16; o.token = vec![8, j as u8];
                if *code != 4 { o.payload = vec![1, 2]; }
                steps.push(Step::Ex(41 + j as u64, o.desc(), 7, Reply { code: *rc, opts: vec![], body: vec![] }));
            }
            // a different resource whose joined path reads the same, requested by the same endpoint with the same method
            { let mut o = ReqSpec::get(&["ke/ep"]); o.mid = 77; o.token = vec![9]; steps.push(Step::Ex(40, o.desc(), 7, Reply { code: 0x45, opts: vec![], body: r.bytes(if n % 2 == 1 { 3000 } else { 50 }) })); }
            let mut f = q.clone(); f.b2 = Some(bv(1, false, 0)); f.mid = 9; steps.push(Step::Ex(1, f.desc(), 7, rp));
        } else {
            q.code = 3;
            let body = r.bytes(16 * 2 + 7);
            let up = upload_steps(1, &q, 7, &body, 0, &|_| 1, None, &Reply { code: 0x44, ..Default::default() });
            steps.extend(up[..2].iter().cloned());
            for i in 0..n { steps.push(other(i)); }
            for (j, code) in [2u64, 5, 6, 7].iter().enumerate() {
                let mut o = q.clone(); o.code = *code; o.mid = 60 + j as u16; o.token = vec![8, j as u8];
                o.b1 = Some(bv(0, true, 0)); o.payload = vec![j as u8; 16];
                steps.push(Step::Ex(41 + j as u64, o.desc(), 7, Reply::default()));
            }
            { let mut o = ReqSpec::get(&["ke/ep"]); o.code = 3; o.mid = 77; o.token = vec![9]; o.payload = vec![1, 2, 3]; if n % 2 == 1 { o.b1 = Some(bv(0, false, 0)); } steps.push(Step::Ex(40, o.desc(), 7, Reply { code: 0x44, ..Default::default() })); }
            steps.push(up[2].clone());
        }
        emit(write_case(1152, 0, &steps));
    } }
    // expiry: short duration, idle for several times the duration, then the follow-up; 1..50 abandoned transfers
    for &abandoned in (if thorough { &[1u64, 2, 5, 20, 50][..] } else { &[1u64, 12][..] }) { for kind in 0..6 {
        let mut steps = Vec::new();
        let mut q = ReqSpec::get(&["gone"]);
        let rp = Reply { code: 0x45, opts: vec![], body: r.bytes(100) };
        for i in 0..abandoned { let mut a = ReqSpec::get(&["ab"]); a.code = 3; a.b1 = Some(bv(0, true, 0)); a.payload = vec![5; 16]; a.mid = i as u16;
            steps.push(Step::Ex(20 + i, a.desc(), 200 + i, Reply::default())); }
        if kind == 0 {
            q.b2 = Some(bv(0, false, 0)); steps.push(Step::Ex(1, q.desc(), 7, rp.clone()));
            steps.push(Step::Sleep);
            let mut f = q.clone(); f.b2 = Some(bv(1, false, 0)); f.mid = 9; steps.push(Step::Ex(1, f.desc(), 7, Reply { code: 0x45, opts: vec![], body: r.bytes(10) }));
        } else if kind < 3 {
            q.code = 3; let body = r.bytes(16 * 2 + 7);
            let up = upload_steps(1, &q, 7, &body, 0, &|_| 1, None, &Reply { code: 0x44, ..Default::default() });
            steps.extend(up[..2].iter().cloned());
            steps.push(Step::Sleep);
            steps.push(if kind == 1 { up[2].clone() } else { up[1].clone() });
        } else {
            // only ordinary traffic after the idle period: a plain request on a new key, small reply
            q.b2 = Some(bv(0, false, 0)); steps.push(Step::Ex(1, q.desc(), 7, rp.clone()));
            steps.push(Step::Sleep);
            let mut f = ReqSpec::get(&["plain"]); f.mid = 9; if kind == 4 { f.code = 2; f.payload = r.bytes(5); }
            steps.push(Step::Ex(2, f.desc(), if kind == 5 { 7 } else { 8 }, Reply { code: 0x45, opts: vec![], body: r.bytes(10) }));
        }
        emit(write_case(1152, 1, &steps));
    } }
    // a server that drops a request after intercept_request (its application never answers, intercept_response is never
    // called for it): the key's state still expires on time
    for kind in 0..4 {
        let mut steps = Vec::new();
        let mut q = ReqSpec::get(&["parked"]);
        if kind < 2 {
            let rp = Reply { code: 0x45, opts: vec![], body: r.bytes(100) };
            q.b2 = Some(bv(0, false, 0)); steps.push(Step::Ex(1, q.desc(), 7, rp.clone()));
            // a further request on the same key that goes to the application (no Block2 option), never answered
            let mut g = q.clone(); g.b2 = None; g.mid = 5; g.token = vec![6];
            steps.push(Step::Begin(2, g.desc(), 7, Reply { code: 0x45, opts: vec![], body: r.bytes(10) }));
            steps.push(Step::Sleep);
            if kind == 1 { let mut o = ReqSpec::get(&["bystander"]); o.mid = 3; steps.push(Step::Ex(3, o.desc(), 9, Reply { code: 0x45, opts: vec![], body: vec![1] })); steps.push(Step::Sleep); }
            let mut f = q.clone(); f.b2 = Some(bv(1, false, 0)); f.mid = 9; steps.push(Step::Ex(1, f.desc(), 7, Reply { code: 0x45, opts: vec![], body: r.bytes(10) }));
        } else {
            q.code = 3; let body = r.bytes(16 * 2 + 7);
            let up = upload_steps(1, &q, 7, &body, 0, &|_| 1, None, &Reply { code: 0x44, ..Default::default() });
            steps.extend(up[..2].iter().cloned());
            // a single-message request on the same key (no Block1 option): goes to the application, never answered
            let mut g = q.clone(); g.mid = 5; g.token = vec![6]; g.payload = vec![1, 2, 3];
            steps.push(Step::Begin(2, g.desc(), 7, Reply { code: 0x44, ..Default::default() }));
            steps.push(Step::Sleep);
            if kind == 3 { let mut o = ReqSpec::get(&["bystander"]); o.mid = 3; steps.push(Step::Ex(3, o.desc(), 9, Reply { code: 0x45, opts: vec![], body: vec![1] })); steps.push(Step::Sleep); }
            steps.push(up[2].clone());
        }
        emit(write_case(1152, 1, &steps));
    }
    // expiry is per key: a transfer left idle for longer than the expiry duration expires although OTHER keys keep
    // using the handler at intervals shorter than the duration (expiry 300 ms, four naps of 100 ms)
    for kind in 0..(if thorough { 6 } else { 3 }) {
        let mut steps = Vec::new();
        let mut q = ReqSpec::get(&["idle"]);
        let busy = |i: u64, blk: u64| -> Step {
            if kind % 3 == 2 { other(i) } else {
                let mut a = ReqSpec::get(&["busy"]); a.code = 3; a.b1 = Some(bv(blk, true, 0)); a.payload = vec![i as u8; 16]; a.mid = (100 + i) as u16;
                Step::Ex(60 + (i % 2), a.desc(), 300 + (i % 2), Reply::default()) } };
        if kind % 3 != 1 {
            let rp = Reply { code: 0x45, opts: vec![], body: r.bytes(100) };
            q.b2 = Some(bv(0, false, 0)); steps.push(Step::Ex(1, q.desc(), 7, rp));
            for i in 0..4u64 { steps.push(Step::Nap); steps.push(busy(i, i / 2)); }
            let mut f = q.clone(); f.b2 = Some(bv(1, false, 0)); f.mid = 9;
            steps.push(Step::Ex(1, f.desc(), 7, Reply { code: 0x45, opts: vec![], body: r.bytes(40) }));
        } else {
            q.code = 3; let body = r.bytes(16 * 2 + 7);
            let up = upload_steps(1, &q, 7, &body, 0, &|_| 1, None, &Reply { code: 0x44, ..Default::default() });
            steps.extend(up[..2].iter().cloned());
            for i in 0..4u64 { steps.push(Step::Nap); steps.push(busy(i, i / 2)); }
            steps.push(up[2].clone());
        }
        emit(write_case(1152, 2, &steps));
    }
}

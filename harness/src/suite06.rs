//! Suite 60 (C06): uint / string option values and the typed accessors of Packet.
use crate::common::*;
use crate::names::*;
use coap_lite::error::IncompatibleOptionValueFormat;
use coap_lite::option_value::*;
use coap_lite::{CoapOption, Packet};
use std::collections::LinkedList;
use std::convert::TryFrom;

fn enc_uint(w: u64, v: u64) -> Vec<u8> {
    match w {
        1 => Vec::from(OptionValueU8(v as u8)),
        2 => Vec::from(OptionValueU16(v as u16)),
        4 => Vec::from(OptionValueU32(v as u32)),
        _ => Vec::from(OptionValueU64(v)),
    }
}
fn dec_uint(w: u64, b: Vec<u8>) -> Result<u64, IncompatibleOptionValueFormat> {
    match w {
        1 => OptionValueU8::try_from(b).map(|x| x.0 as u64),
        2 => OptionValueU16::try_from(b).map(|x| x.0 as u64),
        4 => OptionValueU32::try_from(b).map(|x| x.0 as u64),
        _ => OptionValueU64::try_from(b).map(|x| x.0),
    }
}

fn wr_typed_u(out: &mut Vec<u64>, r: Result<u64, IncompatibleOptionValueFormat>) {
    match r { Ok(v) => { out.push(0); out.push(v); } Err(_) => out.push(1) }
}
fn wr_typed_s(out: &mut Vec<u64>, r: Result<OptionValueString, IncompatibleOptionValueFormat>) {
    match r { Ok(v) => { out.push(0); wr_bytes(out, v.0.as_bytes()); } Err(_) => out.push(1) }
}

macro_rules! typed_obs {
    ($out:expr, $p:expr, $opt:expr, $t:ty, $conv:expr, $wr:ident) => {{
        match $p.get_options_as::<$t>($opt) {
            None => $out.push(0),
            Some(l) => { $out.push(1); $out.push(l.len() as u64); for x in l { $wr($out, x.map($conv)); } }
        }
        match $p.get_first_option_as::<$t>($opt) {
            None => $out.push(0),
            Some(x) => { $out.push(1); $wr($out, x.map($conv)); }
        }
    }};
}

fn observe_all(out: &mut Vec<u64>, p: &Packet, k: u16, w: u64) {
    wr_packet(out, p);
    let opt = CoapOption::from(k);
    match p.get_option(opt) {
        None => out.push(0),
        Some(l) => { out.push(1); out.push(l.len() as u64); for v in l { wr_bytes(out, v); } }
    }
    match w {
        0 => typed_obs!(out, p, opt, OptionValueString, |x| x, wr_typed_s),
        1 => typed_obs!(out, p, opt, OptionValueU8, |x| x.0 as u64, wr_typed_u),
        2 => typed_obs!(out, p, opt, OptionValueU16, |x| x.0 as u64, wr_typed_u),
        4 => typed_obs!(out, p, opt, OptionValueU32, |x| x.0 as u64, wr_typed_u),
        _ => typed_obs!(out, p, opt, OptionValueU64, |x| x.0, wr_typed_u),
    }
}

fn wr_obs(out: &mut Vec<u64>, p: &Packet) {
    match p.get_observe_value() { None => out.push(0), Some(Ok(v)) => { out.push(1); out.push(0); out.push(v as u64); } Some(Err(_)) => { out.push(1); out.push(1); } }
}
fn wr_cf(out: &mut Vec<u64>, p: &Packet) {
    match p.get_content_format() { None => out.push(0), Some(c) => { out.push(1); out.push(cf_index(c)); } }
}

pub fn exec(input: &[u64]) -> Vec<u64> {
    let mut c = Cur::new(&input[1..]);
    let mut out = Vec::new();
    match input[0] {
        0 => { let w = c.n(); let v = c.n(); out.push(0); wr_bytes(&mut out, &enc_uint(w, v)); }
        1 => { let w = c.n(); let b = c.bytes(); wr_typed_u(&mut out, dec_uint(w, b)); }
        2 => {
            let b = c.bytes();
            match OptionValueString::try_from(b) {
                Ok(s) => { out.push(0); wr_bytes(&mut out, &Vec::from(s)); }
                Err(_) => out.push(1),
            }
        }
        3 | 4 => {
            let mut p = rd_packet(&mut c);
            let k = c.n() as u16; let w = c.n(); let n = c.n();
            let vals: Vec<(u64, Vec<u8>)> = (0..n).map(|_| { let v = c.n(); (v, c.bytes()) }).collect();
            let opt = CoapOption::from(k);
            if input[0] == 3 {
                for (v, s) in vals.iter() {
                    match w {
                        0 => p.add_option_as(opt, OptionValueString(String::from_utf8(s.clone()).unwrap())),
                        1 => p.add_option_as(opt, OptionValueU8(*v as u8)),
                        2 => p.add_option_as(opt, OptionValueU16(*v as u16)),
                        4 => p.add_option_as(opt, OptionValueU32(*v as u32)),
                        _ => p.add_option_as(opt, OptionValueU64(*v)),
                    }
                }
            } else {
                match w {
                    0 => p.set_options_as(opt, vals.iter().map(|(_, s)| OptionValueString(String::from_utf8(s.clone()).unwrap())).collect::<LinkedList<_>>()),
                    1 => p.set_options_as(opt, vals.iter().map(|(v, _)| OptionValueU8(*v as u8)).collect::<LinkedList<_>>()),
                    2 => p.set_options_as(opt, vals.iter().map(|(v, _)| OptionValueU16(*v as u16)).collect::<LinkedList<_>>()),
                    4 => p.set_options_as(opt, vals.iter().map(|(v, _)| OptionValueU32(*v as u32)).collect::<LinkedList<_>>()),
                    _ => p.set_options_as(opt, vals.iter().map(|(v, _)| OptionValueU64(*v)).collect::<LinkedList<_>>()),
                }
            }
            out.push(0);
            observe_all(&mut out, &p, k, w);
        }
        5 => { let mut p = rd_packet(&mut c); let v = c.n(); p.set_observe_value(v as u32); out.push(0); wr_packet(&mut out, &p); wr_obs(&mut out, &p); }
        6 => { let p = rd_packet(&mut c); wr_obs(&mut out, &p); wr_cf(&mut out, &p); }
        7 => { let mut p = rd_packet(&mut c); let i = c.n(); p.set_content_format(ALL_CF[i as usize]); out.push(0); wr_packet(&mut out, &p); wr_cf(&mut out, &p); }
        _ => out.push(998),
    }
    out
}

fn rand_utf8(r: &mut Rng, n: usize) -> Vec<u8> {
    let mut s = String::new();
    for _ in 0..n {
        let c = match r.below(6) { 0 => r.below(128) as u32, 1 => 128 + r.below(1920) as u32, 2 => 0x800 + r.below(0xD000) as u32,
                                   3 => 0xE000 + r.below(0x2000) as u32, 4 => 0x10000 + r.below(0x100000) as u32, _ => r.pick(&[0u32, 0x7F, 0x80, 0x7FF, 0x800, 0xFFFF, 0x10000, 0x10FFFF, 0xD7FF, 0xE000, 0xFFFD, 0xFFFC, 0xFFFE, 0xFEFF, 0x2028, 0x85]) };
        if let Some(ch) = char::from_u32(c) { s.push(ch); }
    }
    s.into_bytes()
}

pub fn rand_pkt(r: &mut Rng) -> PktDesc {
    let mut d = PktDesc::default();
    let tkl = r.below(9) as usize;
    d.token = r.bytes(tkl);
    d.vtt = 0x40 | (r.below(4) as u8) << 4 | tkl as u8;
    d.class = r.pick(&[1u64, 2, 3, 0x45, 0x44, 0]);
    d.mid = r.next() as u16;
    let n = r.pick(&[0u64, 1, 1, 2, 3]);
    d.entries = (0..n).map(|_| {
        let k = r.pick(&[6u16, 12, 11, 14, 23, 27, 60, 17, 258]);
        let nv = r.pick(&[0u64, 1, 1, 2, 3]);
        let vs = (0..nv).map(|_| { let l = r.pick(&[0usize, 1, 1, 2, 2, 3, 4, 5, 8, 9]); let mut b = r.bytes(l); if l > 0 && r.chance(1, 3) { b[0] = 0; } b }).collect();
        (k, vs)
    }).collect();
    let pl = r.pick(&[0usize, 0, 3]);
    d.payload = r.bytes(pl);
    d
}

pub fn gen(tier: &str, r: &mut Rng, emit: &mut dyn FnMut(Vec<u64>)) {
    let thorough = tier == "thorough";
    // exhaustive u8 / u16 values; every 2^k and 256^k neighbour for u32/u64
    for v in 0..256u64 { emit(vec![0, 1, v]); }
    for v in 0..65536u64 { emit(vec![0, 2, v]); if thorough || v % 7 == 0 { emit(vec![0, 4, v]); emit(vec![0, 8, v]); } }
    for k in 0..64u32 { for d in [-1i64, 0, 1] {
        let v = (1u128 << k) as i128 + d as i128;
        if v < 0 { continue; }
        let v = v as u64;
        emit(vec![0, 8, v]);
        if v < (1 << 32) { emit(vec![0, 4, v]); }
    } }
    emit(vec![0, 8, u64::MAX]); emit(vec![0, 4, u32::MAX as u64]); emit(vec![0, 8, u64::MAX - 1]);
    for _ in 0..(if thorough { 200_000 } else { 5_000 }) {
        let v = r.next() >> r.below(64);
        emit(vec![0, 8, v]);
        emit(vec![0, 4, v & 0xFFFF_FFFF]);
    }
    // decoding: all byte strings of length <= 2 (thorough: <= 3) for every width, plus longer with leading zeros
    for w in [1u64, 2, 4, 8] {
        emit(vec![1, w, 0]);
        for a in 0..256u64 { emit(vec![1, w, 1, a]); }
        for a in 0..256u64 { for b in 0..256u64 { if thorough || w == 2 || (a < 3 || a > 253 || b < 2 || b > 254) { emit(vec![1, w, 2, a, b]); } } }
        if thorough { for a in 0..256u64 { for b in (0..256u64).step_by(5) { for c in [0u64, 1, 127, 128, 255] { emit(vec![1, w, 3, a, b, c]); } } } }
        for l in 0..11usize { for z in 0..=l { for _ in 0..3 {
            let mut b = r.bytes(l); for i in 0..z { b[i] = 0; }
            let mut v = vec![1, w]; wr_bytes(&mut v, &b); emit(v);
        } } }
    }
    // strings far longer than any width, at lengths that are small again modulo 2^16 / 2^32-ish casts
    for w in [1u64, 2, 4, 8] { for l in [65535usize, 65536, 65537, 65536 + w as usize, 131072, 131073] {
        let mut b = r.bytes(l); b[0] = 0;
        let mut v = vec![1, w]; wr_bytes(&mut v, &b); emit(v);
    } }
    // valid strings around the replacement character and other code points a lossy conversion treats specially
    for s in ["\u{fffd}", "a\u{fffd}b", "\u{fffc}\u{fffd}\u{fffe}", "\u{feff}x", "\u{fffd}\u{fffd}", "x\u{0}y", "\u{10ffff}\u{fffd}"] {
        let mut v = vec![2]; wr_bytes(&mut v, s.as_bytes()); emit(v);
    }
    // strings: valid, and invalid sequences (overlongs, surrogates, > U+10FFFF, truncated tails)
    let bad: [&[u8]; 16] = [&[0x80], &[0xC0, 0x80], &[0xC1, 0xBF], &[0xE0, 0x80, 0x80], &[0xE0, 0x9F, 0xBF], &[0xED, 0xA0, 0x80], &[0xED, 0xBF, 0xBF],
        &[0xF0, 0x80, 0x80, 0x80], &[0xF0, 0x8F, 0xBF, 0xBF], &[0xF4, 0x90, 0x80, 0x80], &[0xF5, 0x80, 0x80, 0x80], &[0xC2], &[0xE2, 0x82], &[0xF0, 0x9F, 0x98],
        &[0xFF], &[0x61, 0xC3]];
    for b in bad.iter() { for pre in [&b""[..], &b"a"[..], "é".as_bytes()] { for suf in [&b""[..], &b"z"[..]] {
        let mut s = pre.to_vec(); s.extend_from_slice(b); s.extend_from_slice(suf);
        let mut v = vec![2]; wr_bytes(&mut v, &s); emit(v);
    } } }
    for a in 0..256u64 { emit(vec![2, 1, a]); for b in 0..256u64 { if thorough || a >= 0xC0 || b >= 0x80 && b % 4 == 0 { emit(vec![2, 2, a, b]); } } }
    for a in [0xE0u64, 0xE1, 0xEC, 0xED, 0xEE, 0xEF, 0xF0, 0xF1, 0xF3, 0xF4, 0xF5] { for b in [0x7Fu64, 0x80, 0x8F, 0x90, 0x9F, 0xA0, 0xBF, 0xC0] { for c in [0x7Fu64, 0x80, 0xBF, 0xC0] {
        emit(vec![2, 3, a, b, c]);
        for d in [0x7Fu64, 0x80, 0xBF, 0xC0] { emit(vec![2, 4, a, b, c, d]); }
    } } }
    for _ in 0..(if thorough { 100_000 } else { 4_000 }) {
        let n = r.below(8) as usize;
        let mut s = rand_utf8(r, n);
        if r.chance(1, 3) && !s.is_empty() { let i = r.below(s.len() as u64) as usize; s[i] = r.next() as u8; }
        if r.chance(1, 6) { s.truncate(s.len().saturating_sub(1)); }
        let mut v = vec![2]; wr_bytes(&mut v, &s); emit(v);
    }
    // typed accessors through op sequences
    for _ in 0..(if thorough { 100_000 } else { 6_000 }) {
        let kind = r.pick(&[3u64, 3, 4]);
        let d = rand_pkt(r);
        let k = r.pick(&[6u16, 12, 11, 14, 60, 300]);
        let w = r.pick(&[0u64, 1, 2, 4, 8]);
        let n = r.pick(&[0u64, 1, 1, 2, 3]);
        let mut v = vec![kind]; d.write(&mut v); v.push(k as u64); v.push(w); v.push(n);
        for _ in 0..n {
            if w == 0 { v.push(0); let l = r.below(5) as usize; let s = rand_utf8(r, l); wr_bytes(&mut v, &s); }
            else { let x = r.next() >> r.below(64); let x = if w == 8 { x } else { x & ((1u64 << (8 * w)) - 1) }; v.push(if r.chance(1, 8) { 0 } else { x }); v.push(0); }
        }
        emit(v);
    }
    // set_observe_value over a prior state that already "means" the same number: padded with leading zeros, repeated,
    // or both; and over prior states that mean a different number (set_content_format likewise: suite 190, C19's clause)
    for n in [0u64, 1, 5, 40, 50, 255, 256, 65535, 65536, (1 << 24) - 1, 1 << 24] { for pad in 0..4usize { for extra in 0..3usize { for other in [false, true] {
        let mut first = vec![0u8; pad]; first.extend(enc_uint(4, if other { n + 1 } else { n }));
        let mut vals = vec![first];
        for e in 0..extra { vals.push(if e == 0 { enc_uint(4, n) } else { vec![9] }); }
        let mut d = PktDesc::default(); d.vtt = 0x40; d.class = 0x45; d.mid = 7;
        d.entries = vec![(6u16, vals.clone())];
        let mut v = vec![5]; d.write(&mut v); v.push(n); emit(v);
    } } } }
    for _ in 0..(if thorough { 40_000 } else { 3_000 }) {
        let d = rand_pkt(r);
        let mut v = vec![5]; d.write(&mut v);
        let rv = r.next() & 0xFFFF_FFFF;
        v.push(r.pick(&[0u64, 1, 255, 256, 65535, 65536, 1 << 24, (1 << 24) - 1, u32::MAX as u64, rv]));
        emit(v);
        let d = rand_pkt(r);
        let mut v = vec![6]; d.write(&mut v); emit(v);
    }
}

//! Suites 160 (C16 writer -> parser round trip), 170 (C17 parser totality / offsets / unquoting
//! paths) and 180 (C18 fault injection into the writer's sink).
use crate::common::*;
use coap_lite::link_format::{LinkAttributeWrite, LinkFormatParser, LinkFormatWrite};
use std::fmt::Write;
use std::panic::{catch_unwind, AssertUnwindSafe};

fn wr_str(out: &mut Vec<u64>, s: &str) { out.push(s.chars().count() as u64); out.extend(s.chars().map(|c| c as u64)); }
fn rd_str(c: &mut Cur) -> String { let n = c.n() as usize; let s: String = c.v[c.i..c.i + n].iter().map(|&x| char::from_u32(x as u32).unwrap()).collect(); c.i += n; s }

/// scalar offset of a sub-slice inside `base` (both borrow the same buffer)
fn off(base: &str, sub: &str) -> u64 {
    if sub.is_empty() { return 0; }   // the position of an empty slice carries no information
    let b = sub.as_ptr() as usize - base.as_ptr() as usize;
    assert!(b <= base.len());
    base[..b].chars().count() as u64
}

/// Every iterator of the parser must end: none can yield more items than its input has bytes (each item consumes
/// at least one).  The loops are capped there; reaching the cap is reported as 3, which no terminating run prints.
fn parse_doc(out: &mut Vec<u64>, input: &str) {
    let cap = input.len() + 2;
    let mut n_items = 0usize;
    for item in LinkFormatParser::new(input) {
        n_items += 1;
        if n_items > cap { out.push(3); return; }
        match item {
            Err(_) => out.push(1),
            Ok((link, attrs)) => {
                out.push(0);
                out.push(off(input, link)); wr_str(out, link);
                let inner: &str = attrs.verif_inner();
                out.push(off(input, inner)); wr_str(out, inner);
                let items: Vec<_> = attrs.take(inner.len() + 2).collect();
                if items.len() > inner.len() + 1 { out.push(3); return; }
                out.push(items.len() as u64);
                for (k, v) in items {
                    out.push(off(input, k)); wr_str(out, k);
                    let raw = v.clone().into_raw_str();
                    out.push(off(input, raw));
                    wr_str(out, raw);
                    let chars: String = v.clone().take(raw.len() + 2).collect();
                    if chars.chars().count() > raw.len() + 1 { out.push(3); return; }
                    wr_str(out, &v.to_string());
                    match catch_unwind(AssertUnwindSafe(|| v.to_cow().into_owned())) {
                        Ok(s) => { out.push(0); wr_str(out, &s); }
                        Err(_) => out.push(2),
                    }
                }
            }
        }
    }
}

struct Doc { nl: bool, links: Vec<(String, Vec<(String, u64, String, u64)>)> }
fn rd_doc(c: &mut Cur) -> Doc {
    let nl = c.n() != 0;
    let n = c.n();
    let links = (0..n).map(|_| {
        let t = rd_str(c);
        let na = c.n();
        let attrs = (0..na).map(|_| { let k = rd_str(c); let kind = c.n(); if kind < 2 { let v = rd_str(c); (k, kind, v, 0) } else { let x = c.n(); (k, kind, String::new(), x) } }).collect();
        (t, attrs)
    }).collect();
    Doc { nl, links }
}

fn write_doc<W: Write>(w: &mut W, d: &Doc) -> Result<(), std::fmt::Error> { write_doc_styled(w, d, 0) }

/// style 0: every link closed with finish(); 1: the per-link writers are simply dropped (the API allows it);
/// 2: set_add_newlines is called again (same value) before every link and before the final finish()
fn write_doc_styled<W: Write>(w: &mut W, d: &Doc, style: u64) -> Result<(), std::fmt::Error> {
    let mut lw = LinkFormatWrite::new(w);
    lw.set_add_newlines(d.nl);
    for (t, attrs) in d.links.iter() {
        if style == 2 { lw.set_add_newlines(d.nl); }
        let mut aw: LinkAttributeWrite<W> = lw.link(t);
        for (k, kind, v, n) in attrs.iter() {
            aw = match kind { 0 => aw.attr(k, v), 1 => aw.attr_quoted(k, v), 2 => aw.attr_u32(k, *n as u32), _ => aw.attr_u16(k, *n as u16) };
        }
        if style == 1 { drop(aw); } else { let _ = aw.finish(); }
    }
    if style == 2 { lw.set_add_newlines(d.nl); }
    lw.finish()
}

pub fn exec160(input: &[u64]) -> Vec<u64> {
    let mut c = Cur::new(input);
    let d = rd_doc(&mut c);
    let mut s = String::new();
    write_doc(&mut s, &d).unwrap();
    let mut out = Vec::new();
    wr_str(&mut out, &s);
    parse_doc(&mut out, &s);
    out
}

pub fn exec170(input: &[u64]) -> Vec<u64> {
    let mut c = Cur::new(input);
    let s = rd_str(&mut c);
    let mut out = Vec::new();
    parse_doc(&mut out, &s);
    out
}

struct FaultSink { calls: u64, accepted: Vec<String>, k: u64, mode: u64 }
impl Write for FaultSink {
    fn write_str(&mut self, s: &str) -> std::fmt::Result {
        let i = self.calls; self.calls += 1;
        let fail = if self.mode == 0 { i == self.k } else { i >= self.k };
        if fail { Err(std::fmt::Error) } else { self.accepted.push(s.to_string()); Ok(()) }
    }
}

pub fn exec180(input: &[u64]) -> Vec<u64> {
    let mut c = Cur::new(&input[2..]);
    let d = rd_doc(&mut c);
    // mode = 2 * style + (0 fail once | 1 fail from k on)
    let mut sink = FaultSink { calls: 0, accepted: Vec::new(), k: input[0], mode: input[1] % 2 };
    let r = write_doc_styled(&mut sink, &d, input[1] / 2);
    let mut out = vec![r.is_err() as u64, sink.calls, sink.accepted.len() as u64];
    for a in sink.accepted.iter() { wr_str(&mut out, a); }
    out
}

// ------------------------------------------------------------------ generators
const ALPHA: [char; 11] = ['<', '>', ';', ',', '"', '\\', '=', ' ', 'a', 'é', '\n'];

/// code points that a truncating cast (`c as u8`, `c as u16`) turns into a structural character: the low byte (or the
/// low 16 bits) is one of `< > ; , " \ =`, space, tab, CR, LF
fn alias_chars() -> Vec<char> {
    let mut v = Vec::new();
    for s in [b'<', b'>', b';', b',', b'"', b'\\', b'=', b' ', b'\t', b'\r', b'\n'] {
        for hi in [0x1u32, 0x4, 0x20, 0x21, 0xFF, 0x100, 0x1F6, 0x10FF] {
            if let Some(c) = char::from_u32((hi << 8) | s as u32) { v.push(c); }
        }
    }
    v
}

fn rand_value(r: &mut Rng, maxlen: u64) -> String {
    if r.chance(1, 40) { let a = alias_chars(); let c = a[r.below(a.len() as u64) as usize]; return format!("{}{}{}", r.pick(&["", "a", "a b", "\""]), c, r.pick(&["", "b", " c", "\""])); }
    if r.chance(1, 25) { return r.pick(&["Sensor\r\n Index", "a\r\n\tb", "\r\n x", "x\r\n", "a=b=c", "k=\"v\"", "/q?u=1&v=2"]).to_string(); }
    let n = r.below(maxlen + 1);
    (0..n).map(|_| match r.below(10) { 0..=5 => r.pick(&ALPHA), 6 => r.pick(&['€', '𝄞', '\u{a0}', '\u{3000}', '\t', '\r']),
        // every Unicode White_Space code point and both neighbours of each run (what str::trim and char::is_whitespace decide)
        9 if r.chance(1, 2) => char::from_u32(r.pick(&[8u32, 9, 10, 11, 12, 13, 14, 31, 32, 33, 132, 133, 134, 159, 160, 161, 5759, 5760, 5761, 8191, 8192, 8193, 8197, 8201, 8202, 8203,
                                                     8231, 8232, 8233, 8234, 8238, 8239, 8240, 8286, 8287, 8288, 12287, 12288, 12289, 0x180e, 0x200b, 0xfeff])).unwrap(), 7 => r.pick(&['0', '9', 'Z', 'z']), _ => char::from_u32(32 + r.below(95) as u32).unwrap() }).collect()
}
fn rand_key(r: &mut Rng) -> String {
    // registered attribute names, so that one link repeats a name that a specification gives a meaning to
    if r.chance(1, 4) { return r.pick(&["rel", "rt", "if", "anchor", "title", "rel", "maxAge", "OIC.if", "T", "t"]).to_string(); }
    let n = r.below(4);
    (0..n).map(|_| r.pick(&['k', 'e', 'y', '<', '>', '\\', 'é', '-', '1', 'K', 'Z', 'A', '.', '\u{212a}', '\u{130}'])).collect()
}
fn rand_target(r: &mut Rng) -> String {
    let n = r.below(6);
    (0..n).map(|_| r.pick(&['/', 'a', '<', ';', ',', '"', '\\', '=', ' ', 'é', '\n', 'A', 'Z', '\u{2122}', '\u{13c}'])).collect()
}
fn write_doc_desc(v: &mut Vec<u64>, nl: bool, links: &[(String, Vec<(String, u64, String, u64)>)]) {
    v.push(nl as u64); v.push(links.len() as u64);
    for (t, attrs) in links {
        wr_str(v, t); v.push(attrs.len() as u64);
        for (k, kind, s, n) in attrs { wr_str(v, k); v.push(*kind); if *kind < 2 { wr_str(v, s); } else { v.push(*n); } }
    }
}
fn rand_doc(r: &mut Rng, maxv: u64) -> (bool, Vec<(String, Vec<(String, u64, String, u64)>)>) {
    let nl = r.chance(1, 2);
    let nlinks = r.below(5);
    let links = (0..nlinks).map(|_| {
        let na = r.below(5);
        (rand_target(r), (0..na).map(|_| {
            let kind = r.pick(&[0u64, 0, 1, 1, 2, 3]);
            let n = if kind == 2 { r.pick(&[0u64, 9, 10, 65535, 65536, u32::MAX as u64]) } else { r.pick(&[0u64, 7, 65535, 100]) };
            (rand_key(r), kind, if r.chance(1, 5) { "plain123".to_string() } else { rand_value(r, maxv) }, n)
        }).collect())
    }).collect();
    (nl, links)
}

pub fn gen160(tier: &str, r: &mut Rng, emit: &mut dyn FnMut(Vec<u64>)) {
    let thorough = tier == "thorough";
    // values exhaustively up to length 3 (thorough 4) over the structural alphabet, in a 2-link document
    let maxl = if thorough { 4 } else { 3 };
    let mut stack: Vec<String> = vec![String::new()];
    while let Some(s) = stack.pop() {
        for kind in 0..2u64 { for nl in [false, true] {
            let links = vec![("/x".to_string(), vec![("k".to_string(), kind, s.clone(), 0), ("t".to_string(), 2, String::new(), 42)]), ("/y".to_string(), vec![("z".to_string(), 1 - kind, s.clone(), 0)])];
            let mut v = Vec::new(); write_doc_desc(&mut v, nl, &links); emit(v);
        } }
        if s.chars().count() < maxl { for a in ALPHA.iter() { stack.push(format!("{}{}", s, a)); } }
    }
    // values that only differ from plain text by white space at their ends (Unicode White_Space, not only ASCII)
    for ws in ['\u{a0}', '\u{3000}', '\u{2003}', '\u{85}', '\u{b}', '\u{1680}', '\u{2028}', '\u{205f}', ' ', '\t', '\n', '\u{c}', '\r', '\u{200b}', '\u{feff}'] {
        for body in ["", "ab", "a-b", "é", "a b"] { for (pre, suf) in [(true, false), (false, true), (true, true)] {
            let val = format!("{}{}{}", if pre { ws.to_string() } else { String::new() }, body, if suf { ws.to_string() } else { String::new() });
            for kind in 0..2u64 { for nl in [false, true] {
                let links = vec![("/w".to_string(), vec![("k".to_string(), kind, val.clone(), 0), ("z".to_string(), kind, val.clone(), 0)]), ("/v".to_string(), vec![])];
                let mut v = Vec::new(); write_doc_desc(&mut v, nl, &links); emit(v);
            } }
        } }
    }
    // code points whose low byte (or low 16 bits) is a structural character, in values, keys and targets, each
    // followed by more attributes and another link (what a scanner that mistakes them would swallow)
    for c in alias_chars() {
        for (pre, suf) in [("", ""), ("a", "b"), ("Hue", " bridge")] { for kind in 0..2u64 {
            let val = format!("{}{}{}", pre, c, suf);
            let key_ok = !c.is_whitespace();
            let links = vec![(format!("/x{}", c), vec![("k".to_string(), kind, val.clone(), 0), (if key_ok { format!("k{}y", c) } else { "ky".to_string() }, 1, "light".to_string(), 0), ("ct".to_string(), 2, String::new(), 50)]),
                             ("/bill".to_string(), vec![("z".to_string(), kind, val.clone(), 0)]), ("/y".to_string(), vec![])];
            let mut v = Vec::new(); write_doc_desc(&mut v, kind == 1, &links); emit(v);
        } }
    }
    // long values with a multi-byte character at every alignment around the 64-, 128- and 256-byte marks, written
    // with and without a character that needs escaping (so both unquoting paths are taken)
    for ch in ['é', '€', '𝄞'] { for base in [64usize, 128, 256] { for i in (base - 6)..=(base + 2) { for esc in [false, true] {
        let val = format!("{}{}{}tail", if esc { "\"" } else { "" }, "a".repeat(i - esc as usize), ch);
        let links = vec![("/long".to_string(), vec![("title".to_string(), 1, val.clone(), 0), ("k".to_string(), 0, val, 0)])];
        let mut v = Vec::new(); write_doc_desc(&mut v, false, &links); emit(v);
    } } } }
    for links in long_docs() { for nl in [false, true] { let mut v = Vec::new(); write_doc_desc(&mut v, nl, &links); emit(v); } }
    // keys with ASCII capitals and letters whose case mappings are special (Kelvin sign, dotted capital I)
    for key in ["maxAge", "X-Unit", "OIC.if", "T", "t", "\u{212a}", "\u{130}x", "ÀB"] { for kind in 0..4u64 {
        let links = vec![("/k".to_string(), vec![(key.to_string(), kind, "Val".to_string(), 7), ("t".to_string(), kind, "v".to_string(), 7), ("T".to_string(), kind, "V".to_string(), 8)])];
        let mut v = Vec::new(); write_doc_desc(&mut v, false, &links); emit(v);
    } }
    for _ in 0..(if thorough { 200_000 } else { 8_000 }) {
        let mv = if r.chance(1, 10) { 40 } else { 6 };
        let (nl, links) = rand_doc(r, mv);
        let mut v = Vec::new(); write_doc_desc(&mut v, nl, &links); emit(v);
    }
}

pub fn gen170(tier: &str, r: &mut Rng, emit: &mut dyn FnMut(Vec<u64>)) {
    let thorough = tier == "thorough";
    // all strings of length <= 5 (thorough 7) over the property's 10-symbol alphabet
    let alpha: [char; 10] = ['<', '>', ';', ',', '"', '\\', '=', ' ', 'a', 'é'];
    let maxl = if thorough { 6 } else { 5 };
    let mut idx: Vec<usize> = Vec::new();
    loop {
        let s: String = idx.iter().map(|&i| alpha[i]).collect();
        let mut v = Vec::new(); wr_str(&mut v, &s); emit(v);
        // next string in length-lexicographic order
        let mut k = idx.len();
        loop {
            if k == 0 { idx = vec![0; idx.len() + 1]; break; }
            k -= 1;
            idx[k] += 1;
            if idx[k] < alpha.len() { break; }
            idx[k] = 0;
        }
        if idx.len() > maxl { break; }
    }
    // attribute values in place: every value of length <= 6 (thorough 7) over {quote, backslash, a, ';', ','}
    // after "<>;k=" (the unquoting paths see unterminated strings, text after the closing quote, escapes)
    let valpha: [char; 5] = ['"', '\\', 'a', ';', ','];
    let vmax = if thorough { 7 } else { 6 };
    let mut idx: Vec<usize> = Vec::new();
    loop {
        let val: String = idx.iter().map(|&i| valpha[i]).collect();
        let s = format!("<>;k={}", val);
        let mut v = Vec::new(); wr_str(&mut v, &s); emit(v);
        let mut k = idx.len();
        loop {
            if k == 0 { idx = vec![0; idx.len() + 1]; break; }
            k -= 1;
            idx[k] += 1;
            if idx[k] < valpha.len() { break; }
            idx[k] = 0;
        }
        if idx.len() > vmax { break; }
    }
    // code points that truncate to a structural character, inside and outside quoted strings, followed by more text
    for c in alias_chars() {
        for t in ["<a>;k=\"x{}y\";z=1,<b>;w", "<a{}>;k{}=v;z=\"q\",<b>", "<a>;k=x{}y;z,<b>;u=\"{}", "{}<a>;k=1", "<a>;k=\"\\{}\";z=2,<b>"] {
            let s = t.replace("{}", &c.to_string());
            let mut v = Vec::new(); wr_str(&mut v, &s); emit(v);
        }
    }
    // long values with a multi-byte character at every alignment around the 64-, 128- and 256-byte marks: cleanly
    // quoted, with an escape, unterminated, and with text after the closing quote
    for ch in ['é', '€', '𝄞'] { for base in [64usize, 128, 256] { for i in (base - 6)..=(base + 2) {
        for t in ["<l>;title=\"{}\"", "<l>;title=\"\\\"{}\";k=1", "<l>;title=\"{}", "<l>;title=\"{}\"x;k", "<l>;title={}"] {
            let body = format!("{}{}tail", "a".repeat(i), ch);
            let s = t.replace("{}", &body);
            let mut v = Vec::new(); wr_str(&mut v, &s); emit(v);
        }
    } } }
    // random longer strings over a wider alphabet including 4-byte code points
    for _ in 0..(if thorough { 500_000 } else { 30_000 }) {
        let s = rand_value(r, 24);
        let mut v = Vec::new(); wr_str(&mut v, &s); emit(v);
    }
    // every prefix of well-formed documents
    for _ in 0..(if thorough { 5_000 } else { 300 }) {
        let (nl, links) = rand_doc(r, 8);
        let d = Doc { nl, links };
        let mut s = String::new();
        if write_doc(&mut s, &d).is_err() { continue; }
        let chars: Vec<char> = s.chars().collect();
        for k in 0..=chars.len() { let p: String = chars[..k].iter().collect(); let mut v = Vec::new(); wr_str(&mut v, &p); emit(v); }
    }
}

/// documents with long targets and long quoted values: a multi-byte character at every alignment around the 32- and
/// 64-byte marks, and values long enough for a writer that batches its output to flush several times
fn long_docs() -> Vec<Vec<(String, Vec<(String, u64, String, u64)>)>> {
    let mut v = Vec::new();
    for ch in ['é', '€', '𝄞'] { for base in [32usize, 64] { for i in (base - 5)..=(base + 1) {
        v.push(vec![(format!("/{}{}/t", "p".repeat(i - 1), ch), vec![("k".to_string(), 1, format!("{}{}\"q\\", "v".repeat(i), ch), 0)]), ("/n".to_string(), vec![("z".to_string(), 0, "plain".to_string(), 0)])]);
    } } }
    for n in [54usize, 70, 100, 140] {
        v.push(vec![("/a".to_string(), vec![("title".to_string(), 1, "Greenhouse \"north\" ".repeat(n / 19 + 1), 0), ("ct".to_string(), 2, String::new(), 40)]), ("/b".to_string(), vec![("k".to_string(), 0, "x y".to_string(), 0)])]);
    }
    v
}

pub fn gen180(tier: &str, r: &mut Rng, emit: &mut dyn FnMut(Vec<u64>)) {
    let thorough = tier == "thorough";
    let longs = long_docs();
    let nlong = if thorough { longs.len() } else { longs.len() };
    for i in 0..(nlong + if thorough { 3_000 } else { 250 }) {
        let links = if i < nlong { longs[i].clone() } else { rand_doc(r, 5).1 };
        for nl in [false, true] {
            // the fault-free run fixes the number of write calls
            let d = Doc { nl, links: links.clone() };
            let mut sink = FaultSink { calls: 0, accepted: Vec::new(), k: u64::MAX, mode: 0 };
            let _ = write_doc(&mut sink, &d);
            let ncalls = sink.calls;
            // long documents: every fault position, but one caller style per position (they have hundreds of calls)
            for k in 0..=ncalls { for mode in 0..6u64 {
                if i < nlong && !thorough && mode / 2 != k % 3 { continue; }
                let mut v = vec![k, mode]; write_doc_desc(&mut v, nl, &links); emit(v);
            } }
        }
    }
}

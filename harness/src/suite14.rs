//! Suites 140 (C14/C15: Observe registry histories, full state after every operation, via the
//! cfg(coap_lite_verif) read-only hooks) and 150 (C15: create_notification).
use crate::common::*;
use coap_lite::{create_notification, CoapRequest, Subject};
use std::panic::{catch_unwind, AssertUnwindSafe};

/// an endpoint type whose printed form is NOT injective (like a socket address whose flow label is not printed):
/// identity is the whole number, Display shows it modulo 256
#[derive(Clone, PartialEq, Debug)]
pub struct Peer(pub u64);
impl std::fmt::Display for Peer { fn fmt(&self, f: &mut std::fmt::Formatter<'_>) -> std::fmt::Result { write!(f, "peer{}", self.0 % 256) } }

/// a request whose registry key (get_path) is exactly `path`: one Uri-Path option per '/'-separated segment, empty ones
/// included (so "/a" has the segments "", "a")
fn request(e: u64, path: &[u8], tok: &[u8], mid: u16) -> CoapRequest<Peer> { request_typed(e, path, tok, mid, 0) }

/// the message type of a request (0 CON, 1 NON, 2 ACK, 3 RST) plays no part in any registry operation
fn request_typed(e: u64, path: &[u8], tok: &[u8], mid: u16, ty: u64) -> CoapRequest<Peer> {
    let mut r: CoapRequest<Peer> = CoapRequest::new();
    r.source = Some(Peer(e));
    r.message.set_token(tok.to_vec());
    r.message.header.message_id = mid;
    r.message.header.set_type(crate::suite01::mtype(ty as u8));
    if !path.is_empty() { for seg in path.split(|&b| b == b'/') { r.message.add_option(coap_lite::CoapOption::UriPath, seg.to_vec()); } }
    assert_eq!(r.get_path().as_bytes(), path);
    r
}

fn dump(out: &mut Vec<u64>, s: &Subject<Peer>, paths: &[Vec<u8>]) {
    out.push(7);
    let present: Vec<&Vec<u8>> = paths.iter().filter(|p| s.get_resource(std::str::from_utf8(p).unwrap()).is_some()).collect();
    out.push(present.len() as u64);
    for p in present {
        let ps = std::str::from_utf8(p).unwrap();
        let r = s.get_resource(ps).unwrap();
        wr_bytes(out, p);
        out.push(r.sequence as u64);
        let obs = s.get_resource_observers(ps).unwrap();
        assert_eq!(obs.len(), r.observers.len());
        out.push(obs.len() as u64);
        for o in obs {
            out.push(o.endpoint.0);
            wr_bytes(out, &o.token);
            out.push(o.verif_unacknowledged() as u64);
            out.push(match o.verif_pending_message_id() { Some(m) => m as u64 + 1, None => 0 });
        }
    }
}

pub fn exec140(input: &[u64]) -> Vec<u64> {
    let mut c = Cur::new(input);
    let n = c.n();
    let mut s: Subject<Peer> = Subject::default();
    let mut paths: Vec<Vec<u8>> = Vec::new();   // in order of first registration
    let mut out = Vec::new();
    for _ in 0..n {
        let kind = c.n();
        let r = catch_unwind(AssertUnwindSafe(|| {
            match kind {
                // registrations and deregistrations are matched by endpoint, path and token: the request's message type and
                // message id (here derived from the other fields, so that they range over all types and over the ids the
                // notification rounds use) are immaterial
                0 => { let e = c.n(); let p = c.bytes(); let t = c.bytes(); if !paths.contains(&p) { paths.push(p.clone()); }
                       let h = e * 31 + p.len() as u64 * 7 + t.first().copied().unwrap_or(0) as u64 * 13;
                       s.register(&request_typed(e, &p, &t, ((h / 4) % 9) as u16, (h + 1) % 4)); }
                1 => { let e = c.n(); let p = c.bytes(); let t = c.bytes();
                       let h = e * 31 + p.len() as u64 * 7 + t.first().copied().unwrap_or(0) as u64 * 13;
                       s.deregister(&request_typed(e, &p, &t, ((h / 4) % 9) as u16, h % 4)); }
                2 => { let p = c.bytes(); let mid = c.n() as u16; let conf = c.n() != 0; s.resource_changed(std::str::from_utf8(&p).unwrap(), mid, conf); }
                3 => { let e = c.n(); let mid = c.n() as u16;
                       // an acknowledgement is matched by endpoint and message id; whatever path it carries is immaterial
                       let ap: Vec<u8> = match (e + mid as u64) % 4 { 0 => vec![], 1 => b"x/y".to_vec(), 2 => paths.first().cloned().unwrap_or_default(), _ => { let mut p = paths.last().cloned().unwrap_or_default(); p.extend_from_slice(b"/"); p } };
                       // ... and so are its token (none, a token some observer registered, a foreign one) and its type
                       let at: Vec<u8> = match (e + mid as u64) % 3 { 0 => vec![], 1 => vec![0xAA], _ => vec![mid as u8, 0x55] };
                       s.acknowledge(&request_typed(e, &ap, &at, mid, 2 + (e + mid as u64 / 2) % 2)); }
                4 => { let l = c.n() as u8; s.set_unacknowledged_limit(l); }
                5 => { let p = c.bytes(); let q = c.n() as u32; s.verif_set_sequence(std::str::from_utf8(&p).unwrap(), q); }
                _ => panic!("bad op"),
            }
        }));
        if r.is_err() { out.push(2); return out; }
        dump(&mut out, &s, &paths);
    }
    out
}

pub fn exec150(input: &[u64]) -> Vec<u64> {
    let mut c = Cur::new(input);
    let mid = c.n() as u16; let conf = c.n() != 0; let seq = c.n() as u32;
    let tok = c.bytes(); let pl = c.bytes();
    let p = create_notification(mid, tok, seq, pl, conf);
    // the notification encodes and decodes to the same sequence
    let bs = p.to_bytes_unlimited().unwrap();
    let q = coap_lite::Packet::from_bytes(&bs).unwrap();
    assert_eq!(q.get_observe_value(), Some(Ok(seq)));
    let mut out = vec![0];
    wr_packet(&mut out, &p);
    out
}

#[derive(Clone)]
enum Op { Reg(u64, Vec<u8>, Vec<u8>), Dereg(u64, Vec<u8>, Vec<u8>), Changed(Vec<u8>, u16, bool), Ack(u64, u16), Limit(u8), Seq(Vec<u8>, u32) }
fn write_ops(ops: &[Op]) -> Vec<u64> {
    let mut v = vec![ops.len() as u64];
    for o in ops {
        match o {
            Op::Reg(e, p, t) => { v.push(0); v.push(*e); wr_bytes(&mut v, p); wr_bytes(&mut v, t); }
            Op::Dereg(e, p, t) => { v.push(1); v.push(*e); wr_bytes(&mut v, p); wr_bytes(&mut v, t); }
            Op::Changed(p, m, c) => { v.push(2); wr_bytes(&mut v, p); v.push(*m as u64); v.push(*c as u64); }
            Op::Ack(e, m) => { v.push(3); v.push(*e); v.push(*m as u64); }
            Op::Limit(l) => { v.push(4); v.push(*l as u64); }
            Op::Seq(p, q) => { v.push(5); wr_bytes(&mut v, p); v.push(*q as u64); }
        }
    }
    v
}

pub fn gen140(tier: &str, r: &mut Rng, emit: &mut dyn FnMut(Vec<u64>)) {
    let thorough = tier == "thorough";
    // the small alphabet: 2 endpoints x 2 tokens x 2 paths x 2 ids x {CON,NON} x limits {0,1,2}
    let (es, toks, paths, mids) = ([1u64, 2], [vec![0xAAu8], vec![0xBB]], [b"a".to_vec(), b"a/b".to_vec()], [7u16, 8]);
    let mut alphabet: Vec<Op> = Vec::new();
    for &e in es.iter() { for p in paths.iter() { for t in toks.iter() { alphabet.push(Op::Reg(e, p.clone(), t.clone())); alphabet.push(Op::Dereg(e, p.clone(), t.clone())); } } }
    for p in paths.iter() { for &m in mids.iter() { for c in [true, false] { alphabet.push(Op::Changed(p.clone(), m, c)); } } }
    for &e in es.iter() { for &m in mids.iter() { alphabet.push(Op::Ack(e, m)); } }
    for l in [0u8, 1, 2] { alphabet.push(Op::Limit(l)); }
    // exhaustive to depth 3 (thorough 4) from the empty registry, then exhaustive continuations of depth 2 (thorough 3)
    // after random prefixes: every (state reached, next operations) combination near interesting states
    let depth = if thorough { 4 } else { 3 };
    let n = alphabet.len();
    let mut idx = vec![0usize; depth];
    loop {
        let ops: Vec<Op> = idx.iter().map(|&i| alphabet[i].clone()).collect();
        emit(write_ops(&ops));
        let mut k = depth;
        while k > 0 { k -= 1; idx[k] += 1; if idx[k] < n { break; } idx[k] = 0; if k == 0 { k = usize::MAX; break; } }
        if k == usize::MAX { break; }
    }
    let cont = if thorough { 3 } else { 2 };
    for _ in 0..(if thorough { 60 } else { 12 }) {
        let pl = 2 + r.below(5) as usize;
        let prefix: Vec<Op> = (0..pl).map(|_| alphabet[r.below(n as u64) as usize].clone()).collect();
        let mut idx = vec![0usize; cont];
        loop {
            let mut ops = prefix.clone();
            ops.extend(idx.iter().map(|&i| alphabet[i].clone()));
            emit(write_ops(&ops));
            let mut k = cont;
            while k > 0 { k -= 1; idx[k] += 1; if idx[k] < n { break; } idx[k] = 0; if k == 0 { k = usize::MAX; break; } }
            if k == usize::MAX { break; }
        }
    }
    // resources whose keys differ only by a leading '/', endpoints whose printed form coincides (1 and 257)
    for _ in 0..(if thorough { 2000 } else { 200 }) {
        let ps: [Vec<u8>; 4] = [b"t".to_vec(), b"/t".to_vec(), b"t/".to_vec(), b"//t".to_vec()];
        let es = [1u64, 257, 2, 513];
        let ops: Vec<Op> = (0..40).map(|_| {
            let e = r.pick(&es); let p = ps[r.below(4) as usize].clone();
            let t = vec![r.below(2) as u8];
            match r.below(10) {
                0..=3 => Op::Reg(e, p, t), 4 => Op::Dereg(e, p, t),
                5..=7 => Op::Changed(p, r.below(3) as u16, r.chance(2, 3)),
                8 => Op::Ack(e, r.below(3) as u16),
                _ => Op::Limit(1 + r.below(3) as u8),
            }
        }).collect();
        emit(write_ops(&ops));
    }
    // seeded random histories of length 200 over larger alphabets
    for _ in 0..(if thorough { 3000 } else { 300 }) {
        let ne = 2 + r.below(4); let np = 1 + r.below(4);
        let ops: Vec<Op> = (0..200).map(|_| {
            let e = 1 + r.below(ne); let p = vec![b'p', b'0' + r.below(np) as u8];
            let tl = r.below(3) as usize; let t = r.bytes(tl);
            match r.below(12) {
                0..=2 => Op::Reg(e, p, t), 3 => Op::Dereg(e, p, t),
                4..=7 => Op::Changed(p, r.below(4) as u16, r.chance(2, 3)),
                8..=9 => Op::Ack(e, r.below(4) as u16),
                10 => Op::Limit(r.below(4) as u8),
                _ => Op::Reg(e, p, vec![1]),
            }
        }).collect();
        emit(write_ops(&ops));
    }
    // directed long histories at limits 10, 254, 255 (and 0): counting up to and past the limit
    for lim in [0u8, 1, 10, 254, 255] { for rounds in [lim as usize, lim as usize + 1, lim as usize + 2, 600] { for ack_at in [usize::MAX, 3, rounds / 2] {
        let mut ops = vec![Op::Limit(lim), Op::Reg(1, b"r".to_vec(), vec![1]), Op::Reg(2, b"r".to_vec(), vec![2])];
        for i in 0..rounds {
            ops.push(Op::Changed(b"r".to_vec(), (i % 65536) as u16, i % 7 != 6));
            if i == ack_at { ops.push(Op::Ack(2, (i % 65536) as u16)); ops.push(Op::Ack(1, (i as u16).wrapping_add(1))); }
        }
        emit(write_ops(&ops));
    } } }
    // many observers on one resource (nothing in the registry limits their number): 40 and 300 endpoints, every one
    // listed in order of arrival; some leave, some re-register, rounds in between
    for ne in [33u64, 40, 65, 300] {
        let mut ops = vec![Op::Limit(2)];
        for e in 1..=ne { ops.push(Op::Reg(e, b"many".to_vec(), vec![e as u8])); if e % 16 == 0 { ops.push(Op::Changed(b"many".to_vec(), e as u16, e % 32 == 0)); } }
        ops.push(Op::Reg(ne + 1, b"few".to_vec(), vec![1]));
        for e in [1u64, 32, 33, ne] { ops.push(Op::Dereg(e, b"many".to_vec(), vec![e as u8])); ops.push(Op::Reg(e, b"many".to_vec(), vec![0])); }
        ops.push(Op::Changed(b"many".to_vec(), 9, true)); ops.push(Op::Ack(33, 9)); ops.push(Op::Changed(b"many".to_vec(), 10, true));
        emit(write_ops(&ops));
    }
    // the end of the sequence counter's range (hook): a known finding
    for start in [u32::MAX - 2, u32::MAX - 1, u32::MAX] {
        let ops = vec![Op::Reg(1, b"r".to_vec(), vec![1]), Op::Seq(b"r".to_vec(), start), Op::Changed(b"r".to_vec(), 1, false), Op::Changed(b"r".to_vec(), 2, false), Op::Changed(b"r".to_vec(), 3, false)];
        emit(write_ops(&ops));
    }
}

pub fn gen150(tier: &str, r: &mut Rng, emit: &mut dyn FnMut(Vec<u64>)) {
    let seqs: [u64; 14] = [0, 1, 255, 256, 257, 65535, 65536, 65537, (1 << 24) - 1, 1 << 24, (1 << 24) + 1, u32::MAX as u64 - 1, u32::MAX as u64, 0x12345678];
    for tkl in 0..9usize { for &seq in seqs.iter() { for conf in 0..2u64 { for &mid in MIDS.iter() {
        let mut v = vec![mid as u64, conf, seq];
        wr_bytes(&mut v, &r.bytes(tkl));
        let pl = r.pick(&[0usize, 1, 20]);
        wr_bytes(&mut v, &r.bytes(pl));
        emit(v);
    } } } }
    for _ in 0..(if tier == "thorough" { 100_000 } else { 3_000 }) {
        let mut v = vec![r.next() & 0xFFFF, r.below(2), r.next() >> (32 + r.below(32))];
        let tkl = r.below(9) as usize;
        wr_bytes(&mut v, &r.bytes(tkl));
        let pl = r.below(30) as usize;
        wr_bytes(&mut v, &r.bytes(pl));
        emit(v);
    }
}

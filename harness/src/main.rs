//! Correspondence harness: generates cases per suite, runs the implementation in /repo
//! on each (panics captured), prints "input ; output" lines in the flat number format.
mod common;
mod suite07;

use common::Rng;
use std::io::{BufRead, Write};
use std::panic;

fn exec(suite: u32, input: &[u64]) -> Vec<u64> {
    let r = panic::catch_unwind(|| match suite {
        70 => suite07::exec(input),
        _ => vec![998],
    });
    match r {
        Ok(v) => v,
        Err(_) => vec![2],
    }
}

fn fmt(v: &[u64]) -> String {
    let mut s = String::with_capacity(v.len() * 4);
    for (i, x) in v.iter().enumerate() {
        if i > 0 { s.push(' '); }
        s.push_str(&x.to_string());
    }
    s
}

fn main() {
    panic::set_hook(Box::new(|_| {}));
    let args: Vec<String> = std::env::args().collect();
    let stdout = std::io::stdout();
    let mut w = std::io::BufWriter::with_capacity(1 << 20, stdout.lock());
    match args[1].as_str() {
        "gen" => {
            let suite: u32 = args[2].parse().unwrap();
            let tier = args[3].as_str();
            let seed: u64 = args[4].parse().unwrap();
            let mut rng = Rng(seed ^ ((suite as u64) << 32));
            // corpus first (inputs only, one per line), if given
            if args.len() > 5 {
                if let Ok(f) = std::fs::File::open(&args[5]) {
                    for line in std::io::BufReader::new(f).lines() {
                        let line = line.unwrap();
                        let inp: Vec<u64> = line.split(';').next().unwrap().split_whitespace()
                            .filter_map(|t| t.parse().ok()).collect();
                        if inp.is_empty() { continue; }
                        let out = exec(suite, &inp);
                        writeln!(w, "{} ; {}", fmt(&inp), fmt(&out)).unwrap();
                    }
                }
            }
            let mut emit = |inp: Vec<u64>| {
                let out = exec(suite, &inp);
                writeln!(w, "{} ; {}", fmt(&inp), fmt(&out)).unwrap();
            };
            match suite {
                70 => suite07::gen(tier, &mut rng, &mut emit),
                _ => {}
            }
        }
        "run" => {
            let suite: u32 = args[2].parse().unwrap();
            let stdin = std::io::stdin();
            for line in stdin.lock().lines() {
                let line = line.unwrap();
                let inp: Vec<u64> = line.split(';').next().unwrap().split_whitespace()
                    .filter_map(|t| t.parse().ok()).collect();
                if inp.is_empty() { continue; }
                let out = exec(suite, &inp);
                writeln!(w, "{} ; {}", fmt(&inp), fmt(&out)).unwrap();
            }
        }
        "info" => {
            writeln!(w, "MAX_SIZE {}", coap_lite::Packet::MAX_SIZE).unwrap();
        }
        _ => {
            eprintln!("usage: harness gen <suite> <tier> <seed> [corpus] | run <suite> | info");
            std::process::exit(2);
        }
    }
    w.flush().unwrap();
}

//! Correspondence harness: generates cases per suite, runs the implementation in /repo
//! on each (panics captured), prints "input ; output" lines in the flat number format.
mod common;
mod names;
mod suite01;
mod suite05;
mod suite06;
mod suite07;
#[cfg(feature = "std")]
mod suite08;
#[cfg(feature = "std")]
mod suite13;
mod suite14;
mod suite16;
mod suite19;

use common::Rng;
use std::io::{BufRead, Write};
use std::panic;

fn exec(suite: u32, input: &[u64]) -> Vec<u64> {
    common::journal(suite, input);
    let r = panic::catch_unwind(|| match suite {
        10 => suite01::exec10(input),
        20 | 30 => suite01::exec20(input),
        40 => suite01::exec40(input),
        50 => suite05::exec(input),
        60 => suite06::exec(input),
        70 => suite07::exec(input),
        #[cfg(feature = "std")]
        80 | 90 | 100 | 110 | 120 | 200 => suite08::exec(suite, input),
        #[cfg(feature = "std")]
        130 => suite13::exec(input),
        140 => suite14::exec140(input),
        150 => suite14::exec150(input),
        160 => suite16::exec160(input),
        170 => suite16::exec170(input),
        180 => suite16::exec180(input),
        190 => suite19::exec(input),
        _ => vec![998],
    });
    match r {
        Ok(v) => v,
        Err(_) => vec![2],
    }
}

fn fmt(v: &[u64]) -> String {
    let mut s = String::with_capacity(v.len() * 4);
    for (i, x) in v.iter().enumerate() {
        if i > 0 { s.push(' '); }
        s.push_str(&x.to_string());
    }
    s
}

fn main() {
    panic::set_hook(Box::new(|_| {}));
    let args: Vec<String> = std::env::args().collect();
    let stdout = std::io::stdout();
    let mut w = std::io::BufWriter::with_capacity(1 << 20, stdout.lock());
    match args[1].as_str() {
        "gen" => {
            let suite: u32 = args[2].parse().unwrap();
            let tier = args[3].as_str();
            let seed: u64 = args[4].parse().unwrap();
            let mut rng = Rng(seed ^ ((suite as u64) << 32));
            // corpus first (inputs only, one per line), if given
            if args.len() > 5 {
                if let Ok(f) = std::fs::File::open(&args[5]) {
                    for line in std::io::BufReader::new(f).lines() {
                        let line = line.unwrap();
                        let inp: Vec<u64> = line.split(';').next().unwrap().split_whitespace()
                            .filter_map(|t| t.parse().ok()).collect();
                        let mut inp = inp;
                        if inp.is_empty() { continue; }
                        if matches!(suite, 10 | 20 | 30) && inp.len() >= 3 {
                            // corpus entries carry the decoder policy of the build they are run on
                            let pol = suite01::probe_policy();
                            inp[..3].copy_from_slice(&pol);
                        }
                        let out = exec(suite, &inp);
                        writeln!(w, "{} ; {}", fmt(&inp), fmt(&out)).unwrap();
                    }
                }
            }
            let mut emit = |inp: Vec<u64>| {
                let out = exec(suite, &inp);
                writeln!(w, "{} ; {}", fmt(&inp), fmt(&out)).unwrap();
            };
            match suite {
                10 => suite01::gen10(tier, &mut rng, &mut emit),
                20 | 30 => suite01::gen20(tier, &mut rng, &mut emit),
                40 => suite01::gen40(tier, &mut rng, &mut emit),
                50 => suite05::gen(tier, &mut rng, &mut emit),
                60 => suite06::gen(tier, &mut rng, &mut emit),
                70 => suite07::gen(tier, &mut rng, &mut emit),
                #[cfg(feature = "std")]
                80 => suite08::gen80(tier, &mut rng, &mut emit),
                #[cfg(feature = "std")]
                90 => suite08::gen90(tier, &mut rng, &mut emit),
                #[cfg(feature = "std")]
                100 => suite08::gen100(tier, &mut rng, &mut emit),
                #[cfg(feature = "std")]
                110 => suite08::gen110(tier, &mut rng, &mut emit),
                #[cfg(feature = "std")]
                120 => suite08::gen120(tier, &mut rng, &mut emit),
                #[cfg(feature = "std")]
                200 => suite08::gen200(tier, &mut rng, &mut emit),
                #[cfg(feature = "std")]
                130 => suite13::gen(tier, &mut rng, &mut emit),
                140 => suite14::gen140(tier, &mut rng, &mut emit),
                150 => suite14::gen150(tier, &mut rng, &mut emit),
                160 => suite16::gen160(tier, &mut rng, &mut emit),
                170 => suite16::gen170(tier, &mut rng, &mut emit),
                180 => suite16::gen180(tier, &mut rng, &mut emit),
                190 => suite19::gen(tier, &mut rng, &mut emit),
                _ => {}
            }
        }
        "run" => {
            let suite: u32 = args[2].parse().unwrap();
            let stdin = std::io::stdin();
            for line in stdin.lock().lines() {
                let line = line.unwrap();
                let inp: Vec<u64> = line.split(';').next().unwrap().split_whitespace()
                    .filter_map(|t| t.parse().ok()).collect();
                if inp.is_empty() { continue; }
                let out = exec(suite, &inp);
                writeln!(w, "{} ; {}", fmt(&inp), fmt(&out)).unwrap();
            }
        }
        "info" => {
            writeln!(w, "MAX_SIZE {}", coap_lite::Packet::MAX_SIZE).unwrap();
        }
        _ => {
            eprintln!("usage: harness gen <suite> <tier> <seed> [corpus] | run <suite> | info");
            std::process::exit(2);
        }
    }
    w.flush().unwrap();
}

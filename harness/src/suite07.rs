//! Suite 7 "response" (C07): CoapResponse::new, CoapRequest::from_packet, apply_from_error.
use crate::common::*;
use coap_lite::error::HandlingError;
use coap_lite::{CoapRequest, CoapResponse};

pub fn exec(input: &[u64]) -> Vec<u64> {
    let mut c = Cur::new(input);
    let req = rd_packet(&mut c);
    let src = c.n();
    let ec = c.n();
    let msg = c.bytes();
    assert!(c.done());
    let err = HandlingError {
        code: if ec == 0 { None } else { Some(ALL_RESP[(ec - 1) as usize]) },
        message: String::from_utf8(msg).unwrap(),
    };
    let mut out = vec![0u64];
    let r0 = CoapResponse::new(&req);
    wr_optpkt(&mut out, r0.as_ref().map(|r| &r.message));
    let mut rq: CoapRequest<u64> = CoapRequest::from_packet(req, src);
    // every fourth case the "handler" turns the prepared reply into a separate response before it fails:
    // Confirmable, an id of its own, an option set.  apply_from_error must leave all of that alone.
    if src % 4 == 3 {
        if let Some(resp) = rq.response.as_mut() {
            resp.message.header.set_type(coap_lite::MessageType::Confirmable);
            resp.message.header.message_id = ((src * 7) % 65536) as u16;
            let mut l = std::collections::LinkedList::new(); l.push_back(vec![(src % 256) as u8]);
            resp.message.set_option(coap_lite::CoapOption::ETag, l);
            if src % 8 == 7 {
                // ... and a notification: Observe and Max-Age set
                let mut o = std::collections::LinkedList::new(); o.push_back(vec![(src % 256) as u8]);
                resp.message.set_option(coap_lite::CoapOption::Observe, o);
                let mut m = std::collections::LinkedList::new(); m.push_back(vec![60u8]);
                resp.message.set_option(coap_lite::CoapOption::MaxAge, m);
            }
        }
    }
    let flag = rq.apply_from_error(err);
    wr_packet(&mut out, &rq.message);
    wr_optpkt(&mut out, rq.response.as_ref().map(|r| &r.message));
    match rq.source { Some(s) => { out.push(1); out.push(s); } None => out.push(0) }
    out.push(flag as u64);
    out
}

pub fn gen(tier: &str, r: &mut Rng, emit: &mut dyn FnMut(Vec<u64>)) {
    let thorough = tier == "thorough";
    let mut one = |r: &mut Rng, vtt: u8, mid: u16, tkl: usize, ec: u64, rich: bool| {
        let mut d = PktDesc::default();
        d.token = r.bytes(tkl);
        d.vtt = (vtt & 0xF0) | (tkl as u8 & 0x0F);
        d.mid = mid;
        d.class = if rich { r.below(256) } else { 1 };
        if rich {
            d.entries = rand_entries(r);
            let pl = r.pick(&[0usize, 1, 5, 40]);
            d.payload = r.bytes(pl);
        }
        let mut v = Vec::new();
        d.write(&mut v);
        v.push(r.below(1000));
        v.push(ec);
        let ml = r.pick(&[0usize, 1, 9, 30]);
        let msg: Vec<u8> = (0..ml).map(|_| 32 + r.below(95) as u8).collect();
        wr_bytes(&mut v, &msg);
        emit(v);
    };
    // the full 4 versions x 4 types x token length 0..8 grid (and 9..15, which set_token admits)
    for ver in 0..4u8 {
        for ty in 0..4u8 {
            for tkl in 0..16usize {
                for &mid in MIDS.iter() {
                    let vtt = ver << 6 | ty << 4;
                    let ec = r.below(29);
                    one(r, vtt, mid, tkl, ec, true);
                    one(r, vtt, mid, tkl, 0, false);
                }
            }
        }
    }
    // every HandlingError code against every type
    for ec in 0..29u64 {
        for ty in 0..4u8 {
            let tkl = r.below(9) as usize;
            let mid = r.next() as u16;
            one(r, 0x40 | ty << 4, mid, tkl, ec, true);
        }
    }
    // all message ids (thorough: every id for every type/version; quick: every id once)
    let reps = if thorough { 16 } else { 1 };
    for k in 0..reps {
        for mid in 0..=65535u16 {
            let vt = if thorough { k as u8 } else { r.below(16) as u8 };
            let tkl = r.below(9) as usize;
            let ec = if r.chance(1, 2) { 0 } else { r.below(29) };
            one(r, vt << 4, mid, tkl, ec, false);
        }
    }
    // requests for the well-known resources of RFC 6690 / 7252 / 9176 (every method, every type): a prepared reply is
    // the same empty 2.05 whatever the target
    for path in [&[".well-known", "core"][..], &[".well-known"][..], &[".well-known", "core", "x"][..], &[".well-known/core"][..], &["rd"][..], &[".well-known", "rd"][..], &[][..]] {
        for code in [1u64, 2, 3, 4, 5, 0] { for ty in 0..4u8 { for q in [false, true] {
            let mut d = PktDesc::default();
            d.token = r.bytes(1); d.vtt = 0x40 | ty << 4 | 1; d.mid = r.next() as u16; d.class = code;
            d.entries = vec![(11, path.iter().map(|s| s.as_bytes().to_vec()).collect())];
            if q { d.entries.push((15, vec![b"rt=temp".to_vec()])); d.entries.push((17, vec![vec![40]])); }
            let mut v = Vec::new();
            d.write(&mut v);
            v.push(r.below(1000)); v.push(r.below(29)); wr_bytes(&mut v, b"x");
            emit(v);
        } } }
    }
    // requests carrying options a server might interpret (No-Response with every interest mask, Observe, Block1/2, If-None-Match)
    for mask in [0u8, 2, 8, 16, 24, 26, 27, 30, 31, 0x1a, 0x7f, 255] { for ty in 0..4u8 { for two in [false, true] {
        let mut d = PktDesc::default();
        d.token = r.bytes(2); d.vtt = 0x40 | ty << 4 | 2; d.mid = r.next() as u16; d.class = 1;
        d.entries = vec![(5, vec![vec![]]), (6, vec![vec![0]]), (23, vec![vec![0x06]]), (258, vec![if two { vec![0, mask] } else { vec![mask] }])];
        let mut v = Vec::new();
        d.write(&mut v);
        v.push(r.below(1000)); v.push(r.below(29)); wr_bytes(&mut v, b"no");
        emit(v);
    } } }
}

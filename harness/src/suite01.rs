//! Codec suites: 10 (C01, API call sequences -> bytes -> decode), 20/30 (C02/C03, byte
//! strings -> decode -> re-encode), 40 (C04, size limits).
use crate::common::*;
use coap_lite::{CoapOption, MessageType, Packet};
use std::collections::LinkedList;

pub fn probe_policy() -> [u64; 3] {
    let rej = |b: &[u8]| Packet::from_bytes(b).is_err() as u64;
    [
        rej(&[0x00, 0x01, 0x00, 0x01]),
        rej(&[0x40, 0x01, 0x00, 0x01, 0xFF]),
        rej(&[0x41, 0x00, 0x00, 0x01, 0xAA]),
    ]
}

fn res_bytes(out: &mut Vec<u64>, r: Result<Vec<u8>, coap_lite::error::MessageError>) -> Option<Vec<u8>> {
    match r {
        Ok(b) => { out.push(0); wr_bytes(out, &b); Some(b) }
        Err(_) => { out.push(1); None }
    }
}

#[derive(Clone, Debug)]
pub enum Op {
    Ver(u8), Type(u8), Code(u64), Mid(u16), Token(Vec<u8>), Payload(Vec<u8>),
    Add(u16, Vec<u8>), Set(u16, Vec<Vec<u8>>), Clear(u16), ClearAll,
    /// the typed convenience setters (content format by number, observe value) and a header replaced as a whole
    /// (`p.header = Header::new()`) followed by set_token
    SetCf(u64), SetObs(u32), ResetHeader(Vec<u8>),
}
impl Op {
    pub fn write(&self, o: &mut Vec<u64>) {
        match self {
            Op::Ver(v) => { o.push(0); o.push(*v as u64); }
            Op::Type(t) => { o.push(1); o.push(*t as u64); }
            Op::Code(c) => { o.push(2); o.push(*c); }
            Op::Mid(m) => { o.push(3); o.push(*m as u64); }
            Op::Token(t) => { o.push(4); wr_bytes(o, t); }
            Op::Payload(t) => { o.push(5); wr_bytes(o, t); }
            Op::Add(k, v) => { o.push(6); o.push(*k as u64); wr_bytes(o, v); }
            Op::Set(k, vs) => { o.push(7); o.push(*k as u64); o.push(vs.len() as u64); for v in vs { wr_bytes(o, v); } }
            Op::Clear(k) => { o.push(8); o.push(*k as u64); }
            Op::ClearAll => o.push(9),
            Op::SetCf(n) => { o.push(10); o.push(*n); }
            Op::SetObs(n) => { o.push(11); o.push(*n as u64); }
            Op::ResetHeader(t) => { o.push(12); wr_bytes(o, t); }
        }
    }
    pub fn apply(&self, p: &mut Packet) {
        match self {
            Op::Ver(v) => p.header.set_version(*v),
            Op::Type(t) => p.header.set_type(mtype(*t)),
            Op::Code(c) => p.header.code = class_dec(*c),
            Op::Mid(m) => p.header.message_id = *m,
            Op::Token(t) => p.set_token(t.clone()),
            Op::Payload(b) => p.payload = b.clone(),
            Op::Add(k, v) => match (v.len() + *k as usize) % 4 {
                // the generic writers of coap-message 0.2 / 0.3 are public ways to add an option too (Packet is a
                // SeekWritableMessage: any order, repeats kept in order of addition)
                1 => { use coap_message::MinimalWritableMessage; MinimalWritableMessage::add_option(p, CoapOption::from(*k), v); }
                2 => { use coap_message_0_3::MinimalWritableMessage; MinimalWritableMessage::add_option(p, CoapOption::from(*k), v).unwrap(); }
                _ => p.add_option(CoapOption::from(*k), v.clone()),
            },
            Op::Set(k, vs) => p.set_option(CoapOption::from(*k), vs.iter().cloned().collect::<LinkedList<_>>()),
            Op::Clear(k) => p.clear_option(CoapOption::from(*k)),
            Op::ClearAll => p.clear_all_options(),
            Op::SetCf(n) => p.set_content_format(std::convert::TryFrom::try_from(*n as usize).unwrap()),
            Op::SetObs(n) => p.set_observe_value(*n),
            Op::ResetHeader(t) => { p.header = coap_lite::Header::new(); p.set_token(t.clone()); }
        }
    }
}
pub fn mtype(t: u8) -> MessageType {
    match t { 0 => MessageType::Confirmable, 1 => MessageType::NonConfirmable, 2 => MessageType::Acknowledgement, _ => MessageType::Reset }
}
pub fn rd_op(c: &mut Cur) -> Op {
    match c.n() {
        0 => Op::Ver(c.n() as u8),
        1 => Op::Type(c.n() as u8),
        2 => Op::Code(c.n()),
        3 => Op::Mid(c.n() as u16),
        4 => Op::Token(c.bytes()),
        5 => Op::Payload(c.bytes()),
        6 => { let k = c.n() as u16; Op::Add(k, c.bytes()) }
        7 => { let k = c.n() as u16; let n = c.n(); Op::Set(k, (0..n).map(|_| c.bytes()).collect()) }
        8 => Op::Clear(c.n() as u16),
        9 => Op::ClearAll,
        10 => Op::SetCf(c.n()),
        11 => Op::SetObs(c.n() as u32),
        12 => Op::ResetHeader(c.bytes()),
        x => panic!("bad op {}", x),
    }
}
pub fn build(ops: &[Op]) -> Packet {
    let mut p = Packet::new();
    for o in ops { o.apply(&mut p); }
    p
}

pub fn exec10(input: &[u64]) -> Vec<u64> {
    let mut c = Cur::new(input);
    c.n(); c.n(); c.n();
    let n = c.n();
    let ops: Vec<Op> = (0..n).map(|_| rd_op(&mut c)).collect();
    assert!(c.done());
    let p = build(&ops);
    let mut out = vec![0u64];
    wr_packet(&mut out, &p);
    if let Some(bs) = res_bytes(&mut out, p.to_bytes_unlimited()) {
        let limited = p.to_bytes();
        let consistent = if bs.len() <= Packet::MAX_SIZE { limited.as_ref().ok() == Some(&bs) } else { limited.is_err() };
        if !consistent { return vec![3, bs.len() as u64]; }   // no well-formed observation starts with 3: the oracle rejects it
        match Packet::from_bytes(&bs) {
            Ok(q) => { out.push(0); wr_packet(&mut out, &q); }
            Err(_) => out.push(1),
        }
    }
    out
}

pub fn exec20(input: &[u64]) -> Vec<u64> {
    let mut c = Cur::new(input);
    c.n(); c.n(); c.n();
    let bs = c.bytes();
    assert!(c.done());
    let mut out = Vec::new();
    match Packet::from_bytes(&bs) {
        Ok(p) => {
            // "no two different accepted datagrams parse to equal messages" is also a statement about ==
            let mut more = p.clone(); more.add_option(CoapOption::from(65001), vec![1]);
            let mut other_payload = p.clone(); other_payload.payload.push(0);
            let mut fewer = p.clone();
            let last = fewer.options().map(|(k, _)| *k).last();
            if let Some(k) = last { fewer.clear_all_options(); for (n, vs) in p.options() { if *n != k { fewer.set_option(CoapOption::from(*n), vs.clone()); } } }
            let eq_ok = p == p.clone() && p != more && more != p && p != other_payload && (last.is_none() || (p != fewer && fewer != p));
            if !eq_ok { return vec![3]; }   // not a well-formed observation: the oracle rejects it
            out.push(0);
            wr_packet(&mut out, &p);
            res_bytes(&mut out, p.to_bytes_unlimited());
        }
        Err(_) => out.push(1),
    }
    out
}

pub fn exec40(input: &[u64]) -> Vec<u64> {
    let mut c = Cur::new(input);
    let _mx = c.n();
    let mode = c.n();
    let lim = if mode == 1 { c.n() as usize } else { 0 };
    let p = rd_packet(&mut c);
    assert!(c.done());
    let mut out = Vec::new();
    let r = match mode { 0 => p.to_bytes(), 1 => p.to_bytes_with_limit(lim), _ => p.to_bytes_unlimited() };
    res_bytes(&mut out, r);
    out
}

// ------------------------------------------------------------------ generators

const NUMS: [u16; 14] = [0, 1, 11, 12, 13, 14, 255, 256, 257, 258, 268, 269, 270, 65535];
const GAPS: [u16; 13] = [0, 1, 12, 13, 14, 255, 256, 257, 268, 269, 270, 1000, 65000];
const LENS: [usize; 9] = [0, 1, 12, 13, 14, 268, 269, 270, 300];
const BIGLENS: [usize; 5] = [1000, 65535, 65536, 65803, 65804];
/// values of the one- and two-byte extension fields that exercise every bit (and the carries around 255/256)
const EXT2: [usize; 22] = [0, 1, 2, 0xFE, 0xFF, 0x100, 0x101, 0x155, 0x1FF, 0x200, 0x2AA, 0x3FF, 0x400, 0x7FF, 0x1000, 0x5555, 0x7FFF, 0x8000, 0xAAAA, 0xFEF2, 0xFEF3, 0xFFFF];
const CODES: [u64; 8] = [0, 1, 2, 0x45, 0x5F, 0x84, 0xFF, 0xA8];

fn emit_ops(pol: &[u64; 3], ops: &[Op], emit: &mut dyn FnMut(Vec<u64>)) {
    let mut v = pol.to_vec();
    v.push(ops.len() as u64);
    for o in ops { o.write(&mut v); }
    emit(v);
}

/// a random API call sequence over a small key set (collisions, clears, re-adds)
pub fn rand_ops(r: &mut Rng, maxlen: u64) -> Vec<Op> {
    let n = 1 + r.below(maxlen);
    let keys: [u16; 10] = [0, 1, 11, 12, 13, 14, 27, 258, 300, 65535];
    (0..n).map(|_| match r.below(19) {
        0 => Op::Ver(r.below(4) as u8),
        1 => Op::Type(r.below(4) as u8),
        // 512 + b: MessageClass::Reserved(b) even when b has a name (Reserved(0) is sent with its payload; it is not Empty)
        2 => Op::Code(match r.below(8) { 0..=3 => r.pick(&CODES), 4 => r.pick(&[512u64, 512 + 1, 512 + 0x45, 256, 257]), _ => r.below(256) }),
        3 => Op::Mid(r.pick(&MIDS)),
        4 => { let l = r.below(9) as usize; Op::Token(r.bytes(l)) }
        5 => { let l = r.pick(&[0usize, 1, 2, 10, 100]); let mut b = r.bytes(l); if l > 0 && r.chance(1, 4) { b[0] = 0xFF; } Op::Payload(b) }
        6..=10 => { let l = if r.chance(1, 6) { r.pick(&LENS) } else { r.below(5) as usize }; Op::Add(r.pick(&keys), r.bytes(l)) }
        11 | 12 => { let nv = r.below(4); Op::Set(r.pick(&keys), (0..nv).map(|_| { let l = r.below(4) as usize; r.bytes(l) }).collect()) }
        13 | 14 => Op::Clear(r.pick(&keys)),
        16 => Op::SetCf(r.pick(&[0u64, 40, 41, 42, 50, 60, 110, 11542, 10001])),
        17 => Op::SetObs(r.pick(&[0u32, 1, 5, 255, 256, 65535, 65536, 1 << 24, u32::MAX])),
        18 => { let l = r.below(9) as usize; Op::ResetHeader(r.bytes(l)) }
        _ => if r.chance(1, 4) { Op::ClearAll } else { Op::Clear(r.pick(&keys)) },
    }).collect()
}

pub fn gen10(tier: &str, r: &mut Rng, emit: &mut dyn FnMut(Vec<u64>)) {
    let thorough = tier == "thorough";
    let pol = probe_policy();
    // A. first option number x value length
    for &n in NUMS.iter() { for &l in LENS.iter() {
        emit_ops(&pol, &[Op::Add(n, r.bytes(l))], emit);
    } }
    // B. first number x gap, both API orders, with and without payload
    for &n in NUMS.iter() { for &g in GAPS.iter() {
        if n as u32 + g as u32 > 65535 { continue; }
        let (l1, l2) = (r.below(3) as usize, r.below(3) as usize);
        let a = Op::Add(n, r.bytes(l1));
        let b = Op::Add(n + g, r.bytes(l2));
        emit_ops(&pol, &[a.clone(), b.clone()], emit);
        emit_ops(&pol, &[b, a, Op::Payload(vec![1, 2, 3])], emit);
    } }
    // C. long values
    for &l in BIGLENS.iter() { for &n in [11u16, 258].iter() {
        emit_ops(&pol, &[Op::Add(n, r.bytes(l))], emit);
    } }
    // C'. every length 13..=268 (the whole one-byte extension) and the two-byte extension's bit patterns, as value
    // lengths and as option-number gaps
    for l in 13usize..=268 { emit_ops(&pol, &[Op::Add(11, r.bytes(l))], emit); }
    for &x in EXT2.iter() {
        emit_ops(&pol, &[Op::Add(7, r.bytes(269 + x))], emit);
        if 269 + x <= 65535 { emit_ops(&pol, &[Op::Add((269 + x) as u16, vec![x as u8]), Op::Add(((269 + x) as u32 + 13).min(65535) as u16, vec![1])], emit); }
    }
    for g in 13u16..=268 { emit_ops(&pol, &[Op::Add(1, vec![]), Op::Add(1 + g, vec![g as u8])], emit); }
    emit_ops(&pol, &[Op::Add(11, r.bytes(65805))], emit);   // outside C01's domain (C04 decides it)
    // C''. no payload, exactly at the default limit (one two-byte-extended option of 7 + L bytes after the 4-byte header)
    for d in [-1i64, 0, 1] { let l = (Packet::MAX_SIZE as i64 - 7 + d) as usize; emit_ops(&pol, &[Op::Add(11, r.bytes(l))], emit); emit_ops(&pol, &[Op::Code(0), Op::Add(11, r.bytes(l)), Op::Payload(vec![1, 2])], emit); }
    emit_ops(&pol, &[Op::Type(2), Op::Code(0)], emit);
    // D. header grid
    for ver in 0..4u8 { for ty in 0..4u8 { for tkl in 0..9usize { for &code in CODES.iter() {
        let mut ops = vec![Op::Ver(ver), Op::Type(ty), Op::Token(r.bytes(tkl)), Op::Code(code), Op::Mid(r.pick(&MIDS))];
        if r.chance(1, 2) { ops.push(Op::Add(r.pick(&NUMS), r.bytes(2))); }
        if r.chance(1, 2) { ops.push(Op::Payload(r.bytes(3))); }
        emit_ops(&pol, &ops, emit);
    } } } }
    // E. every order of a five-setter script around an option
    let script = [Op::Ver(2), Op::Type(3), Op::Token(vec![9, 8, 7]), Op::Code(0x45), Op::Mid(0xBEEF)];
    let mut idx = [0usize, 1, 2, 3, 4];
    loop {
        let mut ops: Vec<Op> = idx.iter().map(|&i| script[i].clone()).collect();
        ops.insert((idx[0] + idx[2]) % 5, Op::Add(258, vec![0x1A]));
        emit_ops(&pol, &ops, emit);
        // next permutation
        let mut i = 4;
        while i > 0 && idx[i - 1] >= idx[i] { i -= 1; }
        if i == 0 { break; }
        let mut j = 4;
        while idx[j] <= idx[i - 1] { j -= 1; }
        idx.swap(i - 1, j);
        idx[i..].reverse();
    }
    // E'. the header replaced as a whole after a token was set, then a token of the same / another length; the other
    // header setters before and after
    for l0 in 0..9usize { for l1 in [l0, (l0 + 1) % 9, 0] { for extra in 0..3 {
        let mut ops = vec![Op::Token(r.bytes(l0)), Op::Type(1), Op::Mid(0x1234)];
        if extra == 1 { ops.push(Op::Add(11, b"p".to_vec())); }
        ops.push(Op::ResetHeader(r.bytes(l1)));
        if extra == 2 { ops.push(Op::Code(0x45)); ops.push(Op::Payload(vec![1])); }
        emit_ops(&pol, &ops, emit);
    } } }
    // E''. the typed setters over an option that already holds the same number (padded, repeated) or another one
    for n in [0u64, 40, 50, 60, 11542] { for pad in 0..3usize { for rep in [false, true] { for same in [true, false] {
        let mut first = vec![0u8; pad]; let m = if same { n } else { 41 };
        if m > 255 { first.push((m >> 8) as u8); } if m > 0 { first.push(m as u8); }
        let mut ops = vec![Op::Add(12, first)];
        if rep { ops.push(Op::Add(12, vec![60])); }
        ops.push(Op::SetCf(n));
        emit_ops(&pol, &ops, emit);
    } } } }
    for n in [0u32, 1, 7, 256, 65536] { for pad in 0..3usize { for rep in [false, true] { for same in [true, false] {
        let mut first = vec![0u8; pad]; let m = if same { n } else { n + 1 };
        first.extend(m.to_be_bytes().iter().skip_while(|b| **b == 0));
        let mut ops = vec![Op::Add(6, first)];
        if rep { ops.push(Op::Add(6, vec![9])); }
        ops.push(Op::SetObs(n));
        emit_ops(&pol, &ops, emit);
    } } } }
    // F. random call sequences
    let nrand = if thorough { 400_000 } else { 20_000 };
    for _ in 0..nrand {
        let ops = rand_ops(r, 12);
        emit_ops(&pol, &ops, emit);
    }
    // G. all first numbers / all gaps (thorough: every 16-bit number as first option)
    let step = if thorough { 1 } else { 97 };
    let mut n = 0u32;
    while n <= 65535 {
        emit_ops(&pol, &[Op::Add(n as u16, vec![n as u8])], emit);
        n += step;
    }
}

fn emit_bytes(pol: &[u64; 3], b: &[u8], emit: &mut dyn FnMut(Vec<u64>)) {
    let mut v = pol.to_vec();
    wr_bytes(&mut v, b);
    emit(v);
}

pub fn gen20(tier: &str, r: &mut Rng, emit: &mut dyn FnMut(Vec<u64>)) {
    let thorough = tier == "thorough";
    let pol = probe_policy();
    // 1. short strings (including every string shorter than a header)
    emit_bytes(&pol, &[], emit);
    for a in 0..=255u8 { emit_bytes(&pol, &[a], emit); }
    for a in 0..=255u8 { for b in [0u8, 1, 0x40, 0x45, 0xFF] { emit_bytes(&pol, &[a, b], emit); emit_bytes(&pol, &[a, b, 7], emit); } }
    // 2. every first byte (version/type/TKL) with enough / not enough token bytes
    for a in 0..=255u8 { for extra in [0usize, 1, 7, 8, 9, 15, 16] { for code in [0u8, 1] {
        let mut b = vec![a, code, 0x12, 0x34];
        b.extend(r.bytes(extra));
        emit_bytes(&pol, &b, emit);
    } } }
    // 3. every byte string of up to two bytes after each header
    let headers: Vec<Vec<u8>> = {
        let mut h = vec![
            vec![0x40, 0x01, 0, 1], vec![0x40, 0x00, 0, 1], vec![0x41, 0x01, 0, 1, 0xAA],
        ];
        if thorough {
            h.extend(vec![vec![0x48, 0x45, 0xFF, 0xFF, 1, 2, 3, 4, 5, 6, 7, 8], vec![0x00, 0x01, 0, 1], vec![0xC0, 0x02, 0, 1],
                          vec![0x80, 0x01, 0, 1], vec![0x49, 0x01, 0, 1, 1, 2, 3, 4, 5, 6, 7, 8, 9],
                          vec![0x4F, 0x01, 0, 1], vec![0x70, 0xFF, 0, 1], vec![0x41, 0x00, 0, 1, 0xAA], vec![0x50, 0x84, 1, 0]]);
        }
        h
    };
    let third: [u8; 12] = [0x00, 0x01, 0x0C, 0x0D, 0x0E, 0x0F, 0x10, 0xD0, 0xE0, 0xF0, 0xFE, 0xFF];
    for h in headers.iter() {
        emit_bytes(&pol, h, emit);
        for a in 0..=255u8 {
            let mut b = h.clone(); b.push(a); emit_bytes(&pol, &b, emit);
            for c in 0..=255u8 {
                let mut b2 = b.clone(); b2.push(c); emit_bytes(&pol, &b2, emit);
                if thorough || (a >= 0xC0 && c >= 0xF0) || a == 0xD0 || a == 0xE0 || a == 0x0D || a == 0x0E || a == 0xDD || a == 0xEE {
                    for &d in third.iter() { let mut b3 = b2.clone(); b3.push(d); emit_bytes(&pol, &b3, emit); }
                }
            }
        }
    }
    // 4. every option header byte with every 1-byte extension and boundary 2-byte extensions,
    //    followed by exactly enough / one too few value bytes
    let ext2: [u16; 10] = [0, 1, 255, 256, 257, 1000, 65265, 65266, 65267, 65535];
    for hb in 0..=255u8 {
        let (dn, ln) = (hb >> 4, hb & 15);
        let dexts: Vec<Vec<u8>> = match dn { 13 => (0..=255u8).map(|x| vec![x]).collect(), 14 => ext2.iter().map(|x| vec![(x >> 8) as u8, *x as u8]).collect(), _ => vec![vec![]] };
        let lexts: Vec<Vec<u8>> = match ln { 13 => [0u8, 1, 254, 255].iter().map(|x| vec![*x]).collect(), 14 => ext2.iter().map(|x| vec![(x >> 8) as u8, *x as u8]).collect(), _ => vec![vec![]] };
        for (di, dx) in dexts.iter().enumerate() { for lx in lexts.iter() {
            let vlen: usize = match ln { 13 => lx[0] as usize + 13, 14 => ((lx[0] as usize) << 8 | lx[1] as usize) + 269, 15 => 0, n => n as usize };
            if vlen > 600 && (di > 0 || (dn != 0 && dn != 13 && dn != 14 && dn != 15)) { continue; }
            for short in [0usize, 1] {
                if short > vlen { continue; }
                let mut b = vec![0x40, 0x01, 0, 1, hb];
                b.extend(dx); b.extend(lx); b.extend(r.bytes(vlen - short));
                emit_bytes(&pol, &b, emit);
                // a second option after it, so the running number matters
                if short == 0 { let mut b2 = b.clone(); b2.extend([0xD0u8, 0xFF]); emit_bytes(&pol, &b2, emit);
                                let mut b3 = b.clone(); b3.extend([0xE1u8, 0xFF, 0xFF, 0x00]); emit_bytes(&pol, &b3, emit); }
            }
        } }
    }
    // 5. cumulative number around 65535
    for first in [65534u32, 65535] { for d in [0u32, 1, 2, 13, 14, 269, 270] {
        let mut b = vec![0x40u8, 0x01, 0, 1];
        let f = first - 269; b.extend([0xE0, (f >> 8) as u8, f as u8]);
        if d <= 12 { b.push((d as u8) << 4); } else if d < 269 { b.extend([0xD0, (d - 13) as u8]); } else { let x = d - 269; b.extend([0xE0, (x >> 8) as u8, x as u8]); }
        emit_bytes(&pol, &b, emit);
    } }
    // 6. prefixes and single-byte corruptions of well-formed messages
    let nmsg = if thorough { 1000 } else { 300 };
    let subst: [u8; 8] = [0x00, 0x0D, 0x0E, 0x0F, 0xD0, 0xE0, 0xF0, 0xFF];
    for _ in 0..nmsg {
        let ops = rand_ops(r, 10);
        let p = build(&ops);
        let bs = match probe(&p) { Ok(b) => b, Err(_) => continue };
        if bs.len() > 400 { continue; }
        emit_bytes(&pol, &bs, emit);
        for k in 0..bs.len() { emit_bytes(&pol, &bs[..k], emit); }
        for k in 0..bs.len() {
            if !thorough && bs.len() > 40 && r.chance(2, 3) { continue; }
            for &s in subst.iter() { let mut c = bs.clone(); c[k] = s; emit_bytes(&pol, &c, emit); }
            let mut c = bs.clone(); c[k] = c[k].wrapping_add(1); emit_bytes(&pol, &c, emit);
            let mut c = bs.clone(); c[k] = c[k].wrapping_sub(1); emit_bytes(&pol, &c, emit);
        }
    }
    // 7. random strings, biased towards option-looking bytes
    let nrand = if thorough { 500_000 } else { 30_000 };
    for _ in 0..nrand {
        let l = r.below(24) as usize;
        let mut b = vec![0x40 | r.below(9) as u8, r.next() as u8, r.next() as u8, r.next() as u8];
        if r.chance(1, 10) { b[0] = r.next() as u8; }
        for _ in 0..l { b.push(if r.chance(1, 3) { r.pick(&subst) } else if r.chance(1, 2) { r.below(0x30) as u8 } else { r.next() as u8 }); }
        emit_bytes(&pol, &b, emit);
    }
    // 8'. the extension fields' bit patterns, complete and cut one byte short
    for &x in EXT2.iter() {
        let vlen = 269 + x;
        let mut b = vec![0x40u8, 0x01, 0, 1, 0xBE, (x >> 8) as u8, x as u8];
        b.extend(r.bytes(vlen));
        emit_bytes(&pol, &b, emit);
        b.pop();
        emit_bytes(&pol, &b, emit);
        if vlen <= 65535 { emit_bytes(&pol, &[0x40u8, 0x01, 0, 1, 0xE0, (x >> 8) as u8, x as u8], emit); }
    }
    for x in 0..=255u8 {
        let mut b = vec![0x40u8, 0x01, 0, 1, 0x1D, x];
        b.extend(r.bytes(13 + x as usize));
        emit_bytes(&pol, &b, emit);
        emit_bytes(&pol, &[0x40u8, 0x01, 0, 1, 0xD0, x], emit);
    }
    // 8. long values across the 16-bit extension's upper end
    for vlen in [65535usize, 65536, 65803, 65804] {
        let x = vlen - 269;
        let mut b = vec![0x40u8, 0x01, 0, 1, 0xBE, (x >> 8) as u8, x as u8];
        b.extend(r.bytes(vlen));
        emit_bytes(&pol, &b, emit);
        b.pop();
        emit_bytes(&pol, &b, emit);
    }
    // 9. MANY options (the count, not the size, is what grows): around every power of two of the count up to 2^12 and
    // around the default message size, empty and one-byte values, alone, with a payload, and with a malformed tail
    let mut counts: Vec<usize> = vec![100, 255, 256, 257, 1279, 1280, 1281, 1285];
    if thorough { for k in [7u32, 9, 10, 11] { for d in [-1i64, 0, 1] { counts.push(((1i64 << k) + d) as usize); } } }
    for &n in counts.iter() { for hb in [0x00u8, 0x10, 0x01] {
        let mut b = vec![0x40u8, 0x01, 0, 1];
        for i in 0..n { b.push(hb); if hb & 15 == 1 { b.push(i as u8); } }
        emit_bytes(&pol, &b, emit);
        for tail in [&[0xFFu8, 0x61][..], &[0xFF][..], &[0xF0][..], &[0x0D][..], &[0x02, 0x01][..], &[0xE0, 0xFF, 0xFF, 0x10][..]] {
            let mut c = b.clone(); c.extend(tail); emit_bytes(&pol, &c, emit);
        }
    } }
}

fn desc_of(p: &Packet) -> PktDesc {
    PktDesc {
        vtt: raw_vtt(&p.header), class: class_enc(p.header.code), mid: p.header.message_id,
        token: p.get_token().to_vec(),
        entries: p.options().map(|(k, vs)| (*k, vs.iter().cloned().collect())).collect(),
        payload: p.payload.clone(),
    }
}

/// to_bytes_unlimited as a generator's probe: journalled as the suite-40 case it is
fn probe(p: &Packet) -> Result<Vec<u8>, coap_lite::error::MessageError> {
    let mut v = vec![Packet::MAX_SIZE as u64, 2];
    desc_of(p).write(&mut v);
    crate::common::journal(40, &v);
    p.to_bytes_unlimited()
}

pub fn gen40(tier: &str, r: &mut Rng, emit: &mut dyn FnMut(Vec<u64>)) {
    let thorough = tier == "thorough";
    let mx = Packet::MAX_SIZE as u64;
    let mut one = |p: &Packet, mode: u64, lim: u64, emit: &mut dyn FnMut(Vec<u64>)| {
        let mut v = vec![mx, mode];
        if mode == 1 { v.push(lim); }
        desc_of(p).write(&mut v);
        emit(v);
    };
    let mut lims: Vec<u64> = vec![0, 3, 4, 5, 6, 17, 64, 255, 256, 1279, 1280, 1281, 64000, 64001];
    for _ in 0..(if thorough { 60 } else { 8 }) { lims.push(5 + r.below(3000)); }
    let reps = if thorough { 12 } else { 2 };
    for &lim in lims.iter() { for _ in 0..reps { for via in 0..3 {
        // base message
        let mut base = rand_ops(r, 6);
        base.retain(|o| !matches!(o, Op::Payload(_)));
        let mut p = build(&base);
        if r.chance(1, 8) { p.header.code = class_dec(0); }
        let l0 = match probe(&p) { Ok(b) => b.len() as i64, Err(_) => continue };
        for delta in [-2i64, -1, 0, 1, 2] {
            let target = lim as i64 + delta;
            let mut q = p.clone();
            if via == 0 {
                let pl = target - l0 - 1;
                if pl < 1 { continue; }
                q.payload = r.bytes(pl as usize);
            } else if via == 1 {
                // land through option bytes
                let room = target - l0;
                if room < 1 { continue; }
                let mut done = false;
                for x in (0..=room.min(70000)).rev() {
                    let mut t = p.clone();
                    t.add_option(CoapOption::from(65500), vec![0xAB; x as usize]);
                    if let Ok(b) = probe(&t) { if b.len() as i64 == target { q = t; done = true; break; } if (b.len() as i64) < target - 8 { break; } }
                }
                if !done { continue; }
            } else {
                // both: some payload and the rest through an option
                let room = target - l0;
                if room < 12 { continue; }
                q.payload = r.bytes((room / 3) as usize);
                let l1 = probe(&q).unwrap().len() as i64;
                let mut done = false;
                for x in (0..=(target - l1).max(0)).rev() {
                    let mut t = q.clone();
                    t.add_option(CoapOption::from(65501), vec![0xCD; x as usize]);
                    if let Ok(b) = probe(&t) { if b.len() as i64 == target { q = t; done = true; break; } if (b.len() as i64) < target - 8 { break; } }
                }
                if !done { continue; }
            }
            one(&q, 1, lim, emit);
            if lim == mx { one(&q, 0, 0, emit); }
            if delta == 0 { one(&q, 2, 0, emit); }
        }
    } } }
    // default limit entry point around MAX_SIZE through the payload, every token length
    for tkl in 0..9usize { for d in -2i64..=2 {
        let mut p = Packet::new();
        p.set_token(r.bytes(tkl));
        p.add_option(CoapOption::UriPath, b"x".to_vec());
        let l0 = probe(&p).unwrap().len() as i64;
        p.payload = r.bytes((mx as i64 + d - l0 - 1) as usize);
        one(&p, 0, 0, emit);
        one(&p, 2, 0, emit);
    } }
    // 0.00 messages whose unsent payload must not count
    for pl in [1usize, 10, 1275, 1276, 1277, 1300, 70000] { for lim in [4u64, 5, 1280] {
        let mut p = Packet::new();
        p.header.code = class_dec(0);
        p.payload = r.bytes(pl);
        one(&p, 1, lim, emit);
        one(&p, 0, 0, emit);
    } }
    // header token-length nibble different from the token's length (both are public): outside the exact-length
    // clause, but the copies must stay inside their buffers all the same
    for tl in [0usize, 1, 8, 12] { for nib in [0u8, 1, 7, 8, 15] { for pl in [0usize, 5] { for mode in [0u64, 2] {
        let mut p = Packet::new();
        p.set_token(r.bytes(tl));
        p.header.set_token_length(nib);
        if tl % 2 == 1 { p.add_option(CoapOption::UriPath, b"x".to_vec()); }
        p.payload = r.bytes(pl);
        one(&p, mode, 0, emit);
        one(&p, 1, (4 + tl + pl) as u64, emit);
    } } } }
    // an option number left with an EMPTY value list (clear_option) as the highest key, exactly at / around the limit
    for tkl in [0usize, 4] { for extra in [0usize, 1, 7] {
        let mut p = Packet::new();
        p.set_token(r.bytes(tkl));
        p.add_option(CoapOption::UriPath, b"sensors".to_vec());
        p.add_option(CoapOption::UriQuery, b"q".to_vec());
        p.clear_option(CoapOption::UriQuery);
        if extra > 0 { p.payload = r.bytes(extra); }
        let l = probe(&p).unwrap().len() as u64;
        for lim in [l - 1, l, l + 1] { one(&p, 1, lim, emit); }
        let mut q = p.clone(); q.payload = vec![];
        let ln = probe(&q).unwrap().len() as i64;
        q.payload = r.bytes((mx as i64 - ln - 1) as usize + extra.min(1));
        one(&q, 0, 0, emit);
    } }
    // MessageClass::Reserved(0): the code byte of Empty, but the payload IS sent and counts
    for pl in [1usize, 20, 44] { for d in [-1i64, 0, 1] {
        let mut p = Packet::new();
        p.header.code = coap_lite::MessageClass::Reserved(0);
        p.payload = r.bytes(pl);
        let l = probe(&p).unwrap().len() as i64;
        one(&p, 1, (l + d) as u64, emit);
        one(&p, 0, 0, emit);
    } }
    { let mut p = Packet::new(); p.header.code = coap_lite::MessageClass::Reserved(0); p.payload = r.bytes(mx as usize + 10); one(&p, 0, 0, emit); }
    // over-long option values are refused, with and without limit
    for vl in [65803usize, 65804, 65805, 65806, 131341, 131342] { for mode in [0u64, 1, 2] {
        let mut p = Packet::new();
        p.add_option(CoapOption::from(if vl % 2 == 0 { 11 } else { 300 }), r.bytes(vl));
        if r.chance(1, 2) { p.add_option(CoapOption::from(12), vec![]); }
        one(&p, mode, 200_000, emit);
    } }
    // an over-long value next to other options, in every relative position (option number, byte-wise order of the
    // values, length order): the refusal must not depend on which value a scan looks at first or last
    for vl in [65805usize, 70000] { for fill in [0x00u8, 0x61, 0xFF] { for (n_long, n_other) in [(11u16, 12u16), (12, 11), (11, 11), (300, 3)] {
        for other in [&b""[..], &b"sensors"[..], &[0u8][..], &[0xFFu8, 0xFF][..]] { for mode in [1u64, 2] {
            let mut p = Packet::new();
            if n_long == n_other { p.add_option(CoapOption::from(n_other), other.to_vec()); }
            p.add_option(CoapOption::from(n_long), vec![fill; vl]);
            if n_long != n_other { p.add_option(CoapOption::from(n_other), other.to_vec()); }
            one(&p, mode, 200_000, emit);
        } }
    } } }
    // the encoded OPTIONS alone (not the message) landing on every size around the default limit, for every option
    // header size (1..5 bytes), alone and after a short first option; refused or not, the buffer must hold them
    for (num, first) in [(1u16, false), (11, false), (35, false), (300, false), (35, true), (300, true)] { for d in -6i64..=9 {
        for hdr in [2usize, 3, 4, 5] {
            // header size of the long option: 1 + delta extension (0/1/2) + length extension (2, value >= 269)
            let dext = if num < 13 { 0 } else if num < 269 { 1 } else { 2 };
            if 1 + dext + 2 != hdr { continue; }
            let firstlen = if first { 2 } else { 0 };   // option 1 with a one-byte value
            let vl = mx as i64 + d - hdr as i64 - firstlen as i64;
            let mut p = Packet::new();
            if first { p.add_option(CoapOption::from(1), vec![7]); }
            p.add_option(CoapOption::from(num), vec![0x55; vl as usize]);
            for mode in [0u64, 2] { one(&p, mode, 0, emit); }
            one(&p, 1, 70_000, emit);
            let mut q = p.clone(); q.payload = vec![1]; one(&q, 2, 0, emit);
        }
    } }
    // random messages x random limits
    for _ in 0..(if thorough { 100_000 } else { 5_000 }) {
        let ops = rand_ops(r, 8);
        let p = build(&ops);
        let l = probe(&p).map(|b| b.len() as u64).unwrap_or(20);
        let lim = match r.below(4) { 0 => l, 1 => l.saturating_sub(1), 2 => l + 1, _ => r.below(2 * l + 2) };
        one(&p, 1, lim, emit);
    }
}

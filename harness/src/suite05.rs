//! Suite 50 (C05): the number tables through their public conversions (exhaustive).
use crate::common::*;
use crate::names::*;
use crate::suite01::mtype;
use coap_lite::{CoapOption, ContentFormat, Header, MessageClass, ObserveOption, Packet};
use std::convert::TryFrom;

fn err_flag(c: MessageClass) -> u64 {
    match c { MessageClass::Response(r) => r.is_error() as u64, _ => 2 }
}
fn type_bits(t: coap_lite::MessageType) -> u64 {
    match t { coap_lite::MessageType::Confirmable => 0, coap_lite::MessageType::NonConfirmable => 1,
              coap_lite::MessageType::Acknowledgement => 2, coap_lite::MessageType::Reset => 3 }
}

pub fn exec(input: &[u64]) -> Vec<u64> {
    let x = input[1];
    match input[0] {
        0 => { let o = CoapOption::from(x as u16); vec![option_index(o), u16::from(o) as u64] }
        1 => { let o = ALL_OPTIONS[x as usize]; let n = u16::from(o); vec![n as u64, option_index(CoapOption::from(n))] }
        2 => match ContentFormat::try_from(x as usize) {
            Ok(c) => vec![0, cf_index(c), usize::from(c) as u64],
            Err(_) => vec![1],
        },
        3 => { let c = ALL_CF[x as usize]; let n = usize::from(c);
               vec![n as u64, ContentFormat::try_from(n).map(cf_index).unwrap_or(9999)] }
        4 => {
            let c = MessageClass::from(x as u8);
            let mut out = vec![class_enc(c), u8::from(c) as u64];
            let txt = c.to_string();
            wr_bytes(&mut out, txt.as_bytes());
            let mut h = Header::new();
            h.set_code(&txt);
            assert_eq!(h.get_code(), txt);
            out.push(class_enc(h.code));
            out.push(err_flag(c));
            // the same byte through the packet codec
            let mut p = Packet::new(); p.header.code = c;
            let bs = p.to_bytes().unwrap();
            assert_eq!(bs[1], u8::from(c));
            assert_eq!(Packet::from_bytes(&bs).unwrap().header.code, MessageClass::from(bs[1]));
            out
        }
        5 => {
            let c = class_dec(x);
            let mut out = vec![u8::from(c) as u64];
            wr_bytes(&mut out, c.to_string().as_bytes());
            out.push(err_flag(c));
            out
        }
        6 => {
            let mut h = header_from(x as u8, MessageClass::Empty, 0);
            let mut out = vec![h.get_version() as u64, type_bits(h.get_type()), h.get_token_length() as u64];
            h.set_type(mtype(input[2] as u8));
            out.push(raw_vtt(&h) as u64);
            out.push(type_bits(h.get_type()));
            out
        }
        7 => { let r = ALL_RESP[x as usize]; vec![r.is_error() as u64, u8::from(MessageClass::Response(r)) as u64] }
        8 => match ObserveOption::try_from(x as usize) { Ok(o) => vec![0, usize::from(o) as u64], Err(_) => vec![1] },
        9 => { let mut h = header_from(x as u8, MessageClass::Empty, 0); h.set_version(input[2] as u8); vec![raw_vtt(&h) as u64] }
        10 => vec![u8::from(MessageClass::Request(ALL_REQ[x as usize])) as u64],
        11 => {
            let c = class_dec(x);
            let mut rq: coap_lite::CoapRequest<u8> = coap_lite::CoapRequest::new();
            rq.message.header.code = c;
            let method = *rq.get_method();
            let resp_index = |m: coap_lite::ResponseType| ALL_RESP.iter().position(|x| *x == m).unwrap() as u64;
            let mut rs = coap_lite::CoapResponse::new(&Packet::new()).unwrap();
            rs.message.header.code = c;
            let status = *rs.get_status();
            vec![resp_index(status), u8::from(MessageClass::Request(method)) as u64]
        }
        12 => {
            // the observe action a request reports for an Observe option holding x in its shortest form
            let mut rq: coap_lite::CoapRequest<u8> = coap_lite::CoapRequest::new();
            rq.message.add_option(CoapOption::Observe, Vec::from(coap_lite::option_value::OptionValueU32(x as u32)));
            match rq.get_observe_flag() { None => vec![0], Some(Ok(f)) => vec![1, 0, usize::from(f) as u64], Some(Err(_)) => vec![1, 1] }
        }
        _ => vec![998],
    }
}

pub fn gen(_tier: &str, _r: &mut Rng, emit: &mut dyn FnMut(Vec<u64>)) {
    for x in 0..65536u64 { emit(vec![0, x]); emit(vec![2, x]); }
    for i in 0..21u64 { emit(vec![1, i]); }
    for i in 0..60u64 { emit(vec![3, i]); }
    for x in [65536u64, 65537, 1 << 16 | 40, 1 << 32, (1 << 32) + 50, u64::MAX, u64::MAX - 1, 1 << 63] { emit(vec![2, x]); emit(vec![8, x]); }
    for b in 0..256u64 { emit(vec![4, b]); emit(vec![5, 512 + b]); }
    emit(vec![5, 256]); emit(vec![5, 257]);
    for v in 0..256u64 { for t in 0..4u64 { emit(vec![6, v, t]); } for x in 0..256u64 { emit(vec![9, v, x]); } }
    for i in 0..28u64 { emit(vec![7, i]); }
    for i in 0..8u64 { emit(vec![10, i]); }
    for x in 0..258u64 { emit(vec![11, x]); }
    for b in 0..256u64 { emit(vec![11, 512 + b]); }
    for x in 0..300u64 { emit(vec![8, x]); }
    // observe numbers as a request reports them: small numbers, every power of two and its neighbours, and every number
    // that is 0 or 1 modulo 2^8, 2^16 or 2^24 with one other byte set
    for x in 0..600u64 { emit(vec![12, x]); }
    for k in 0..32u32 { for d in [-1i64, 0, 1, 2] { let v = (1i64 << k) + d; if v >= 0 && v < (1 << 32) { emit(vec![12, v as u64]); } } }
    for low in [0u64, 1] { for sh in [8u32, 16, 24] { for hi in [1u64, 2, 0x7F, 0x80, 0xFF] { emit(vec![12, (hi << sh) | low]); emit(vec![12, (hi << sh) | (hi << 8) | low]); } } }
    emit(vec![12, u32::MAX as u64]); emit(vec![12, u32::MAX as u64 - 1]);
}

//! Shared pieces of the harness: PRNG, flat number-list codec, packet (de)serialisation
//! in the same format as coq/Packet.v (rd_packet / wr_packet).
use coap_lite::{CoapOption, Header, HeaderRaw, MessageClass, Packet, RequestType, ResponseType};
use std::collections::LinkedList;
use std::convert::TryFrom;

pub struct Rng(pub u64);
impl Rng {
    pub fn next(&mut self) -> u64 {
        self.0 = self.0.wrapping_add(0x9E3779B97F4A7C15);
        let mut z = self.0;
        z = (z ^ (z >> 30)).wrapping_mul(0xBF58476D1CE4E5B9);
        z = (z ^ (z >> 27)).wrapping_mul(0x94D049BB133111EB);
        z ^ (z >> 31)
    }
    pub fn below(&mut self, n: u64) -> u64 {
        if n == 0 { 0 } else { self.next() % n }
    }
    pub fn pick<T: Copy>(&mut self, xs: &[T]) -> T {
        xs[self.below(xs.len() as u64) as usize]
    }
    pub fn bytes(&mut self, n: usize) -> Vec<u8> {
        (0..n).map(|_| self.next() as u8).collect()
    }
    pub fn bytes_pick(&mut self, lens: &[usize]) -> Vec<u8> { let n = self.pick(lens); self.bytes(n) }
    pub fn bytes_below(&mut self, n: u64) -> Vec<u8> { let k = self.below(n) as usize; self.bytes(k) }
    pub fn chance(&mut self, num: u64, den: u64) -> bool {
        self.below(den) < num
    }
}

pub struct Cur<'a> {
    pub v: &'a [u64],
    pub i: usize,
}
impl<'a> Cur<'a> {
    pub fn new(v: &'a [u64]) -> Self { Cur { v, i: 0 } }
    pub fn n(&mut self) -> u64 {
        let x = self.v[self.i];
        self.i += 1;
        x
    }
    pub fn bytes(&mut self) -> Vec<u8> {
        let n = self.n() as usize;
        let b: Vec<u8> = self.v[self.i..self.i + n].iter().map(|&x| x as u8).collect();
        self.i += n;
        b
    }
    pub fn done(&self) -> bool { self.i == self.v.len() }
}

pub fn wr_bytes(out: &mut Vec<u64>, b: &[u8]) {
    out.push(b.len() as u64);
    out.extend(b.iter().map(|&x| x as u64));
}

pub const ALL_RESP: [ResponseType; 28] = [
    ResponseType::Created, ResponseType::Deleted, ResponseType::Valid, ResponseType::Changed,
    ResponseType::Content, ResponseType::Continue,
    ResponseType::BadRequest, ResponseType::Unauthorized, ResponseType::BadOption,
    ResponseType::Forbidden, ResponseType::NotFound, ResponseType::MethodNotAllowed,
    ResponseType::NotAcceptable, ResponseType::Conflict, ResponseType::PreconditionFailed,
    ResponseType::RequestEntityTooLarge, ResponseType::UnsupportedContentFormat,
    ResponseType::RequestEntityIncomplete, ResponseType::UnprocessableEntity,
    ResponseType::TooManyRequests,
    ResponseType::InternalServerError, ResponseType::NotImplemented, ResponseType::BadGateway,
    ResponseType::ServiceUnavailable, ResponseType::GatewayTimeout,
    ResponseType::ProxyingNotSupported, ResponseType::HopLimitReached,
    ResponseType::UnKnown,
];
pub const ALL_REQ: [RequestType; 8] = [
    RequestType::Get, RequestType::Post, RequestType::Put, RequestType::Delete,
    RequestType::Fetch, RequestType::Patch, RequestType::IPatch, RequestType::UnKnown,
];

pub fn class_enc(c: MessageClass) -> u64 {
    match c {
        MessageClass::Request(RequestType::UnKnown) => 256,
        MessageClass::Response(ResponseType::UnKnown) => 257,
        MessageClass::Reserved(n) => {
            if MessageClass::from(n) == MessageClass::Reserved(n) { n as u64 } else { 512 + n as u64 }
        }
        c => u8::from(c) as u64,
    }
}
pub fn class_dec(n: u64) -> MessageClass {
    if n < 256 { MessageClass::from(n as u8) }
    else if n == 256 { MessageClass::Request(RequestType::UnKnown) }
    else if n == 257 { MessageClass::Response(ResponseType::UnKnown) }
    else { MessageClass::Reserved((n - 512) as u8) }
}

pub fn raw_vtt(h: &Header) -> u8 {
    let mut buf = Vec::with_capacity(4);
    h.to_raw().serialize_into(&mut buf).unwrap();
    buf[0]
}

pub fn header_from(vtt: u8, class: MessageClass, mid: u16) -> Header {
    let raw = HeaderRaw::try_from(&[vtt, 0, (mid >> 8) as u8, mid as u8][..]).unwrap();
    let mut h = Header::from_raw(&raw);
    h.code = class;
    h
}

/// Reads a packet description (coq: rd_packet) and builds the packet state.
pub fn rd_packet(c: &mut Cur) -> Packet {
    let vtt = c.n() as u8;
    let class = class_dec(c.n());
    let mid = c.n() as u16;
    let tok = c.bytes();
    let mut p = Packet::new();
    p.set_token(tok);
    p.header = header_from(vtt, class, mid);
    let nent = c.n();
    for _ in 0..nent {
        let k = c.n() as u16;
        let nv = c.n();
        let mut l = LinkedList::new();
        for _ in 0..nv {
            l.push_back(c.bytes());
        }
        p.set_option(CoapOption::from(k), l);
    }
    p.payload = c.bytes();
    p
}

pub fn wr_optmap(out: &mut Vec<u64>, p: &Packet) {
    out.push(p.options().len() as u64);
    for (k, vs) in p.options() {
        out.push(*k as u64);
        out.push(vs.len() as u64);
        for v in vs.iter() {
            wr_bytes(out, v);
        }
    }
}

pub fn wr_packet(out: &mut Vec<u64>, p: &Packet) {
    out.push(raw_vtt(&p.header) as u64);
    out.push(class_enc(p.header.code));
    out.push(p.header.message_id as u64);
    wr_bytes(out, p.get_token());
    wr_optmap(out, p);
    wr_bytes(out, &p.payload);
}

pub fn wr_optpkt(out: &mut Vec<u64>, p: Option<&Packet>) {
    match p {
        Some(p) => { out.push(1); wr_packet(out, p); }
        None => out.push(0),
    }
}

/// Description of a packet in the flat format (generator side).
#[derive(Clone, Debug, Default)]
pub struct PktDesc {
    pub vtt: u8,
    pub class: u64,
    pub mid: u16,
    pub token: Vec<u8>,
    pub entries: Vec<(u16, Vec<Vec<u8>>)>,
    pub payload: Vec<u8>,
}
impl PktDesc {
    pub fn write(&self, out: &mut Vec<u64>) {
        out.push(self.vtt as u64);
        out.push(self.class);
        out.push(self.mid as u64);
        wr_bytes(out, &self.token);
        out.push(self.entries.len() as u64);
        for (k, vs) in &self.entries {
            out.push(*k as u64);
            out.push(vs.len() as u64);
            for v in vs { wr_bytes(out, v); }
        }
        wr_bytes(out, &self.payload);
    }
}

pub const MIDS: [u16; 9] = [0, 1, 255, 256, 257, 4660, 32768, 65534, 65535];

/// A random small option set (keys may repeat in the entry list: later insert wins).
pub fn rand_entries(r: &mut Rng) -> Vec<(u16, Vec<Vec<u8>>)> {
    let n = r.pick(&[0u64, 0, 1, 1, 2, 3, 5]);
    (0..n).map(|_| {
        let k = r.pick(&[1u16, 3, 4, 6, 11, 12, 14, 15, 17, 23, 27, 28, 35, 60, 258, 65535, 2049]);
        let nv = r.pick(&[0u64, 1, 1, 1, 2, 3]);
        let vs = (0..nv).map(|_| { let l = r.pick(&[0usize, 1, 2, 3, 8, 13]); r.bytes(l) }).collect();
        (k, vs)
    }).collect()
}

/// Generators that call the implementation themselves (to measure a length) journal the equivalent case first.
/// When VERIF_JOURNAL names a file, the input about to be executed is written there first, so that
/// a run the implementation ends by aborting the process (heap corruption, a failed precondition
/// check of an unsafe call, stack exhaustion) still names the input it died on.
pub fn journal(suite: u32, input: &[u64]) {
    use std::io::Write;
    use std::io::{Seek, SeekFrom};
    use std::sync::{Mutex, OnceLock};
    static J: OnceLock<Option<Mutex<std::fs::File>>> = OnceLock::new();
    let j = J.get_or_init(|| std::env::var_os("VERIF_JOURNAL").and_then(|p| std::fs::File::create(p).ok()).map(Mutex::new));
    if let Some(m) = j {
        let mut f = m.lock().unwrap();
        let mut s = format!("{} |", suite);
        for x in input { s.push(' '); s.push_str(&x.to_string()); }
        let _ = f.seek(SeekFrom::Start(0));
        let _ = f.write_all(s.as_bytes());
        let _ = f.set_len(s.len() as u64);
    }
}


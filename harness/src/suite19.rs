//! Suite 190 (C19): convenience accessors and the coap-message trait views.
use crate::common::*;
use crate::names::*;
use crate::suite06;
use coap_lite::{CoapRequest, CoapResponse, ObserveOption, Packet};
use std::convert::TryFrom;

fn req_index(m: &coap_lite::RequestType) -> u64 { ALL_REQ.iter().position(|x| x == m).unwrap() as u64 }
fn resp_index(m: &coap_lite::ResponseType) -> u64 { ALL_RESP.iter().position(|x| x == m).unwrap() as u64 }

fn request_of(p: Packet) -> CoapRequest<u64> {
    let mut r: CoapRequest<u64> = CoapRequest::new();
    r.message = p;
    r
}

fn wr_flag(out: &mut Vec<u64>, r: &CoapRequest<u64>) {
    match r.get_observe_flag() {
        None => out.push(0),
        Some(Ok(f)) => { out.push(1); out.push(0); out.push(usize::from(f) as u64); }
        Some(Err(_)) => { out.push(1); out.push(1); }
    }
}
fn wr_path(out: &mut Vec<u64>, r: &CoapRequest<u64>) {
    wr_bytes(out, r.get_path().as_bytes());
    match r.get_path_as_vec() {
        Ok(v) => { out.push(0); out.push(v.len() as u64); for s in v { wr_bytes(out, s.as_bytes()); } }
        Err(_) => out.push(1),
    }
}
fn view02(out: &mut Vec<u64>, p: &Packet) {
    use coap_message::{MessageOption, ReadableMessage};
    out.push(u8::from(ReadableMessage::code(p)) as u64);
    let opts: Vec<(u16, Vec<u8>)> = ReadableMessage::options(p).map(|o| (o.number(), o.value().to_vec())).collect();
    out.push(opts.len() as u64);
    for (k, v) in opts { out.push(k as u64); wr_bytes(out, &v); }
    wr_bytes(out, ReadableMessage::payload(p));
}
fn view03(out: &mut Vec<u64>, p: &Packet) {
    use coap_message_0_3::{MessageOption, ReadableMessage};
    out.push(u8::from(ReadableMessage::code(p)) as u64);
    let opts: Vec<(u16, Vec<u8>)> = ReadableMessage::options(p).map(|o| (o.number(), o.value().to_vec())).collect();
    out.push(opts.len() as u64);
    for (k, v) in opts { out.push(k as u64); wr_bytes(out, &v); }
    wr_bytes(out, ReadableMessage::payload(p));
}

pub fn exec(input: &[u64]) -> Vec<u64> {
    if input[0] == 8 { let mut v = input.to_vec(); v[0] = 7; return suite06::exec(&v); }
    if input[0] == 12 { let mut v = input.to_vec(); v[0] = 6; return suite06::exec(&v); }
    let mut c = Cur::new(&input[1..]);
    let mut out = Vec::new();
    match input[0] {
        0 => { let mut r = request_of(rd_packet(&mut c)); let m = ALL_REQ[c.n() as usize]; r.set_method(m); wr_packet(&mut out, &r.message); out.push(req_index(r.get_method())); }
        1 => { let r = request_of(rd_packet(&mut c)); out.push(req_index(r.get_method())); }
        2 => { let mut r = CoapResponse { message: rd_packet(&mut c) }; let s = ALL_RESP[c.n() as usize]; r.set_status(s); wr_packet(&mut out, &r.message); out.push(resp_index(r.get_status())); }
        3 => { let r = CoapResponse { message: rd_packet(&mut c) }; out.push(resp_index(r.get_status())); }
        4 => { let mut r = request_of(rd_packet(&mut c)); let path = String::from_utf8(c.bytes()).unwrap(); r.set_path(&path); wr_packet(&mut out, &r.message); wr_path(&mut out, &r); }
        5 => { let r = request_of(rd_packet(&mut c)); wr_path(&mut out, &r); }
        6 => { let mut r = request_of(rd_packet(&mut c)); let f = ObserveOption::try_from(c.n() as usize).unwrap(); r.set_observe_flag(f); out.push(0); wr_packet(&mut out, &r.message); wr_flag(&mut out, &r); }
        7 => { let r = request_of(rd_packet(&mut c)); wr_flag(&mut out, &r); }
        9 => {
            use coap_message::MinimalWritableMessage;
            let src = rd_packet(&mut c); let mut dst = rd_packet(&mut c);
            MinimalWritableMessage::set_from_message(&mut dst, &src);
            wr_packet(&mut out, &dst); view02(&mut out, &dst);
        }
        10 => {
            use coap_message_0_3::MinimalWritableMessage;
            let src = rd_packet(&mut c); let mut dst = rd_packet(&mut c);
            MinimalWritableMessage::set_from_message(&mut dst, &src).unwrap();
            wr_packet(&mut out, &dst); view03(&mut out, &dst);
        }
        11 => { let p = rd_packet(&mut c); view02(&mut out, &p); view03(&mut out, &p); }
        _ => out.push(998),
    }
    out
}

fn pkt_with_code(r: &mut Rng, class: u64) -> PktDesc { let mut d = suite06::rand_pkt(r); d.class = class; d }

pub fn gen(tier: &str, r: &mut Rng, emit: &mut dyn FnMut(Vec<u64>)) {
    let thorough = tier == "thorough";
    let reps = if thorough { 20 } else { 2 };
    let codes: Vec<u64> = (0..256u64).chain([256, 257]).chain((0..256u64).map(|b| 512 + b)).collect();
    for _ in 0..reps {
        for &c in codes.iter() {
            for kind in [1u64, 3] { let d = pkt_with_code(r, c); let mut v = vec![kind]; d.write(&mut v); emit(v); }
        }
        for m in 0..8u64 { for &c in [0u64, 1, 5, 0x45, 255, 256, 257, 512 + 2].iter() { let d = pkt_with_code(r, c); let mut v = vec![0]; d.write(&mut v); v.push(m); emit(v); } }
        for s in 0..28u64 { for &c in [0u64, 1, 0x45, 0x5F, 0x89, 255, 257, 512 + 0x45].iter() { let d = pkt_with_code(r, c); let mut v = vec![2]; d.write(&mut v); v.push(s); emit(v); } }
        for f in 0..2u64 { for _ in 0..20 { let d = suite06::rand_pkt(r); let mut v = vec![6]; d.write(&mut v); v.push(f); emit(v); } }
        for i in 0..60u64 { for _ in 0..3 { let d = suite06::rand_pkt(r); let mut v = vec![8]; d.write(&mut v); v.push(i); emit(v); } }
    }
    // paths over {'/', 'a', '.', 'é', empty} exhaustively to length 6 (quick: 5), plus random
    let alpha: [&str; 4] = ["/", "a", ".", "é"];
    let maxl = if thorough { 6 } else { 5 };
    let mut stack: Vec<String> = vec![String::new()];
    let mut count = 0u64;
    while let Some(s) = stack.pop() {
        count += 1;
        let d = if count % 3 == 0 { suite06::rand_pkt(r) } else { PktDesc { vtt: 0x40, class: 1, ..Default::default() } };
        let mut v = vec![4]; d.write(&mut v); wr_bytes(&mut v, s.as_bytes()); emit(v);
        if s.chars().count() < maxl { for a in alpha.iter() { stack.push(format!("{}{}", s, a)); } }
    }
    for _ in 0..(if thorough { 50_000 } else { 3_000 }) {
        let n = r.below(12);
        let s: String = (0..n).map(|_| r.pick(&['/', '/', 'a', 'b', '.', 'é', '€', '𝄞', ' ', '?', '%', '2', '5', 'F', 'f', '+', '&', '='])).collect();
        let d = suite06::rand_pkt(r);
        let mut v = vec![4]; d.write(&mut v); wr_bytes(&mut v, s.as_bytes()); emit(v);
    }
    // raw Uri-Path / Observe states
    for _ in 0..(if thorough { 50_000 } else { 4_000 }) {
        let mut d = suite06::rand_pkt(r);
        let n = r.below(4);
        let segs: Vec<Vec<u8>> = (0..n).map(|_| match r.below(5) { 0 => vec![0xC3], 1 => vec![0xFF, 0x61], 2 => vec![], 3 => "é".as_bytes().to_vec(), _ => b"seg".to_vec() }).collect();
        d.entries.push((11, segs));
        let mut v = vec![5]; d.write(&mut v); emit(v);
        let mut d = suite06::rand_pkt(r);
        let l = r.below(7) as usize;
        let mut b = r.bytes(l); if r.chance(1, 2) { for x in b.iter_mut() { *x = 0; } if l > 0 { b[l - 1] = r.below(3) as u8; } }
        let nv = r.below(3);
        d.entries.push((6, (0..nv).map(|i| if i == 0 { b.clone() } else { vec![0] }).collect()));
        let mut v = vec![7]; d.write(&mut v); emit(v);
    }
    // the Observe / Content-Format getters over raw states (kind 12): every 16-bit number in its shortest form (which
    // of them have a name is the registry's business, not a list frozen here), every named number padded with leading
    // zeros to 3..5 bytes and with one high byte set (values that are a named number only modulo 2^8k), repeated values
    for n in 0..65536u64 {
        let b: Vec<u8> = if n == 0 { vec![] } else if n < 256 { vec![n as u8] } else { vec![(n >> 8) as u8, n as u8] };
        let mut d = PktDesc { vtt: 0x40, class: 0x45, ..Default::default() };
        d.entries = vec![(12, vec![b.clone()]), (6, vec![b])];
        let mut v = vec![12]; d.write(&mut v); emit(v);
    }
    let named: Vec<u64> = ALL_CF.iter().map(|c| usize::from(*c) as u64).collect();
    for &n in named.iter().chain([0u64, 1, 2].iter()) { for l in 1..=5usize { for hi in [0u8, 1, 0x80, 0xFF] { for pos in 0..l {
        let mut b = vec![0u8; l];
        if l >= 2 { b[l - 2] = (n >> 8) as u8; } else if n > 255 { continue; }
        b[l - 1] = n as u8;
        if hi != 0 { if pos + 2 >= l && (pos + 1 == l || n > 255) { continue; } if pos + 1 >= l { continue; } if b[pos] != 0 { continue; } b[pos] = hi; } else if pos > 0 { continue; }
        for rep in [false, true] {
            let mut d = PktDesc { vtt: 0x40, class: 1, ..Default::default() };
            let vals = if rep { vec![b.clone(), vec![50]] } else { vec![b.clone()] };
            d.entries = vec![(6, vals.clone()), (12, vals)];
            let mut v = vec![12]; d.write(&mut v); emit(v);
            let mut d7 = PktDesc { vtt: 0x40, class: 1, ..Default::default() };
            d7.entries = vec![(6, if rep { vec![b.clone(), vec![0]] } else { vec![b.clone()] })];
            let mut v = vec![7]; d7.write(&mut v); emit(v);
        }
    } } } }
    // set_content_format over a prior value that already means the same (or another) format: padded, repeated
    for (i, c) in ALL_CF.iter().enumerate() { let n = usize::from(*c) as u64; if i % 7 != 0 && n != 0 && n != 50 { continue; }
        for pad in 0..4usize { for extra in 0..3usize { for other in [false, true] {
            let m = if other { n + 1 } else { n };
            let mut first = vec![0u8; pad]; if m > 255 { first.push((m >> 8) as u8); } if m > 0 { first.push(m as u8); }
            let mut vals = vec![first];
            for e in 0..extra { vals.push(if e == 0 { if n > 255 { vec![(n >> 8) as u8, n as u8] } else if n > 0 { vec![n as u8] } else { vec![] } } else { vec![9] }); }
            let mut d = PktDesc { vtt: 0x40, class: 0x45, mid: 7, ..Default::default() };
            d.entries = vec![(12u16, vals)];
            let mut v = vec![8]; d.write(&mut v); v.push(i as u64); emit(v);
        } } }
    }
    // trait views and copies
    for _ in 0..(if thorough { 50_000 } else { 4_000 }) {
        let mut src = suite06::rand_pkt(r);
        if r.chance(1, 3) { src.class = r.pick(&codes); }
        let dst = if r.chance(3, 4) { PktDesc { vtt: 0x40, class: 1, ..Default::default() } } else { suite06::rand_pkt(r) };
        for kind in [9u64, 10] { let mut v = vec![kind]; src.write(&mut v); dst.write(&mut v); emit(v); }
        let mut v = vec![11]; src.write(&mut v); emit(v);
    }
}

//! Suite 130 (C13): block option values (RFC 7959 section 2.2).
use crate::common::*;
use coap_lite::block_handler::BlockValue;
use std::convert::TryFrom;

fn wr_block(out: &mut Vec<u64>, b: &BlockValue) {
    out.push(b.num as u64); out.push(b.more as u64); out.push(b.size_exponent as u64);
}

pub fn exec(input: &[u64]) -> Vec<u64> {
    let mut out = Vec::new();
    match input[0] {
        0 => {
            let b = BlockValue { num: input[1] as u16, more: input[2] != 0, size_exponent: input[3] as u8 };
            let size = b.size() as u64;
            let bs: Vec<u8> = Vec::from(b);
            out.push(0); wr_bytes(&mut out, &bs);
            match BlockValue::try_from(bs) { Ok(d) => { out.push(0); wr_block(&mut out, &d); } Err(_) => out.push(1) }
            out.push(size);
        }
        1 => {
            let mut c = Cur::new(&input[1..]);
            match BlockValue::try_from(c.bytes()) {
                Ok(d) => { out.push(0); wr_block(&mut out, &d); out.push(d.size() as u64); }
                Err(_) => out.push(1),
            }
        }
        2 => match BlockValue::new(input[1] as usize, input[2] != 0, input[3] as usize) {
            Ok(d) => { out.push(0); wr_block(&mut out, &d); out.push(d.size() as u64); }
            Err(_) => out.push(1),
        },
        _ => out.push(998),
    }
    out
}

pub fn gen(tier: &str, r: &mut Rng, emit: &mut dyn FnMut(Vec<u64>)) {
    let thorough = tier == "thorough";
    // encode/decode: every num (quick: every num for szx 0 and 7, strided otherwise) x more x szx
    for num in 0..65536u64 { for m in 0..2u64 { for szx in 0..8u64 {
        if thorough || szx == 0 || szx == 7 || num < 300 || num % 17 == 0 || (num & (num + 1)) == 0 || (num & (num.wrapping_sub(1))) == 0 { emit(vec![0, num, m, szx]); }
    } } }
    // decode: all byte strings of length <= 2, length 3 (quick: boundary grid), some of length 4..5
    emit(vec![1, 0]);
    for a in 0..256u64 { emit(vec![1, 1, a]); for b in 0..256u64 { emit(vec![1, 2, a, b]); } }
    let grid: Vec<u64> = if thorough { (0..256).collect() } else { vec![0, 1, 2, 7, 8, 15, 16, 17, 127, 128, 240, 254, 255] };
    for &a in grid.iter() { for &b in grid.iter() { for c in (0..256u64).step_by(if thorough { 1 } else { 5 }) { emit(vec![1, 3, a, b, c]); } } }
    for _ in 0..2000 { let l = 4 + r.below(2) as usize; let mut b = r.bytes(l); if r.chance(1, 2) { b[0] = 0; } let mut v = vec![1]; wr_bytes(&mut v, &b); emit(v); }
    // new
    let mut nums: Vec<u64> = (0..=4097).step_by(if thorough { 16 } else { 64 }).collect();
    if thorough { nums.extend(0..300); }
    nums.extend([1, 4095, 4096, 4097, 65535, 65536, 65537, u64::MAX, 1 << 32]);
    // numbers and sizes that are small again after a narrowing cast or a shift that loses high bits
    nums.extend([1 << 28, (1 << 28) + 5, 0x3000_0005, (1 << 28) - 1, (1 << 20) + 3, (1 << 32) + 7, (1 << 44) + 1, (15 << 28) + 65535]);
    let mut sizes: Vec<u64> = (0..=8200).collect();
    for k in 0..64u32 { let p = 1u64 << k; sizes.extend([p.wrapping_sub(1), p, p.wrapping_add(1)]); }
    sizes.push(u64::MAX);
    sizes.extend([(1u64 << 32) + 16, (1u64 << 32) + 1024, (1u64 << 32) + 4095, (1u64 << 33) + 256, (1u64 << 16) + 64, (1u64 << 48) + 512, (3u64 << 32) + 32]);
    // consecutive calls: a refused size that is congruent to a valid one modulo some power of two, then the valid one
    // (and the other way round); the result of a call depends on its arguments alone
    for k in [8u32, 16, 24, 28, 32, 40, 48, 56, 60, 63] { for e in 4..=10u32 {
        let valid = 1u64 << e;
        for first in [(1u64 << k).wrapping_add(valid), (1u64 << k) | valid | 1, valid << 8, valid | (valid << (k % 50))] {
            emit(vec![2, 0, 0, first]); emit(vec![2, 3, 1, valid]);
            emit(vec![2, 3, 1, valid]); emit(vec![2, 0, 0, first]);
        }
    } }
    for &n in nums.iter() { for &s in sizes.iter() {
        if !thorough && n > 1 && n < 65535 && s > 70 && s % 13 != 0 && (s & (s - 1)) != 0 { continue; }
        emit(vec![2, n, r.below(2), s]);
    } }
}

#!/usr/bin/env python3
"""Source-to-Coq translator for the unsafe copy sites of Packet::to_bytes_internal
(DESIGN.md 2.3.2).  Re-reads /repo/src/packet.rs, extracts every `unsafe { ... }` block of
the function together with the `reserve` that precedes it, and emits coq/gen/UnsafeSites.v:
the blocks as data over symbolic lengths (sums of `<expr>.len()` terms).  The safety theorem
(proofs/PUnsafe.v, Props/C04.v) is then re-checked against what the source says now.

Exit status 0 and the file (re)written on success; exit 1 with a message when the source no
longer has a shape the translator understands (the tie is then broken, and reported so)."""
import os, re, sys

SRC = "/repo/src/packet.rs"
OUT = os.path.join(os.path.dirname(os.path.dirname(os.path.abspath(__file__))), "coq", "gen", "UnsafeSites.v")


def fail(msg):
    print("unsafe_sites: " + msg)
    sys.exit(1)


def function_body(src, name):
    i = src.find("fn " + name)
    if i < 0:
        fail("function %s not found" % name)
    j = src.find("{", i)
    depth, k = 0, j
    while k < len(src):
        if src[k] == "{":
            depth += 1
        elif src[k] == "}":
            depth -= 1
            if depth == 0:
                return src[j:k + 1]
        k += 1
    fail("unbalanced braces in " + name)


def strip_comments(s):
    return re.sub(r"//[^\n]*", "", s)


def block_at(s, i):
    """s[i] == '{' -> (text inside, index after closing brace)"""
    depth, k = 0, i
    while k < len(s):
        if s[k] == "{":
            depth += 1
        elif s[k] == "}":
            depth -= 1
            if depth == 0:
                return s[i + 1:k], k + 1
        k += 1
    fail("unbalanced unsafe block")


class Syms:
    def __init__(self):
        self.names = []

    def idx(self, name):
        name = re.sub(r"\s+", "", name)
        if name not in self.names:
            self.names.append(name)
        return self.names.index(name)


def lin(expr, syms, alias):
    """sum of terms `X.len()` / alias -> list of symbol indices"""
    expr = re.sub(r"\s+", "", expr)
    out = []
    for term in expr.split("+"):
        if term in alias:
            out += alias[term]
            continue
        m = re.fullmatch(r"([A-Za-z_][\w\.]*)\.len\(\)", term)
        if not m:
            fail("length expression not understood: %r" % term)
        out.append(syms.idx(m.group(1)))
    return out


def main():
    src = strip_comments(open(SRC).read())
    body = function_body(src, "to_bytes_internal")
    syms = Syms()
    sites = []
    pos = 0
    while True:
        m = re.search(r"\bunsafe\s*\{", body[pos:])
        if not m:
            break
        start = pos + m.end() - 1
        inner, after = block_at(body, start)
        before = body[:pos + m.start()]
        # destination vector: from the copies
        copies = re.findall(r"ptr::copy\(\s*([\w\.]+)\.as_ptr\(\)\s*,\s*([\w\.]+)\.as_mut_ptr\(\)\s*\.add\(([^;]*?)\)\s*,\s*([^;]*?)\s*,?\s*\)\s*;", inner, re.S)
        if not copies:
            fail("unsafe block without a recognisable ptr::copy")
        dsts = set(c[1] for c in copies)
        if len(dsts) != 1:
            fail("copies into different vectors in one block")
        dst = dsts.pop()
        alias = {}
        for am in re.finditer(r"let\s+(\w+)\s*=\s*([\w\.]+)\.len\(\)\s*;", inner):
            if am.group(2) != dst:
                fail("alias of a length other than the destination's")
            alias[am.group(1)] = [syms.idx(dst)]
        # anything else in the block must be use/let/copy/set_len
        rest = inner
        rest = re.sub(r"use\s+core::ptr\s*;", "", rest)
        rest = re.sub(r"let\s+\w+\s*=\s*[\w\.]+\.len\(\)\s*;", "", rest)
        rest = re.sub(r"ptr::copy\([^;]*\)\s*;", "", rest, flags=re.S)
        sl = re.findall(re.escape(dst) + r"\s*\.set_len\(\s*([^;]*?)\s*,?\s*\)\s*;", rest, re.S)
        rest = re.sub(re.escape(dst) + r"\s*\.set_len\([^;]*\)\s*;", "", rest, flags=re.S)
        if rest.strip():
            fail("unsafe block contains statements the translator does not know: %r" % rest.strip()[:80])
        if len(sl) != 1:
            fail("expected exactly one set_len in the block")
        # the reserve: the last statement before the block must be `dst.reserve(E);`
        stmts = [x.strip() for x in re.split(r";", before) if x.strip()]
        reserve = []
        if stmts:
            rm = re.fullmatch(re.escape(dst) + r"\s*\.reserve\(\s*(.*?)\s*,?\s*\)", stmts[-1].split("\n")[-1].strip() if False else stmts[-1], re.S)
            last = stmts[-1]
            rm = re.search(re.escape(dst) + r"\s*\.reserve\(\s*([^;]*?)\s*,?\s*\)\s*$", last, re.S)
            if rm and not re.search(r"[{}]", last[rm.start():]):
                reserve = lin(rm.group(1), syms, {})
        site = dict(dst=syms.idx(dst), reserve=reserve,
                    copies=[(syms.idx(c[0]), lin(c[2], syms, alias), lin(c[3], syms, alias)) for c in copies],
                    setlen=lin(sl[0], syms, alias))
        sites.append(site)
        pos = after
    if not sites:
        fail("no unsafe block found in to_bytes_internal")

    def l(xs):
        return "[" + "; ".join(str(x) for x in xs) + "]"

    out = ["(* GENERATED by tools/unsafe_sites.py from /repo/src/packet.rs (Packet::to_bytes_internal) -- do not edit.",
           "   Symbols (lengths): " + ", ".join("%d = %s.len()" % (i, n) for i, n in enumerate(syms.names)) + " *)",
           "From CoapV Require Import Base UnsafeModel.", "",
           "Definition blocks : list site :=", "  ["]
    rows = []
    for s in sites:
        cps = "; ".join("(%d, %s, %s)" % (c[0], l(c[1]), l(c[2])) for c in s["copies"])
        rows.append("    mkSite %d %s [%s] %s" % (s["dst"], l(s["reserve"]), cps, l(s["setlen"])))
    out.append(";\n".join(rows))
    out.append("  ].")
    text = "\n".join(out) + "\n"
    old = open(OUT).read() if os.path.exists(OUT) else None
    if old != text:
        os.makedirs(os.path.dirname(OUT), exist_ok=True)
        open(OUT, "w").write(text)
    print("unsafe_sites: %d unsafe blocks, %d symbols%s" % (len(sites), len(syms.names), "" if old == text else " (file rewritten)"))


if __name__ == "__main__":
    main()

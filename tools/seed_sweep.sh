#!/bin/bash
# runs every recorded seeded change against the quick check of its property; writes seeded/RESULTS.tsv
cd /verif
# usage: tools/seed_sweep.sh [glob]   (default: all; with a glob the results go to seeded/RESULTS-partial.tsv)
pat=${1:-C*-*}
out=seeded/RESULTS.tsv
[ $# -gt 0 ] && out=seeded/RESULTS-partial.tsv
echo -e "seed\tproperty\texit\tverdict\tseconds" > $out
for d in seeded/$pat/; do
  id=$(basename $d); p=${id%-*}
  if ! git -C /repo diff --quiet; then echo "/repo dirty"; exit 2; fi
  git -C /repo apply /verif/$d/patch.diff || { echo -e "$id\t$p\t-\tpatch-does-not-apply\t0" >> $out; continue; }
  t0=$(date +%s)
  o=$(./check $p quick 2>&1); rc=$?
  t1=$(date +%s)
  git -C /repo checkout -- .
  v=$(echo "$o" | grep "^VIOLATION" | head -1)
  if [ -z "$v" ]; then verdict="MISSED"; elif echo "$v" | grep -q no-failing-input-found; then verdict="caught:tie-or-proof"; else verdict="caught:failing-input"; fi
  echo -e "$id\t$p\t$rc\t$verdict\t$((t1-t0))" >> $out
done
python3 tools/unsafe_sites.py >/dev/null
echo done >> $out

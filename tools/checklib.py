"""Orchestration of a check run (python3 stdlib only).  See DESIGN.md 2.4."""
import fcntl, glob, json, os, re, shutil, subprocess, sys, time

ROOT = os.path.dirname(os.path.dirname(os.path.abspath(__file__)))
COQ = os.path.join(ROOT, "coq")
BUILD = os.path.join(ROOT, "build")
REPO = "/repo"
GUARD = "--cfg coap_lite_verif"
NPROC = os.cpu_count() or 4

from props import PROPS, TRUSTED_COMMON

FORBIDDEN = re.compile(
    r"\b(Admitted|admit|Axiom|Axioms|Parameter|Parameters|Conjecture|Conjectures|Hypothesis|Variable|Variables|Hypotheses)\b"
    r"|Unset\s+Guard|bypass_check|type-in-type|impredicative-set|Admit\s+Obligations|native_compute")
# Variable/Hypothesis are only allowed inside a Section; checked separately below.
AXIOM_ALLOW = set()   # names of stdlib axioms a theorem may depend on (none needed so far)


def log(msg):
    print(msg, flush=True)


def sh(cmd, cwd=None, env=None, timeout=3600, stdin=None):
    """Runs a command in its own process group; on timeout the whole group is killed."""
    import signal
    e = dict(os.environ)
    e["CARGO_NET_OFFLINE"] = "true"
    if env:
        e.update(env)
    p = subprocess.Popen(cmd, cwd=cwd, env=e, stdin=subprocess.PIPE if stdin is not None else None,
                         stdout=subprocess.PIPE, stderr=subprocess.STDOUT, text=True, shell=isinstance(cmd, str),
                         start_new_session=True)
    try:
        out, _ = p.communicate(input=stdin, timeout=timeout)
        return p.returncode, out
    except subprocess.TimeoutExpired:
        try:
            os.killpg(p.pid, signal.SIGKILL)
        except ProcessLookupError:
            pass
        try:
            out, _ = p.communicate(timeout=10)
        except Exception:
            out = ""
        return 124, (out or "") + "\nTIMEOUT"


class Lock:
    def __enter__(self):
        os.makedirs(BUILD, exist_ok=True)
        self.f = open(os.path.join(BUILD, ".lock"), "w")
        fcntl.flock(self.f, fcntl.LOCK_EX)
        return self

    def __exit__(self, *a):
        fcntl.flock(self.f, fcntl.LOCK_UN)
        self.f.close()


# ---------------------------------------------------------------- Coq side

def ensure_makefile():
    mk = os.path.join(COQ, "Makefile")
    cp = os.path.join(COQ, "_CoqProject")
    if (not os.path.exists(mk)) or os.path.getmtime(mk) < os.path.getmtime(cp):
        rc, out = sh(["coq_makefile", "-f", "_CoqProject", "-o", "Makefile"], cwd=COQ)
        if rc != 0:
            raise RuntimeError("coq_makefile failed:\n" + out)


def coq_make(targets, timeout=3000):
    ensure_makefile()
    return sh(["make", "-j%d" % NPROC] + targets, cwd=COQ, timeout=timeout)


def coq_deps():
    """file -> set of .v files it depends on directly (from coqdep)."""
    files = [l.strip() for l in open(os.path.join(COQ, "_CoqProject")) if l.strip().endswith(".v")]
    rc, out = sh(["coqdep", "-Q", ".", "CoapV"] + files, cwd=COQ)
    deps = {}
    for line in out.splitlines():
        if ":" not in line:
            continue
        lhs, rhs = line.split(":", 1)
        tgt = [t for t in lhs.split() if t.endswith(".vo")]
        if not tgt:
            continue
        v = tgt[0][:-1]
        deps[v] = set(d[:-1] for d in rhs.split() if d.endswith(".vo"))
    return deps


def cone(vfile):
    deps = coq_deps()
    seen, todo = set(), [vfile]
    while todo:
        f = todo.pop()
        if f in seen:
            continue
        seen.add(f)
        todo.extend(deps.get(f, ()))
    return sorted(seen)


def strip_comments(src):
    out, depth, i = [], 0, 0
    while i < len(src):
        if src.startswith("(*", i):
            depth += 1
            i += 2
        elif src.startswith("*)", i) and depth > 0:
            depth -= 1
            i += 2
        else:
            if depth == 0:
                out.append(src[i])
            i += 1
    return "".join(out)


def scan_forbidden(files):
    bad = []
    for f in files:
        src = strip_comments(open(os.path.join(COQ, f)).read())
        in_section = 0
        for ln, line in enumerate(src.splitlines(), 1):
            if re.match(r"\s*Section\b", line):
                in_section += 1
            if re.match(r"\s*End\b", line) and in_section > 0:
                in_section -= 1
            for m in FORBIDDEN.finditer(line):
                w = m.group(0)
                if w in ("Variable", "Variables", "Hypothesis", "Hypotheses") and in_section > 0:
                    continue
                bad.append("%s:%d: %s" % (f, ln, w))
    return bad


def count_qed(files):
    n = 0
    for f in files:
        src = strip_comments(open(os.path.join(COQ, f)).read())
        n += len(re.findall(r"\b(Qed|Defined)\s*\.", src))
    return n


def proof_step(pid, thorough):
    """Builds Props/<pid>.vo (recompiling the property file itself), checks
    assumptions and forbidden constructs.  Returns a dict."""
    t0 = time.time()
    res = dict(ok=False, obligations=0, discharged=0, theorems=[], axioms=[], forbidden=[], log="", failed_file=None)
    vfile = "Props/%s.v" % pid
    vo = os.path.join(COQ, "Props", pid + ".vo")
    if os.path.exists(vo):
        os.remove(vo)
    rc, out = coq_make(["Props/%s.vo" % pid])
    res["log"] = out[-4000:]
    files = cone(vfile)
    res["cone"] = files
    res["obligations"] = count_qed(files)
    res["forbidden"] = scan_forbidden(files)
    src = strip_comments(open(os.path.join(COQ, vfile)).read())
    res["theorems"] = re.findall(r"^\s*(?:Theorem|Corollary)\s+(\w+)", src, re.M)
    n_print = len(re.findall(r"Print\s+Assumptions", src))
    closed = out.count("Closed under the global context")
    axioms = []
    for m in re.finditer(r"Axioms:\n((?:.+\n?)+?)(?=\n\S|\Z)", out):
        for l in m.group(1).splitlines():
            mm = re.match(r"\s*([\w.']+)\s*:", l)
            if mm:
                axioms.append(mm.group(1))
    res["axioms"] = sorted(set(axioms))
    bad_axioms = [a for a in res["axioms"] if a not in AXIOM_ALLOW]
    if rc != 0:
        m = re.search(r'File "\./([^"]+)", line (\d+)', out)
        res["failed_file"] = (m.group(1) + ":" + m.group(2)) if m else "?"
        done = [f for f in files if os.path.exists(os.path.join(COQ, f + "o"))
                and os.path.getmtime(os.path.join(COQ, f + "o")) >= os.path.getmtime(os.path.join(COQ, f))]
        res["discharged"] = count_qed(done)
    else:
        res["discharged"] = res["obligations"]
    res["ok"] = (rc == 0 and not res["forbidden"] and not bad_axioms
                 and len(res["theorems"]) > 0 and n_print >= len(res["theorems"])
                 and closed + (1 if axioms else 0) >= 1 and closed >= len(res["theorems"]) - len(axioms))
    res["closed"] = closed
    res["wall_s"] = round(time.time() - t0, 2)
    if thorough and rc == 0:
        t1 = time.time()
        rc2, out2 = sh(["coqchk", "-silent", "-o", "-Q", ".", "CoapV", "CoapV.Props." + pid], cwd=COQ, timeout=1500)
        res["coqchk_rc"] = rc2
        res["coqchk_tail"] = out2[-1500:]
        res["coqchk_s"] = round(time.time() - t1, 1)
        if rc2 != 0:
            res["ok"] = False
    return res


def driver_build():
    """Extraction + ocamlopt; rebuilt when the model or the driver source changed."""
    odir = os.path.join(BUILD, "ocaml")
    os.makedirs(odir, exist_ok=True)
    drv = os.path.join(odir, "driver")
    rc, out = coq_make(["Suites.vo"])
    if rc != 0:
        return None, "model does not compile:\n" + out[-3000:]
    newest = max([os.path.getmtime(os.path.join(COQ, "Suites.vo")), os.path.getmtime(os.path.join(ROOT, "ocaml", "driver.ml")),
                  os.path.getmtime(os.path.join(COQ, "Extract.v"))])
    if os.path.exists(drv) and os.path.getmtime(drv) >= newest and os.path.exists(os.path.join(odir, "model.ml")):
        return drv, ""
    for f in ("Extract.vo",):
        pth = os.path.join(COQ, f)
        if os.path.exists(pth):
            os.remove(pth)
    rc, out = coq_make(["Extract.vo"])
    if rc != 0 or not os.path.exists(os.path.join(odir, "model.ml")):
        return None, "extraction failed:\n" + out[-3000:]
    shutil.copy(os.path.join(ROOT, "ocaml", "driver.ml"), os.path.join(odir, "driver.ml"))
    rc, out = sh(["ocamlfind", "ocamlopt", "-O3", "-w", "-a", "model.mli", "model.ml", "driver.ml", "-o", "driver"], cwd=odir)
    if rc != 0:
        return None, "ocamlopt failed:\n" + out[-3000:]
    return drv, ""


# ---------------------------------------------------------------- Rust side

def harness_build(profile, features=()):
    """cargo build of the harness against /repo's working tree.  Returns (path, log)."""
    hdir = os.path.join(ROOT, "harness")
    tdir = os.path.join(BUILD, "cargo")
    cmd = ["cargo", "build", "--offline", "--quiet"]
    if profile == "release":
        cmd.append("--release")
    feats = list(features)
    if "nostd" in feats:
        cmd.append("--no-default-features")
        feats.remove("nostd")
    if feats:
        cmd += ["--features", ",".join(feats)]
    rc, out = sh(cmd, cwd=hdir, env={"CARGO_TARGET_DIR": tdir, "RUSTFLAGS": GUARD + " -Awarnings"}, timeout=1800)
    if rc != 0:
        return None, out[-4000:]
    src = os.path.join(tdir, "debug" if profile == "dev" else "release", "harness")
    bdir = os.path.join(BUILD, "bin")
    os.makedirs(bdir, exist_ok=True)
    name = "harness-" + profile + ("-" + "-".join(features) if features else "")
    dst = os.path.join(bdir, name)
    shutil.copy2(src, dst)
    return dst, ""


def run_suite(binpath, drv, suite, tier, seed, rundir, tag, prefix_n, max_report=12, timeout=3000):
    """harness gen | driver  (streamed).  Returns parsed summary dict."""
    corpus = os.path.join(ROOT, "corpus", "%d.txt" % suite)
    prefix = os.path.join(rundir, "prefix-%d-%s.txt" % (suite, tag))
    jpath = os.path.join(rundir, "journal-%d-%s.txt" % (suite, tag))
    cmd = "VERIF_JOURNAL=%s %s gen %d %s %d %s | %s %d - %d %s %d" % (jpath, binpath, suite, tier, seed, corpus, drv, suite, max_report, prefix, prefix_n)
    rc, out = sh(["bash", "-o", "pipefail", "-c", "ulimit -s unlimited 2>/dev/null; " + cmd + '; r=("${PIPESTATUS[@]}"); echo "HARNESS_RC ${r[0]}"; exit $(( r[0] > r[1] ? r[0] : r[1] ))'], timeout=timeout)
    res = dict(rc=rc, cases=[], known=[], summary=None, prefix=prefix, raw_tail=out[-2000:], crash=None)
    m = re.search(r"^HARNESS_RC (\d+)$", out, re.M)
    hrc = int(m.group(1)) if m else None
    if hrc is not None and hrc >= 128 and hrc != 128 + 13 and rc != 124:
        # the harness process was killed by a signal (not SIGPIPE, not our own timeout): the implementation
        # aborted the process; the journal names the input it was handling
        jsuite, jin, repro = suite, "", False
        try:
            js, jin = open(jpath).read().split("|", 1)
            jsuite, jin = int(js), jin.strip()
        except (OSError, ValueError):
            pass
        if jin:
            # the journalled input counts as the failing input only if it kills a fresh process again
            rc2, _ = sh([binpath, "run", str(jsuite)], stdin=jin + "\n", timeout=300)
            repro = rc2 < 0 or rc2 >= 128
        res["crash"] = dict(rc=hrc, signal=hrc - 128, input=jin if repro else "", suite=jsuite)
    lines = out.splitlines()
    i = 0
    while i < len(lines):
        l = lines[i]
        if l.startswith("CASE ") or l.startswith("KNOWN "):
            d = dict(re.findall(r"(\w+)=(\S+)", l))
            blk = {}
            for j in range(1, 4):
                if i + j < len(lines):
                    m = re.match(r"\s+(input|impl|model):\s*(.*)", lines[i + j])
                    if m:
                        blk[m.group(1)] = m.group(2).strip()
            d.update(blk)
            (res["cases"] if l.startswith("CASE ") else res["known"]).append(d)
            i += 4
            continue
        if l.startswith("SUMMARY "):
            res["summary"] = json.loads(l[len("SUMMARY "):])
        i += 1
    return res


def coq_crosscheck(suite, prefix_files, rundir):
    """Evaluates the model inside Coq (vm_compute) on the prefix cases and compares
    with the extracted model's output recorded by the driver."""
    cases = []
    for pf in prefix_files:
        if os.path.exists(pf):
            for line in open(pf):
                try:
                    _cls, rest = line.split("|", 1)
                    inp, _impl, model = [x.strip() for x in rest.split(";")]
                except ValueError:
                    continue
                cases.append((inp, model))
    cases = list(dict.fromkeys(cases))
    if not cases:
        return dict(ok=True, n=0, bad=[])
    nshard = min(NPROC, max(1, len(cases) // 40))
    shards = [cases[i::nshard] for i in range(nshard)]
    procs = []
    for k, sh_cases in enumerate(shards):
        vf = os.path.join(rundir, "cases_%d_%d.v" % (suite, k))
        with open(vf, "w") as f:
            f.write("From CoapV Require Import Base Suites.\n")
            f.write("Definition cases : list (list N * list N) := [\n")
            f.write(";\n".join("([%s], [%s])" % ("; ".join(i.split()), "; ".join(m.split())) for i, m in sh_cases))
            f.write("\n].\nEval vm_compute in check_batch %d cases.\n" % suite)
        procs.append((k, subprocess.Popen(["coqc", "-noglob", "-Q", COQ, "CoapV", "-Q", rundir, "Run", vf],
                                          stdout=subprocess.PIPE, stderr=subprocess.STDOUT, text=True)))
    ok, bad = True, []
    for k, p in procs:
        try:
            out, _ = p.communicate(timeout=1500)
        except subprocess.TimeoutExpired:
            p.kill()
            out = "TIMEOUT"
        flat = re.sub(r"\s+", "", out)
        if "=[]:listN" not in flat:
            ok = False
            bad.append("shard %d: %s" % (k, out[-500:]))
    return dict(ok=ok, n=len(cases), bad=bad)


# ---------------------------------------------------------------- findings

def load_findings():
    p = os.path.join(ROOT, "known_findings.json")
    if os.path.exists(p):
        return json.load(open(p))
    return {"findings": []}


# ---------------------------------------------------------------- main check

def short(s, n=400):
    return s if len(s) <= n else s[:n] + " ...(%d chars)" % len(s)


def write_replay(pid, seed, payload):
    rdir = os.path.join(ROOT, "replay")
    os.makedirs(rdir, exist_ok=True)
    path = os.path.join(rdir, "%s-%d.json" % (pid, seed))
    json.dump(payload, open(path, "w"), indent=1)
    return path


def check(pid, tier):
    t0 = time.time()
    cfg = PROPS[pid]
    seed = int(os.environ.get("VERIF_SEED", "1"))
    thorough = tier == "thorough"
    rundir = os.path.join(BUILD, "run", "%s-%s-%d" % (pid, tier, os.getpid()))
    os.makedirs(rundir, exist_ok=True)
    evidence_path = os.path.join(ROOT, "evidence", pid + ".json")
    os.makedirs(os.path.dirname(evidence_path), exist_ok=True)
    violations = []      # (kind, description, replay payload)
    notes = []
    builds_used = []
    totals = dict(cases=0, agree=0, mismatch=0, verdict_fail=0, known_fail=0, model_verdict_fail=0, distinct_nontrivial=0)
    classes, samples, known_seen = {}, [], {}
    cross = dict(ok=True, n=0, bad=[])

    with Lock():
        # 0. source-to-Coq translation (C04: the unsafe copy sites are regenerated from /repo's current source)
        if cfg.get("translator"):
            rc_t, out_t = sh([sys.executable, os.path.join(ROOT, "tools", cfg["translator"])])
            log("[%s] %s" % (pid, out_t.strip()))
            if rc_t != 0:
                violations.append(("tie", "source translator %s could not read /repo's source: %s" % (cfg["translator"], out_t.strip()[-300:]),
                                   dict(translator=cfg["translator"], log=out_t[-1500:])))
        # 1. proof step
        pr = proof_step(pid, thorough)
        log("[%s] proof step: ok=%s obligations=%d discharged=%d theorems=%d closed=%d axioms=%s (%.1fs)" % (
            pid, pr["ok"], pr["obligations"], pr["discharged"], len(pr["theorems"]), pr.get("closed", 0), pr["axioms"], pr["wall_s"]))
        if pr["forbidden"]:
            log("  forbidden constructs: %s" % pr["forbidden"][:5])
        # 2. model driver
        drv, dlog = driver_build()
        if drv is None:
            log("[%s] driver build failed: %s" % (pid, dlog))
        # 3. harness builds
        feature_sets = cfg.get("features_thorough", [()]) if thorough else cfg.get("features", [()])
        bins = []
        for feats in feature_sets:
            for profile in ("dev", "release"):
                b, blog = harness_build(profile, feats)
                tag = profile + ("-" + "-".join(feats) if feats else "")
                if b is None:
                    log("[%s] harness build (%s) failed:\n%s" % (pid, tag, blog))
                    violations.append(("tie", "harness does not build against /repo (%s)" % tag, dict(build=tag, log=blog[-1500:])))
                else:
                    bins.append((tag, b))
                    builds_used.append(tag)

    # 4. suites (outside the lock: binaries are private copies)
    prefix_n = 1000 if thorough else 120
    if drv is not None:
        # copy driver so a concurrent rebuild cannot disturb us
        mydrv = os.path.join(rundir, "driver")
        shutil.copy2(drv, mydrv)
        prefix_files = {}
        for suite in cfg["suites"]:
            for tag, b in bins:
                myb = os.path.join(rundir, "harness-" + tag)
                if not os.path.exists(myb):
                    shutil.copy2(b, myb)
                r = run_suite(myb, mydrv, suite, tier, seed, rundir, tag, prefix_n)
                s = r["summary"]
                if r.get("crash"):
                    log("[%s] suite %d %s: harness process killed by signal %d" % (pid, suite, tag, r["crash"]["signal"]))
                    if r["crash"]["input"]:
                        violations.append(("property", "the implementation aborted the process (signal %d) while handling this input" % r["crash"]["signal"],
                                           dict(suite=r["crash"]["suite"], build=tag, input=r["crash"]["input"],
                                                impl="<process aborted, signal %d>" % r["crash"]["signal"], model="")))
                    else:
                        violations.append(("tie", "suite %d (%s): the harness process was killed by signal %d and the journalled input does not reproduce it" % (suite, tag, r["crash"]["signal"]),
                                           dict(suite=suite, build=tag, log=r["raw_tail"])))
                    continue
                if s is None:
                    violations.append(("tie", "suite %d (%s) did not complete" % (suite, tag), dict(suite=suite, build=tag, log=r["raw_tail"])))
                    continue
                log("[%s] suite %d %s: %s" % (pid, suite, tag, json.dumps(s)))
                for k in totals:
                    totals[k] += s.get(k, 0) if k != "distinct_nontrivial" else 0
                if tag == bins[0][0]:
                    totals["distinct_nontrivial"] += s["distinct_nontrivial"]
                for k, v in s["classes"].items():
                    classes["%d/%s" % (suite, k)] = classes.get("%d/%s" % (suite, k), 0) + v
                for kd in r["known"]:
                    known_seen.setdefault((suite, int(kd["id"])), kd)
                prefix_files.setdefault(suite, []).append(r["prefix"])
                for c in r["cases"]:
                    c["suite"], c["build"] = suite, tag
                    if c.get("verdict_impl") == "false" and c.get("known") == "0":
                        violations.append(("property", "implementation output violates the property", c))
                    elif c.get("agree") == "false":
                        violations.append(("mismatch", "implementation and model differ", c))
                    elif c.get("verdict_model") == "false":
                        violations.append(("model", "model output fails the property oracle", c))
                if s["known_fail"] and not r["known"]:
                    pass
        # 5. in-Coq cross-check of extraction on the prefix
        with Lock():
            for suite, pfs in prefix_files.items():
                cr = coq_crosscheck(suite, pfs[:1], rundir)
                cross["n"] += cr["n"]
                if not cr["ok"]:
                    cross["ok"] = False
                    cross["bad"] += cr["bad"]
        log("[%s] in-Coq cross-check of the extracted model: %d cases, ok=%s" % (pid, cross["n"], cross["ok"]))
        # samples for the evidence
        seen_cls = set()
        for suite, pfs in prefix_files.items():
            if os.path.exists(pfs[0]):
                for line in open(pfs[0]):
                    cls, rest = line.split("|", 1)
                    key = (suite, cls.strip())
                    if key in seen_cls or len(samples) >= 8:
                        continue
                    seen_cls.add(key)
                    inp, impl, model = [x.strip() for x in rest.split(";")]
                    samples.append(dict(suite=suite, cls=int(cls), input=short(inp), impl_output=short(impl), model_output=short(model)))
    else:
        violations.append(("tie", "model driver could not be built", dict(log=dlog[-1500:])))

    if not cross["ok"]:
        violations.append(("tie", "extracted model disagrees with vm_compute inside Coq", dict(detail=cross["bad"][:3])))
    if not pr["ok"]:
        violations.append(("proof", "proof step failed: %s" % (pr["failed_file"] or pr["forbidden"] or pr["axioms"] or "see log"),
                           dict(theorems=pr["theorems"], failed_file=pr["failed_file"], log=pr["log"][-1500:])))

    # 6. known findings
    findings = load_findings()["findings"]
    for f in findings:
        if f.get("property") == pid and f.get("status") == "open":
            hit = [k for k in known_seen if k[1] == f.get("class_id") and (f.get("suite") is None or k[0] == f.get("suite"))]
            if hit:
                log("KNOWN-FINDING: property=%s %s" % (pid, f["what"]))
            else:
                notes.append("known finding %s not re-demonstrated in this run" % f["id"])

    # 7. verdict
    exit_code = 0
    prop_viol = [v for v in violations if v[0] == "property"]
    if violations:
        exit_code = 1
        if not prop_viol and drv is not None and bins and not thorough:
            # directed search: thorough-size generation, other seeds, looking for an input on which
            # the implementation itself violates the property
            log("[%s] tie broken without a failing input; directed search (thorough generators, 2 more seeds)" % pid)
            for extra in (seed + 1, seed + 2):
                for suite in cfg["suites"]:
                    for tag, b in bins[:2]:
                        r = run_suite(os.path.join(rundir, "harness-" + tag), mydrv, suite, "thorough", extra, rundir, tag + "-s", 0, timeout=90)
                        for c in r["cases"]:
                            if c.get("verdict_impl") == "false" and c.get("known") == "0":
                                c["suite"], c["build"] = suite, tag
                                prop_viol.append(("property", "implementation output violates the property (directed search, seed %d)" % extra, c))
                    if prop_viol:
                        break
                if prop_viol:
                    break
        if prop_viol:
            best = min(prop_viol, key=lambda v: len(v[2].get("input", "")))
            c = best[2]
            path = write_replay(pid, seed, dict(property=pid, kind="failing-input", what=best[1], suite=c["suite"], build=c["build"],
                                                input=c.get("input"), impl_output=c.get("impl"), model_output=c.get("model"),
                                                replay_cmd="./check replay %s" % os.path.join("replay", "%s-%d.json" % (pid, seed))))
            print("VIOLATION property=%s replay=%s" % (pid, path), flush=True)
        else:
            v = violations[0]
            payload = dict(property=pid, kind="tie-or-proof-broken", what=v[1], detail=v[2],
                           theorems=pr["theorems"], all=[(x[0], x[1]) for x in violations[:10]])
            if isinstance(v[2], dict) and "input" in v[2]:
                payload.update(suite=v[2].get("suite"), build=v[2].get("build"), input=v[2].get("input"),
                               impl_output=v[2].get("impl"), model_output=v[2].get("model"))
            path = write_replay(pid, seed, payload)
            print("VIOLATION property=%s replay=%s no-failing-input-found" % (pid, path), flush=True)

    # 8. evidence
    ev = dict(
        property_id=pid, tier=tier, seed=seed, level="proof",
        coverage=dict(
            obligations=pr["obligations"], discharged=pr["discharged"],
            checker_cmd="make -C coq Props/%s.vo  (coqc 8.16.1; Print Assumptions parsed%s)" % (pid, "; coqchk -o -silent" if thorough else ""),
            trusted_base=TRUSTED_COMMON + ["modelled by hand, not translated: " + cfg.get("modelled", "")] + cfg.get("trusted_extra", []),
            theorems=pr["theorems"], assumptions_closed=pr.get("closed", 0), axioms=pr["axioms"],
            evaluations=totals["cases"], distinct_nontrivial=totals["distinct_nontrivial"], rule=cfg["rule"],
            samples=samples if samples else [dict(note="no cases ran")],
            traces_validated_against_impl=totals["agree"],
            impl_model_mismatches=totals["mismatch"], impl_property_failures=totals["verdict_fail"],
            known_finding_hits=totals["known_fail"], classes=classes, builds=builds_used,
            coq_vm_compute_crosschecked=cross["n"], exhaustive=bool(cfg.get("exhaustive", False)),
            coqchk=dict(rc=pr.get("coqchk_rc"), seconds=pr.get("coqchk_s"), tail=pr.get("coqchk_tail", "")[-600:]) if thorough else None,
        ),
        assumptions=cfg.get("assumptions", []) + notes,
        wall_s=round(time.time() - t0, 2),
        violations=len(prop_viol) if exit_code else 0,
    )
    json.dump(ev, open(evidence_path, "w"), indent=1)
    shutil.rmtree(rundir, ignore_errors=True)
    log("[%s] %s tier done in %.1fs: exit %d" % (pid, tier, time.time() - t0, exit_code))
    return exit_code


def setup():
    with Lock():
        rc, out = coq_make([])
        print(out[-3000:])
        if rc != 0:
            return 1
        drv, dlog = driver_build()
        if drv is None:
            print(dlog)
            return 1
        for profile in ("dev", "release"):
            b, blog = harness_build(profile)
            if b is None:
                print(blog)
                return 1
    return 0


def replay(path):
    d = json.load(open(path))
    print(json.dumps({k: d[k] for k in d if k not in ("input", "impl_output", "model_output")}, indent=1))
    if not d.get("input"):
        print("(no concrete input recorded: the replay names what no longer checks)")
        return 0
    suite = int(d["suite"])
    with Lock():
        drv, dlog = driver_build()
        outs = {}
        for profile in ("dev", "release"):
            b, blog = harness_build(profile)
            if b is None:
                print(blog)
                return 1
            rc, out = sh([b, "run", str(suite)], stdin=d["input"] + "\n")
            outs[profile] = out.strip() if rc in (0, 1) else "%s ; <process aborted, exit status %d> %s" % (d["input"], rc, out.strip()[-300:])
    print("input:          ", short(d["input"], 2000))
    for profile, o in outs.items():
        print("impl (%s): " % profile, short(o.split(";", 1)[1].strip() if ";" in o else o, 2000))
        tmp = os.path.join(BUILD, "replay-%d.txt" % os.getpid())
        open(tmp, "w").write(o + "\n")
        rc, out = sh([drv, str(suite), tmp, "5"])
        os.remove(tmp)
        print(out)
    return 0


def main(argv):
    if not argv:
        print(__doc__)
        return 2
    if argv[0] == "setup":
        return setup()
    if argv[0] == "replay":
        return replay(argv[1])
    pid = argv[0]
    tier = argv[1] if len(argv) > 1 else os.environ.get("VERIF_TIER", "quick")
    if pid not in PROPS:
        print("unknown property", pid)
        return 2
    return check(pid, tier)

#!/usr/bin/env python3
"""Writes MANIFEST.json from tools/props.py (so the manifest never drifts from the checks)."""
import json, os, sys
sys.path.insert(0, os.path.dirname(os.path.abspath(__file__)))
from props import PROPS, NOT_APPLICABLE, HOOK_COMMITS

ROOT = os.path.dirname(os.path.dirname(os.path.abspath(__file__)))
checks = []
for pid in sorted(PROPS):
    c = PROPS[pid]
    checks.append(dict(
        property_id=pid,
        quick_cmd="./check %s quick" % pid,
        thorough_cmd="./check %s thorough" % pid,
        evidence_file="/verif/evidence/%s.json" % pid,
        replay_cmd_template="./check replay {path}",
        engine="coq-proof+correspondence",
        level_claimed=dict(category="proof", text=c["level_text"], design_ref=c["design_ref"]),
        level_note=c["level_note"],
        technique=c.get("technique", "machine-checked proof in Coq 8.16 about a hand-written executable model, tied to the Rust by a differential correspondence check (extracted model + in-Coq vm_compute vs implementation)"),
    ))
m = dict(
    version=1,
    setup_cmd="./check setup",
    hooks=dict(
        guard="coap_lite_verif",
        enable='RUSTFLAGS="--cfg coap_lite_verif" (set by tools/checklib.py for every harness build)',
        baseline_off_cmd="cd /repo && cargo test --workspace --no-fail-fast --offline",
        source_commits=HOOK_COMMITS,
        add_only=True,
    ),
    engines=[dict(name="coq-proof+correspondence", path="/verif/check",
                  serves_properties=sorted(PROPS),
                  kind_free_text="Coq 8.16 theorems over Gallina models (coq/), extraction to OCaml (ocaml/driver.ml), Rust differential harness (harness/), python orchestration (tools/)")],
    checks=checks,
    notes="See DESIGN.md. Known findings: known_findings.json. Seeded changes used to test the checks: seeded/.",
    not_applicable=[dict(property_id=k, reason=v) for k, v in sorted(NOT_APPLICABLE.items())],
)
json.dump(m, open(os.path.join(ROOT, "MANIFEST.json"), "w"), indent=1)
print("wrote MANIFEST.json with %d checks, %d not_applicable" % (len(checks), len(m["not_applicable"])))

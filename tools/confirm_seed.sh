#!/bin/bash
# usage: tools/confirm_seed.sh <Cxx> <n>   -- confirm seeded change n of property Cxx in a scratch worktree:
# applies, builds, full suite passes, demo fails with the change, demo passes without; then records it under seeded/.
set -u
P=$1; N=$2
OUT=/tmp/seed/out/$P
WT=/tmp/seed/confirm-$P-$N
git -C /repo worktree add --detach $WT HEAD >/dev/null 2>&1 || { echo "worktree failed"; exit 2; }
cd $WT
export CARGO_NET_OFFLINE=true
res() { echo "$1"; }
if ! git apply $OUT/patch$N.diff; then echo "$P/$N: patch does not apply to HEAD"; cd /; git -C /repo worktree remove --force $WT; exit 1; fi
mkdir -p tests; cp $OUT/demo$N.rs tests/seed_demo.rs
build=$(cargo build --offline 2>&1 | tail -1)
suite=$(cargo test --offline --lib 2>&1 | grep "test result" | head -1)
demo_out=$(cargo test --offline --test seed_demo 2>&1)
demo_with=$(echo "$demo_out" | grep -E "^test result" | head -1)
[ -z "$demo_with" ] && demo_with=$(echo "$demo_out" | grep -E "^error(\[|:)" | head -1)
git checkout -- src
demo_without=$(cargo test --offline --test seed_demo 2>&1 | grep -E "test result|error(\[|:)" | head -1)
echo "$P/$N: suite-with-patch: $suite | demo-with: $demo_with | demo-without: $demo_without"
ok=0
if echo "$suite" | grep -q "49 passed; 0 failed" && echo "$demo_with" | grep -qE "FAILED|failed; [1-9]|[1-9][0-9]* failed|error: test failed" && echo "$demo_without" | grep -q "ok\." ; then ok=1; fi
# a demo that aborts (no test result line) also counts as failing with the change
if [ $ok = 0 ] && echo "$suite" | grep -q "49 passed; 0 failed" && [ -z "$demo_with" ] && echo "$demo_without" | grep -q "ok\."; then ok=1; fi
cd /; git -C /repo worktree remove --force $WT
if [ $ok = 1 ]; then
  D=/verif/seeded/$P-$N; mkdir -p $D
  cp $OUT/patch$N.diff $D/patch.diff; cp $OUT/demo$N.rs $D/demo.rs
  python3 - "$P" "$N" "$suite" "$demo_with" "$demo_without" <<'PY'
import json,sys
P,N,suite,dw,dwo=sys.argv[1:6]
m=json.load(open('/tmp/seed/out/%s/meta%s.json'%(P,N)))
m.update(property=P, confirmed_by="tools/confirm_seed.sh in a scratch worktree of /repo HEAD",
         ran=["git apply patch.diff","cargo build --offline","cargo test --offline --lib","cargo test --offline --test seed_demo (with and without the change)"],
         observed=dict(suite_with_change=suite, demo_with_change=dw or "aborted (no result line)", demo_without_change=dwo))
json.dump(m,open('/verif/seeded/%s-%s/meta.json'%(P,N),'w'),indent=1)
PY
  echo "$P/$N: CONFIRMED -> seeded/$P-$N"
else
  echo "$P/$N: NOT confirmed"
fi

#!/bin/bash
# usage: tools/seedtest.sh <patch> <Cxx> [<Cyy> ...]   -- apply a seeded change to /repo, run quick checks, undo it
set -u
patch="$1"; shift
cd /repo || exit 2
if ! git diff --quiet; then echo "/repo has local changes; refusing"; exit 2; fi
git apply "$patch" || { echo "patch does not apply"; exit 2; }
cd /verif
for p in "$@"; do
  out=$(./check "$p" quick 2>&1); rc=$?
  echo "== $p exit=$rc"; echo "$out" | grep -E 'VIOLATION|KNOWN-FINDING|proof step|tier done' | cut -c1-300
done
git -C /repo checkout -- .
rm -rf /verif/replay/*-seedtmp.json

#!/usr/bin/env python3
"""Mutation check of the THEOREMS: applies small mutations to the executable Coq models (one at a time, in a scratch
copy of coq/) and records whether some property theorem (or a lemma it depends on) stops compiling.  A surviving
mutant is a place where no theorem constrains the model.  Usage: tools/mutate_model.py <scratch-copy-of-coq> [max]
Writes <scratch>/mutation-results.tsv; nothing under /verif is touched."""
import os, re, subprocess, sys, random, shutil

root = sys.argv[1]
maxn = int(sys.argv[2]) if len(sys.argv) > 2 else 80
FILES = ["Encode.v", "Decode.v", "UintOpt.v", "BlockValue.v", "BlockHandler.v", "Observe.v", "LinkFormat.v",
         "Response.v", "Accessors.v", "Packet.v", "Header.v", "TypedOpt.v"]
RULES = [(r"<=\?", "<?"), (r"<\?", "<=?"), (r"=\? 0\b", "=? 1"), (r"\b13\b", "14"), (r"\b269\b", "270"), (r"\b255\b", "254"),
         (r"\b65535\b", "65534"), (r"\+ 1\b", "+ 2"), (r"\b16\b", "17"), (r"&&", "||"), (r"\bnegb ", ""), (r"\btrue\b", "false")]

def sites():
    out = []
    for f in FILES:
        p = os.path.join(root, f)
        if not os.path.exists(p):
            continue
        src = open(p).read()
        # code only: skip comments crudely
        for pat, rep in RULES:
            for m in re.finditer(pat, src):
                line_start = src.rfind("\n", 0, m.start()) + 1
                line = src[line_start: src.find("\n", m.start())]
                if "(*" in line and line.index("(*") < m.start() - line_start:
                    continue
                if line.lstrip().startswith("(*") or "Definition " not in src[:m.start()] and "Fixpoint " not in src[:m.start()]:
                    continue
                out.append((f, m.start(), m.end(), rep, line.strip()[:100]))
    return out

def build():
    try:
        r = subprocess.run("timeout 600 make -j16 -k 2>&1 | grep -E '^File|Error' | head -6", shell=True, cwd=root,
                           capture_output=True, text=True, timeout=700)
        return r.stdout
    except subprocess.TimeoutExpired:
        return "TIMEOUT"

def main():
    rnd = random.Random(7)
    all_sites = sites()
    rnd.shuffle(all_sites)
    chosen = all_sites[:maxn]
    res = open(os.path.join(root, "mutation-results.tsv"), "w")
    res.write("file\tmutation\tline\tresult\tfirst_failure\n")
    killed = 0
    for i, (f, a, b, rep, line) in enumerate(chosen):
        p = os.path.join(root, f)
        orig = open(p).read()
        open(p, "w").write(orig[:a] + rep + orig[b:])
        out = build()
        m = re.search(r'File "\./([^"]+)"', out)
        first = m.group(1) if m else ("TIMEOUT" if out == "TIMEOUT" else "")
        status = "killed" if first else "survived"
        if first and not (first.startswith("proofs/") or first.startswith("Props/")):
            status = "killed(model-does-not-typecheck)" if first == f else "killed"
        killed += status.startswith("killed")
        res.write("%s\t%s -> %s\t%s\t%s\t%s\n" % (f, orig[a:b], rep, line, status, first)); res.flush()
        open(p, "w").write(orig)
        print(i + 1, len(chosen), f, orig[a:b], "->", rep, status, first, flush=True)
    # restore build
    build()
    res.write("# killed %d of %d\n" % (killed, len(chosen)))
    print("killed", killed, "of", len(chosen))

main()

#!/bin/bash
# times the thorough tier of every property (sequentially); results in build/thorough-times.tsv
cd "$(dirname "$0")/.."
out=build/thorough-times.tsv
: > $out
for i in ${@:-01 02 03 04 05 06 07 08 09 10 11 12 13 14 15 16 17 18 19 20}; do
  t0=$(date +%s)
  timeout 5400 ./check C$i thorough > build/thorough-C$i.log 2>&1
  rc=$?
  echo -e "C$i\t$rc\t$(( $(date +%s) - t0 ))" >> $out
done
echo done >> $out

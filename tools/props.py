"""Per-property configuration of the checks: which correspondence suites decide
the tie, what the evidence says about them.  Suite ids are property*10 + k."""

TRUSTED_COMMON = [
    "Coq 8.16.1 kernel (coqc, including the vm_compute bytecode machine; native_compute is not used)",
    "axioms: none -- every property theorem prints 'Closed under the global context' (parsed on every run)",
    "hand-written Gallina model of the Rust source, tied to /repo by differential execution on generated cases (tools/checklib.py, harness/, ocaml/driver.ml)",
    "extraction: ExtrOcamlBasic only (Extract Inductive bool/option/unit/list/prod/sumbool/sumor/comparison); no Extract Constant; N/positive/nat kept; cross-checked against vm_compute on a prefix of the cases each run",
    "Rust harness generators/printers and cargo linking /repo's current working tree; rustc 1.95.0 x86-64",
]

COMMON_BLOCK_NOTE = "Hand-written model of block_handler/mod.rs and of the expiring map (lru_time_cache) tied to the Rust by running generated exchange sequences through the real server loop (CoapRequest::from_packet -> intercept_request -> application -> intercept_response) with full observation after every exchange: both results, the body the application saw, the response, its encoded length, and -- through the cfg(coap_lite_verif) hook -- the cached state for the request's key (last Block2, digest of the cached response, digest of the upload buffer) and the number of physical cache entries (live clones of the endpoint type). dev and release builds."

PROPS = {
    "C08": dict(
        suites=[80],
        design_ref="DESIGN.md section 5, C08",
        rule=("suite 80: complete in-order Block2 transfers: the generator plays the client against the implementation (requests recorded, then replayed on implementation and model): every body length 0..3*sz+1 for block sizes 16, 32, 64 (thorough: all of 16..1024) at the budget that picks that size, "
              "boundary lengths for the larger sizes, the same with early negotiation (Block2 in the first request), bodies of 5000 and 20000 bytes, two consecutive transfers on one key, 200 (thorough 2000) transfers abandoned midway followed by a new transfer without Block2, and 500 (thorough 20000) random transfers over body lengths, budgets 60..1280, client preference none / szx 0..6, mid-transfer size reduction, token length 0..8, seven application option sets (incl. repeatable options with byte-identical values, empty values, option numbers on both sides of Block2 and above 268; the budget is raised to the option set's overhead + 28 so that every case stays inside the property's domain); "
              "verdict from the responses alone: a response never carries more payload than the size the request named, payloads concatenate to the body, non-final blocks are full with the more flag, numbers match offsets, every block repeats the application's options, the application ran exactly once, follow-ups were answered by the handler, the cache entry is gone after the final block; class 1 empty body / 2 unfragmented / 3 fragmented / 4 fragmented with early negotiation; distinct = distinct input Also: first requests that end an upload (single final Block1 block) and negotiate Block2 early; FETCH transfers whose follow-ups repeat the request body; tokens that change length between the requests of a transfer; a fifth of the cases driven by a server loop that passes every response through intercept_response (mode 3)."),
        level_text=("Theorems: C08_block_served (for every body incl. the empty one, block number and size: the served payload is bytes [num*size, num*size+size) of the cached body, the more flag is set iff bytes remain, on a copy of the application's version/type/code/options), "
                    "C08_chunks_reassemble / _from (for every body and block size the chunks taken in order concatenate to the body: induction on the remaining length), C08_followup_from_cache (a follow-up block is answered from the cache without consulting the application and the entry is released exactly when the served block is the last), "
                    "C08_followups_served (a whole run of follow-ups k, k+1, ... up to the one covering the end of the body, any number of them: all answered from the cache, payloads exactly the chunks of the body from offset k*size, entry released afterwards -- with C08_chunks_reassemble the client's concatenation is the body), C08_renegotiated_followups_served (the same when every follow-up names its own size, numbers agreeing with the running offset), C08_first_fragment, C08_whole_transfer (first exchange + follow-ups end to end: the concatenation is the body the application produced, the application is consulted once, the entry is released) and C08_served_within_size (no served block exceeds the size its request names)."),
        level_note=COMMON_BLOCK_NOTE + "",
        modelled="src/block_handler/mod.rs intercept_request, intercept_response, maybe_handle_request_block2, maybe_serve_cached_response, packet_clone_limited, negotiate_block_size_if_necessary",
    ),
    "C09": dict(
        suites=[90],
        design_ref="DESIGN.md section 5, C09",
        rule=("suite 90: uploads of bodies 0..5000 bytes (every length 0..49 at 16-byte blocks, lengths around block multiples for szx 0..6) with blocks in order, one block repeated 1..3 times, optionally after an abandoned prefix (1..6 blocks) of another body at the same or another block size to the same resource; "
              "the final block delivered twice (known finding D11); methods POST, PUT, FETCH, PATCH, iPATCH in rotation; 300 (thorough 3000) requests larger than the budget without Block1, and 200 (thorough 2000) of them after an abandoned upload or an earlier refusal on the same resource with shorter options; verdict: every non-final block answered 2.31 with Block1 echoing the offset and a size <= the client's, application not reached; final block reaches the application exactly once with exactly the body; 4.13 with a power-of-two size hint; "
              "class 1 plain / 2 after an abandoned upload / 3 too large; distinct = distinct input Also: abandoned and new upload with different Content-Format (or none); a quarter of the cases in mode 3 (every response, also 2.31, passed through intercept_response)."),
        level_text=("Theorems: C09_splice_extends_prefix (whatever the buffer holds beyond it: once the buffer agrees with the body up to a block's offset, splicing the block in extends the agreement -- so in-order delivery with repeats reconstructs the prefix), C09_final_block_body (the body handed over at the final block is exactly the body sent), "
                    "C09_block_answer (2.31 Continue + negotiated Block1 without reaching the application for non-final blocks; hand-over with Block1 on the response for the final one), C09_too_large (4.13 with Block1 num 0, more set), C09_upload_delivers_body (the buffer handling over a whole in-order upload at any block size, on top of ANY stale buffer, yields exactly the body) and "
                    "C09_ack_echoes (inside the domain -- the budget admits the client's block size -- the acknowledgement echoes the client's own number and size), C09_upload_with_repeats (every non-final block delivered any number of times in a row) and C09_upload_run (the same on handle_block1 itself with its size negotiation and response building: a run of in-order block requests from block 0 either reports one of the documented errors or answers every block but the last with Continue and hands over a request whose payload is exactly the body, buffer released). Known finding KF_dup_final (C09_KF_dup_final_refuted)."),
        level_note=COMMON_BLOCK_NOTE,
        modelled="src/block_handler/mod.rs maybe_handle_request_block1, extending_splice, negotiate_block_size_if_necessary",
    ),
    "C10": dict(
        suites=[100],
        design_ref="DESIGN.md section 5, C10",
        rule=("suite 100: 2500 (thorough 60000) first exchanges and short transfers with the budget aimed at bands around overhead + 12 + 2^k, overhead + 28 .. +35, 1277..1280 and random values; overhead varied through token length 0..8, path length 0..100, Uri-Query options and four application option sets; client szx 0..7 or none; uploads with szx 0..6; 400 (thorough 6000) uploads whose final block also names a Block2 size for a large reply; 400 (thorough 6000) single-block uploads at size exponents 2..7; "
              "verdict: inside the property's domain (overhead + 28 <= M <= 1280, no Block2 set by the application) every handler-produced message encodes within M, every chosen size is a power of two in 16..1024, not above the client's, exactly the client's when the message overhead + that size + 32 fits the budget, and an acknowledged upload size + request overhead + 12 is within the budget; outside only 'no panic'; class 1 in / 2 outside the domain; distinct = distinct input Also: error-class (4.xx / 5.xx) and 2.31 application replies. A slow resource: the request (naming a block size) is seen, 1..1100 (thorough 2000) exchanges on other keys complete, then its application answers (split exchange)."),
        level_text=("Theorem C10_chosen_size: for every budget with overhead + 28 <= M <= 1280, whenever negotiate returns a block it has size 2^(k+4), k <= 6, at most M - overhead - 12 (room for the block plus the 12-byte block-option allowance), never above the client's size, and exactly the client's when that fits with 32 bytes to spare. C10_overhead_measured (the size the handler measures is the RFC wire length), C10_insertion (inserting one option with number <= 268 and a value of <= 12 bytes into any ascending option sequence "
                    "lengthens the wire image by at most 2 + its length: the successor's delta only shrinks), C10_fragment_fits (for every well-formed application response without Block2 and every budget in the domain, the first fragment the handler builds -- options + Block2 + marker + chunk -- has wire length <= M and payload <= the chosen size)."),
        level_note=COMMON_BLOCK_NOTE + " C10_fragment_fits is proved for the first fragment of a response (intercept_response); follow-up fragments from the cache and Block1 answers are decided by the suite's length oracle on every produced message.",
        modelled="src/block_handler/mod.rs negotiate_block_size_if_necessary, compute_message_size_hack; src/block_handler/block_value.rs BlockValue::new",
    ),
    "C11": dict(
        suites=[110],
        design_ref="DESIGN.md section 5, C11",
        rule=("suite 110: 2500 (thorough 150000) random sequences of 1..6 requests over 4 cache keys: option bloat up to 1400 bytes (below, at and above the budget and above 1280), Block1/Block2 values with num in {0,1,2,100,4095,4096,65535}, szx 0..7, malformed block option bytes of length 0..4, payloads 0..1200, all four message types, "
              "budgets {0..64, 1152, 0..5000, 0,12,16,17,28,29,1280,1281}, application replies with bodies 0..10000, large options, pre-set Block2; directed: the 16 KiB jump boundary (16383..32768) followed by a completing block, budgets overhead..overhead+39 with and without Block1; "
              "verdict: no panic, errors carry a code >= 4.00 or there is no response, the buffer and the body handed on never grow by more than 16 KiB + the request's payload; class by budget range; distinct = distinct input Also: requests whose code is no method (0.00 with a payload, response and reserved codes)."),
        level_text=("Theorems for every request with ordered option maps, every budget (0 upward), cached state and application reply: C11_request_no_panic, C11_response_no_panic (the entry points return Ok or Err, never Panic: the size measurement cannot fail fatally, no division by zero, every block value encodes), "
                    "C11_block1_errors / C11_serve_errors (errors are 4.00/5.00-coded, or 'not handled' exactly when there is no response), C11_growth (buffer and delivered body bounded by previous length + 16384 + payload), C11_rejects_jump (a larger jump is an error and leaves the buffer unchanged)."),
        level_note=COMMON_BLOCK_NOTE + " The model computes offsets on unbounded N; C11_offsets_bounded proves that every offset computed from a decoded block option is at most 2^27 (num <= 65535, size <= 2048), so no wrap-around can occur on a target with at least 32-bit usize.",
        modelled="src/block_handler/mod.rs (all of intercept_request / intercept_response), src/request.rs apply_from_error",
    ),
    "C12": dict(
        suites=[120],
        design_ref="DESIGN.md section 5, C12",
        rule=("suite 120: 7 sets of 2-3 transfers whose keys differ in exactly one of endpoint / method / path (segments [a,b] vs [a/b], prefix paths, empty path, trailing empty segment), uploads and downloads mixed, 3-5 exchanges each; all interleavings enumerated (quick: a stride of up to 60 per set and round; thorough: up to 4000); "
              "the implementation is run interleaved and each transfer alone; verdict: per-transfer observation lists are equal (responses, results, cached state), and every response carries the message id and token of its request; class = number of transfers; distinct = distinct input Also: tokens changing length inside a transfer (the reply's token-length nibble is part of 'correlated'); pairs of ordinary path names that collide under 32-bit FNV-1a. Every keyset also with each exchange split in two (request seen / application answers) and the halves of different transfers nested."),
        level_text=("Theorems: C12_key_injective / C12_key_path (the cache key separates exactly method, path segment list and requester), C12_intercept_request_is_access / C12_intercept_response_is_access (the entry points are accesses of a per-key machine over the expiring map), "
                    "C12_noninterference (for EVERY interleaving of any number of transfers of any length, with non-decreasing times: what key k's transfers observe equals what they observe alone -- induction over the event list with the frame lemma of the expiring map), C12_correlation (blocks served from the cache keep the message id and token prepared for the current request)."),
        level_note=COMMON_BLOCK_NOTE + " Methods outside 0.01-0.07 share one key byte and non-UTF-8 paths collapse to the empty path (documented by C12_key_injective's statement through get_method / get_path_as_vec).",
        modelled="src/block_handler/mod.rs RequestCacheKey, state lookup, packet_clone_limited; lru_time_cache entry/or_insert/remove_expired",
    ),
    "C20": dict(
        suites=[200],
        design_ref="DESIGN.md section 5, C20",
        rule=("suite 200: retention: expiry of one hour, a Block2 transfer or an upload started, then 1, 7, 150 (thorough up to 2000) requests for other keys, then the follow-up: it must be served from the cache / continue on its buffer; expiry: duration 40 ms, 1 or 12 (thorough up to 50) abandoned uploads plus a started transfer, an idle wait of 200 ms, then the follow-up: "
              "it must reach the application / start from an empty buffer, and only the new entry may remain in the cache (live-clone count of the endpoint type); also after the wait a plain request without block options on a new key (ordinary traffic must reclaim expired state too); under the short duration only the exchange after the wait is observed, so scheduling delays cannot raise an alarm; per-key expiry under traffic: duration 300 ms, the judged key left idle across four naps of 100 ms while two other keys send Block1 blocks (or plain requests) after every nap, then the follow-up, which must be handled as fresh (only that exchange is observed, without the entry count, so a nap that takes longer cannot raise an alarm); class 1 retention / 2 expiry / 3 per-key expiry under traffic; distinct = distinct input Also: the same endpoint and path with another method in between (answered 2.01 / 2.02 / 2.04 / 2.05, or itself a Block1 block 0)."),
        level_text=("Theorems on the expiring-map model with time as a parameter: C20_state_handed (a use of key k is handed the stored state while not expired and the default state afterwards), C20_retained_across_other_keys (any number of uses of other keys never changes what k will see), "
                    "C20_retained_until_expiry (exact boundary: seen up to and including last use + ttl, never after), C20_reclaimed (after any use every entry physically present has t + ttl >= now) with C20_time_order_invariant and C20_keys_unique as the invariants it needs."),
        level_note=COMMON_BLOCK_NOTE + " The real clock (Instant monotonicity, sleep granularity) and lru_time_cache's internal consistency between its map and its list are assumed; the model merges them into one time-ordered list.",
        modelled="src/block_handler/mod.rs BlockHandler::new, states.entry().or_insert(); lru_time_cache 0.11.11 entry, do_peek, remove_expired, do_notify_insert",
    ),
    "C16": dict(
        suites=[160],
        design_ref="DESIGN.md section 5, C16",
        rule=("suite 160: documents -> LinkFormatWrite into a String -> LinkFormatParser / LinkAttributeParser / Unquote (to_string and to_cow); values exhaustively up to length 3 (thorough 4) over the 11-symbol alphabet {< > ; , quote backslash = space a two-byte-char newline} "
              "through attr() and attr_quoted(), each in a two-link document with an integer attribute, newline option on and off; random documents of 0..4 links x 0..4 attributes with targets/keys/values over structural characters, 3- and 4-byte code points, Unicode white space, values to length 40, "
              "attr_u32 / attr_u16 at boundaries; verdict: parsed targets, keys and unquoted values (both unquoting paths) equal the document given; class by document shape; non-trivial = document in the property's domain (target without '>', key free of separators); distinct = distinct input Also: registered attribute names (rel, rt, if, anchor, title) repeated within a link; values with '=', CR LF + blank, every Unicode White_Space code point and its neighbours."),
        level_text=("Theorem C16_roundtrip: for every document in the domain, of any size, with or without newlines, parse_content (what the writer sends to a fault-free sink) = the links, keys and original value texts, in order -- proved by induction over links and attributes from scanner lemmas "
                    "(a quoted, escaped value is walked over by both scanners whatever it contains; separators only occur outside quotes; trimming removes exactly the separators; the unquoting iterator inverts the escaping). C16_attr_auto_wf: attr() always picks a form the theorem covers. C16_integer_text / C16_integer_in_domain: the decimal text attr_u32 / attr_u16 write for every integer below 10^40 is a non-empty digit string without a leading zero that denotes the integer, and is inside the round-trip domain."),
        level_note=("Hand-written models of the writer and the three parsing iterators tied to the Rust by differential execution (dev and release; dev also exercises the writer's debug_assert on keys). core::fmt's one-write_str-per-write behaviour is an assumption checked by the fault-free runs of suite 180."),
        modelled="src/link_format.rs LinkFormatWrite, LinkAttributeWrite, LinkFormatParser, LinkAttributeParser, Unquote",
    ),
    "C17": dict(
        suites=[170],
        design_ref="DESIGN.md section 5, C17",
        rule=("suite 170: arbitrary strings -> all three iterators driven to the end, every slice with its offset (pointer difference against the input; LinkAttributeParser's remaining string through the cfg(coap_lite_verif) hook), Unquote::to_string and Unquote::to_cow (panic captured) for every value; "
              "all strings of length <= 5 (thorough 7) over the property's 10-symbol alphabet, 30000 (thorough 500000) random strings to length 24 over a wider alphabet incl. 4-byte code points and Unicode white space, every prefix of 300 (thorough 5000) well-formed documents; "
              "verdict on the observed items alone: every slice is the input's content at its offset, slices are ordered and disjoint, an error is the last item, to_cow = to_string, no panic; class 1 without / 2 with a quote character; distinct = distinct input Also: values with CR LF followed by a blank or tab inside quotes; every Unicode White_Space code point and its neighbours."),
        level_text=("Theorems for every string: C17_link_progress / C17_attr_progress (each yielded item strictly shortens the remaining input: termination), C17_link_substrings / C17_attr_substrings (s = x ++ link ++ y ++ attrs ++ z ++ rest with exactly the reported offsets: substrings, left to right, disjoint), "
                    "C17_error_is_last (after an error nothing is yielded), C17_cow_eq (to_cow v = Ok (to_string v) for every value, including unterminated quoted strings and text after the closing quote; in particular it never panics)."),
        level_note=("Hand-written model tied to the Rust by differential execution with panic capture (dev and release). The scanners are total structural recursions in the model; byte-level slicing (char boundaries) exists only in the Rust and is covered by comparing every slice and offset on ~1.5*10^5 strings per build."),
        modelled="src/link_format.rs LinkFormatParser::next, LinkAttributeParser::next, Unquote (Iterator, to_cow, is_quoted)",
    ),
    "C18": dict(
        suites=[180],
        design_ref="DESIGN.md section 5, C18",
        rule=("suite 180: for each of 250 (thorough 3000) random documents x newline option on/off: EVERY write-call index k from 0 to the fault-free call count x {only call k fails, call k and all later fail}, enumerated completely per document, through a fault-injecting fmt::Write sink; "
              "compared: final result, number of calls, the chunks the sink accepted (the fault-free run is itself compared with the model's chunk list: one write_str per write); class 1 fail-once / 2 fail-persistently / 3 fault-free; distinct = distinct input Also: three caller styles per fault position (every link closed with finish(); per-link writers dropped; set_add_newlines repeated before every link and before the final finish())."),
        level_text=("Theorem C18_fault: for every document, newline option and every fault schedule (an arbitrary function of the call index: once, persistently, intermittently), if call k is the first to fail the writer's result is an error, exactly k+1 calls were issued and the sink holds exactly the first k chunks of the fault-free output; "
                    "if no call fails the result is success and the output complete (C18_no_fault). By induction over the document with the invariant 'error set => no further call'."),
        level_note="Hand-written model of the writer's guarded writes tied to the Rust by complete per-document fault enumeration (dev and release).",
        modelled="src/link_format.rs LinkFormatWrite::{link, finish}, LinkAttributeWrite::{attr, attr_quoted, attr_u32, attr_u16, finish}",
    ),
    "C14": dict(
        suites=[140],
        design_ref="DESIGN.md section 5, C14",
        rule=("suite 140: operation histories on a Subject, compared on FULL state after every operation (endpoint, token, order, sequence, and -- through the cfg(coap_lite_verif) read-only hooks -- unacknowledged count and pending id): "
              "all sequences of depth 3 (thorough 4) over the alphabet 2 endpoints x 2 tokens x 2 paths (a, a/b) x 2 ids x {CON,NON} x limits {0,1,2} (39 operations), all continuations of depth 2 (thorough 3) after 12 (thorough 60) random prefixes of length 2..6, "
              "300 (thorough 3000) random histories of length 200 over up to 5 endpoints and 4 paths, directed long histories (limit, limit+1, limit+2, 600 rounds) at limits 0, 1, 10, 254, 255 with and without acknowledgements, and the end of the sequence range (hook); "
              "verdict = equality with an independently structured relational reference registry (Suite14.rstep) at every step; class 1 no round / 2 rounds / 3 rounds and acks; distinct = distinct input Also: keys with a leading empty segment next to their slash-less twins (t, /t, t/, //t); an endpoint type whose Display is not injective (1 and 257 print alike); acknowledgements that carry an arbitrary Uri-Path."),
        level_text=("Theorems over all histories (induction on the operation list): C14_invariant (every reachable state lists each endpoint at most once per resource), C14_register with C14_register_known_endpoint / C14_register_new_endpoint "
                    "(re-registration replaces in place: same position, new token, counters cleared; a new endpoint is appended last; other resources untouched), C14_deregister with C14_deregister_exact (given the invariant, exactly the observer whose endpoint and token both match is removed), "
                    "C14_changed_unobserved (a round on an unobserved path is the identity), C14_model_refines_reference (a refinement proof: on every history inside the domain the states the model prints after each operation are exactly those of the relational reference the oracle uses -- "
                    "rows (path, endpoint, token, count, pending, arrival stamp) plus a sequence table; the relation keeps the rows in stamp order and each resource's observer list equal to the rows on its path) and C14_model_passes_oracle (hence the model satisfies the suite-140 oracle on EVERY input outside the known-finding class)."),
        level_note=("Hand-written model of observe.rs tied to the Rust by differential execution of ~4*10^4 histories per build with full-state comparison after every step (dev and release). The relational reference is an independently structured second specification: the model is proved to refine it (C14_model_refines_reference) and the implementation is compared with both on every case."),
        modelled="src/observe.rs Subject::{register, deregister, resource_changed, acknowledge, set_unacknowledged_limit, get_resource, get_resource_observers}",
    ),
    "C15": dict(
        suites=[140, 150],
        design_ref="DESIGN.md section 5, C15",
        rule=("suite 140 as for C14 (the directed long histories at limits 10, 254, 255 and the exhaustive small-alphabet histories at limits 0, 1, 2 decide the counting clauses); suite 150: create_notification over token length 0..8 x 14 boundary sequences (0, 255, 256, 65535, 65536, 2^24-1, 2^24, 2^32-1, ...) x both types x 9 message ids, plus random, "
              "each also encoded and decoded back to the same sequence; class by suite; distinct = distinct input Also: keys with a leading empty segment, endpoints that print alike, acknowledgements carrying a path (as for C14)."),
        level_text=("Theorems: C15_round (a round on an observed resource adds exactly one to the sequence, stamps every observer with the message id, counts only confirmable rounds, and keeps exactly the observers whose count is <= the limit), "
                    "C15_ack / C15_ack_exact (only the observer with the acknowledging endpoint, only when its pending id matches, is reset), C15_count_bounded and C15_no_counter_overflow (for every history with limits 0..255, of any length, the counter stays <= 255 between rounds, "
                    "its increment never overflows, and the only reachable panic is site 40), C15_notification (create_notification is exactly version 1, CON/NON, 2.05, the given id, token, payload and Observe = minimal uint of the sequence). "
                    "C15_projection / C15_projection_run (projected on one (endpoint, path) pair the registry is a four-field automaton -- absent, or token, confirmable notifications since the last acknowledgement or registration, pending id -- for every reachable state and every history: "
                    "the observer is dropped exactly when that count exceeds the limit, non-confirmable rounds never count, only a matching acknowledgement from the same endpoint resets it). "
                    "C15_model_passes_oracle150 / C15_model_passes_oracle140 (the model satisfies both run-time oracles on every input: the literal expected notification, and the relational reference in which a row's count is by construction the number of confirmable rounds since its registration or last matching acknowledgement). "
                    "Known finding KF_seq_wrap (C15_KF_seq_wrap_refuted): the u32 sequence cannot increase past 2^32-1."),
        level_note=("Model tied by differential execution with full-state comparison (hooks). 'Dropped exactly when the count of confirmable notifications since the last acknowledgement or registration exceeds the limit' is proved per round on the counter (C15_round), as a per-pair automaton over whole histories (C15_projection_run), and checked against the history-based relational reference at run time."),
        modelled="src/observe.rs resource_changed, acknowledge, create_notification; src/packet.rs set_observe_value",
    ),
    "C19": dict(
        suites=[190],
        design_ref="DESIGN.md section 5, C19",
        rule=("suite 190: kinds 0-3 set/get_method and set/get_status for all 8 / 28 named values and on raw states with every one of the 256 code bytes plus the UnKnown and Reserved(named byte) forms; kind 4 set_path with every string of length <= 5 (thorough 6) over {'/', 'a', '.', two-byte char} "
              "on fresh and random packets plus random strings incl. 3- and 4-byte code points; kind 5 get_path / get_path_as_vec on raw Uri-Path values incl. invalid UTF-8; kinds 6-7 observe flag set and raw Observe bytes of length 0..6; kind 8 set_content_format for all 60 formats on random states "
              "(set twice, set after raw add); kinds 9-11 set_from_message and the readable view through coap-message 0.2 and 0.3 on random messages; verdict computed on the raw state only; class = kind; non-trivial = in domain; distinct = distinct input Also: '%', hex digits, '+', '&', '=' in paths; (for kinds 9/10 destinations that already hold options above and below the source's)."),
        level_text=("Theorems for all packet states: C19_method / C19_status (getter after setter returns the value for all 8 / 28 variants, nothing else changes), C19_method_of_code / C19_status_of_code (what the getters read for each of the 256 code bytes), "
                    "C19_path (raw Uri-Path values = segments, get_path = the string minus one leading slash, get_path_as_vec = the segments, other options untouched) with the inductive lemma C19_path_join, C19_observe_flag / C19_observe_flag_raw, "
                    "C19_content_format (set_content_format then get_content_format returns the format whatever was there before; raw option 12 = [minimal uint]), C19_copy (set_from_message into a fresh packet preserves code byte, flattened options in ascending order, payload), C19_valid_string_segments / C19_path_valid_string (every valid UTF-8 string has valid segments -- byte 47 never occurs inside a multi-byte sequence --, so the path round trip holds for EVERY valid string), C19_model_passes_oracle_* for every kind of suite 190 (method / status, set_path, path getters, observe flag set / get, content format, set_from_message of coap-message 0.2 and 0.3 into any destination, the read views): the model satisfies the oracle on every input."),
        level_note=("Hand-written models of the accessors and trait impls tied to the Rust by differential execution (dev and release). "
                    "The option-flattening iterator of the trait impls is modelled as flatten; its loop is covered by the differential run only."),
        modelled="src/request.rs get/set_method, set_path, get_path, get_path_as_vec, get/set_observe_flag; src/response.rs get/set_status; src/packet.rs set/get_content_format; src/impl_coap_message.rs, src/impl_coap_message_0_3.rs (ReadableMessage, MinimalWritableMessage incl. provided set_from_message)",
    ),
    "C13": dict(
        suites=[130],
        design_ref="DESIGN.md section 5, C13",
        rule=("suite 130: kind 0 encode+decode+size over num 0..65535 x more x szx 0..7 (thorough: all 1048576 triples; quick: all triples for szx 0 and 7, num < 300, powers of two and their predecessors, every 17th num otherwise), "
              "kind 1 decode over all byte strings of length <= 2, a 13x13x52 (thorough: complete) grid of length 3 and random strings of length 4..5, kind 2 BlockValue::new over num in {0..4097 strided, 4095..4097, 65535..65537, 2^32, usize::MAX} x sizes 0..8200 and 2^k-1, 2^k, 2^k+1 up to usize::MAX; "
              "verdict from the RFC 7959 formula only; class = kind; non-trivial = in range; distinct = distinct input Also: numbers k*2^28+r and sizes k*2^32+r (small again after a narrowing cast or a shift that loses high bits)."),
        level_text=("Theorems for all values: C13_roundtrip (every num < 65536, more, szx < 8: the encoding is the minimal uint NUM<<4|M<<3|SZX, decoding it returns the triple, size = 2^(szx+4)), C13_decode_total (every byte string: error iff longer than 3 bytes or NUM > 65535, "
                    "otherwise the fields of its big-endian value), C13_new (every usize num and size: error iff size = 0, size >= 4096 or num >= 65536, otherwise exponent log2(size)-4 saturated at 0, with the 0..63 search loop proved equal to log2), C13_new_size (largest power of two not above the size, at least 16), C13_model_passes_oracle (the model satisfies the suite's independent RFC 7959 2.2 specification spec130 on EVERY input, all three entry points)."),
        level_note="Hand-written model of block_value.rs tied to the Rust by differential execution (dev and release), close to exhaustive in the thorough tier.",
        modelled="src/block_handler/block_value.rs (BlockValue::new, largest_power_of_2_not_in_excess, size, From<BlockValue> for Vec<u8>, TryFrom<Vec<u8>>)",
    ),
    "C06": dict(
        suites=[60],
        design_ref="DESIGN.md section 5, C06",
        rule=("suite 60: kind 0 encode (exhaustive u8 and u16, every 2^k and its neighbours for u32/u64, random), kind 1 decode (all byte strings of length <= 2 -- thorough <= 3 -- per width, strings of length 0..10 with 0..l leading zeros), "
              "kind 2 text (valid strings, overlong / surrogate / > U+10FFFF / truncated sequences with prefixes and suffixes, all 1- and many 2..4-byte sequences, mutated random strings), kinds 3-6 typed accessors on random packet states "
              "(add_option_as / set_options_as per width and for strings, set_observe_value, get_observe_value and get_content_format on raw states); verdict computed from be_min / be_value only; non-trivial = in the accessor's domain; class = kind; distinct = distinct input Also: uint strings of 65535..131073 bytes per width; valid strings around U+FFFD / U+FFFC / U+FFFE / U+FEFF."),
        level_text=("Theorems for every value and width, no bound: C06_encode_minimal (the drain loop with its assert yields be_min v for v < 256^w), C06_min_value / C06_min_no_leading_zero / C06_min_length (be_min is the shortest big-endian form; zero is empty), "
                    "C06_decode (any string up to the width decodes to its big-endian value, longer ones are rejected; the 64-bit shift-and-add loses nothing and the final cast is exact), C06_roundtrip, C06_add_option_as and C06_observe_value "
                    "(typed setters store exactly these encodings and touch nothing else; typed getters read them back). By induction on the value / the byte string. C06_model_passes_oracle: the model satisfies the suite-60 oracle on EVERY input (codec, lists of typed values added to / set on any raw packet state, set_observe_value, set_content_format, the typed getters)."),
        level_note=("Hand-written models of option_value.rs and the typed accessors tied to the Rust by differential execution (~2*10^5 cases, dev and release). C06_string is true by definition of the UTF-8 validity model (Utf8.v, Unicode table 3-7); "
                    "that model is tied to String::from_utf8 by the differential run only."),
        modelled="src/option_value.rs (option_from_uint, option_to_uint, OptionValueU8/16/32/64, OptionValueString); src/packet.rs add_option_as, set_options_as, get_options_as, get_first_option_as, set/get_observe_value, get_content_format",
    ),
    "C05": dict(
        suites=[50],
        design_ref="DESIGN.md section 5, C05",
        exhaustive=True,
        rule=("suite 50, exhaustive: every 16-bit option number and content-format id (plus ids 65536, 2^32, 2^63, usize::MAX) through From/TryFrom both ways, every named option / content format / request type / response type through "
              "name->number->name, all 256 code bytes through From<u8>, Into<u8>, Display, Header::set_code/get_code and the packet codec, the UnKnown/Reserved(b) forms, all 256 first header bytes x 4 set_type and x 256 set_version, "
              "is_error for all 28 ResponseType values, CoapResponse::get_status and CoapRequest::get_method for all 256 code bytes, the UnKnown forms and every Reserved(b), observe values 0..299; verdict computed from Registry.v only; class = kind of conversion; non-trivial = inside the finite domain; distinct = distinct input"),
        level_text=("Finite domains decided completely inside Coq (forallb over the whole range by vm_compute, lifted with forallb_forall; every statement carries its bound): the crate's tables equal the independently transcribed IANA/RFC "
                    "registries for all 65536 option numbers and content-format ids, all 256 codes, 4 types, observe values; number->name->number and name->number->name are identities; unassigned numbers map to Unknown/None/Reserved; "
                    "the dotted code text prints and parses back for all 256 codes; is_error s <-> byte >= 0x80; header getters/setters touch exactly their bit field. C05_model_passes_oracle: the model meets the registry-only oracle on the whole domain."),
        level_note=("The model tables (Numbers.v, Header.v) are tied to the compiled crate by running every one of the ~4*10^5 conversions through the implementation on each run (complete enumeration, dev and release), so for this property the tie is as strong as a translation. "
                    "Registry.v is the author's transcription of the IANA registries. Content-format ids above 65535 are sampled, not proved."),
        modelled="src/packet.rs:51-348 (CoapOption, ContentFormat, ObserveOption conversions); src/header.rs MessageClass/RequestType/ResponseType/MessageType tables, Display, set_code, is_error, bit-field accessors",
    ),
    "C01": dict(
        suites=[10],
        features=[()], features_thorough=[(), ("udp",), ("nostd",)],
        design_ref="DESIGN.md section 5, C01",
        rule=("suite 10: public-API call sequences (set_version/type/code/message_id/token/payload, add/set/clear/clear_all option) -> packet state, "
              "to_bytes_unlimited bytes, from_bytes of those bytes; enumerated: 14 first option numbers x 9 value lengths, number x gap pairs in both call orders "
              "(gaps 0,1,12,13,14,255..257,268..270,1000,65000), value lengths up to 65804, the 4x4x9x8 version/type/token-length/code grid, all 120 orders of a "
              "five-setter script, strided (thorough: every) 16-bit first option number, plus random call sequences over colliding keys with clears and re-adds; "
              "non-trivial = well-formed call sequence (ops_wf); class by the widest option field: 1 no options / 2 short / 3 one-byte extension / 4 two-byte extension; distinct = distinct canonical input Also: every bit pattern of the one- and two-byte extension fields as value length and number gap; a third of the add_option calls go through the coap-message 0.2 / 0.3 traits; to_bytes() is compared with to_bytes_unlimited() (same bytes up to MAX_SIZE, an error above); options-only messages of exactly MAX_SIZE-1..MAX_SIZE+1 bytes; Reserved(b) and UnKnown class forms among the codes."),
        level_text=("Theorems over all packet states and all call sequences (no size bound): C01_encode_is_wire_image (to_bytes of every well-formed state is exactly the RFC 7252 section 3 image "
                    "of the message it denotes), C01_decode_inverts_wire_image (from_bytes inverts the image of every abstract message: versions 0-3, token 0-8, any ascending options up to 65804-byte values, payload), "
                    "C01_roundtrip, C01_api_states_wf / C01_api_roundtrip (every sequence of public API calls, in any order, builds such a state and round-trips), C01_api_denotes_spec (that state denotes exactly the last-writer-wins reading of the call sequence: header fields by their last setter, options as the insertion-ordered multiset with set_option replacing and clear_option removing, stably sorted by number). "
                    "The 13/269/65535 thresholds are case splits closed by lia; the index-based decoder is connected through a proved refinement to a suffix parser."),
        level_note=("The Gallina models of to_bytes_internal/from_bytes/the option API are hand-written; faithfulness is checked each run by differential execution (dev and release builds; udp and no-default-features in the thorough tier). "
                    "The last-writer-wins specification (spec_run) is both proved equal to the model (C01_api_denotes_spec) and evaluated by the run-time oracle against the implementation on every case; C01_model_passes_oracle proves that the model satisfies that oracle on every input the suite's reader produces."),
        modelled="src/packet.rs Packet::{new,set_token,add_option,set_option,clear_option,clear_all_options,to_bytes_internal,from_bytes}; src/header.rs bit-field setters, MessageClass<->u8",
    ),
    "C02": dict(
        suites=[20],
        design_ref="DESIGN.md section 5, C02",
        rule=("suite 20: byte strings -> from_bytes -> to_bytes_unlimited; enumerated: all strings of <= 2 bytes (+ third byte) alone and after each of 3 (thorough 12) headers, every first byte x token shortfalls, "
              "every option header byte x every one-byte extension x boundary two-byte extensions x exact/short value, cumulative numbers around 65535, every prefix and 10 single-byte corruptions per position of "
              "generated well-formed messages, biased random strings, values of 65535..65804 bytes; non-trivial = all cases, class 1 must-accept / 2 either / 3 must-reject per the reference parser; distinct = distinct input Also: the extension fields' bit patterns complete and cut one byte short; == / != on every parsed packet against three near copies (an extra option, one option number fewer, one payload byte more)."),
        level_text=("Theorem C02_decode_then_encode: for every byte string and every decoder policy, if from_bytes accepts then to_bytes_unlimited of the result succeeds and equals the input up to exactly the permitted "
                    "differences (trailing marker, content of a 0.00 message), stated as the boolean canonb which the run-time oracle also evaluates on implementation output; C02_injective as corollary. Unbounded: induction over the option list."),
        level_note="Hand-written models of from_bytes / to_bytes_internal tied to the Rust by differential execution on ~4*10^5 strings per build (dev and release). C02_model_passes_oracle: the model satisfies the suite's oracle on every byte string and policy.",
        modelled="src/packet.rs Packet::from_bytes, to_bytes_internal; src/header.rs MessageClass<->u8",
    ),
    "C03": dict(
        suites=[30],
        design_ref="DESIGN.md section 5, C03",
        rule=("suite 30: same generator as suite 20; verdict = agreement with the three-valued reference parser of WireSpec.v (must-accept with fields / either / must-reject) and no panic; "
              "non-trivial = all cases, classes 1/2/3 = must-accept / either / must-reject; distinct = distinct input Also: the extension fields' bit patterns (every bit of the two-byte fields, all 256 one-byte values) complete and cut one byte short."),
        level_text=("Theorem C03_matches_reference: for every byte string and policy the index-based decoder model (each buf[i], slice and typed addition a potential Panic) returns Ok with exactly the grammar's fields on "
                    "must-accept inputs, Err on must-reject inputs, and Ok-or-(strict-policy)-Err on the 'either' inputs; C03_total (never Panic) follows. The reference parser is itself proved to accept every wire image "
                    "(C03_reference_accepts_wire_image, C03_accepts) and only wire images (C03_reference_accepts_only_wire_images). The reject classes of the property text one by one, for every policy: C03_rejects_short, C03_rejects_token_length, C03_rejects_truncated_token, "
                    "C03_rejects_bad_option (after ANY valid option prefix a header byte from which no option can be read) with C03_bad_option_classes (such a byte is exactly: nibble 15 in delta or length, truncated extended delta / length, option number above 65535, truncated value) and the six C03_class_* converses; C03_model_passes_oracle (the model satisfies the suite-30 oracle on every byte string and policy)."),
        level_note=("Hand-written decoder model tied to the Rust by differential execution (dev with overflow checks, release without) with panic capture; Stack exhaustion / allocation failure are outside the model."),
        modelled="src/packet.rs Packet::from_bytes; src/header.rs HeaderRaw::try_from, get_token_length",
    ),
    "C04": dict(
        suites=[40],
        features=[(), ("udp",)], features_thorough=[(), ("udp",)],
        translator="unsafe_sites.py",
        design_ref="DESIGN.md section 5, C04",
        rule=("suite 40: (message, entry point, limit) triples; messages constructed to land on limit-2..limit+2 via payload, via option bytes and via both, limits {0,3,4,5,6,17,64,255,256,1279,1280,1281,64000,64001,random}, "
              "default entry point around MAX_SIZE (read from the build: 1280 / 64000 with udp) for every token length, 0.00 messages with unsent payloads, option values of 65803..131342 bytes, 160 packets whose header token-length nibble differs from the token's length (outside the exact-length clause; they exercise the copies), random messages x random limits; "
              "classes 0 inconsistent header (only 'no crash' and agreement with the model) / 1 fits / 2 exactly at limit / 3 one over / 4 further over / 5 unlimited / 6 over-long value; non-trivial = API-buildable state; distinct = distinct input Also: an option number left with an empty value list as highest key at limit-1..limit+1 and at MAX_SIZE; MessageClass::Reserved(0) with a payload around the limit."),
        level_text=("Theorem C04_limit_exact: for every well-formed state and every limit, to_bytes_internal returns the wire image iff wire_len <= limit and InvalidPacketLength otherwise; C04_length: the image has exactly wire_len bytes "
                    "(4 + token + options + marker/payload when sent); C04_oversize_value_refused; C04_no_panic; C04_model_passes_oracle (the model satisfies the suite-40 oracle for every packet state with an ordered option map -- values of any length --, entry point and limit). Unbounded over messages and limits. "
                    "Memory clause: C04_unsafe_sites_in_bounds -- the three unsafe blocks of to_bytes_internal are re-extracted from /repo/src/packet.rs on every run (tools/unsafe_sites.py -> coq/gen/UnsafeSites.v: reserve amount, ptr::copy offsets and lengths, set_len, as sums of length symbols) "
                    "and proved, for ALL lengths, to copy only inside the reserved capacity and the source and to expose only initialised bytes."),
        level_note=("Model tied by differential execution on default and udp builds, dev and release. The memory clause is proved about the index arithmetic as written in the source (the translator and Rust's documented Vec::reserve / set_len / ptr::copy contracts are trusted); "
                    "that the compiled binary performs no out-of-bounds write is a runtime fact outside any Coq model (DESIGN.md section 7)."),
        modelled="src/packet.rs Packet::to_bytes, to_bytes_with_limit, to_bytes_unlimited, to_bytes_internal",
    ),
    "C07": dict(
        suites=[70],
        design_ref="DESIGN.md section 5, C07",
        rule=("suite 70: the 4 versions x 4 types x token length 0..15 grid x 9 boundary message ids, every HandlingError code x type, "
              "every 16-bit message id (x all 16 version/type pairs in the thorough tier), random code/options/payload/diagnostic text; "
              "non-trivial = request the API can build (token < 16 bytes), class 1 no response prepared / 2 response, error not applicable / 3 response and error applied; "
              "distinct = distinct canonical input Also: No-Response (258) with twelve interest masks on all four message types; in every fourth case the prepared reply is turned into a separate response (Confirmable, own id, an ETag) before apply_from_error, which must leave all of that alone."),
        exhaustive=False,
        level_text=("Theorems C07_new / C07_new_fields / C07_new_none / C07_from_packet / C07_apply_error hold for every request packet "
                    "(any header byte, code, id, token < 16 bytes, options, payload) and every HandlingError, by unfolding and bit-field arithmetic; "
                    "C07_model_passes_oracle ties them to the run-time oracle. The model is tied to the Rust by executing both on the full version x type x token-length grid and every message id."),
        level_note=("Assumes the hand-written model of response.rs/request.rs is faithful (checked by the correspondence on ~70k cases per build, dev and release); "
                    "encoded reply bytes are covered by C01's codec theorems, not here."),
        modelled="src/response.rs CoapResponse::new; src/request.rs from_packet, apply_from_error; header bit-field setters; Packet::set_token/add_option/clear_option/set_content_format",
    ),
}

# properties not yet claimed (being built); kept current with MANIFEST.not_applicable
NOT_APPLICABLE = {
}
HOOK_COMMITS = ['7164e5e8df8d0defeab34a514c409639480fbb24', 'd43d2bd524872a400aac9458e0598397ea43fdaa', 'd25ab05b2d89767c2eabe189d6733ff858b6e32b']

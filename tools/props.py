"""Per-property configuration of the checks: which correspondence suites decide
the tie, what the evidence says about them.  Suite ids are property*10 + k."""

TRUSTED_COMMON = [
    "Coq 8.16.1 kernel (coqc, including the vm_compute bytecode machine; native_compute is not used)",
    "axioms: none -- every property theorem prints 'Closed under the global context' (parsed on every run)",
    "hand-written Gallina model of the Rust source, tied to /repo by differential execution on generated cases (tools/checklib.py, harness/, ocaml/driver.ml)",
    "extraction: ExtrOcamlBasic only (Extract Inductive bool/option/unit/list/prod/sumbool/sumor/comparison); no Extract Constant; N/positive/nat kept; cross-checked against vm_compute on a prefix of the cases each run",
    "Rust harness generators/printers and cargo linking /repo's current working tree; rustc 1.95.0 x86-64",
]

PROPS = {
    "C07": dict(
        suites=[70],
        design_ref="DESIGN.md section 5, C07",
        rule=("suite 70: the 4 versions x 4 types x token length 0..15 grid x 9 boundary message ids, every HandlingError code x type, "
              "every 16-bit message id (x all 16 version/type pairs in the thorough tier), random code/options/payload/diagnostic text; "
              "non-trivial = request the API can build (token < 16 bytes), class 1 no response prepared / 2 response, error not applicable / 3 response and error applied; "
              "distinct = distinct canonical input"),
        exhaustive=False,
        level_text=("Theorems C07_new / C07_new_fields / C07_new_none / C07_from_packet / C07_apply_error hold for every request packet "
                    "(any header byte, code, id, token < 16 bytes, options, payload) and every HandlingError, by unfolding and bit-field arithmetic; "
                    "C07_model_passes_oracle ties them to the run-time oracle. The model is tied to the Rust by executing both on the full version x type x token-length grid and every message id."),
        level_note=("Assumes the hand-written model of response.rs/request.rs is faithful (checked by the correspondence on ~70k cases per build, dev and release); "
                    "encoded reply bytes are covered by C01's codec theorems, not here."),
        modelled="src/response.rs CoapResponse::new; src/request.rs from_packet, apply_from_error; header bit-field setters; Packet::set_token/add_option/clear_option/set_content_format",
    ),
}

# properties not yet claimed (being built); kept current with MANIFEST.not_applicable
NOT_APPLICABLE = {
    "C01": "check under construction in this development (model and theorems not yet committed)",
    "C02": "check under construction in this development (model and theorems not yet committed)",
    "C03": "check under construction in this development (model and theorems not yet committed)",
    "C04": "check under construction in this development (model and theorems not yet committed)",
    "C05": "check under construction in this development (model and theorems not yet committed)",
    "C06": "check under construction in this development (model and theorems not yet committed)",
    "C08": "check under construction in this development (model and theorems not yet committed)",
    "C09": "check under construction in this development (model and theorems not yet committed)",
    "C10": "check under construction in this development (model and theorems not yet committed)",
    "C11": "check under construction in this development (model and theorems not yet committed)",
    "C12": "check under construction in this development (model and theorems not yet committed)",
    "C13": "check under construction in this development (model and theorems not yet committed)",
    "C14": "check under construction in this development (model and theorems not yet committed)",
    "C15": "check under construction in this development (model and theorems not yet committed)",
    "C16": "check under construction in this development (model and theorems not yet committed)",
    "C17": "check under construction in this development (model and theorems not yet committed)",
    "C18": "check under construction in this development (model and theorems not yet committed)",
    "C19": "check under construction in this development (model and theorems not yet committed)",
    "C20": "check under construction in this development (model and theorems not yet committed)",
}
HOOK_COMMITS = []

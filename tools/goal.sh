#!/bin/bash
# usage: tools/goal.sh proofs/P16.v <line>   -- show the goal just before <line>
cd /verif/coq
head -$(($2 - 1)) $1 > /tmp/dbg_goal.v
echo "Show. Admitted." >> /tmp/dbg_goal.v
timeout 120 coqc -Q . CoapV /tmp/dbg_goal.v 2>&1 | grep -v "^Closed under\|^WARNING" | tail -${3:-30}
